(* Lookup arguments between trace components (C12): what "requests and responses balance" means
   for a running-product bus, for a LogUp running sum and for a virtual table, and why balance
   gives the specified terminal value of the auxiliary column for EVERY challenge. *)
From Coq Require Import ZArith List Bool Arith Lia Permutation.
From MV Require Import Base.Field.
Import ListNotations.
Open Scope Z_scope.

(* a row of a bus is a tuple of field elements; it is compressed with the challenges *)
Definition row := list Z.

Fixpoint combine_row (alphas : list Z) (r : row) : Z :=
  match alphas, r with
  | a :: al, x :: rl => fadd (fmul a x) (combine_row al rl)
  | _, _ => 0
  end.
(* alpha_0 + sum alpha_{i+1} * r_i *)
Definition encode (alphas : list Z) (r : row) : Z :=
  match alphas with
  | a0 :: al => fadd a0 (combine_row al r)
  | [] => 0
  end.

Definition fprod (l : list Z) : Z := fold_right fmul 1 l.
Definition fsum (l : list Z) : Z := fold_right fadd 0 l.

Lemma fmul_comm a b : fmul a b = fmul b a.
Proof. unfold fmul. rewrite Z.mul_comm. reflexivity. Qed.
Lemma fmul_assoc a b c : fmul a (fmul b c) = fmul (fmul a b) c.
Proof. unfold fmul. rewrite Zmult_mod_idemp_r, Zmult_mod_idemp_l, Z.mul_assoc. reflexivity. Qed.
Lemma fadd_comm a b : fadd a b = fadd b a.
Proof. unfold fadd. rewrite Z.add_comm. reflexivity. Qed.
Lemma fadd_assoc a b c : fadd a (fadd b c) = fadd (fadd a b) c.
Proof. unfold fadd. rewrite Zplus_mod_idemp_r, Zplus_mod_idemp_l, Z.add_assoc. reflexivity. Qed.

Lemma fprod_perm l1 l2 : Permutation l1 l2 -> fprod l1 = fprod l2.
Proof.
  induction 1 as [|x l l' _ IH|x y l|l1 l2 l3 _ IH1 _ IH2]; cbn [fprod fold_right] in *.
  - reflexivity.
  - fold (fprod l) (fprod l'). rewrite IH. reflexivity.
  - fold (fprod l). rewrite !fmul_assoc, (fmul_comm y x). reflexivity.
  - congruence.
Qed.

Lemma fsum_perm l1 l2 : Permutation l1 l2 -> fsum l1 = fsum l2.
Proof.
  induction 1 as [|x l l' _ IH|x y l|l1 l2 l3 _ IH1 _ IH2]; cbn [fsum fold_right] in *.
  - reflexivity.
  - fold (fsum l) (fsum l'). rewrite IH. reflexivity.
  - fold (fsum l). rewrite !fadd_assoc, (fadd_comm y x). reflexivity.
  - congruence.
Qed.

(* ---- running-product bus: balance gives equal products, whatever the challenges --------------- *)
Theorem bus_balanced : forall alphas (requests responses : list row),
  Permutation requests responses ->
  fprod (map (encode alphas) requests) = fprod (map (encode alphas) responses).
Proof. intros alphas rq rs H. apply fprod_perm. apply Permutation_map. exact H. Qed.

(* the column b is multiplied by the responses and divided by the requests of each row; with
   q = product of all requests and s = product of all responses its last value v satisfies
   v * q = b0 * s; so a balanced bus with q invertible ends where it started *)
Theorem bus_terminal : forall alphas requests responses b0 v,
  Permutation requests responses ->
  fmul v (fprod (map (encode alphas) requests)) = fmul b0 (fprod (map (encode alphas) responses)) ->
  forall qinv, fmul (fprod (map (encode alphas) requests)) qinv = 1 ->
  fmul v 1 = fmul b0 1.
Proof.
  intros alphas rq rs b0 v HP Hv qinv Hq.
  rewrite <- (bus_balanced alphas rq rs HP) in Hv.
  rewrite <- Hq. rewrite !fmul_assoc. rewrite Hv. reflexivity.
Qed.

(* ---- LogUp (range checker): sum of multiplicity / (alpha - value) ------------------------------- *)
Theorem logup_balanced : forall (term : Z -> Z) (lookups table : list Z),
  Permutation lookups table -> fsum (map term lookups) = fsum (map term table).
Proof. intros term a b H. apply fsum_perm. apply Permutation_map. exact H. Qed.

(* ---- virtual tables: rows are added and later removed -------------------------------------------- *)
Inductive event : Type := Add (r : row) | Remove (r : row).

Definition row_eqb (a b : row) : bool :=
  (Nat.eqb (length a) (length b)) && forallb (fun p => fst p =? snd p) (combine a b).

Lemma row_eqb_eq a : forall b, row_eqb a b = true -> a = b.
Proof.
  unfold row_eqb. induction a as [|x a IH]; intros [|y b] H; cbn in H; try discriminate; [reflexivity|].
  apply andb_true_iff in H. destruct H as [Hl H]. apply andb_true_iff in H. destruct H as [Hx Hr].
  apply Z.eqb_eq in Hx. subst y. f_equal. apply IH. rewrite Hl, Hr. reflexivity.
Qed.

(* a stack-like table (block stack, overflow table): a row can only be removed from the top *)
Fixpoint run_stack (evs : list event) (st : list row) : option (list row) :=
  match evs with
  | [] => Some st
  | Add r :: rest => run_stack rest (r :: st)
  | Remove r :: rest =>
      match st with
      | top :: st' => if row_eqb r top then run_stack rest st' else None
      | [] => None
      end
  end.

Definition adds (evs : list event) : list row :=
  flat_map (fun e => match e with Add r => [r] | Remove _ => [] end) evs.
Definition removes (evs : list event) : list row :=
  flat_map (fun e => match e with Remove r => [r] | Add _ => [] end) evs.

Lemma run_stack_perm : forall evs st st',
  run_stack evs st = Some st' -> Permutation (adds evs ++ st) (removes evs ++ st').
Proof.
  induction evs as [|e evs IH]; intros st st' H; cbn [run_stack adds removes flat_map app] in *.
  - inversion H; subst. apply Permutation_refl.
  - destruct e as [r|r]; cbn [app].
    + specialize (IH _ _ H). fold (adds evs) (removes evs) in *.
      eapply Permutation_trans; [|exact IH]. apply Permutation_cons_app. apply Permutation_refl.
    + destruct st as [|top st0]; [discriminate|].
      destruct (row_eqb r top) eqn:E; [|discriminate]. apply row_eqb_eq in E. subst top.
      specialize (IH _ _ H). fold (adds evs) (removes evs) in *.
      eapply Permutation_trans; [apply Permutation_sym; apply Permutation_middle|].
      apply Permutation_cons; [reflexivity | exact IH].
Qed.

(* a table that starts and ends empty has added exactly what it removed, so its running product
   column returns to its initial value for every challenge *)
Theorem table_returns : forall alphas evs,
  run_stack evs [] = Some [] ->
  fprod (map (encode alphas) (adds evs)) = fprod (map (encode alphas) (removes evs)).
Proof.
  intros alphas evs H. apply bus_balanced.
  pose proof (run_stack_perm evs [] [] H) as P. rewrite !app_nil_r in P. exact P.
Qed.

(* non-vacuity *)
Example table_sample : run_stack [Add [1; 2]; Add [3; 4]; Remove [3; 4]; Add [5; 6]; Remove [5; 6]; Remove [1; 2]] [] = Some [].
Proof. reflexivity. Qed.

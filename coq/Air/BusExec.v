(* The block-stack discipline of real executions, as a virtual table: every block start adds a
   row, every END removes the row of the latest open block, and at the end the table is empty. *)
From Coq Require Import ZArith List Bool Arith Lia Permutation.
From MV Require Import Base.Field Core.Op Vm.State Vm.Exec Vm.StreamProps Air.Bus.
Import ListNotations.
Open Scope Z_scope.

(* rows are abstracted to "one open block" *)
Definition unit_row : row := [1].

Definition block_events (l : list op) : list event :=
  flat_map (fun o => if opens o then [Add unit_row] else if closes o then [Remove unit_row] else []) l.

Lemma nest_run_stack : forall l d d',
  nest d l = Some d' -> run_stack (block_events l) (repeat unit_row d) = Some (repeat unit_row d').
Proof.
  induction l as [|o l IH]; intros d d' H; cbn [nest block_events flat_map] in *.
  - inversion H; subst. reflexivity.
  - destruct (opens o) eqn:Eo.
    + cbn [app run_stack]. fold (block_events l). apply (IH (S d) d' H).
    + destruct (closes o) eqn:Ec.
      * destruct d as [|d0]; [discriminate|]. cbn [app run_stack repeat]. fold (block_events l).
        change (row_eqb unit_row unit_row) with true. cbv iota. apply (IH d0 d' H).
      * cbn [app]. fold (block_events l). apply (IH d d' H).
Qed.

(* C12 (block stack table): in every successful execution the table ends empty *)
Theorem block_table_empties fuel m p inputs advice s' :
  exec_program fuel m p inputs advice = Ok s' ->
  run_stack (block_events (rev (olog s'))) [] = Some [].
Proof.
  intros H. apply (nest_run_stack _ 0%nat 0%nat). eapply stream_nested. exact H.
Qed.

(* hence its running-product column is back at its initial value, for every challenge *)
Theorem block_table_column_returns fuel m p inputs advice s' alphas :
  exec_program fuel m p inputs advice = Ok s' ->
  fprod (map (encode alphas) (adds (block_events (rev (olog s'))))) =
  fprod (map (encode alphas) (removes (block_events (rev (olog s'))))).
Proof. intros H. apply table_returns. eapply block_table_empties. exact H. Qed.

Theorem block_table_both fuel m p inputs advice s' alphas :
  exec_program fuel m p inputs advice = Ok s' ->
  run_stack (block_events (rev (olog s'))) [] = Some [] /\
  fprod (map (encode alphas) (adds (block_events (rev (olog s'))))) =
  fprod (map (encode alphas) (removes (block_events (rev (olog s'))))).
Proof.
  intros H. split; [eapply block_table_empties; eauto | eapply block_table_column_returns; eauto].
Qed.

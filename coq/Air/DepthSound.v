(* Stack-depth bookkeeping: b0 (depth) and position 15 under left shifts, b0 and b1 (overflow
   address) under right shifts, b0 under no shift - for every opcode of each class. *)
From Coq Require Import ZArith List Bool Arith Lia Setoid Morphisms.
From MV Require Import Base.Field Base.Prime Core.Op Air.Expr Air.Frame Air.StackSound Air.SystemSound Gen.AirGen.
Import ListNotations.
Open Scope Z_scope.

Definition left_shift_ok (code : Z) : Prop :=
  forall e, row_has_op e code -> constraints_hold e ->
    (cur e B0_COL == 16 -> nxt e B0_COL == 16 /\ snxt e 15 == 0) /\
    (~ cur e B0_COL == 16 -> nxt e B0_COL == cur e B0_COL - 1).

Definition right_shift_ok (code : Z) : Prop :=
  forall e, row_has_op e code -> constraints_hold e ->
    nxt e B0_COL == cur e B0_COL + 1 /\ nxt e B1_COL == cur e CLK_COL.

Definition no_shift_ok (code : Z) : Prop :=
  forall e, row_has_op e code -> constraints_hold e -> nxt e B0_COL == cur e B0_COL.

(* generic algebra of the three overflow constraints *)
Lemma left_shift_algebra b0 b0' h0 n15 :
  b0' - b0 + (b0 - 16) * h0 == 0 ->
  (1 - (b0 - 16) * h0) * (b0 - 16) == 0 ->
  (1 - (b0 - 16) * h0) * n15 == 0 ->
  (b0 == 16 -> b0' == 16 /\ n15 == 0) /\ (~ b0 == 16 -> b0' == b0 - 1).
Proof.
  intros H1 H2 H4. split.
  - intros E. assert (Z0 : b0 - 16 == 0).
    { apply cong_trans with (16 - 16); [apply cong_sub; [exact E | reflexivity] | reflexivity]. }
    rewrite Z0 in H1, H4. split.
    + apply cong_trans with b0; [|exact E]. apply (cong_zero_eq b0' b0 _ H1). ring.
    + apply (cong_zero_eq n15 0 _ H4). ring.
  - intros NE. apply cong_mul_zero in H2. destruct H2 as [A|B].
    + assert (X : (b0 - 16) * h0 == 1) by (apply cong_sym, cong_of_sub; exact A).
      rewrite X in H1. apply (cong_zero_eq b0' (b0 - 1) _ H1). ring.
    + exfalso. apply NE. apply cong_of_sub. exact B.
Qed.

Ltac depth_setup e code Ha Hc :=
  open_residuals e code Ha Hc;
  cbv [snxt cur nxt STACK_COL TRACE_WIDTH B0_COL B1_COL H0_COL CLK_COL] in *; norm_cells e.

Ltac left_shift code :=
  let e := fresh "e" in let Ha := fresh "Ha" in let Hc := fresh "Hc" in
  intros e Ha Hc; depth_setup e code Ha Hc;
  apply (left_shift_algebra _ _ (e 50)); use_hyps.

Ltac right_shift code :=
  let e := fresh "e" in let Ha := fresh "Ha" in let Hc := fresh "Hc" in
  intros e Ha Hc; depth_setup e code Ha Hc; split; use_hyps.

Ltac no_shift code :=
  let e := fresh "e" in let Ha := fresh "Ha" in let Hc := fresh "Hc" in
  intros e Ha Hc; depth_setup e code Ha Hc; use_hyps.

Theorem left_shift_ops :
  Forall left_shift_ok [32; 33; 34; 35; 36; 37; 38; 39; 41; 42; 43; 44; 45; 46; 47; 76; 78; 84; 85].
Proof.
  repeat (apply Forall_cons; [unfold left_shift_ok|]); try apply Forall_nil.
  - left_shift 32. - left_shift 33. - left_shift 34. - left_shift 35. - left_shift 36.
  - left_shift 37. - left_shift 38. - left_shift 39. - left_shift 41. - left_shift 42.
  - left_shift 43. - left_shift 44. - left_shift 45. - left_shift 46. - left_shift 47.
  - left_shift 76. - left_shift 78. - left_shift 84. - left_shift 85.
Qed.

Theorem right_shift_ops :
  Forall right_shift_ok [48; 49; 50; 51; 52; 53; 54; 55; 56; 57; 58; 59; 60; 61; 62; 63; 72; 100].
Proof.
  repeat (apply Forall_cons; [unfold right_shift_ok|]); try apply Forall_nil.
  - right_shift 48. - right_shift 49. - right_shift 50. - right_shift 51. - right_shift 52.
  - right_shift 53. - right_shift 54. - right_shift 55. - right_shift 56. - right_shift 57.
  - right_shift 58. - right_shift 59. - right_shift 60. - right_shift 61. - right_shift 62.
  - right_shift 63. - right_shift 72. - right_shift 100.
Qed.

Theorem no_shift_ops :
  Forall no_shift_ok [0; 1; 2; 3; 4; 5; 6; 7; 8; 10; 11; 12; 13; 24; 25; 28; 29; 30; 64; 66; 68; 70; 74; 80; 86; 87].
Proof.
  repeat (apply Forall_cons; [unfold no_shift_ok|]); try apply Forall_nil.
  - no_shift 0. - no_shift 1. - no_shift 2. - no_shift 3. - no_shift 4. - no_shift 5. - no_shift 6.
  - no_shift 7. - no_shift 8. - no_shift 10. - no_shift 11. - no_shift 12. - no_shift 13.
  - no_shift 24. - no_shift 25. - no_shift 28. - no_shift 29. - no_shift 30. - no_shift 64.
  - no_shift 66. - no_shift 68. - no_shift 70. - no_shift 74. - no_shift 80. - no_shift 86. - no_shift 87.
Qed.

(* Reified arithmetic over Goldilocks: the AIR's constraint system as a DAG of nodes (generated
   into Gen/AirGen.v by the translator), its evaluation, and a partial evaluator that folds known
   cells (op bits) into the expressions, proved sound once. *)
From Coq Require Import ZArith List Bool Arith Lia Setoid Morphisms.
From MV Require Import Base.Field.
Import ListNotations.
Open Scope Z_scope.

Inductive node : Type :=
| NConst (c : Z) | NVar (v : Z) | NAdd (a b : Z) | NSub (a b : Z) | NMul (a b : Z) | NNeg (a : Z).

Inductive expr : Type :=
| EConst (c : Z) | EVar (v : Z) | EAdd (a b : expr) | ESub (a b : expr) | EMul (a b : expr) | ENeg (a : expr).

Definition env := Z -> Z.

(* ---- evaluation of the DAG: the value of every node, in order, reduced mod p --------------- *)
Definition nth_z (l : list Z) (i : Z) : Z := nth (Z.to_nat i) l 0.

Definition nval (e : env) (vals : list Z) (n : node) : Z :=
  match n with
  | NConst c => c mod P
  | NVar v => e v mod P
  | NAdd a b => (nth_z vals a + nth_z vals b) mod P
  | NSub a b => (nth_z vals a - nth_z vals b) mod P
  | NMul a b => (nth_z vals a * nth_z vals b) mod P
  | NNeg a => (- nth_z vals a) mod P
  end.

Fixpoint eval_from (e : env) (nodes : list node) (vals : list Z) : list Z :=
  match nodes with
  | [] => vals
  | n :: rest => eval_from e rest (vals ++ [nval e vals n])
  end.
Definition eval_nodes (e : env) (nodes : list node) : list Z := eval_from e nodes [].

(* ---- expressions ---------------------------------------------------------------------------- *)
Fixpoint eeval (e : env) (x : expr) : Z :=
  match x with
  | EConst c => c
  | EVar v => e v
  | EAdd a b => eeval e a + eeval e b
  | ESub a b => eeval e a - eeval e b
  | EMul a b => eeval e a * eeval e b
  | ENeg a => - eeval e a
  end.

Definition cong (x y : Z) : Prop := x mod P = y mod P.
Notation "x == y" := (cong x y) (at level 70).

Lemma cong_refl x : x == x. Proof. reflexivity. Qed.
Lemma cong_sym x y : x == y -> y == x. Proof. unfold cong; congruence. Qed.
Lemma cong_trans x y z : x == y -> y == z -> x == z. Proof. unfold cong; congruence. Qed.
Lemma cong_mod x : x mod P == x. Proof. unfold cong. apply Z.mod_mod. discriminate. Qed.
Lemma cong_add a b c d : a == b -> c == d -> a + c == b + d.
Proof. unfold cong. intros H1 H2. rewrite (Z.add_mod a c), (Z.add_mod b d), H1, H2 by discriminate. reflexivity. Qed.
Lemma cong_sub a b c d : a == b -> c == d -> a - c == b - d.
Proof. unfold cong. intros H1 H2. rewrite (Zminus_mod a c), (Zminus_mod b d), H1, H2. reflexivity. Qed.
Lemma cong_mul a b c d : a == b -> c == d -> a * c == b * d.
Proof. unfold cong. intros H1 H2. rewrite (Z.mul_mod a c), (Z.mul_mod b d), H1, H2 by discriminate. reflexivity. Qed.
Lemma cong_opp a b : a == b -> - a == - b.
Proof. intros H. change (- a) with (0 - a). change (- b) with (0 - b). apply cong_sub; [apply cong_refl | exact H]. Qed.

#[global] Instance cong_equiv : Equivalence cong.
Proof. split; [intros x; apply cong_refl | intros x y; apply cong_sym | intros x y z; apply cong_trans]. Qed.
#[global] Instance add_proper : Proper (cong ==> cong ==> cong) Z.add.
Proof. intros a b H c d H2. apply cong_add; assumption. Qed.
#[global] Instance sub_proper : Proper (cong ==> cong ==> cong) Z.sub.
Proof. intros a b H c d H2. apply cong_sub; assumption. Qed.
#[global] Instance mul_proper : Proper (cong ==> cong ==> cong) Z.mul.
Proof. intros a b H c d H2. apply cong_mul; assumption. Qed.
#[global] Instance opp_proper : Proper (cong ==> cong) Z.opp.
Proof. intros a b H. apply cong_opp; assumption. Qed.

Lemma fadd_cong a b : fadd a b == a + b. Proof. apply cong_mod. Qed.
Lemma fsub_cong a b : fsub a b == a - b. Proof. apply cong_mod. Qed.
Lemma fmul_cong a b : fmul a b == a * b. Proof. apply cong_mod. Qed.
Lemma fneg_cong a : fneg a == - a. Proof. apply cong_mod. Qed.

(* smart constructors: constant folding with the absorbing / neutral elements *)
Definition is_c (x : expr) (k : Z) : bool := match x with EConst c => c =? k | _ => false end.

Definition mkAdd (a b : expr) : expr :=
  match a, b with
  | EConst x, EConst y => EConst ((x + y) mod P)
  | _, _ => if is_c a 0 then b else if is_c b 0 then a else EAdd a b
  end.
Definition mkSub (a b : expr) : expr :=
  match a, b with
  | EConst x, EConst y => EConst ((x - y) mod P)
  | _, _ => if is_c b 0 then a else ESub a b
  end.
Definition mkMul (a b : expr) : expr :=
  match a, b with
  | EConst x, EConst y => EConst ((x * y) mod P)
  | _, _ => if is_c a 0 || is_c b 0 then EConst 0
            else if is_c a 1 then b else if is_c b 1 then a else EMul a b
  end.
Definition mkNeg (a : expr) : expr :=
  match a with EConst x => EConst ((- x) mod P) | _ => ENeg a end.

Lemma is_c_spec x k : is_c x k = true -> x = EConst k.
Proof. destruct x; cbn; try discriminate. intros H. apply Z.eqb_eq in H. subst. reflexivity. Qed.

Ltac smart_cases :=
  repeat match goal with
         | |- context [?c =? ?k] => destruct (Z.eqb_spec c k); subst; cbn [orb eeval]
         end;
  cbn [eeval]; first [apply cong_mod | apply cong_refl | (unfold cong; f_equal; lia)].

Lemma mkAdd_sound e a b : eeval e (mkAdd a b) == eeval e a + eeval e b.
Proof. unfold mkAdd. destruct a; destruct b; cbn [is_c orb eeval]; smart_cases. Qed.
Lemma mkSub_sound e a b : eeval e (mkSub a b) == eeval e a - eeval e b.
Proof. unfold mkSub. destruct a; destruct b; cbn [is_c orb eeval]; smart_cases. Qed.
Lemma mkMul_sound e a b : eeval e (mkMul a b) == eeval e a * eeval e b.
Proof. unfold mkMul. destruct a; destruct b; cbn [is_c orb eeval]; smart_cases. Qed.
Lemma mkNeg_sound e a : eeval e (mkNeg a) == - eeval e a.
Proof. destruct a; cbn [mkNeg eeval]; try apply cong_refl. apply cong_mod. Qed.

(* ---- partial evaluation ---------------------------------------------------------------------- *)
Definition penv := Z -> option Z.
Definition nth_e (l : list expr) (i : Z) : expr := nth (Z.to_nat i) l (EConst 0).

Definition pe_node (pe : penv) (es : list expr) (n : node) : expr :=
  match n with
  | NConst c => EConst (c mod P)
  | NVar v => match pe v with Some c => EConst (c mod P) | None => EVar v end
  | NAdd a b => mkAdd (nth_e es a) (nth_e es b)
  | NSub a b => mkSub (nth_e es a) (nth_e es b)
  | NMul a b => mkMul (nth_e es a) (nth_e es b)
  | NNeg a => mkNeg (nth_e es a)
  end.

Fixpoint pe_from (pe : penv) (nodes : list node) (es : list expr) : list expr :=
  match nodes with
  | [] => es
  | n :: rest => pe_from pe rest (es ++ [pe_node pe es n])
  end.
Definition pe_nodes (pe : penv) (nodes : list node) : list expr := pe_from pe nodes [].

Definition agrees (e : env) (pe : penv) : Prop := forall v c, pe v = Some c -> e v == c.

(* invariant: the i-th expression is congruent to the i-th value *)
Definition rel (e : env) (es : list expr) (vs : list Z) : Prop :=
  length es = length vs /\ forall i, eeval e (nth i es (EConst 0)) == nth i vs 0.

Lemma rel_nil e : rel e [] [].
Proof. split; [reflexivity|]. intros i. destruct i; apply cong_refl. Qed.

Lemma rel_snoc e es vs x v : rel e es vs -> eeval e x == v -> rel e (es ++ [x]) (vs ++ [v]).
Proof.
  intros [Hl Hi] Hx. split; [rewrite !app_length, Hl; reflexivity|].
  intros i. destruct (Nat.lt_ge_cases i (length es)) as [Hlt|Hge].
  - rewrite !app_nth1 by lia. apply Hi.
  - rewrite !app_nth2 by lia. rewrite <- Hl.
    destruct (i - length es)%nat as [|k]; [exact Hx|]. destruct k; apply cong_refl.
Qed.

Lemma pe_node_sound e pe es vs n :
  agrees e pe -> rel e es vs -> eeval e (pe_node pe es n) == nval e vs n.
Proof.
  intros Ha [Hl Hi]. unfold nth_e, nth_z in *.
  destruct n; cbn [pe_node nval].
  - apply cong_refl.
  - destruct (pe v) eqn:E; cbn [eeval].
    + apply cong_sym. eapply cong_trans; [apply cong_mod|]. eapply cong_trans; [apply Ha; eauto|].
      apply cong_sym, cong_mod.
    + apply cong_sym, cong_mod.
  - eapply cong_trans; [apply mkAdd_sound|]. apply cong_sym. eapply cong_trans; [apply cong_mod|].
    apply cong_sym. unfold nth_e, nth_z. apply cong_add; apply Hi.
  - eapply cong_trans; [apply mkSub_sound|]. apply cong_sym. eapply cong_trans; [apply cong_mod|].
    apply cong_sym. unfold nth_e, nth_z. apply cong_sub; apply Hi.
  - eapply cong_trans; [apply mkMul_sound|]. apply cong_sym. eapply cong_trans; [apply cong_mod|].
    apply cong_sym. unfold nth_e, nth_z. apply cong_mul; apply Hi.
  - eapply cong_trans; [apply mkNeg_sound|]. apply cong_sym. eapply cong_trans; [apply cong_mod|].
    apply cong_sym. unfold nth_e, nth_z. apply cong_opp; apply Hi.
Qed.

Lemma pe_from_sound e pe : agrees e pe -> forall nodes es vs,
  rel e es vs -> rel e (pe_from pe nodes es) (eval_from e nodes vs).
Proof.
  intros Ha. induction nodes as [|n nodes IH]; intros es vs Hr; cbn [pe_from eval_from]; [exact Hr|].
  apply IH. apply rel_snoc; [exact Hr | apply pe_node_sound; assumption].
Qed.

(* the partial evaluator is sound: under any valuation that agrees with the known cells, every
   simplified expression is congruent (mod p) to the value of its node *)
Theorem pe_sound e pe nodes i :
  agrees e pe ->
  eeval e (nth i (pe_nodes pe nodes) (EConst 0)) == nth i (eval_nodes e nodes) 0.
Proof. intros Ha. apply (pe_from_sound e pe Ha nodes [] [] (rel_nil e)). Qed.

(* values of the DAG are canonical *)
Lemma nval_canon e vs n : 0 <= nval e vs n < P.
Proof. destruct n; cbn [nval]; apply Z.mod_pos_bound; reflexivity. Qed.

(* Frames of the processor AIR: variable layout of the generated constraint DAG, the partial
   assignment that fixes the opcode, and the residual constraints of an opcode. *)
From Coq Require Import ZArith List Bool Arith Lia.
From MV Require Import Base.Field Core.Op Air.Expr Gen.AirGen.
Import ListNotations.
Open Scope Z_scope.

Definition bit (code i : Z) : Z := Z.land (Z.shiftr code i) 1.

(* op bits, plus the two degree-reduction columns e0 = b6 (1 - b5) b4 and e1 = b6 b5 *)
Definition pe_op (code : Z) : penv := fun v =>
  if (OP_BITS_COL <=? v) && (v <? OP_BITS_COL + 7) then Some (bit code (v - OP_BITS_COL))
  else if v =? OP_EXTRA_COL then Some (bit code 6 * (1 - bit code 5) * bit code 4)
  else if v =? OP_EXTRA_COL + 1 then Some (bit code 6 * bit code 5)
  else None.

(* the row pair says "this row executes opcode [code]" *)
Definition row_has_op (e : env) (code : Z) : Prop := agrees e (pe_op code).

(* generic in the DAG and its roots, so that no proof term mentions the generated constants *)
Section Generic.
Variable nodes : list node.
Variable roots : list Z.

Definition holds_g (e : env) : Prop :=
  forall k, (k < length roots)%nat -> nth_z (eval_nodes e nodes) (nth k roots 0) = 0.

Definition residuals_g (pe : penv) : list expr :=
  let es := pe_nodes pe nodes in map (fun r => nth (Z.to_nat r) es (EConst 0)) roots.

Lemma residual_vanishes_g e pe k :
  agrees e pe -> holds_g e -> (k < length roots)%nat ->
  eeval e (nth k (residuals_g pe) (EConst 0)) == 0.
Proof.
  intros Ha Hc Hk. unfold residuals_g.
  set (f := fun r => nth (Z.to_nat r) (pe_nodes pe nodes) (EConst 0)).
  rewrite (nth_indep (map f roots) (EConst 0) (f 0)) by (rewrite map_length; exact Hk).
  rewrite map_nth. unfold f.
  eapply cong_trans; [apply pe_sound; exact Ha|]. specialize (Hc k Hk). unfold nth_z in Hc.
  rewrite Hc. apply cong_refl.
Qed.

Definition nonzero (x : expr) : bool := match x with EConst 0 => false | _ => true end.

Lemma residuals_all_vanish_g e pe n :
  agrees e pe -> holds_g e ->
  Forall (fun r => eeval e r == 0) (filter nonzero (firstn n (residuals_g pe))).
Proof.
  intros Ha Hc. apply Forall_forall. intros r Hr.
  apply filter_In in Hr. destruct Hr as [Hin _].
  assert (Hin2 : In r (residuals_g pe)).
  { rewrite <- (firstn_skipn n (residuals_g pe)). apply in_or_app. left. exact Hin. }
  apply In_nth with (d := EConst 0) in Hin2. destruct Hin2 as [k [Hk <-]].
  apply residual_vanishes_g; try assumption. unfold residuals_g in Hk. rewrite map_length in Hk. exact Hk.
Qed.
End Generic.

(* all main transition constraints vanish on the frame *)
Definition constraints_hold (e : env) : Prop := holds_g air_nodes air_main e.

(* residual constraints of an opcode: the first [n] constraints (system and stack constraints
   come first in the AIR's ordering), trivial ones dropped *)
Definition residuals_upto (code : Z) (n : nat) : list expr :=
  filter nonzero (firstn n (residuals_g air_nodes air_main (pe_op code))).

Lemma residuals_all_vanish e code n :
  row_has_op e code -> constraints_hold e ->
  Forall (fun r => eeval e r == 0) (residuals_upto code n).
Proof. intros Ha Hc. apply residuals_all_vanish_g; assumption. Qed.

(* cells *)
Definition cur (e : env) (c : Z) : Z := e c.
Definition nxt (e : env) (c : Z) : Z := e (TRACE_WIDTH + c).
Definition scur (e : env) (i : Z) : Z := e (STACK_COL + i).
Definition snxt (e : env) (i : Z) : Z := e (TRACE_WIDTH + STACK_COL + i).
Definition scurs (e : env) : list Z := map (fun i => scur e (Z.of_nat i)) (seq 0 16).
Definition snxts (e : env) (n : nat) : list Z := map (fun i => snxt e (Z.of_nat i)) (seq 0 n).

Lemma cong_of_sub a b : a - b == 0 -> a == b.
Proof.
  unfold cong. intros H. rewrite Zminus_mod in H.
  pose proof (Z.mod_pos_bound a P ltac:(reflexivity)). pose proof (Z.mod_pos_bound b P ltac:(reflexivity)).
  rewrite Z.mod_0_l in H by discriminate.
  destruct (Z.eq_dec (a mod P) (b mod P)) as [E|E]; [exact E|].
  exfalso. assert (Hr : -P < a mod P - b mod P < P) by lia.
  destruct (Z_lt_ge_dec (a mod P - b mod P) 0).
  - rewrite <- (Z.mod_unique (a mod P - b mod P) P (-1) (a mod P - b mod P + P)) in H; lia.
  - rewrite Z.mod_small in H; lia.
Qed.

(* The part of proving and verification that is plain decision logic (C01/C02): which proof
   parameters the verifier accepts under which hash function (verifier/src/lib.rs), and the
   conjectured security estimate that is reported (winter-air get_conjectured_security), over the
   constants read from /repo on every run (Gen/OptGen.v). *)
From Coq Require Import ZArith List Bool Arith Lia.
From MV Require Import Gen.OptGen.
Import ListNotations.
Open Scope Z_scope.

Definition opts : Type := (Z * Z * Z * Z * Z * Z)%type.
Definition o_queries (o : opts) : Z := let '(q, _, _, _, _, _) := o in q.
Definition o_blowup (o : opts) : Z := let '(_, b, _, _, _, _) := o in b.
Definition o_grinding (o : opts) : Z := let '(_, _, g, _, _, _) := o in g.
Definition o_ext (o : opts) : Z := let '(_, _, _, e, _, _) := o in e.

Definition opts_eqb (a b : opts) : bool :=
  let '(a1, a2, a3, a4, a5, a6) := a in let '(b1, b2, b3, b4, b5, b6) := b in
  (a1 =? b1) && (a2 =? b2) && (a3 =? b3) && (a4 =? b4) && (a5 =? b5) && (a6 =? b6).

(* verify(): the option sets accepted for a proof labelled with hash function h
   (0 = Blake3_192, 1 = Blake3_256, 2 = Rpo256) *)
Definition acceptable (h : Z) : list opts :=
  if h =? 0 then [REGULAR_96_BITS]
  else if h =? 1 then [REGULAR_128_BITS]
  else if h =? 2 then [RECURSIVE_96_BITS; RECURSIVE_128_BITS]
  else [].
Definition accepts (h : Z) (o : opts) : bool := existsb (opts_eqb o) (acceptable h).

(* winter-air: conjectured security of a proof over a trace of 2^k rows *)
Definition GRINDING_CONTRIBUTION_FLOOR : Z := 80.
Definition conj_security (o : opts) (k : Z) (collision : Z) : Z :=
  let field_security := MODULUS_BITS * o_ext o - (k + Z.log2 (o_blowup o)) in
  let per_query := Z.log2 (o_blowup o) in
  let q0 := per_query * o_queries o in
  let query_security := if GRINDING_CONTRIBUTION_FLOOR <=? q0 then q0 + o_grinding o else q0 in
  Z.min (Z.min field_security query_security - 1) collision.

Fixpoint assoc_z (k : Z) (l : list (Z * Z)) : Z :=
  match l with [] => 0 | (a, b) :: r => if a =? k then b else assoc_z k r end.

Definition reported_security (h : Z) (o : opts) (k : Z) : Z := conj_security o k (assoc_z h collision_resistance).

(* ---- C01: the standard configurations are accepted and report at least what they promise ------- *)
Lemma standard_sets_accepted : forallb (fun s => accepts (fst s) (snd s)) standard_sets = true.
Proof. vm_compute. reflexivity. Qed.

Definition promised (o : opts) : Z := if o_ext o =? 2 then 96 else 128.

(* every standard configuration reports exactly the promised level for every trace length up to
   2^28 rows (the 96-bit sets; 2^59 for the 128-bit sets) *)
Lemma security_96 : forall h o k, In (h, o) standard_sets -> promised o = 96 -> 0 <= k <= 28 ->
  reported_security h o k = 96.
Proof.
  intros h o k Hin Hp Hk. unfold standard_sets in Hin. cbn [In] in Hin.
  destruct Hin as [E|[E|[E|[E|[]]]]]; inversion E; subst; try (vm_compute in Hp; discriminate);
    cbv [reported_security conj_security o_ext o_blowup o_queries o_grinding assoc_z collision_resistance
         MODULUS_BITS GRINDING_CONTRIBUTION_FLOOR Z.eqb Pos.eqb];
    change (Z.log2 8) with 3; change (Z.log2 16) with 4;
    change (80 <=? 3 * 27) with true; change (80 <=? 4 * 27) with true; cbv iota; lia.
Qed.

Lemma security_128 : forall h o k, In (h, o) standard_sets -> promised o = 128 -> 0 <= k <= 59 ->
  reported_security h o k = 128.
Proof.
  intros h o k Hin Hp Hk. unfold standard_sets in Hin. cbn [In] in Hin.
  destruct Hin as [E|[E|[E|[E|[]]]]]; inversion E; subst; try (vm_compute in Hp; discriminate);
    cbv [reported_security conj_security o_ext o_blowup o_queries o_grinding assoc_z collision_resistance
         MODULUS_BITS GRINDING_CONTRIBUTION_FLOOR Z.eqb Pos.eqb];
    change (Z.log2 8) with 3; change (Z.log2 16) with 4;
    change (80 <=? 3 * 27) with true; change (80 <=? 4 * 27) with true; cbv iota; lia.
Qed.

(* beyond that the estimate drops below the promise: a trace of 2^29 rows with a 96-bit set *)
Lemma security_96_refuted : reported_security 0 REGULAR_96_BITS 29 = 95.
Proof. vm_compute. reflexivity. Qed.

(* ---- C02: relabelling the hash function of a standard proof is never accepted, except between
   the two recursive sets, which share Rpo256 -------------------------------------------------- *)
Lemma relabel_rejected : forall h o h', In (h, o) standard_sets -> h' <> h -> 0 <= h' <= 2 -> accepts h' o = false.
Proof.
  intros h o h' Hin Hne Hr. unfold standard_sets in Hin. cbn [In] in Hin.
  assert (C : h' = 0 \/ h' = 1 \/ h' = 2) by lia.
  destruct Hin as [E|[E|[E|[E|[]]]]]; inversion E; subst;
    destruct C as [ C | [ C | C ] ]; subst h'; try contradiction; vm_compute; reflexivity.
Qed.

(* parameters outside the accepted sets are rejected whatever their estimated security *)
Lemma only_listed_accepted : forall h o, accepts h o = true -> In o (acceptable h).
Proof.
  intros h o H. unfold accepts in H. apply existsb_exists in H. destruct H as [x [Hin Hx]].
  assert (o = x).
  { destruct o as [[[[[a1 a2] a3] a4] a5] a6], x as [[[[[b1 b2] b3] b4] b5] b6]. unfold opts_eqb in Hx.
    repeat (apply andb_true_iff in Hx; destruct Hx as [Hx ?]).
    repeat match goal with H : (_ =? _) = true |- _ => apply Z.eqb_eq in H end. subst. reflexivity. }
  subst. exact Hin.
Qed.

(* The public statement as the sequence of field elements that seeds the Fiat-Shamir coin
   (PublicInputs::to_elements): program hash, kernel procedure hashes, stack inputs, stack outputs,
   overflow addresses - concatenated without any length prefix. *)
From Coq Require Import ZArith List Lia.
Import ListNotations.
Open Scope Z_scope.

Definition pub_elements (h : list Z) (k : list (list Z)) (ins outs addrs : list Z) : list Z :=
  h ++ concat k ++ ins ++ outs ++ addrs.

Lemma app_inj_len {A} (a a' b b' : list A) : length a = length a' -> a ++ b = a' ++ b' -> a = a' /\ b = b'.
Proof.
  revert a'. induction a as [|x a IH]; intros [|y a'] L E; try discriminate L.
  - split; [reflexivity | exact E].
  - cbn in E. injection E as -> E. cbn in L. destruct (IH a' ltac:(lia) E) as [-> ->]. split; reflexivity.
Qed.

Lemma concat_inj_words (k k' : list (list Z)) :
  Forall (fun w => length w = 4%nat) k -> Forall (fun w => length w = 4%nat) k' ->
  length k = length k' -> concat k = concat k' -> k = k'.
Proof.
  revert k'. induction k as [|w k IH]; intros [|w' k'] F F' L E; try discriminate L; [reflexivity|].
  inversion F as [|? ? Hw Fk]; subst. inversion F' as [|? ? Hw' Fk']; subst.
  cbn in E. destruct (app_inj_len w w' _ _ ltac:(lia) E) as [-> E2].
  f_equal. apply IH; auto.
Qed.

Lemma concat_words_length (k : list (list Z)) :
  Forall (fun w => length w = 4%nat) k -> length (concat k) = (4 * length k)%nat.
Proof. induction 1 as [|w k Hw _ IH]; [reflexivity|]. cbn. rewrite app_length, IH, Hw. lia. Qed.

(* given the three lengths (kernel procedures, inputs, outputs) the element sequence determines the
   statement *)
Theorem pub_elements_framed h h' k k' ins ins' outs outs' addrs addrs' :
  length h = 4%nat -> length h' = 4%nat ->
  Forall (fun w => length w = 4%nat) k -> Forall (fun w => length w = 4%nat) k' ->
  length k = length k' -> length ins = length ins' -> length outs = length outs' ->
  pub_elements h k ins outs addrs = pub_elements h' k' ins' outs' addrs' ->
  h = h' /\ k = k' /\ ins = ins' /\ outs = outs' /\ addrs = addrs'.
Proof.
  unfold pub_elements. intros Lh Lh' F F' Lk Li Lo E.
  destruct (app_inj_len h h' _ _ ltac:(lia) E) as [-> E1].
  assert (Lc : length (concat k) = length (concat k')) by (rewrite !concat_words_length by assumption; lia).
  destruct (app_inj_len _ _ _ _ Lc E1) as [Ek E2].
  apply concat_inj_words in Ek; auto. subst k'.
  destruct (app_inj_len _ _ _ _ Li E2) as [-> E3].
  destruct (app_inj_len _ _ _ _ Lo E3) as [-> ->]. auto.
Qed.

(* without the lengths it does not: a kernel procedure and four stack inputs are indistinguishable in
   the element sequence (the binding of the proof to the statement therefore rests on the boundary
   assertions and the kernel ROM, not on the seed alone) *)
Theorem pub_elements_not_framed :
  exists h k ins outs addrs k' ins',
    (k, ins) <> (k', ins') /\ pub_elements h k ins outs addrs = pub_elements h k' ins' outs addrs.
Proof.
  exists [1; 2; 3; 4], [[5; 6; 7; 8]], [], [0;0;0;0;0;0;0;0;0;0;0;0;0;0;0;0], [], [], [5; 6; 7; 8].
  split; [discriminate | reflexivity].
Qed.

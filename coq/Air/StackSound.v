(* Soundness of the stack constraints for operations whose next-row cells are explicit polynomials
   of the current row: if the row pair carries the opcode and every transition constraint
   vanishes, the next stack cells are congruent to what the VM model computes. *)
From Coq Require Import ZArith List Bool Arith Lia Setoid Morphisms.
From MV Require Import Base.Field Core.Op Vm.Pure Air.Expr Air.Frame Gen.AirGen.
Import ListNotations.
Open Scope Z_scope.

Lemma cong_mod_r a b : a == b -> a == b mod P.
Proof. intros H. eapply cong_trans; [exact H|]. apply cong_sym, cong_mod. Qed.

Lemma cong_zero_eq a b t : t == 0 -> a - b = t -> a == b.
Proof. intros H E. apply cong_of_sub. rewrite E. exact H. Qed.
Lemma cong_zero_eq_neg a b t : t == 0 -> a - b = - t -> a == b.
Proof.
  intros H E. apply cong_of_sub. rewrite E. change 0 with (- 0). apply cong_opp. exact H.
Qed.

(* the first 110 constraints are the system and stack constraints *)
Definition NSTACK : nat := NUM_SYS_STACK_CONSTRAINTS.

Definition air_matches (o : op) (n : nat) : Prop :=
  forall e, row_has_op e (opcode o) -> constraints_hold e ->
    match vpure_op o (scurs e) with
    | POk r => Forall2 cong (snxts e n) (firstn n r)
    | PErr _ => True
    end.

Ltac norm_cells e :=
  repeat match goal with
         | |- context [e ?z] =>
             lazymatch z with
             | Zpos _ => fail
             | Z0 => fail
             | _ => let z' := eval vm_compute in z in progress change z with z'
             end
         | H : context [e ?z] |- _ =>
             lazymatch z with
             | Zpos _ => fail
             | Z0 => fail
             | _ => let z' := eval vm_compute in z in progress change z with z' in H
             end
         end.

Ltac use_hyps :=
  match goal with
  | H : ?t == 0 |- ?a == ?b =>
      first [ apply (cong_zero_eq a b t H); ring | apply (cong_zero_eq_neg a b t H); ring ]
  end.

Ltac cell_goal :=
  repeat first [ setoid_rewrite fadd_cong | setoid_rewrite fsub_cong | setoid_rewrite fmul_cong
               | setoid_rewrite fneg_cong ];
  first [ apply cong_refl | use_hyps ].

Ltac air_op code :=
  let e := fresh "e" in let Ha := fresh "Ha" in let Hc := fresh "Hc" in
  intros e Ha Hc;
  pose proof (residuals_all_vanish e code NSTACK Ha Hc) as HR;
  let r := eval vm_compute in (residuals_upto code NSTACK) in
  (assert (E : residuals_upto code NSTACK = r) by (vm_compute; reflexivity));
  rewrite E in HR; clear E;
  repeat (apply Forall_cons_iff in HR; let H := fresh "R" in destruct HR as [H HR]);
  clear HR;
  cbn [eeval] in *;
  cbv [vpure_op pure_op_gen vreplace gl gls nth skipn app seq map firstn scurs snxts scur snxt
       STACK_COL TRACE_WIDTH Z.of_nat Pos.of_succ_nat Pos.succ];
  norm_cells e;
  repeat (apply Forall2_cons; [cell_goal|]); try apply Forall2_nil.

Theorem add_sound : air_matches Add 15.
Proof. unfold air_matches. air_op 34. Qed.

Theorem noop_sound : air_matches Noop 16.
Proof. unfold air_matches. air_op 0. Qed.
Theorem neg_sound : air_matches Neg 16.
Proof. unfold air_matches. air_op 2. Qed.
Theorem incr_sound : air_matches Incr 16.
Proof. unfold air_matches. air_op 4. Qed.
Theorem ext2mul_sound : air_matches Ext2Mul 16.
Proof. unfold air_matches. air_op 25. Qed.
Theorem pad_sound : air_matches Pad 16.
Proof. unfold air_matches. air_op 48. Qed.
Theorem dup0_sound : air_matches Dup0 16.
Proof. unfold air_matches. air_op 49. Qed.
Theorem dup1_sound : air_matches Dup1 16.
Proof. unfold air_matches. air_op 50. Qed.
Theorem dup2_sound : air_matches Dup2 16.
Proof. unfold air_matches. air_op 51. Qed.
Theorem dup3_sound : air_matches Dup3 16.
Proof. unfold air_matches. air_op 52. Qed.
Theorem dup4_sound : air_matches Dup4 16.
Proof. unfold air_matches. air_op 53. Qed.
Theorem dup5_sound : air_matches Dup5 16.
Proof. unfold air_matches. air_op 54. Qed.
Theorem dup6_sound : air_matches Dup6 16.
Proof. unfold air_matches. air_op 55. Qed.
Theorem dup7_sound : air_matches Dup7 16.
Proof. unfold air_matches. air_op 56. Qed.
Theorem dup9_sound : air_matches Dup9 16.
Proof. unfold air_matches. air_op 57. Qed.
Theorem dup11_sound : air_matches Dup11 16.
Proof. unfold air_matches. air_op 58. Qed.
Theorem dup13_sound : air_matches Dup13 16.
Proof. unfold air_matches. air_op 59. Qed.
Theorem dup15_sound : air_matches Dup15 16.
Proof. unfold air_matches. air_op 60. Qed.
Theorem swap_sound : air_matches Swap 16.
Proof. unfold air_matches. air_op 8. Qed.
Theorem swapw_sound : air_matches SwapW 16.
Proof. unfold air_matches. air_op 24. Qed.
Theorem swapw2_sound : air_matches SwapW2 16.
Proof. unfold air_matches. air_op 28. Qed.
Theorem swapw3_sound : air_matches SwapW3 16.
Proof. unfold air_matches. air_op 29. Qed.
Theorem swapdw_sound : air_matches SwapDW 16.
Proof. unfold air_matches. air_op 30. Qed.
Theorem movup2_sound : air_matches MovUp2 16.
Proof. unfold air_matches. air_op 10. Qed.
Theorem movup3_sound : air_matches MovUp3 16.
Proof. unfold air_matches. air_op 12. Qed.
Theorem movup4_sound : air_matches MovUp4 16.
Proof. unfold air_matches. air_op 16. Qed.
Theorem movup5_sound : air_matches MovUp5 16.
Proof. unfold air_matches. air_op 18. Qed.
Theorem movup6_sound : air_matches MovUp6 16.
Proof. unfold air_matches. air_op 20. Qed.
Theorem movup7_sound : air_matches MovUp7 16.
Proof. unfold air_matches. air_op 22. Qed.
Theorem movup8_sound : air_matches MovUp8 16.
Proof. unfold air_matches. air_op 26. Qed.
Theorem movdn2_sound : air_matches MovDn2 16.
Proof. unfold air_matches. air_op 11. Qed.
Theorem movdn3_sound : air_matches MovDn3 16.
Proof. unfold air_matches. air_op 13. Qed.
Theorem movdn4_sound : air_matches MovDn4 16.
Proof. unfold air_matches. air_op 17. Qed.
Theorem movdn5_sound : air_matches MovDn5 16.
Proof. unfold air_matches. air_op 19. Qed.
Theorem movdn6_sound : air_matches MovDn6 16.
Proof. unfold air_matches. air_op 21. Qed.
Theorem movdn7_sound : air_matches MovDn7 16.
Proof. unfold air_matches. air_op 23. Qed.
Theorem movdn8_sound : air_matches MovDn8 16.
Proof. unfold air_matches. air_op 27. Qed.
Theorem mul_sound : air_matches Mul 15.
Proof. unfold air_matches. air_op 35. Qed.
Theorem drop_sound : air_matches Drop 15.
Proof. unfold air_matches. air_op 41. Qed.

(* ---- operations with a binary operand -------------------------------------------------------- *)
Lemma is_bin_false_cases x : negb (is_bin x) = false -> x = 0 \/ x = 1.
Proof.
  intros H. apply negb_false_iff in H. unfold is_bin in H. apply orb_true_iff in H.
  destruct H as [H|H]; apply Z.eqb_eq in H; auto.
Qed.

Ltac split_conds e :=
  repeat match goal with
         | |- context [if negb (is_bin ?x) then _ else _] =>
             let H := fresh "B" in destruct (negb (is_bin x)) eqn:H; [exact I|];
             apply is_bin_false_cases in H; destruct H as [H|H]; rewrite ?H in *
         | |- context [if ?x =? ?k then _ else _] =>
             let H := fresh "Q" in destruct (Z.eqb_spec x k) as [H|H]; [rewrite ?H in *|]
         end;
  cbn [Z.eqb Pos.eqb andb orb negb] in *; try exact I.

Ltac air_op_cond code :=
  let e := fresh "e" in let Ha := fresh "Ha" in let Hc := fresh "Hc" in
  intros e Ha Hc;
  pose proof (residuals_all_vanish e code NSTACK Ha Hc) as HR;
  let r := eval vm_compute in (residuals_upto code NSTACK) in
  (assert (E : residuals_upto code NSTACK = r) by (vm_compute; reflexivity));
  rewrite E in HR; clear E;
  repeat (apply Forall_cons_iff in HR; let H := fresh "R" in destruct HR as [H HR]);
  clear HR;
  cbn [eeval] in *;
  cbv [vpure_op pure_op_gen vreplace gl gls nth skipn app seq map firstn scurs snxts scur snxt
       STACK_COL TRACE_WIDTH Z.of_nat Pos.of_succ_nat Pos.succ];
  norm_cells e;
  split_conds e;
  repeat (apply Forall2_cons; [cell_goal|]); try apply Forall2_nil.

Theorem not_sound : air_matches Not 16.
Proof. unfold air_matches. air_op_cond 5. Qed.
Theorem and_sound : air_matches And 15.
Proof. unfold air_matches. air_op_cond 36. Qed.
Theorem or_sound : air_matches Or 15.
Proof. unfold air_matches. air_op_cond 37. Qed.

Theorem cswap_sound : air_matches CSwap 15.
Proof. unfold air_matches. air_op_cond 42. Qed.
Theorem cswapw_sound : air_matches CSwapW 15.
Proof. unfold air_matches. air_op_cond 43. Qed.

(* Soundness of the constraints for system operations, the clock, the stack depth bookkeeping and
   the operand checks (binary operands), using primality of the modulus. *)
From Coq Require Import ZArith List Bool Arith Lia Setoid Morphisms.
From MV Require Import Base.Field Base.Prime Core.Op Vm.Pure Air.Expr Air.Frame Air.StackSound Gen.AirGen.
Import ListNotations.
Open Scope Z_scope.

Lemma cong_mul_zero a b : a * b == 0 -> a == 0 \/ b == 0.
Proof.
  unfold cong. rewrite Z.mod_0_l by discriminate. apply P_no_zero_div.
Qed.

Lemma cong_binary x : x * x - x == 0 -> x == 0 \/ x == 1.
Proof.
  intros H. replace (x * x - x) with (x * (x - 1)) in H by ring.
  apply cong_mul_zero in H. destruct H as [H|H]; [left; exact H|right].
  apply cong_of_sub. exact H.
Qed.

(* open the residual constraints of an opcode as hypotheses R, R0, ... over the cells of e *)
Ltac open_residuals e code Ha Hc :=
  pose proof (residuals_all_vanish e code NSTACK Ha Hc) as HR;
  let r := eval vm_compute in (residuals_upto code NSTACK) in
  (assert (E : residuals_upto code NSTACK = r) by (vm_compute; reflexivity));
  rewrite E in HR; clear E;
  repeat (apply Forall_cons_iff in HR; let H := fresh "R" in destruct HR as [H HR]);
  clear HR; cbn [eeval] in *.

Ltac unfold_cells e :=
  cbv [scur snxt cur nxt STACK_COL TRACE_WIDTH CLK_COL FMP_COL B0_COL B1_COL H0_COL];
  norm_cells e.

(* the clock advances by one on every row, whatever the operation: the first constraint carries no
   operation flag *)
Definition pe_none : penv := fun _ => None.
Lemma agrees_none e : agrees e pe_none. Proof. intros v c H. discriminate H. Qed.

Theorem clk_increments : forall e, constraints_hold e -> nxt e CLK_COL == cur e CLK_COL + 1.
Proof.
  intros e Hc.
  pose proof (residual_vanishes_g air_nodes air_main e pe_none 0 (agrees_none e) Hc ltac:(vm_compute; lia)) as H.
  assert (E : nth 0 (residuals_g air_nodes air_main pe_none) (EConst 0) =
              ESub (EVar 70) (EAdd (EVar 0) (EConst 1))) by (vm_compute; reflexivity).
  rewrite E in H. cbn [eeval] in H. unfold_cells e. use_hyps.
Qed.

(* CLK pushes the clock of its own row, SDEPTH the depth, FMPADD adds fmp, FMPUPDATE moves fmp,
   ASSERT needs 1 on top *)
Theorem clk_op_sound : forall e, row_has_op e 63 -> constraints_hold e ->
  snxt e 0 == cur e CLK_COL /\ nxt e CLK_COL == cur e CLK_COL + 1 /\
  Forall2 cong (map (fun i => snxt e (Z.of_nat i)) (seq 1 15)) (map (fun i => scur e (Z.of_nat i)) (seq 0 15)).
Proof.
  intros e Ha Hc. open_residuals e 63 Ha Hc. unfold_cells e.
  split; [use_hyps|]. split; [use_hyps|].
  cbv [map seq Z.of_nat Pos.of_succ_nat Pos.succ]. unfold_cells e.
  repeat (apply Forall2_cons; [use_hyps|]). apply Forall2_nil.
Qed.

Theorem sdepth_op_sound : forall e, row_has_op e 62 -> constraints_hold e ->
  snxt e 0 == cur e B0_COL.
Proof. intros e Ha Hc. open_residuals e 62 Ha Hc. unfold_cells e. use_hyps. Qed.

Theorem fmpadd_op_sound : forall e, row_has_op e 6 -> constraints_hold e ->
  snxt e 0 == scur e 0 + cur e FMP_COL.
Proof. intros e Ha Hc. open_residuals e 6 Ha Hc. unfold_cells e. use_hyps. Qed.

Theorem fmpupdate_op_sound : forall e, row_has_op e 47 -> constraints_hold e ->
  nxt e FMP_COL == cur e FMP_COL + scur e 0.
Proof. intros e Ha Hc. open_residuals e 47 Ha Hc. unfold_cells e. use_hyps. Qed.

Theorem assert_op_sound : forall e, row_has_op e 32 -> constraints_hold e -> scur e 0 == 1.
Proof. intros e Ha Hc. open_residuals e 32 Ha Hc. unfold_cells e. use_hyps. Qed.

(* operands that must be binary are binary in every accepted row *)
Ltac binary_from_hyps :=
  match goal with
  | H : ?t == 0 |- ?x == 0 \/ ?x == 1 =>
      apply cong_binary; first [ apply (cong_zero_eq _ 0 t H); ring
                               | apply (cong_zero_eq_neg _ 0 t H); ring ]
  end.

Theorem not_operand_binary : forall e, row_has_op e 5 -> constraints_hold e ->
  scur e 0 == 0 \/ scur e 0 == 1.
Proof. intros e Ha Hc. open_residuals e 5 Ha Hc. unfold_cells e. binary_from_hyps. Qed.

Theorem and_operands_binary : forall e, row_has_op e 36 -> constraints_hold e ->
  (scur e 0 == 0 \/ scur e 0 == 1) /\ (scur e 1 == 0 \/ scur e 1 == 1).
Proof. intros e Ha Hc. open_residuals e 36 Ha Hc. unfold_cells e. split; binary_from_hyps. Qed.

Theorem or_operands_binary : forall e, row_has_op e 37 -> constraints_hold e ->
  (scur e 0 == 0 \/ scur e 0 == 1) /\ (scur e 1 == 0 \/ scur e 1 == 1).
Proof. intros e Ha Hc. open_residuals e 37 Ha Hc. unfold_cells e. split; binary_from_hyps. Qed.

Theorem cswap_condition_binary : forall e, row_has_op e 42 -> constraints_hold e ->
  scur e 0 == 0 \/ scur e 0 == 1.
Proof. intros e Ha Hc. open_residuals e 42 Ha Hc. unfold_cells e. binary_from_hyps. Qed.

Theorem cswapw_condition_binary : forall e, row_has_op e 43 -> constraints_hold e ->
  scur e 0 == 0 \/ scur e 0 == 1.
Proof. intros e Ha Hc. open_residuals e 43 Ha Hc. unfold_cells e. binary_from_hyps. Qed.

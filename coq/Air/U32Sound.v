(* Soundness of the u32 constraints that carry the element-validity check (U32SPLIT, U32MUL,
   U32MADD): with range-checked limbs the next-row cells are THE 32-bit decomposition of the exact
   integer result - in particular the non-canonical encoding result + p is rejected. *)
From Coq Require Import ZArith List Bool Arith Lia Setoid Morphisms.
From MV Require Import Base.Field Core.Op Vm.Pure Air.Expr Air.Frame Air.StackSound Air.SystemSound Gen.AirGen.
Import ListNotations.
Open Scope Z_scope.

Definition helper (e : env) (i : Z) : Z := e (HELPER_COL + i).
Definition limb (x : Z) : Prop := 0 <= x < 65536.

Lemma cong_cases x y : x == y -> 0 <= x < P -> 0 <= y < 2 * P -> y = x \/ y = x + P.
Proof.
  unfold cong. intros H Hx Hy. rewrite (Z.mod_small x) in H by lia.
  destruct (Z_lt_ge_dec y P) as [L|G].
  - left. rewrite (Z.mod_small y) in H by lia. lia.
  - right. assert (E : y mod P = y - P).
    { symmetry. apply (Z.mod_unique y P 1 (y - P)); lia. }
    lia.
Qed.

Lemma cong_canon_eq x y : x == y -> 0 <= x < P -> 0 <= y < P -> x = y.
Proof. unfold cong. intros H Hx Hy. rewrite !Z.mod_small in H by lia. exact H. Qed.

(* a value of the form 2^32 hi + lo (32-bit halves) that is at least p has hi = 2^32 - 1, lo >= 1 *)
Lemma above_p hi lo : 0 <= hi < TWO32 -> 0 <= lo < TWO32 -> P <= TWO32 * hi + lo ->
  hi = 4294967295 /\ 1 <= lo.
Proof. unfold TWO32, P. lia. Qed.

Section Validity.
Variable e : env.
Let h0 := helper e 0. Let h1 := helper e 1. Let h2 := helper e 2. Let h3 := helper e 3.
Let m := helper e 4.
Let vlo := 65536 * h1 + h0.
Let vhi := 65536 * h3 + h2.

(* the common core: r is the exact result (0 <= r < p), the limbs compose to something congruent
   to r, the validity constraint holds and the next cells are the limb aggregates *)
Lemma decomposition_unique r :
  limb h0 -> limb h1 -> limb h2 -> limb h3 ->
  0 <= r < P ->
  r == TWO32 * vhi + vlo ->
  (1 - m * (4294967295 - vhi)) * vlo == 0 ->
  canon (snxt e 0) -> canon (snxt e 1) ->
  snxt e 0 == vhi -> snxt e 1 == vlo ->
  snxt e 0 = r / TWO32 /\ snxt e 1 = r mod TWO32.
Proof.
  unfold limb, canon. intros L0 L1 L2 L3 Hr A3 A4 C0 C1 A2 A1.
  assert (Blo : 0 <= vlo < TWO32) by (unfold vlo, TWO32; lia).
  assert (Bhi : 0 <= vhi < TWO32) by (unfold vhi, TWO32; lia).
  assert (Bv : 0 <= TWO32 * vhi + vlo < 2 * P) by (unfold TWO32, P in *; lia).
  destruct (cong_cases _ _ A3 Hr Bv) as [E|E].
  - (* the canonical encoding *)
    assert (E0 : snxt e 0 = vhi) by (apply cong_canon_eq; [exact A2 | exact C0 | unfold TWO32, P in *; lia]).
    assert (E1 : snxt e 1 = vlo) by (apply cong_canon_eq; [exact A1 | exact C1 | unfold TWO32, P in *; lia]).
    rewrite E0, E1. rewrite <- E. split.
    + apply (Z.div_unique_pos _ TWO32 vhi vlo); [exact Blo | reflexivity].
    + apply (Z.mod_unique_pos _ TWO32 vhi vlo); [exact Blo | reflexivity].
  - (* the alias r + p is excluded by the validity constraint *)
    exfalso. destruct (above_p vhi vlo Bhi Blo ltac:(lia)) as [Ehi Hlo].
    rewrite Ehi in A4. replace ((1 - m * (4294967295 - 4294967295)) * vlo) with vlo in A4 by ring.
    assert (Z0 : vlo = 0) by (apply cong_canon_eq; [exact A4 | unfold TWO32, P in *; lia | unfold P; lia]).
    lia.
Qed.
End Validity.

Ltac u32_setup e code Ha Hc :=
  open_residuals e code Ha Hc;
  cbv [helper scur snxt cur nxt STACK_COL TRACE_WIDTH HELPER_COL] in *; norm_cells e.

Theorem u32madd_sound : forall e, row_has_op e 78 -> constraints_hold e ->
  limb (helper e 0) -> limb (helper e 1) -> limb (helper e 2) -> limb (helper e 3) ->
  0 <= scur e 0 < TWO32 -> 0 <= scur e 1 < TWO32 -> 0 <= scur e 2 < TWO32 ->
  canon (snxt e 0) -> canon (snxt e 1) ->
  snxt e 0 = (scur e 0 * scur e 1 + scur e 2) / TWO32 /\
  snxt e 1 = (scur e 0 * scur e 1 + scur e 2) mod TWO32.
Proof.
  intros e Ha Hc L0 L1 L2 L3 Ba Bb Bc C0 C1.
  apply (decomposition_unique e); try assumption.
  - unfold TWO32, P in *. nia.
  - u32_setup e 78 Ha Hc. unfold TWO32. use_hyps.
  - u32_setup e 78 Ha Hc. use_hyps.
  - u32_setup e 78 Ha Hc. use_hyps.
  - u32_setup e 78 Ha Hc. use_hyps.
Qed.

Theorem u32mul_sound : forall e, row_has_op e 68 -> constraints_hold e ->
  limb (helper e 0) -> limb (helper e 1) -> limb (helper e 2) -> limb (helper e 3) ->
  0 <= scur e 0 < TWO32 -> 0 <= scur e 1 < TWO32 ->
  canon (snxt e 0) -> canon (snxt e 1) ->
  snxt e 0 = (scur e 0 * scur e 1) / TWO32 /\ snxt e 1 = (scur e 0 * scur e 1) mod TWO32.
Proof.
  intros e Ha Hc L0 L1 L2 L3 Ba Bb C0 C1.
  apply (decomposition_unique e); try assumption.
  - unfold TWO32, P in *. nia.
  - u32_setup e 68 Ha Hc. unfold TWO32. use_hyps.
  - u32_setup e 68 Ha Hc. use_hyps.
  - u32_setup e 68 Ha Hc. use_hyps.
  - u32_setup e 68 Ha Hc. use_hyps.
Qed.

Theorem u32split_sound : forall e, row_has_op e 72 -> constraints_hold e ->
  limb (helper e 0) -> limb (helper e 1) -> limb (helper e 2) -> limb (helper e 3) ->
  canon (scur e 0) -> canon (snxt e 0) -> canon (snxt e 1) ->
  snxt e 0 = scur e 0 / TWO32 /\ snxt e 1 = scur e 0 mod TWO32.
Proof.
  intros e Ha Hc L0 L1 L2 L3 Ca C0 C1.
  apply (decomposition_unique e); try assumption.
  - u32_setup e 72 Ha Hc. unfold TWO32. use_hyps.
  - u32_setup e 72 Ha Hc. use_hyps.
  - u32_setup e 72 Ha Hc. use_hyps.
  - u32_setup e 72 Ha Hc. use_hyps.
Qed.

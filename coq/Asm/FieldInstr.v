(* Field, comparison, boolean, conditional and assertion instructions against their documented
   effect and documented failures (docs/src/user_docs/assembly/field_operations.md,
   stack_manipulation.md), for every stack of canonical elements. *)
From Coq Require Import ZArith List Bool Arith Lia String.
From MV Require Import Base.Field Core.Op Core.Rpo Vm.Pure Vm.PureProps Gen.AsmGen Asm.Instr Asm.SpecDefs Asm.StackInstr.
Import ListNotations.
Open Scope Z_scope.

Ltac run_view2 :=
  cbv [vpure_ops pure_ops_gen vpure_op pure_op_gen vreplace gl gls nth skipn app seq map firstn
       List.length no_pre nz Nat.mul Nat.add Nat.sub tl hd rev bin_or].

Ltac split_ifs :=
  repeat (run_view2;
          match goal with
          | |- context [if ?c then _ else _] => destruct c eqn:?
          end).

(* a branch taken on a closed condition that evaluates the other way is impossible *)
Ltac has_var c := match c with context [?v] => is_var v end.
Ltac kill_const :=
  match goal with
  | H : ?c = true |- _ => tryif has_var c then fail else (exfalso; vm_compute in H; discriminate H)
  | H : ?c = false |- _ => tryif has_var c then fail else (exfalso; vm_compute in H; discriminate H)
  end.

Ltac close_leaf alg :=
  run_view2; try kill_const;
  lazymatch goal with
  | |- PErr _ = PErr _ => first [reflexivity | congruence]
  | |- exists _, POk _ = POk _ /\ _ =>
      eexists; split; [reflexivity|];
      repeat (apply stack_eq_cons; [first [reflexivity | alg]|]); apply stack_eq_refl
  | |- _ => exfalso; alg
  end.

Ltac solve_instr alg :=
  norm_ops; apply instr_by_view; [vm_compute; reflexivity|];
  intros l Hl Hc; d16 l Hl; canon16 Hc; split_ifs; close_leaf alg.

Ltac bool_contra :=
  repeat match goal with
         | H : negb _ = true |- _ => apply negb_true_iff in H
         | H : negb _ = false |- _ => apply negb_false_iff in H
         end; congruence.

(* ---- field lemmas ----------------------------------------------------------------------- *)
Lemma fsub_as_add a b : fadd a (fneg b) = fsub a b.
Proof. unfold fadd, fneg, fsub. rewrite Zplus_mod_idemp_r. reflexivity. Qed.

Lemma is_bin_cases v : is_bin v = true -> v = 0 \/ v = 1.
Proof. unfold is_bin. rewrite orb_true_iff, !Z.eqb_eq. tauto. Qed.

(* ---- arithmetic -------------------------------------------------------------------------- *)
Theorem add_ok : instr_spec (ops_of "add") 2 no_pre (fun xs => [fadd (nz xs 1) (nz xs 0)]).
Proof. solve_instr idtac. Qed.
Theorem sub_ok : instr_spec (ops_of "sub") 2 no_pre (fun xs => [fsub (nz xs 1) (nz xs 0)]).
Proof. solve_instr ltac:(apply fsub_as_add). Qed.
Theorem mul_ok : instr_spec (ops_of "mul") 2 no_pre (fun xs => [fmul (nz xs 1) (nz xs 0)]).
Proof. solve_instr idtac. Qed.
Theorem div_ok : instr_spec (ops_of "div") 2
    (fun xs => if nz xs 0 =? 0 then Some PDivZero else None)
    (fun xs => [fmul (nz xs 1) (finv (nz xs 0))]).
Proof. solve_instr idtac. Qed.
Theorem neg_ok : instr_spec (ops_of "neg") 1 no_pre (fun xs => [fneg (nz xs 0)]).
Proof. solve_instr idtac. Qed.
Theorem inv_ok : instr_spec (ops_of "inv") 1
    (fun xs => if nz xs 0 =? 0 then Some PDivZero else None) (fun xs => [finv (nz xs 0)]).
Proof. solve_instr idtac. Qed.

(* ---- boolean ------------------------------------------------------------------------------ *)
Theorem not_ok : instr_spec (ops_of "not") 1 (fun xs => bin_or (nz xs 0) None)
    (fun xs => [fsub 1 (nz xs 0)]).
Proof. solve_instr idtac. Qed.
Theorem and_ok : instr_spec (ops_of "and") 2 (fun xs => bin_or (nz xs 0) (bin_or (nz xs 1) None))
    (fun xs => [if (nz xs 1 =? 1) && (nz xs 0 =? 1) then 1 else 0]).
Proof. solve_instr idtac. Qed.
Theorem or_ok : instr_spec (ops_of "or") 2 (fun xs => bin_or (nz xs 0) (bin_or (nz xs 1) None))
    (fun xs => [if (nz xs 1 =? 1) || (nz xs 0 =? 1) then 1 else 0]).
Proof. solve_instr idtac. Qed.

(* ---- comparison ----------------------------------------------------------------------------- *)
Theorem eq_ok : instr_spec (ops_of "eq") 2 no_pre (fun xs => [if nz xs 1 =? nz xs 0 then 1 else 0]).
Proof. solve_instr idtac. Qed.

(* ---- assertions -------------------------------------------------------------------------- *)
Theorem assert_ok : instr_spec (ops_of "assert") 1
    (fun xs => if nz xs 0 =? 1 then None else Some (PAssert 0)) (fun _ => []).
Proof. solve_instr idtac. Qed.
Theorem assertz_ok : instr_spec (ops_of "assertz") 1
    (fun xs => if nz xs 0 =? 0 then None else Some (PAssert 0)) (fun _ => []).
Proof. solve_instr ltac:(try lia; try congruence). Qed.
Theorem assert_eq_ok : instr_spec (ops_of "assert_eq") 2
    (fun xs => if nz xs 1 =? nz xs 0 then None else Some (PAssert 0)) (fun _ => []).
Proof. solve_instr ltac:(try lia; try congruence). Qed.

(* ---- conditional stack manipulation ---------------------------------------------------------- *)
Theorem cswap_ok : instr_spec (ops_of "cswap") 3 (fun xs => cond_pre (nz xs 0))
    (fun xs => if nz xs 0 =? 0 then [nz xs 1; nz xs 2] else [nz xs 2; nz xs 1]).
Proof. unfold cond_pre. solve_instr idtac. Qed.
Theorem cdrop_ok : instr_spec (ops_of "cdrop") 3 (fun xs => cond_pre (nz xs 0))
    (fun xs => if nz xs 0 =? 0 then [nz xs 2] else [nz xs 1]).
Proof. unfold cond_pre. solve_instr idtac. Qed.
Theorem cswapw_ok : instr_spec (ops_of "cswapw") 9 (fun xs => cond_pre (nz xs 0))
    (fun xs => if nz xs 0 =? 0 then firstn 8 (skipn 1 xs)
               else (firstn 4 (skipn 5 xs) ++ firstn 4 (skipn 1 xs))%list).
Proof. unfold cond_pre. solve_instr idtac. Qed.
Theorem cdropw_ok : instr_spec (ops_of "cdropw") 9 (fun xs => cond_pre (nz xs 0))
    (fun xs => if nz xs 0 =? 0 then firstn 4 (skipn 5 xs) else firstn 4 (skipn 1 xs)).
Proof. unfold cond_pre. solve_instr idtac. Qed.

(* Instructions that take a nondeterministic hint from the advice stack: definitions.
   The hint is an arbitrary canonical field element (whatever a host returns); the statements say
   that every successful run leaves the mathematically defined result (soundness), and that the
   honest hint succeeds (completeness). *)
From Coq Require Import ZArith List Bool Arith Lia String.
From MV Require Import Base.Field Core.Op Core.Rpo Vm.Pure Vm.PureProps Gen.AsmGen Asm.Instr Asm.SpecDefs.
Import ListNotations.
Open Scope Z_scope.

(* the op list with its advice pops replaced by the values popped *)
Fixpoint hinted (ops : list op) (hs : list Z) : list op :=
  match ops with
  | [] => []
  | AdvPop :: r => match hs with h :: t => Push h :: hinted r t | [] => AdvPop :: r end
  | o :: r => o :: hinted r hs
  end.

Fixpoint count_advpop (ops : list op) : nat :=
  match ops with [] => O | AdvPop :: r => S (count_advpop r) | _ :: r => count_advpop r end.

Definition hint_sound (ops : list op) (k : nat) (guard : list Z -> bool) (f : list Z -> list Z) : Prop :=
  forall hs, List.length hs = count_advpop ops -> Forall canon hs ->
  forall l, (16 <= List.length l)%nat -> all_canon l -> guard (firstn k l) = true ->
  forall l', pure_ops (hinted ops hs) l = POk l' ->
    stack_eq l' (f (firstn k l) ++ skipn k l) /\ (16 <= List.length l')%nat.

Definition hint_complete (ops : list op) (k : nat) (guard : list Z -> bool)
           (honest : list Z -> list Z) (f : list Z -> list Z) : Prop :=
  forall l, (16 <= List.length l)%nat -> all_canon l -> guard (firstn k l) = true ->
  exists l', pure_ops (hinted ops (honest (firstn k l))) l = POk l' /\
             stack_eq l' (f (firstn k l) ++ skipn k l).

(* the same on the zero-extended view, with the run inside a match so that symbolic execution
   happens in the goal *)
Definition view_sound (ops : list op) (k : nat) (guard : list Z -> bool) (f : list Z -> list Z) : Prop :=
  forall l, (16 <= List.length l)%nat -> all_canon l -> guard (firstn k l) = true ->
  match vpure_ops ops l with
  | POk lv => stack_eq lv (f (firstn k l) ++ skipn k l)
  | PErr _ => True
  end.

(* mathematical definitions of the results *)
Definition clz32 (a : Z) : Z := if a =? 0 then 32 else 31 - Z.log2 a.
Fixpoint ctz_aux (fuel : nat) (a : Z) : Z :=
  match fuel with
  | O => 0
  | S f => if Z.even a then 1 + ctz_aux f (a / 2) else 0
  end.
Definition ctz32 (a : Z) : Z := if a =? 0 then 32 else ctz_aux 32 a.
Definition not32 (a : Z) : Z := 4294967295 - a.
Definition clo32 (a : Z) : Z := clz32 (not32 a).
Definition cto32 (a : Z) : Z := ctz32 (not32 a).

(* multiplication in the quadratic extension F_p[x]/(x^2 - x + 2), elements as (c0, c1) *)
Definition ext_mul (a b : Z * Z) : Z * Z :=
  let '(a0, a1) := a in let '(b0, b1) := b in
  (fsub (fmul b0 a0) (fmul (fmul 2 b1) a1),
   fsub (fmul (fadd b0 b1) (fadd a1 a0)) (fmul b0 a0)).

(* general post-condition form: every successful run satisfies Q *)
Definition view_post (ops : list op) (guard : list Z -> bool) (Q : list Z -> list Z -> Prop) : Prop :=
  forall l, (16 <= List.length l)%nat -> all_canon l -> guard l = true ->
  match vpure_ops ops l with
  | POk lv => Q l lv
  | PErr _ => True
  end.

(* Soundness and completeness of the hint-taking instructions, for EVERY hint. *)
From Coq Require Import ZArith List Bool Arith Lia String.
From MV Require Import Base.Field Core.Op Core.Rpo Vm.Pure Vm.PureProps Gen.AsmGen Asm.Instr Asm.SpecDefs
  Asm.StackInstr Asm.FieldInstr Asm.U32Instr Asm.HintDefs.
Import ListNotations.
Open Scope Z_scope.

Lemma view_to_sound ops hs k guard f :
  has_sdepth (hinted ops hs) = false ->
  view_sound (hinted ops hs) k guard f ->
  forall l, (16 <= List.length l)%nat -> all_canon l -> guard (firstn k l) = true ->
  forall l', pure_ops (hinted ops hs) l = POk l' ->
    stack_eq l' (f (firstn k l) ++ skipn k l) /\ (16 <= List.length l')%nat.
Proof.
  intros Hs Hv l Hl Hc Hg l' H. specialize (Hv l Hl Hc Hg).
  pose proof (pure_ops_sim (hinted ops hs) l l (has_sdepth_false _ Hs) (stack_eq_refl l)) as S.
  rewrite H in S. destruct (vpure_ops (hinted ops hs) l) as [lv|e]; cbn in S; [|contradiction].
  split; [eapply stack_eq_trans; eauto | eapply pure_ops_depth; eauto].
Qed.

(* ---- arithmetic behind the bit-counting checks ----------------------------------------------- *)
Lemma shiftr6 e : 0 <= e -> Z.shiftr (Z.shiftr (Z.shiftr (Z.shiftr (Z.shiftr (Z.shiftr e 1) 1) 1) 1) 1) 1 = e / 64.
Proof.
  intros He. rewrite !Z.shiftr_shiftr by lia. rewrite Z.shiftr_div_pow2 by lia. reflexivity.
Qed.

Lemma small_enum (e : Z) : 0 <= e < 64 -> exists n, (n < 64)%nat /\ e = Z.of_nat n.
Proof. intros H. exists (Z.to_nat e). split; lia. Qed.

(* a canonical h with 32 - h = e (mod p) is 32 - e (mod p) *)
Lemma hint_from_diff c h e : canon h -> fadd c (fneg h) = e -> h = fsub c e.
Proof.
  unfold canon, fadd, fneg, fsub. intros Hh He. subst e.
  rewrite Zminus_mod_idemp_r.
  replace (c - (c + - h mod P)) with (- (- h mod P)) by ring.
  destruct (Z.eq_dec h 0) as [->|Hn]; [reflexivity|].
  rewrite (Z.mod_opp_l_nz h P) by (unfold P in *; try lia; rewrite Z.mod_small by lia; lia).
  rewrite (Z.mod_small h P) by lia.
  replace (- (P - h)) with (h + (-1) * P) by ring. rewrite Z_mod_plus_full. symmetry. apply Z.mod_small. lia.
Qed.

(* masking with ones in positions e-1 .. 31 keeps the high part of a 32-bit number *)
Lemma high_bits a e :
  1 <= e <= 32 -> 0 <= a < 2 ^ 32 ->
  Z.land a (2 ^ 32 - 2 ^ e + 2 ^ (e - 1)) = a / 2 ^ (e - 1) * 2 ^ (e - 1).
Proof.
  intros He Ha.
  assert (Hm : 2 ^ 32 - 2 ^ e + 2 ^ (e - 1) = Z.shiftl (Z.ones (33 - e)) (e - 1)).
  { rewrite Z.shiftl_mul_pow2 by lia. rewrite Z.ones_equiv. rewrite Z.mul_pred_l.
    rewrite <- Z.pow_add_r by lia. replace (33 - e + (e - 1)) with 32 by lia.
    replace (2 ^ e) with (2 * 2 ^ (e - 1)); [lia|]. rewrite <- Z.pow_succ_r by lia. f_equal. lia. }
  rewrite Hm.
  assert (Hl : Z.land a (Z.shiftl (Z.ones (33 - e)) (e - 1)) = Z.shiftl (Z.land (Z.shiftr a (e - 1)) (Z.ones (33 - e))) (e - 1)).
  { apply Z.bits_inj'. intros n Hn. rewrite Z.land_spec.
    destruct (Z_lt_ge_dec n (e - 1)) as [Hlt|Hge].
    - rewrite !Z.shiftl_spec_low by lia. apply andb_false_r.
    - rewrite !Z.shiftl_spec by lia. rewrite Z.land_spec. rewrite Z.shiftr_spec by lia.
      replace (n - (e - 1) + (e - 1)) with n by lia. reflexivity. }
  rewrite Hl. rewrite Z.land_ones by lia.
  assert (Hq : 0 <= Z.shiftr a (e - 1) < 2 ^ (33 - e)).
  { rewrite Z.shiftr_div_pow2 by lia. split; [apply Z.div_pos; lia|].
    apply Z.div_lt_upper_bound; [lia|]. rewrite <- Z.pow_add_r by lia. replace (e - 1 + (33 - e)) with 32 by lia. lia. }
  rewrite Z.mod_small by exact Hq.
  rewrite Z.shiftl_mul_pow2, Z.shiftr_div_pow2 by lia. reflexivity.
Qed.

Lemma pow2_double e : 1 <= e -> 2 ^ e = 2 * 2 ^ (e - 1).
Proof. intros He. rewrite <- Z.pow_succ_r by lia. f_equal. lia. Qed.

(* the masked comparison that pins down the position of the leading one *)
Lemma leading_one a e :
  1 <= e <= 32 -> 0 <= a < 2 ^ 32 ->
  Z.land a (2 ^ 32 - 2 ^ e + 2 ^ (e - 1)) = 2 ^ (e - 1) -> 2 ^ (e - 1) <= a < 2 ^ e.
Proof.
  intros He Ha H. rewrite high_bits in H by assumption.
  assert (Hp : 0 < 2 ^ (e - 1)) by (apply Z.pow_pos_nonneg; lia).
  assert (Hone : a / 2 ^ (e - 1) = 1) by nia.
  pose proof (Z.div_mod a (2 ^ (e - 1)) ltac:(lia)) as Hd. rewrite Hone in Hd.
  pose proof (Z.mod_pos_bound a (2 ^ (e - 1)) Hp). rewrite (pow2_double e) by lia. lia.
Qed.

(* ... and of the leading zero *)
Lemma leading_zero a e :
  1 <= e <= 32 -> 0 <= a < 2 ^ 32 ->
  Z.land a (2 ^ 32 - 2 ^ e + 2 ^ (e - 1)) = 2 ^ 32 - 2 ^ e -> 2 ^ 32 - 2 ^ e <= a < 2 ^ 32 - 2 ^ (e - 1).
Proof.
  intros He Ha H. rewrite high_bits in H by assumption.
  assert (Hp : 0 < 2 ^ (e - 1)) by (apply Z.pow_pos_nonneg; lia).
  assert (H32 : 2 ^ 32 = 2 ^ (33 - e) * 2 ^ (e - 1)) by (rewrite <- Z.pow_add_r by lia; f_equal; lia).
  assert (Hq : a / 2 ^ (e - 1) = 2 ^ (33 - e) - 2).
  { rewrite (pow2_double e) in H by lia. rewrite H32 in H. nia. }
  pose proof (Z.div_mod a (2 ^ (e - 1)) ltac:(lia)) as Hd. rewrite Hq in Hd.
  pose proof (Z.mod_pos_bound a (2 ^ (e - 1)) Hp). rewrite (pow2_double e) by lia. rewrite H32. nia.
Qed.

Lemma clz32_of_range a e : 1 <= e <= 32 -> 2 ^ (e - 1) <= a < 2 ^ e -> clz32 a = 32 - e.
Proof.
  intros He Ha. unfold clz32. assert (0 < a) by (pose proof (Z.pow_pos_nonneg 2 (e - 1)); lia).
  destruct (a =? 0) eqn:E; [apply Z.eqb_eq in E; lia|].
  rewrite (Z.log2_unique a (e - 1)); [lia | lia |]. replace (Z.succ (e - 1)) with e by lia. exact Ha.
Qed.

Lemma clo32_of_range a e :
  1 <= e <= 32 -> 2 ^ 32 - 2 ^ e <= a < 2 ^ 32 - 2 ^ (e - 1) -> clo32 a = 32 - e.
Proof.
  intros He Ha. unfold clo32, not32. apply clz32_of_range; [exact He|].
  change 4294967295 with (2 ^ 32 - 1). lia.
Qed.

(* trailing zeros: a is an odd multiple of 2^n *)
Lemma ctz_aux_spec : forall n f a, (n < f)%nat -> 0 <= a ->
  a mod 2 ^ (Z.of_nat n + 1) = 2 ^ Z.of_nat n -> ctz_aux f a = Z.of_nat n.
Proof.
  induction n as [|n IH]; intros f a Hf Ha H; destruct f as [|f]; try lia; cbn [ctz_aux].
  - cbn in H. rewrite Zeven_mod. change (2 ^ 1) with 2 in H. rewrite H. reflexivity.
  - assert (Hp : 0 < 2 ^ (Z.of_nat n + 1)) by (apply Z.pow_pos_nonneg; lia).
    replace (Z.of_nat (S n) + 1) with (Z.succ (Z.of_nat n + 1)) in H by lia.
    rewrite Z.pow_succ_r in H by lia. rewrite Z.rem_mul_r in H by lia.
    replace (Z.of_nat (S n)) with (Z.succ (Z.of_nat n)) in H by lia. rewrite Z.pow_succ_r in H by lia.
    pose proof (Z.mod_pos_bound a 2 ltac:(lia)) as Hb.
    pose proof (Z.mod_pos_bound (a / 2) (2 ^ (Z.of_nat n + 1)) Hp) as Hb2.
    assert (Hpn : 0 < 2 ^ Z.of_nat n) by (apply Z.pow_pos_nonneg; lia).
    assert (H0 : a mod 2 = 0) by lia.
    rewrite Zeven_mod, H0. change (Zeq_bool 0 0) with true. cbv iota.
    assert (Hr : (a / 2) mod 2 ^ (Z.of_nat n + 1) = 2 ^ Z.of_nat n) by lia.
    rewrite (IH f (a / 2)); [| lia | apply Z.div_pos; lia | exact Hr].
    rewrite Nat2Z.inj_succ. lia.
Qed.

Lemma ctz32_of_mod a n : 0 <= n < 32 -> 0 <= a -> a mod 2 ^ (n + 1) = 2 ^ n -> ctz32 a = n.
Proof.
  intros Hn Ha H. unfold ctz32.
  destruct (a =? 0) eqn:E.
  - apply Z.eqb_eq in E. subst a. rewrite Z.mod_0_l in H by (apply Z.pow_nonzero; lia).
    pose proof (Z.pow_pos_nonneg 2 n). lia.
  - rewrite <- (Z2Nat.id n) by lia. apply ctz_aux_spec; [lia | exact Ha | rewrite Z2Nat.id by lia; exact H].
Qed.

Lemma mod_complement a n : 0 <= n < 32 -> 0 <= a < 2 ^ 32 ->
  (4294967295 - a) mod 2 ^ (n + 1) = 2 ^ (n + 1) - 1 - a mod 2 ^ (n + 1).
Proof.
  intros Hn Ha. set (m := 2 ^ (n + 1)).
  assert (Hm : 0 < m) by (apply Z.pow_pos_nonneg; lia).
  assert (H32 : 2 ^ 32 = 2 ^ (31 - n) * m) by (unfold m; rewrite <- Z.pow_add_r by lia; f_equal; lia).
  pose proof (Z.div_mod a m ltac:(lia)) as Hd. pose proof (Z.mod_pos_bound a m Hm) as Hb.
  symmetry. apply (Z.mod_unique_pos _ _ (2 ^ (31 - n) - 1 - a / m)); [lia|].
  change 4294967295 with (2 ^ 32 - 1). rewrite H32. nia.
Qed.

Lemma cto32_of_mod a n : 0 <= n < 32 -> 0 <= a < 2 ^ 32 -> a mod 2 ^ (n + 1) = 2 ^ n - 1 -> cto32 a = n.
Proof.
  intros Hn Ha H. unfold cto32, not32. apply ctz32_of_mod; [exact Hn | change 4294967295 with (2 ^ 32 - 1); lia |].
  rewrite mod_complement by assumption. rewrite H.
  replace (n + 1) with (Z.succ n) by lia. rewrite Z.pow_succ_r by lia. lia.
Qed.

(* ---- symbolic execution helpers ----------------------------------------------------------------- *)
(* replace closed arithmetic subterms of a hypothesis by their values *)
Ltac norm1 H t := tryif has_var t then fail else (let v := eval vm_compute in t in progress change t with v in H).
Ltac norm_closed H :=
  repeat match type of H with
         | context [fadd ?a ?b] => norm1 H (fadd a b)
         | context [fsub ?a ?b] => norm1 H (fsub a b)
         | context [fmul ?a ?b] => norm1 H (fmul a b)
         | context [fneg ?a] => norm1 H (fneg a)
         | context [Z.shiftr ?a ?b] => norm1 H (Z.shiftr a b)
         | context [Z.land ?a ?b] => norm1 H (Z.land a b)
         | context [?a - ?b] => norm1 H (a - b)
         | context [?a / ?b] => norm1 H (a / b)
         | context [?a * ?b] => norm1 H (a * b)
         | context [?a =? ?b] => norm1 H (a =? b)
         | context [if true then ?a else ?b] => change (if true then a else b) with a in H
         | context [if false then ?a else ?b] => change (if false then a else b) with b in H
         | context [lo32 ?a] => norm1 H (lo32 a)
         | context [hi32 ?a] => norm1 H (hi32 a)
         | context [u32max_ok ?a] => norm1 H (u32max_ok a)
         | context [negb ?a] => norm1 H (negb a)
         end.
Ltac norm_all :=
  repeat match goal with
         | H : _ = true |- _ => progress norm_closed H
         | H : _ = false |- _ => progress norm_closed H
         end.

(* the final masked comparison of a run that succeeded, as an equation on the operand *)
Ltac land_eq EE :=
  match goal with
  | H : ((if ?b =? Z.land ?m ?z then 1 else 0) =? 1) = true |- _ =>
      destruct (b =? Z.land m z) eqn:EE; [|discriminate H]; apply Z.eqb_eq in EE; symmetry in EE;
      first [ is_var m | rewrite Z.land_comm in EE ]
  | H : ((if Z.land ?m ?z =? ?b then 1 else 0) =? 1) = true |- _ =>
      destruct (Z.land m z =? b) eqn:EE; [|discriminate H]; apply Z.eqb_eq in EE;
      first [ is_var m | rewrite Z.land_comm in EE ]
  | H : (?b =? Z.land ?m ?z) = true |- _ =>
      pose proof H as EE; apply Z.eqb_eq in EE; symmetry in EE; first [ is_var m | rewrite Z.land_comm in EE ]
  | H : (Z.land ?m ?z =? ?b) = true |- _ =>
      pose proof H as EE; apply Z.eqb_eq in EE; first [ is_var m | rewrite Z.land_comm in EE ]
  end.

Local Open Scope string_scope.

(* ---- u32clz --------------------------------------------------------------------------------------- *)
(* the exponent test: 32 - hint must be a 6-bit number *)
Ltac exponent_fails e He :=
  run_view2; rewrite <- ?He; rewrite shiftr6 by lia;
  replace (e / 64 =? 0)%Z with false
    by (symmetry; apply Z.eqb_neq; intros Q; apply Z.div_small_iff in Q; lia);
  change (0 =? 1)%Z with false; cbv beta iota; exact I.

(* common skeleton: [e] is the exponent the routine feeds to the EXPACC chain; it must be below
   64, and every value below 64 determines the hint, so 64 concrete runs remain, each with the
   operand symbolic.  [leaf ez] finishes a surviving run given the masked comparison EE. *)
Ltac hint_cases nm c hh Hh leaf :=
  let o := eval vm_compute in (ops_of nm) in change (ops_of nm) with o;
  cbn [hinted];
  intros l Hl Hc Hg; d16 l Hl; canon16 Hc; cbv [g1 nz nth firstn] in Hg; guard_facts;
      remember (fadd c (fneg hh)) as e eqn:He;
      assert (He0 : 0 <= e < P) by (subst e; unfold fadd; apply Z.mod_pos_bound; unfold P; lia);
      destruct (Z_lt_ge_dec e 64) as [Hlt|Hge]; [|exponent_fails e He];
      destruct (small_enum e ltac:(lia)) as [n [Hn Hen]];
      pose proof (hint_from_diff c hh e Hh (eq_sym He)) as Hh'; rewrite Hen in Hh'; clear He He0 Hlt Hen e;
      do 64 (destruct n as [|n];
        [ match goal with Hn' : (?k < 64)%nat |- _ =>
            let ez := eval vm_compute in (Z.of_nat k) in
            vm_compute in Hh'; subst hh; split_ifs; try exact I; norm_all; try discriminate;
            let EE := fresh "EE" in
            land_eq EE;
            first [ rewrite Z.land_0_r in EE; discriminate EE
                  | apply stack_eq_cons; [|apply stack_eq_refl]; symmetry; leaf ez EE ]
          end |]);
      exfalso; lia.

(* the operand is pinned down when the mask is all ones *)
Ltac all_ones EE :=
  change 4294967295 with (Z.ones 32) in EE; rewrite Z.land_ones in EE by lia;
  unfold TWO32 in *; rewrite Z.mod_small in EE by (unfold canon in *; lia); subst; vm_compute; reflexivity.

Ltac u32_bound := unfold TWO32, canon in *; lia.

Theorem u32clz_view : forall h, canon h ->
  view_sound (hinted (ops_of "u32clz") [h]) 1 g1 (fun xs => [clz32 (nz xs 0)]).
Proof.
  intros h Hh.
  hint_cases "u32clz" 32 h Hh
    ltac:(fun ez EE => first [ all_ones EE
                          | rewrite (clz32_of_range _ ez); [reflexivity | lia |];
                            apply leading_one; [lia | u32_bound | exact EE] ]).
Qed.

Theorem u32clo_view : forall h, canon h ->
  view_sound (hinted (ops_of "u32clo") [h]) 1 g1 (fun xs => [clo32 (nz xs 0)]).
Proof.
  intros h Hh.
  hint_cases "u32clo" 32 h Hh
    ltac:(fun ez EE => first [ all_ones EE
                          | rewrite (clo32_of_range _ ez); [reflexivity | lia |];
                            apply leading_zero; [lia | u32_bound | exact EE] ]).
Qed.

(* the same skeleton when the hint itself is the exponent *)
Ltac exponent_fails_direct hh :=
  run_view2; rewrite shiftr6 by (unfold canon in *; lia);
  replace (hh / 64 =? 0)%Z with false
    by (symmetry; apply Z.eqb_neq; intros Q; apply Z.div_small_iff in Q; unfold canon in *; lia);
  change (0 =? 1)%Z with false; cbv beta iota; exact I.

Ltac hint_cases_direct nm hh Hh leaf :=
  let o := eval vm_compute in (ops_of nm) in change (ops_of nm) with o;
  cbn [hinted];
  intros l Hl Hc Hg; d16 l Hl; canon16 Hc; cbv [g1 nz nth firstn] in Hg; guard_facts;
  destruct (Z_lt_ge_dec hh 64) as [Hlt|Hge]; [|exponent_fails_direct hh];
  destruct (small_enum hh ltac:(unfold canon in *; lia)) as [n [Hn Hen]];
  do 64 (destruct n as [|n];
    [ match goal with Hn' : (?k < 64)%nat |- _ =>
        let ez := eval vm_compute in (Z.of_nat k) in
        vm_compute in Hen; subst hh; split_ifs; try exact I; norm_all; try discriminate;
        let EE := fresh "EE" in
        land_eq EE;
        first [ rewrite Z.land_0_r in EE; discriminate EE
              | apply stack_eq_cons; [|apply stack_eq_refl]; symmetry; leaf ez EE ]
      end |]);
  exfalso; lia.

Ltac mod_of_land EE := rewrite <- Z.land_ones by lia; exact EE.

Theorem u32ctz_view : forall h, canon h ->
  view_sound (hinted (ops_of "u32ctz") [h]) 1 g1 (fun xs => [ctz32 (nz xs 0)]).
Proof.
  intros h Hh.
  hint_cases_direct "u32ctz" h Hh
    ltac:(fun ez EE => first [ all_ones EE
                             | rewrite (ctz32_of_mod _ ez); [reflexivity | lia | u32_bound | mod_of_land EE] ]).
Qed.

Theorem u32cto_view : forall h, canon h ->
  view_sound (hinted (ops_of "u32cto") [h]) 1 g1 (fun xs => [cto32 (nz xs 0)]).
Proof.
  intros h Hh.
  hint_cases_direct "u32cto" h Hh
    ltac:(fun ez EE => first [ all_ones EE
                             | rewrite (cto32_of_mod _ ez); [reflexivity | lia | u32_bound | mod_of_land EE] ]).
Qed.

(* ---- ext2inv / ext2div: the hinted element is checked to be an inverse --------------------------- *)
(* a = (a0, a1) with a1 on top; the run leaves b = (b0, b1) with b1 on top such that a * b = 1,
   and the rest of the stack as it was *)
Theorem ext2inv_view : forall h1 h2, canon h1 -> canon h2 ->
  view_post (hinted (ops_of "ext2inv") [h1; h2]) (fun _ => true)
    (fun l lv => ext_mul (nz l 1, nz l 0) (nz lv 1, nz lv 0) = (1, 0) /\ stack_eq (skipn 2 lv) (skipn 2 l)).
Proof.
  intros h1 h2 H1 H2.
  let o := eval vm_compute in (ops_of "ext2inv") in change (ops_of "ext2inv") with o.
  cbn [hinted]. intros l Hl Hc _; d16 l Hl; canon16 Hc.
  split_ifs; try exact I.
  cbv [nz nth skipn ext_mul].
  repeat match goal with
         | H : ((if ?c then 1 else 0) =? 1)%Z = true |- _ => destruct c eqn:?; [clear H | discriminate H]
         | H : (?a =? ?b)%Z = true |- _ => apply Z.eqb_eq in H
         end.
  split; [|apply stack_eq_refl].
  f_equal; assumption.
Qed.

Theorem ext2div_view : forall h1 h2, canon h1 -> canon h2 ->
  view_post (hinted (ops_of "ext2div") [h1; h2]) (fun _ => true)
    (fun l lv => exists b0 b1, ext_mul (nz l 1, nz l 0) (b0, b1) = (1, 0) /\
                               (nz lv 1, nz lv 0) = ext_mul (nz l 3, nz l 2) (b0, b1) /\
                               stack_eq (skipn 2 lv) (skipn 4 l)).
Proof.
  intros h1 h2 H1 H2.
  let o := eval vm_compute in (ops_of "ext2div") in change (ops_of "ext2div") with o.
  cbn [hinted]. intros l Hl Hc _; d16 l Hl; canon16 Hc.
  split_ifs; try exact I.
  cbv [nz nth skipn ext_mul].
  repeat match goal with
         | H : ((if ?c then 1 else 0) =? 1)%Z = true |- _ => destruct c eqn:?; [clear H | discriminate H]
         | H : (?a =? ?b)%Z = true |- _ => apply Z.eqb_eq in H
         end.
  exists h1, h2. split; [f_equal; assumption|]. split; [reflexivity | apply stack_eq_refl].
Qed.

(* ---- from the view to the real stack, for every hint list of the right length -------------------- *)
Lemma hinted_sdepth ops : forall hs, has_sdepth ops = false -> has_sdepth (hinted ops hs) = false.
Proof.
  induction ops as [|o ops IH]; intros hs H; [reflexivity|].
  destruct o; cbn [hinted has_sdepth] in *; try (apply IH; exact H); try discriminate H.
  destruct hs as [|h t]; cbn [has_sdepth]; [exact H | apply IH; exact H].
Qed.

Lemma sound_of_view1 ops k guard f :
  count_advpop ops = 1%nat -> has_sdepth ops = false ->
  (forall h, canon h -> view_sound (hinted ops [h]) k guard f) -> hint_sound ops k guard f.
Proof.
  intros Hc Hs Hv hs Hlen Hcan l Hl Hcl Hg l' H.
  rewrite Hc in Hlen. destruct hs as [|h [|h2 t]]; try discriminate Hlen.
  inversion Hcan as [|? ? Hh _]; subst.
  eapply view_to_sound; eauto. apply hinted_sdepth. exact Hs.
Qed.

Theorem u32clz_sound : hint_sound (ops_of "u32clz") 1 g1 (fun xs => [clz32 (nz xs 0)]).
Proof. apply sound_of_view1; [vm_compute; reflexivity | vm_compute; reflexivity | exact u32clz_view]. Qed.
Theorem u32clo_sound : hint_sound (ops_of "u32clo") 1 g1 (fun xs => [clo32 (nz xs 0)]).
Proof. apply sound_of_view1; [vm_compute; reflexivity | vm_compute; reflexivity | exact u32clo_view]. Qed.
Theorem u32ctz_sound : hint_sound (ops_of "u32ctz") 1 g1 (fun xs => [ctz32 (nz xs 0)]).
Proof. apply sound_of_view1; [vm_compute; reflexivity | vm_compute; reflexivity | exact u32ctz_view]. Qed.
Theorem u32cto_sound : hint_sound (ops_of "u32cto") 1 g1 (fun xs => [cto32 (nz xs 0)]).
Proof. apply sound_of_view1; [vm_compute; reflexivity | vm_compute; reflexivity | exact u32cto_view]. Qed.

(* the specifications are the usual bit counts: non-vacuity on a few values *)
Example bit_counts :
  clz32 1 = 31 /\ clz32 0 = 32 /\ clz32 4294967295 = 0 /\ ctz32 8 = 3 /\ ctz32 0 = 32 /\ ctz32 2147483648 = 31 /\
  clo32 4294967295 = 32 /\ clo32 4026531840 = 4 /\ cto32 7 = 3 /\ cto32 0 = 0.
Proof. vm_compute. repeat split; reflexivity. Qed.

(* ---- ilog2 ---------------------------------------------------------------------------------------- *)
Lemma limbs z : canon z ->
  z = hi32 z * 2 ^ 32 + lo32 z /\ 0 <= lo32 z < 2 ^ 32 /\ 0 <= hi32 z < 2 ^ 32.
Proof.
  unfold canon, P. intros Hz. rewrite hi32_div, lo32_mod. unfold TWO32.
  change (2 ^ 32) with 4294967296.
  pose proof (Z.div_mod z 4294967296 ltac:(lia)). pose proof (Z.mod_pos_bound z 4294967296 ltac:(lia)).
  split; [lia|]. split; [lia|]. split; [apply Z.div_pos; lia | apply Z.div_lt_upper_bound; lia].
Qed.

Lemma ilog2_low z h : canon z -> 0 <= h < 32 -> fmul (hi32 z) 1 = 0 ->
  Z.land (2 ^ 32 - 2 ^ h) (lo32 z) = 2 ^ h -> Z.log2 z = h.
Proof.
  intros Hz Hh Hhi Hl. destruct (limbs z Hz) as [Hd [Hlo Hhi32]].
  unfold fmul in Hhi. rewrite Z.mul_1_r, Z.mod_small in Hhi by (unfold P; change (2 ^ 32) with 4294967296 in *; lia).
  rewrite Z.land_comm in Hl.
  assert (Hr : 2 ^ (h + 1 - 1) <= lo32 z < 2 ^ (h + 1)).
  { apply leading_one; [lia | exact Hlo |].
    replace (h + 1 - 1) with h by lia. rewrite (pow2_double (h + 1)) by lia. replace (h + 1 - 1) with h by lia.
    replace (2 ^ 32 - 2 * 2 ^ h + 2 ^ h) with (2 ^ 32 - 2 ^ h) by lia. exact Hl. }
  replace (h + 1 - 1) with h in Hr by lia.
  rewrite Hhi in Hd. apply Z.log2_unique; [lia|]. replace (Z.succ h) with (h + 1) by lia. lia.
Qed.

Lemma ilog2_high z h : canon z -> 32 <= h < 64 ->
  Z.land (2 ^ 32 - 2 ^ (h - 32)) (hi32 z) = 2 ^ (h - 32) -> Z.log2 z = h.
Proof.
  intros Hz Hh Hl. destruct (limbs z Hz) as [Hd [Hlo Hhi32]].
  rewrite Z.land_comm in Hl. set (k := h - 32) in *.
  assert (Hr : 2 ^ (k + 1 - 1) <= hi32 z < 2 ^ (k + 1)).
  { apply leading_one; [lia | exact Hhi32 |].
    replace (k + 1 - 1) with k by lia. rewrite (pow2_double (k + 1)) by lia. replace (k + 1 - 1) with k by lia.
    replace (2 ^ 32 - 2 * 2 ^ k + 2 ^ k) with (2 ^ 32 - 2 ^ k) by lia. exact Hl. }
  replace (k + 1 - 1) with k in Hr by lia.
  assert (Hp : 2 ^ h = 2 ^ k * 2 ^ 32) by (rewrite <- Z.pow_add_r by lia; f_equal; lia).
  assert (Hp1 : 2 ^ (h + 1) = 2 ^ (k + 1) * 2 ^ 32) by (rewrite <- Z.pow_add_r by lia; f_equal; lia).
  apply Z.log2_unique; [lia|]. replace (Z.succ h) with (h + 1) by lia. rewrite Hp, Hp1. nia.
Qed.

(* extract [b = Z.land m x] from the final comparison of a surviving run *)
Ltac land_eq2 EE :=
  match goal with
  | H : ((if ?b =? Z.land ?m ?x then 1 else 0) =? 1)%Z = true |- _ =>
      destruct (b =? Z.land m x)%Z eqn:EE; [|discriminate H]; apply Z.eqb_eq in EE; symmetry in EE
  | H : (?b =? Z.land ?m ?x)%Z = true |- _ => pose proof H as EE; apply Z.eqb_eq in EE; symmetry in EE
  end.
Ltac zero_eq ZZ :=
  match goal with
  | H : ((if fmul ?a ?b =? 0 then 1 else 0) =? 1)%Z = true |- _ =>
      destruct (fmul a b =? 0)%Z eqn:ZZ; [|discriminate H]; apply Z.eqb_eq in ZZ
  | H : (fmul ?a ?b =? 0)%Z = true |- _ => pose proof H as ZZ; apply Z.eqb_eq in ZZ
  end.

Theorem ilog2_view : forall h, canon h ->
  view_sound (hinted (ops_of "ilog2") [h]) 1 (fun _ => true) (fun xs => [Z.log2 (nz xs 0)]).
Proof.
  intros h Hh.
  let o := eval vm_compute in (ops_of "ilog2") in change (ops_of "ilog2") with o.
  cbn [hinted].
  intros l Hl Hc _; d16 l Hl; canon16 Hc.
  destruct (Z_lt_ge_dec h 64) as [Hlt|Hge]; [|exponent_fails_direct h].
  destruct (small_enum h ltac:(unfold canon in *; lia)) as [n [Hn Hen]].
  do 64 (destruct n as [|n];
    [ match goal with Hn' : (?k < 64)%nat |- _ =>
        let ez := eval vm_compute in (Z.of_nat k) in
        vm_compute in Hen; subst h; split_ifs; try exact I; norm_all; try discriminate;
        let EE := fresh "EE" in let ZZ := fresh "ZZ" in
        land_eq2 EE; zero_eq ZZ;
        apply stack_eq_cons; [|apply stack_eq_refl]; symmetry;
        first [ apply (ilog2_low _ ez); [assumption | lia | exact ZZ | exact EE]
              | apply (ilog2_high _ ez); [assumption | lia | exact EE] ]
      end |]).
  exfalso; lia.
Qed.

Theorem ilog2_sound : hint_sound (ops_of "ilog2") 1 (fun _ => true) (fun xs => [Z.log2 (nz xs 0)]).
Proof. apply sound_of_view1; [vm_compute; reflexivity | vm_compute; reflexivity | exact ilog2_view]. Qed.

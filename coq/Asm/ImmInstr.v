(* Instructions with an immediate operand from an unbounded domain: the assembler's expansion as
   a function of the immediate (transcribed from assembly/src/assembler/instruction/*.rs), checked
   against the real assembler on the generated grid, and proved against the documented effect for
   EVERY immediate. *)
From Coq Require Import ZArith List Bool Arith Lia String DecimalString.
From MV Require Import Base.Field Core.Op Core.Rpo Vm.Pure Vm.PureProps Gen.AsmGen Asm.Instr
  Asm.SpecDefs Asm.StackInstr Asm.FieldInstr Asm.U32Instr.
Import ListNotations.
Open Scope Z_scope.

Definition opt_ops_eqb (a b : option (list op)) : bool :=
  match a, b with
  | Some x, Some y => (List.length x =? List.length y)%nat &&
                      forallb (fun p => (opcode (fst p) =? opcode (snd p)) &&
                                        match imm_value (fst p), imm_value (snd p) with
                                        | Some u, Some w => u =? w
                                        | None, None => true
                                        | _, _ => false
                                        end) (combine x y)
  | None, None => true
  | _, _ => false
  end.

Definition row (name : string) (v : Z) : option (list op) :=
  match lookup (name ++ "." ++ zstr v)%string asm_table with
  | Some r => r
  | None => Some []    (* not in the generated grid *)
  end.
Definition in_grid (name : string) (v : Z) : bool :=
  match lookup (name ++ "." ++ zstr v)%string asm_table with Some _ => true | None => false end.

Definition felt_grid : list Z :=
  [0; 1; 2; 3; 7; 255; 65536; 2147483648; 4294967295; 4294967296; 18446744069414584320;
   4294967297; 1234567891011].
Definition u32_grid : list Z := [0; 1; 2; 3; 7; 255; 65536; 2147483648; 4294967295].

Definition check (name : string) (c : Z -> option (list op)) (grid : list Z) : bool :=
  forallb (fun v => in_grid name v && opt_ops_eqb (c v) (row name v)) grid.

(* the transcription agrees with the real assembler on the whole generated grid *)
Lemma imm_table_agrees :
  check "add" (fun v => Some (c_add v)) felt_grid &&
  check "sub" (fun v => Some (c_sub v)) felt_grid &&
  check "mul" (fun v => Some (c_mul v)) felt_grid &&
  check "div" c_div felt_grid &&
  check "eq" (fun v => Some (c_eq v)) felt_grid &&
  check "neq" (fun v => Some (c_neq v)) felt_grid &&
  check "push" (fun v => Some (c_push v)) felt_grid &&
  check "exp" (fun v => Some (c_exp v)) felt_grid &&
  check "u32wrapping_add" (fun v => Some (c_u32 U32add true v)) u32_grid &&
  check "u32overflowing_add" (fun v => Some (c_u32 U32add false v)) u32_grid &&
  check "u32wrapping_sub" (fun v => Some (c_u32 U32sub true v)) u32_grid &&
  check "u32overflowing_sub" (fun v => Some (c_u32 U32sub false v)) u32_grid &&
  check "u32wrapping_mul" (fun v => Some (c_u32 U32mul true v)) u32_grid &&
  check "u32overflowing_mul" (fun v => Some (c_u32 U32mul false v)) u32_grid &&
  check "u32div" (c_u32div [Drop]) u32_grid &&
  check "u32mod" (c_u32div [Swap; Drop]) u32_grid &&
  check "u32divmod" (c_u32div []) u32_grid = true.
Proof. vm_compute. reflexivity. Qed.

(* ---- semantics for every immediate ---------------------------------------------------------- *)

Ltac solve_imm alg :=
  apply instr_by_view; [reflexivity|];
  intros l Hl Hc; d16 l Hl; canon16 Hc; split_ifs; close_leaf alg.

Lemma instr_spec_ext ops k pre f g :
  (forall xs, f xs = g xs) -> instr_spec ops k pre f -> instr_spec ops k pre g.
Proof.
  intros E H l Hl Hc. specialize (H l Hl Hc). destruct (pre (firstn k l)); [exact H|].
  rewrite <- E. exact H.
Qed.

Theorem push_imm_ok : forall v, canon v -> instr_spec (c_push v) 0 no_pre (fun _ => [v]).
Proof.
  intros v Hv. unfold c_push, push_felt.
  destruct (v =? 0) eqn:E0; [apply Z.eqb_eq in E0; subst v; solve_imm idtac|].
  destruct (v =? 1) eqn:E1; [apply Z.eqb_eq in E1; subst v; solve_imm ltac:(vm_compute; reflexivity)|].
  solve_imm idtac.
Qed.

Lemma fadd_1_1 x : fadd (fadd x 1) 1 = fadd x 2.
Proof. unfold fadd. rewrite Zplus_mod_idemp_l. f_equal. lia. Qed.

Theorem add_imm_ok : forall v, canon v ->
  instr_spec (c_add v) 1 no_pre (fun xs => [fadd (nz xs 0) v]).
Proof.
  intros v Hv. unfold c_add.
  destruct (v =? 0) eqn:E0; [apply Z.eqb_eq in E0; subst v;
    solve_imm ltac:(symmetry; apply fadd_0_r; assumption)|].
  destruct (v =? 1) eqn:E1; [apply Z.eqb_eq in E1; subst v; solve_imm idtac|].
  destruct (v =? 2) eqn:E2; [apply Z.eqb_eq in E2; subst v; solve_imm ltac:(apply fadd_1_1)|].
  solve_imm idtac.
Qed.

Theorem sub_imm_ok : forall v, canon v ->
  instr_spec (c_sub v) 1 no_pre (fun xs => [fsub (nz xs 0) v]).
Proof.
  intros v Hv. unfold c_sub.
  destruct (v =? 0) eqn:E0; [apply Z.eqb_eq in E0; subst v;
    solve_imm ltac:(unfold fsub, canon in *; rewrite Z.sub_0_r; symmetry; apply Z.mod_small; lia)|].
  solve_imm ltac:(apply fsub_as_add).
Qed.

Theorem mul_imm_ok : forall v, canon v ->
  instr_spec (c_mul v) 1 no_pre (fun xs => [fmul (nz xs 0) v]).
Proof.
  intros v Hv. unfold c_mul.
  destruct (v =? 0) eqn:E0; [apply Z.eqb_eq in E0; subst v;
    solve_imm ltac:(unfold fmul; rewrite Z.mul_0_r; reflexivity)|].
  destruct (v =? 1) eqn:E1; [apply Z.eqb_eq in E1; subst v;
    solve_imm ltac:(symmetry; apply fmul_1_r; assumption)|].
  solve_imm idtac.
Qed.

Theorem div_imm_ok : forall v ops, canon v -> c_div v = Some ops ->
  instr_spec ops 1 no_pre (fun xs => [fmul (nz xs 0) (finv v)]).
Proof.
  intros v ops Hv. unfold c_div.
  destruct (v =? 0) eqn:E0; [discriminate|].
  destruct (v =? 1) eqn:E1; intros H; injection H as <-.
  - apply Z.eqb_eq in E1; subst v.
    solve_imm ltac:(change (finv 1) with 1; symmetry; apply fmul_1_r; assumption).
  - solve_imm idtac.
Qed.
Theorem div_imm_zero_rejected : c_div 0 = None.
Proof. reflexivity. Qed.

Theorem eq_imm_ok : forall v, canon v ->
  instr_spec (c_eq v) 1 no_pre (fun xs => [if nz xs 0 =? v then 1 else 0]).
Proof.
  intros v Hv. unfold c_eq.
  destruct (v =? 0) eqn:E0; [apply Z.eqb_eq in E0; subst v; solve_imm idtac|].
  solve_imm idtac.
Qed.

(* Instruction-level statements: what it means for the op list the assembler emits for an
   instruction to implement a documented stack effect, on every stack. *)
From Coq Require Import ZArith List Bool Arith Lia String.
From MV Require Import Base.Field Core.Op Core.Rpo Vm.Pure Vm.PureProps Gen.AsmGen Asm.SpecDefs.
Import ListNotations.
Open Scope Z_scope.

Fixpoint lookup (name : string) (t : list (string * option (list op))) : option (option (list op)) :=
  match t with
  | [] => None
  | (n, v) :: rest => if String.eqb n name then Some v else lookup name rest
  end.

(* op list the real assembler produced for this instruction text ([] if absent or rejected) *)
Definition ops_of (name : string) : list op :=
  match lookup name asm_table with Some (Some ops) => ops | _ => [] end.
Definition accepted (name : string) : bool :=
  match lookup name asm_table with Some (Some _) => true | _ => false end.
Definition rejected (name : string) : bool :=
  match lookup name asm_table with Some None => true | _ => false end.

(* [instr_spec ops k pre f]: on every stack of depth >= 16, with xs the top k elements,
   (every element a canonical field element) - if [pre xs = Some e] the op list fails with e and nothing else,
   - otherwise it succeeds and the resulting stack is [f xs] on top of the remaining elements
     (as zero-extended stacks: every position, also below 15), and the depth stays >= 16. *)
Definition all_canon (l : list Z) : Prop := Forall canon l.

Definition instr_spec (ops : list op) (k : nat) (pre : list Z -> option perr)
           (f : list Z -> list Z) : Prop :=
  forall l, (16 <= List.length l)%nat -> all_canon l ->
    match pre (firstn k l) with
    | Some e => pure_ops ops l = PErr e
    | None => exists l', pure_ops ops l = POk l' /\
                         stack_eq l' (f (firstn k l) ++ skipn k l) /\ (16 <= List.length l')%nat
    end.

(* the same under a guard on the operands: used where the documentation says the result is
   undefined outside the guard (e.g. unchecked u32 operations on values >= 2^32) *)
Definition instr_spec_g (ops : list op) (k : nat) (guard : list Z -> bool)
           (pre : list Z -> option perr) (f : list Z -> list Z) : Prop :=
  forall l, (16 <= List.length l)%nat -> all_canon l -> guard (firstn k l) = true ->
    match pre (firstn k l) with
    | Some e => pure_ops ops l = PErr e
    | None => exists l', pure_ops ops l = POk l' /\
                         stack_eq l' (f (firstn k l) ++ skipn k l) /\ (16 <= List.length l')%nat
    end.

Definition view_spec_g (ops : list op) (k : nat) (guard : list Z -> bool)
           (pre : list Z -> option perr) (f : list Z -> list Z) : Prop :=
  forall l, (16 <= List.length l)%nat -> all_canon l -> guard (firstn k l) = true ->
    match pre (firstn k l) with
    | Some e => vpure_ops ops l = PErr e
    | None => exists lv, vpure_ops ops l = POk lv /\ stack_eq lv (f (firstn k l) ++ skipn k l)
    end.

Definition view_spec (ops : list op) (k : nat) (pre : list Z -> option perr)
           (f : list Z -> list Z) : Prop :=
  forall l, (16 <= List.length l)%nat -> all_canon l ->
    match pre (firstn k l) with
    | Some e => vpure_ops ops l = PErr e
    | None => exists lv, vpure_ops ops l = POk lv /\ stack_eq lv (f (firstn k l) ++ skipn k l)
    end.

Fixpoint has_sdepth (ops : list op) : bool :=
  match ops with
  | [] => false
  | SDepth :: _ => true
  | _ :: r => has_sdepth r
  end.

Lemma has_sdepth_false ops : has_sdepth ops = false -> ~ In SDepth ops.
Proof.
  induction ops as [|o ops IH]; intros H Hin; [exact Hin|].
  destruct Hin as [->|Hin]; [discriminate H|].
  apply IH; [destruct o; try exact H; discriminate H | exact Hin].
Qed.

Lemma instr_by_view ops k pre f :
  has_sdepth ops = false -> view_spec ops k pre f -> instr_spec ops k pre f.
Proof.
  intros Hs Hv l Hl Hc. specialize (Hv l Hl Hc).
  pose proof (pure_ops_sim ops l l (has_sdepth_false _ Hs) (stack_eq_refl l)) as S.
  destruct (pre (firstn k l)) as [e|].
  - rewrite Hv in S. destruct (pure_ops ops l) as [a|e1]; cbn in S; [contradiction | subst; reflexivity].
  - destruct Hv as [lv [Ev Hv]]. rewrite Ev in S.
    destruct (pure_ops ops l) as [a|e1] eqn:E; cbn in S; [|contradiction].
    exists a. split; [reflexivity|]. split.
    + eapply stack_eq_trans; eauto.
    + eapply pure_ops_depth; eauto.
Qed.

Lemma instr_by_view_g ops k guard pre f :
  has_sdepth ops = false -> view_spec_g ops k guard pre f -> instr_spec_g ops k guard pre f.
Proof.
  intros Hs Hv l Hl Hc Hg. specialize (Hv l Hl Hc Hg).
  pose proof (pure_ops_sim ops l l (has_sdepth_false _ Hs) (stack_eq_refl l)) as S.
  destruct (pre (firstn k l)) as [e|].
  - rewrite Hv in S. destruct (pure_ops ops l) as [a|e1]; cbn in S; [contradiction | subst; reflexivity].
  - destruct Hv as [lv [Ev Hv]]. rewrite Ev in S.
    destruct (pure_ops ops l) as [a|e1] eqn:E; cbn in S; [|contradiction].
    exists a. split; [reflexivity|]. split.
    + eapply stack_eq_trans; eauto.
    + eapply pure_ops_depth; eauto.
Qed.

Lemma stack_eq_cons a b l1 l2 : a = b -> stack_eq l1 l2 -> stack_eq (a :: l1) (b :: l2).
Proof. intros -> H i. destruct i; [reflexivity | apply H]. Qed.

(* canonical elements: basic field identities used by the instruction proofs *)
Lemma fadd_0_l x : canon x -> fadd 0 x = x.
Proof. unfold fadd, canon. intros H. apply Z.mod_small. lia. Qed.
Lemma fadd_0_r x : canon x -> fadd x 0 = x.
Proof. unfold fadd, canon. intros H. rewrite Z.add_0_r. apply Z.mod_small. lia. Qed.
Lemma fmul_1_r x : canon x -> fmul x 1 = x.
Proof. unfold fmul, canon. intros H. rewrite Z.mul_1_r. apply Z.mod_small. lia. Qed.

(* How the assembler resolves procedure invocations across modules and what it puts into a
   program's code-block table (assembly/src/assembler/{mod,context,instruction/procedures}.rs),
   as a cache-free specification: a procedure is compiled from the library set alone.  MAST roots
   are idealised as the code itself (an injective hash). *)
From Coq Require Import ZArith List Bool Arith Lia.
Import ListNotations.
Open Scope Z_scope.

Inductive code : Type :=
| KOps (k : Z)                 (* a span; k identifies its operations *)
| KSeq (l : list code)         (* join tree over the blocks, in order *)
| KCall (target : code)        (* CALL block: carries the callee's root *)
| KSys (target : code).        (* SYSCALL block *)

(* a compiled procedure: its code and its call set (roots whose bodies must be available) *)
Definition cproc : Type := (code * list code)%type.

Inductive item : Type :=
| IOp (k : Z)
| IExecL (i : nat) | ICallL (i : nat) | IRefL (i : nat)            (* local procedure by index *)
| IExecI (m n : Z) | ICallI (m n : Z) | IRefI (m n : Z)            (* module path id, name *)
| ISys (n : Z).                                                     (* kernel procedure name *)

Record proc := { p_name : Z; p_export : bool; p_body : list item }.
Record module := { m_reexp : list (Z * (Z * Z)); m_procs : list proc }.
Definition libs := list (Z * module).

Fixpoint find_mod (m : Z) (l : libs) : option module :=
  match l with
  | [] => None
  | (k, md) :: r => if k =? m then Some md else find_mod m r
  end.

(* direct call targets of a piece of code *)
Fixpoint calls_of (c : code) : list code :=
  match c with
  | KOps _ => []
  | KSeq l => flat_map calls_of l
  | KCall t => [t]
  | KSys t => [t]
  end.

Section Compile.
Variable L : libs.
Variable kernel : list (Z * cproc).        (* compiled kernel procedures by name *)

Fixpoint find_kernel (n : Z) (l : list (Z * cproc)) : option cproc :=
  match l with
  | [] => None
  | (k, cp) :: r => if k =? n then Some cp else find_kernel n r
  end.

(* one invocation: how it extends the code and the call set *)
Definition add_exec (cp : cproc) (acc : list code * list code) : list code * list code :=
  (fst acc ++ [fst cp], snd acc ++ snd cp).
Definition add_call (mk : code -> code) (cp : cproc) (acc : list code * list code) : list code * list code :=
  (fst acc ++ [mk (fst cp)], snd acc ++ snd cp ++ [fst cp]).
Definition add_ref (cp : cproc) (acc : list code * list code) : list code * list code :=
  (fst acc ++ [KOps (-1)], snd acc ++ snd cp ++ [fst cp]).

Section Body.
Variable locals : list cproc.                      (* procedures of this module compiled so far *)
Variable imported : Z -> Z -> option cproc.        (* exported procedure of another module *)

Fixpoint lk_items (b : list item) (acc : list code * list code) : option (list code * list code) :=
  match b with
  | [] => Some acc
  | it :: r =>
      let step :=
        match it with
        | IOp k => Some (fst acc ++ [KOps k], snd acc)
        | IExecL i => option_map (fun cp => add_exec cp acc) (nth_error locals i)
        | ICallL i => option_map (fun cp => add_call KCall cp acc) (nth_error locals i)
        | IRefL i => option_map (fun cp => add_ref cp acc) (nth_error locals i)
        | IExecI m n => option_map (fun cp => add_exec cp acc) (imported m n)
        | ICallI m n => option_map (fun cp => add_call KCall cp acc) (imported m n)
        | IRefI m n => option_map (fun cp => add_ref cp acc) (imported m n)
        | ISys n => option_map (fun cp => add_call KSys cp acc) (find_kernel n kernel)
        end in
      match step with
      | Some acc' => lk_items r acc'
      | None => None
      end
  end.

Definition lk_body (b : list item) : option cproc :=
  match lk_items b ([], []) with
  | Some (cs, calls) => Some (KSeq cs, calls)
  | None => None
  end.
End Body.

(* the procedures of a module, in order; each sees the ones before it *)
Fixpoint lk_procs (imported : Z -> Z -> option cproc) (ps : list proc) (done : list cproc)
  : option (list cproc) :=
  match ps with
  | [] => Some done
  | p :: r =>
      match lk_body done imported (p_body p) with
      | Some cp => lk_procs imported r (done ++ [cp])
      | None => None
      end
  end.

Fixpoint find_export (n : Z) (ps : list proc) (cs : list cproc) : option cproc :=
  match ps, cs with
  | p :: pr, c :: cr => if p_export p && (p_name p =? n) then Some c else find_export n pr cr
  | _, _ => None
  end.

Fixpoint find_reexp (n : Z) (l : list (Z * (Z * Z))) : option (Z * Z) :=
  match l with
  | [] => None
  | (a, t) :: r => if a =? n then Some t else find_reexp n r
  end.

(* the exported (or re-exported) procedure n of module m; fuel bounds the module nesting and is
   what detects circular module dependencies *)
Fixpoint lk_lookup (fuel : nat) (m n : Z) : option cproc :=
  match fuel with
  | O => None
  | S f =>
      match find_mod m L with
      | None => None
      | Some md =>
          (* a module compiles only if every re-export target and every procedure does *)
          if forallb (fun r => match lk_lookup f (fst (snd r)) (snd (snd r)) with Some _ => true | None => false end)
                     (m_reexp md)
          then
            match lk_procs (lk_lookup f) (m_procs md) [] with
            | Some cs =>
                match find_reexp n (m_reexp md) with
                | Some (m', n') => lk_lookup f m' n'
                | None => find_export n (m_procs md) cs
                end
            | None => None
            end
          else None
      end
  end.

(* a program: local procedures and a body; the table is the call set of everything compiled *)
Definition lk_program (fuel : nat) (ps : list proc) (body : list item) : option (code * list code) :=
  match lk_procs (lk_lookup fuel) ps [] with
  | Some cs =>
      match lk_body cs (lk_lookup fuel) body with
      | Some (c, calls) => Some (c, flat_map snd cs ++ calls)
      | None => None
      end
  | None => None
  end.

End Compile.

(* every call target occurring in the code or in a table entry has its body in the table *)
Definition closed (T : list code) (c : code) : Prop :=
  (forall t, In t (calls_of c) -> In t T) /\
  (forall u, In u T -> forall t, In t (calls_of u) -> In t T).

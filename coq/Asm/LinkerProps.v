From Coq Require Import ZArith List Bool Arith Lia Permutation.
From MV Require Import Asm.Linker.
Import ListNotations.
Open Scope Z_scope.

(* a compiled procedure is well formed when its call set covers its own calls and is closed *)
Definition wf (cp : cproc) : Prop := closed (snd cp) (fst cp).

(* the accumulator invariant while a body is compiled *)
Definition acc_ok (acc : list code * list code) : Prop :=
  (forall t, In t (flat_map calls_of (fst acc)) -> In t (snd acc)) /\
  (forall u, In u (snd acc) -> forall t, In t (calls_of u) -> In t (snd acc)).

Lemma flat_map_app_in {A B} (f : A -> list B) l1 l2 x :
  In x (flat_map f (l1 ++ l2)) <-> In x (flat_map f l1) \/ In x (flat_map f l2).
Proof. rewrite flat_map_app, in_app_iff. reflexivity. Qed.

Lemma acc_exec cp acc : wf cp -> acc_ok acc -> acc_ok (add_exec cp acc).
Proof.
  intros [W1 W2] [A1 A2]. unfold add_exec. split; cbn [fst snd].
  - intros t Ht. apply flat_map_app_in in Ht. apply in_app_iff. destruct Ht as [Ht|Ht].
    + left. apply A1. exact Ht.
    + right. cbn in Ht. rewrite app_nil_r in Ht. apply W1. exact Ht.
  - intros u Hu t Ht. apply in_app_iff in Hu. apply in_app_iff. destruct Hu as [Hu|Hu].
    + left. eapply A2; eauto.
    + right. eapply W2; eauto.
Qed.

Lemma acc_call mk cp acc :
  (forall c, calls_of (mk c) = [c]) -> wf cp -> acc_ok acc -> acc_ok (add_call mk cp acc).
Proof.
  intros Hmk [W1 W2] [A1 A2]. unfold add_call. split; cbn [fst snd].
  - intros t Ht. apply flat_map_app_in in Ht. rewrite !in_app_iff. destruct Ht as [Ht|Ht].
    + left. apply A1. exact Ht.
    + cbn in Ht. rewrite app_nil_r, Hmk in Ht. destruct Ht as [<-|[]]. right. right. left. reflexivity.
  - intros u Hu t Ht. rewrite !in_app_iff in Hu. rewrite !in_app_iff. destruct Hu as [Hu|[Hu|Hu]].
    + left. eapply A2; eauto.
    + right. left. eapply W2; eauto.
    + destruct Hu as [<-|[]]. right. left. apply W1. exact Ht.
Qed.

Lemma acc_ref cp acc : wf cp -> acc_ok acc -> acc_ok (add_ref cp acc).
Proof.
  intros [W1 W2] [A1 A2]. unfold add_ref. split; cbn [fst snd].
  - intros t Ht. apply flat_map_app_in in Ht. rewrite !in_app_iff. destruct Ht as [Ht|Ht].
    + left. apply A1. exact Ht.
    + cbn in Ht. destruct Ht.
  - intros u Hu t Ht. rewrite !in_app_iff in Hu. rewrite !in_app_iff. destruct Hu as [Hu|[Hu|Hu]].
    + left. eapply A2; eauto.
    + right. left. eapply W2; eauto.
    + destruct Hu as [<-|[]]. right. left. apply W1. exact Ht.
Qed.

Lemma acc_op k acc : acc_ok acc -> acc_ok (fst acc ++ [KOps k], snd acc).
Proof.
  intros [A1 A2]. split; cbn [fst snd]; [|exact A2].
  intros t Ht. apply flat_map_app_in in Ht. destruct Ht as [Ht|Ht]; [apply A1; exact Ht | cbn in Ht; destruct Ht].
Qed.

Section Closure.
Variable L : libs.
Variable kernel : list (Z * cproc).
Hypothesis kernel_wf : forall n cp, find_kernel n kernel = Some cp -> wf cp.

Lemma find_kernel_wf n cp : find_kernel n kernel = Some cp -> wf cp.
Proof. apply kernel_wf. Qed.

Lemma compile_items_ok locals imported :
  Forall wf locals -> (forall m n cp, imported m n = Some cp -> wf cp) ->
  forall b acc acc', acc_ok acc -> lk_items kernel locals imported b acc = Some acc' -> acc_ok acc'.
Proof.
  intros Hl Hi. induction b as [|it r IH]; intros acc acc' Hacc H; cbn [lk_items] in H.
  - inversion H; subst. exact Hacc.
  - assert (Hloc : forall i cp, nth_error locals i = Some cp -> wf cp).
    { intros i cp Hn. eapply Forall_forall; [exact Hl|]. eapply nth_error_In. exact Hn. }
    destruct it as [k|i|i|i|m n|m n|m n|n];
      try (match type of H with context [option_map _ ?e] => destruct e as [cp|] eqn:E end;
           cbn [option_map] in H; [|discriminate]).
    + eapply IH; [|exact H]. apply acc_op. exact Hacc.
    + eapply IH; [|exact H]. apply acc_exec; [eapply Hloc; eauto | exact Hacc].
    + eapply IH; [|exact H]. apply acc_call; [reflexivity | eapply Hloc; eauto | exact Hacc].
    + eapply IH; [|exact H]. apply acc_ref; [eapply Hloc; eauto | exact Hacc].
    + eapply IH; [|exact H]. apply acc_exec; [eapply Hi; eauto | exact Hacc].
    + eapply IH; [|exact H]. apply acc_call; [reflexivity | eapply Hi; eauto | exact Hacc].
    + eapply IH; [|exact H]. apply acc_ref; [eapply Hi; eauto | exact Hacc].
    + eapply IH; [|exact H]. apply acc_call; [reflexivity | eapply find_kernel_wf; eauto | exact Hacc].
Qed.

Lemma compile_body_wf locals imported b cp :
  Forall wf locals -> (forall m n cp, imported m n = Some cp -> wf cp) ->
  lk_body kernel locals imported b = Some cp -> wf cp.
Proof.
  intros Hl Hi H. unfold lk_body in H.
  destruct (lk_items kernel locals imported b ([], [])) as [[cs calls]|] eqn:E; [|discriminate].
  inversion H; subst. assert (A : acc_ok (cs, calls)).
  { eapply compile_items_ok; [exact Hl | exact Hi | | exact E]. split; cbn; intros; contradiction. }
  destruct A as [A1 A2]. split; cbn [fst snd calls_of]; assumption.
Qed.

Lemma compile_procs_wf imported :
  (forall m n cp, imported m n = Some cp -> wf cp) ->
  forall ps done cs, Forall wf done -> lk_procs kernel imported ps done = Some cs -> Forall wf cs.
Proof.
  intros Hi. induction ps as [|p r IH]; intros done cs Hd H; cbn [lk_procs] in H.
  - inversion H; subst. exact Hd.
  - destruct (lk_body kernel done imported (p_body p)) as [cp|] eqn:E; [|discriminate].
    eapply IH; [|exact H]. apply Forall_app. split; [exact Hd|]. constructor; [|constructor].
    eapply compile_body_wf; eauto.
Qed.

Lemma find_export_in n ps cs cp : find_export n ps cs = Some cp -> In cp cs.
Proof.
  revert cs. induction ps as [|p pr IH]; intros cs H; cbn [find_export] in H; [discriminate|].
  destruct cs as [|c cr]; [discriminate|].
  destruct (p_export p && (p_name p =? n)); [inversion H; left; reflexivity | right; apply IH; exact H].
Qed.

Lemma lookup_wf : forall fuel m n cp, lk_lookup L kernel fuel m n = Some cp -> wf cp.
Proof.
  induction fuel as [|f IH]; intros m n cp H; cbn [lk_lookup] in H; [discriminate|].
  destruct (find_mod m L) as [md|]; [|discriminate].
  destruct (forallb _ (m_reexp md)); [|discriminate].
  destruct (lk_procs kernel (lk_lookup L kernel f) (m_procs md) []) as [cs|] eqn:E; [|discriminate].
  destruct (find_reexp n (m_reexp md)) as [[m' n']|].
  - eapply IH. exact H.
  - pose proof (compile_procs_wf (lk_lookup L kernel f) IH _ _ _ (Forall_nil _) E) as Hcs.
    eapply Forall_forall; [exact Hcs|]. eapply find_export_in. exact H.
Qed.

(* C11: every call, syscall or procref target of an assembled program - directly in its code or
   in the code of anything in its table - has its body in the program's code-block table *)
Theorem program_self_contained : forall fuel ps body c T,
  lk_program L kernel fuel ps body = Some (c, T) -> closed T c.
Proof.
  intros fuel ps body c T H. unfold lk_program in H.
  destruct (lk_procs kernel (lk_lookup L kernel fuel) ps []) as [cs|] eqn:E; [|discriminate].
  destruct (lk_body kernel cs (lk_lookup L kernel fuel) body) as [[c' calls]|] eqn:E2; [|discriminate].
  inversion H; subst. clear H.
  pose proof (compile_procs_wf (lk_lookup L kernel fuel) (lookup_wf fuel) _ _ _ (Forall_nil _) E) as Hcs.
  pose proof (compile_body_wf _ _ _ _ Hcs (lookup_wf fuel) E2) as [B1 B2]. cbn [fst snd] in B1, B2.
  split.
  - intros t Ht. apply in_app_iff. right. apply B1. exact Ht.
  - intros u Hu t Ht. apply in_app_iff in Hu. apply in_app_iff. destruct Hu as [Hu|Hu].
    + left. apply in_flat_map in Hu. destruct Hu as [cp [Hcp Hu]].
      apply in_flat_map. exists cp. split; [exact Hcp|].
      assert (W : wf cp) by (eapply Forall_forall; eauto). destruct W as [_ W2]. eapply W2; eauto.
    + right. eapply B2; eauto.
Qed.
End Closure.

(* a procedure reached through a re-export is the procedure it names *)
Theorem reexport_is_target : forall L kernel f m md n m' n',
  find_mod m L = Some md -> find_reexp n (m_reexp md) = Some (m', n') ->
  forall cp, lk_lookup L kernel (S f) m n = Some cp -> lk_lookup L kernel f m' n' = Some cp.
Proof.
  intros L kernel f m md n m' n' Hm Hr cp H. cbn [lk_lookup] in H. rewrite Hm in H.
  destruct (forallb _ (m_reexp md)); [|discriminate].
  destruct (lk_procs kernel (lk_lookup L kernel f) (m_procs md) []); [|discriminate].
  rewrite Hr in H. exact H.
Qed.

(* the order in which libraries were added does not matter when module paths are distinct *)
Lemma find_mod_perm : forall (L L' : libs) m,
  Permutation L L' -> NoDup (map fst L) -> find_mod m L' = find_mod m L.
Proof.
  intros L L' m HP. induction HP as [|[k md] l l' HP IH|[k1 m1] [k2 m2] l|l1 l2 l3 H12 IH12 H23 IH23]; intros ND.
  - reflexivity.
  - cbn [find_mod]. destruct (k =? m); [reflexivity|]. apply IH. inversion ND; assumption.
  - cbn [find_mod]. destruct (k1 =? m) eqn:E1; destruct (k2 =? m) eqn:E2; try reflexivity.
    apply Z.eqb_eq in E1, E2. subst. inversion ND as [|? ? Hn _]. exfalso. apply Hn. left. reflexivity.
  - rewrite IH23, IH12; [reflexivity | exact ND |].
    eapply Permutation_NoDup; [apply Permutation_map; exact H12 | exact ND].
Qed.

Theorem library_order_irrelevant : forall (L L' : libs) kernel,
  Permutation L L' -> NoDup (map fst L) ->
  forall fuel ps body, lk_program L' kernel fuel ps body = lk_program L kernel fuel ps body.
Proof.
  intros L L' kernel HP ND.
  assert (Hl : forall fuel m n, lk_lookup L' kernel fuel m n = lk_lookup L kernel fuel m n).
  { induction fuel as [|f IH]; intros m n; cbn [lk_lookup]; [reflexivity|].
    rewrite (find_mod_perm L L' m HP ND). destruct (find_mod m L) as [md|]; [|reflexivity].
    assert (E : forall l : list (Z * (Z * Z)),
               forallb (fun r => match lk_lookup L' kernel f (fst (snd r)) (snd (snd r)) with Some _ => true | None => false end) l =
               forallb (fun r => match lk_lookup L kernel f (fst (snd r)) (snd (snd r)) with Some _ => true | None => false end) l).
    { induction l as [|r l IHl]; [reflexivity|]. cbn [forallb]. rewrite IH, IHl. reflexivity. }
    rewrite E. destruct (forallb _ (m_reexp md)); [|reflexivity].
    assert (E2 : forall ps done, lk_procs kernel (lk_lookup L' kernel f) ps done = lk_procs kernel (lk_lookup L kernel f) ps done).
    { assert (E3 : forall locals b acc, lk_items kernel locals (lk_lookup L' kernel f) b acc = lk_items kernel locals (lk_lookup L kernel f) b acc).
      { intros locals. induction b as [|it r IHb]; intros acc; [reflexivity|]. cbn [lk_items].
        destruct it; try rewrite IH; cbn beta iota;
          first [ apply IHb
                | match goal with |- context [match ?x with Some _ => _ | None => _ end] =>
                    destruct x; [apply IHb | reflexivity] end ]. }
      induction ps as [|p r IHp]; intros done; [reflexivity|]. cbn [lk_procs]. unfold lk_body.
      rewrite E3. destruct (lk_items kernel done (lk_lookup L kernel f) (p_body p) ([], [])) as [[cs calls]|]; [apply IHp | reflexivity]. }
    rewrite E2. destruct (lk_procs kernel (lk_lookup L kernel f) (m_procs md) []); [|reflexivity].
    destruct (find_reexp n (m_reexp md)) as [[m' n']|]; [apply IH | reflexivity]. }
  intros fuel ps body. unfold lk_program.
  assert (E3 : forall locals b acc, lk_items kernel locals (lk_lookup L' kernel fuel) b acc = lk_items kernel locals (lk_lookup L kernel fuel) b acc).
  { intros locals. induction b as [|it r IHb]; intros acc; [reflexivity|]. cbn [lk_items].
    destruct it; try rewrite Hl; cbn beta iota;
      first [ apply IHb
            | match goal with |- context [match ?x with Some _ => _ | None => _ end] =>
                destruct x; [apply IHb | reflexivity] end ]. }
  assert (E2 : forall ps done, lk_procs kernel (lk_lookup L' kernel fuel) ps done = lk_procs kernel (lk_lookup L kernel fuel) ps done).
  { induction ps0 as [|p r IHp]; intros done; [reflexivity|]. cbn [lk_procs]. unfold lk_body.
    rewrite E3. destruct (lk_items kernel done (lk_lookup L kernel fuel) (p_body p) ([], [])) as [[cs calls]|]; [apply IHp | reflexivity]. }
  rewrite E2. destruct (lk_procs kernel (lk_lookup L kernel fuel) ps []) as [cs|]; [|reflexivity].
  unfold lk_body. rewrite E3. reflexivity.
Qed.

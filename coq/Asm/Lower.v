(* AST -> MAST lowering (assembly/src/assembler/mod.rs: compile_body, combine_blocks,
   combine_spans, compile_procedure; instruction/procedures.rs: exec/call).  Instructions are
   already expanded to their op lists (that step is C05's subject). *)
From Coq Require Import ZArith List Bool Arith Lia.
From MV Require Import Base.Field Core.Op Core.Batch Core.Rpo Core.Mast Gen.ConstGen.
Import ListNotations.
Open Scope Z_scope.

Inductive node : Type :=
| NOps (ops : list op)
| NIf (t f : list node)
| NRepeat (n : nat) (body : list node)
| NWhile (body : list node)
| NExec (p : nat)          (* exec of an already compiled procedure (local index) *)
| NCall (p : nat)
| NSysCall (h : word)      (* kernel procedure by MAST root *)
| NDynExec
| NDynCall.

(* ---- combine_blocks ------------------------------------------------------------------------ *)

(* merge runs of consecutive SPAN blocks into one SPAN (ops concatenated) *)
Fixpoint merge_spans (bs : list block) (cur : option (list op)) : list block :=
  match bs with
  | [] => match cur with Some ops => [BSpan ops] | None => [] end
  | BSpan ops :: rest =>
      merge_spans rest (Some (match cur with Some c => c ++ ops | None => ops end))
  | b :: rest =>
      match cur with
      | Some c => BSpan c :: b :: merge_spans rest None
      | None => b :: merge_spans rest None
      end
  end.

(* one round of pairing: [a;b;c;d;e] -> [J a b; J c d; e]; generic in the node type so that the
   same function can be run on blocks and on free join trees (LowerProps.v) *)
Section Pairing.
Variable A : Type.
Variable J : A -> A -> A.
Fixpoint pair_up_g (bs : list A) : list A :=
  match bs with
  | a :: b :: rest => J a b :: pair_up_g rest
  | other => other
  end.
Fixpoint join_rounds_g (fuel : nat) (bs : list A) : list A :=
  match fuel with
  | O => bs
  | S f => match bs with
           | [] | [_] => bs
           | _ => join_rounds_g f (pair_up_g bs)
           end
  end.
End Pairing.

Definition pair_up := pair_up_g block BJoin.
Definition join_rounds := join_rounds_g block BJoin.

Definition combine_blocks (bs : list block) : block :=
  match join_rounds (length bs) (merge_spans bs None) with
  | b :: _ => b
  | [] => BSpan [Noop]
  end.

(* ---- compile_body ---------------------------------------------------------------------------- *)

Record cstate := mkC { c_blocks : list block; c_span : list op }.

Definition flush (c : cstate) : cstate :=
  match c_span c with
  | [] => c
  | ops => mkC (c_blocks c ++ [BSpan ops]) []
  end.

Definition push_block (b : block) (c : cstate) : cstate :=
  let c' := flush c in mkC (c_blocks c' ++ [b]) [].

Definition finish (epilogue : list op) (c : cstate) : block :=
  let c' := flush (mkC (c_blocks c) (c_span c ++ epilogue)) in
  match c_blocks c' with
  | [] => BSpan [Noop]
  | bs => combine_blocks bs
  end.

Definition default_block : block := BSpan [Noop].

Fixpoint compile_node (codes : list block) (n : node) (c : cstate) {struct n} : cstate :=
  let body := fun (ns : list node) =>
                finish [] (fold_left (fun c' n' => compile_node codes n' c') ns (mkC [] [])) in
  match n with
  | NOps ops => mkC (c_blocks c) (c_span c ++ ops)
  | NIf t f =>
      let tb := body t in
      let fb := match f with [] => BSpan [Noop] | _ => body f end in
      push_block (BSplit tb fb) c
  | NRepeat k b =>
      let blk := body b in
      let c' := flush c in
      mkC (c_blocks c' ++ repeat blk k) []
  | NWhile b => push_block (BLoop (body b)) c
  | NExec p => push_block (nth p codes default_block) c
  | NCall p => push_block (BCall (block_hash (nth p codes default_block))) c
  | NSysCall h => push_block (BSysCall h) c
  | NDynExec => push_block BDyn c
  | NDynCall => push_block (BCall DYN_HASH) c
  end.

Definition compile_body (codes : list block) (ns : list node) (prologue epilogue : list op) : block :=
  finish epilogue (fold_left (fun c n => compile_node codes n c) ns (mkC [] prologue)).

(* compile_procedure: locals are allocated by moving fmp *)
Definition compile_proc (codes : list block) (num_locals : Z) (ns : list node) : block :=
  if 0 <? num_locals then
    compile_body codes ns [Push num_locals; FmpUpdate] [Push (fneg num_locals); FmpUpdate]
  else compile_body codes ns [] [].

(* a module: procedures in order (each may exec/call the earlier ones), then the program body *)
Fixpoint compile_procs (procs : list (Z * list node)) (codes : list block) : list block :=
  match procs with
  | [] => codes
  | (nl, ns) :: rest => compile_procs rest (codes ++ [compile_proc codes nl ns])
  end.

Definition compile_program (procs : list (Z * list node)) (main : list node) : block * list block :=
  let codes := compile_procs procs [] in
  (compile_body codes main [] [], codes).

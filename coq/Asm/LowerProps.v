(* Facts about the lowering: the join tree built from a block sequence keeps the blocks in order,
   span merging keeps the operation sequence, repeat.n contributes n copies of its body's block,
   exec contributes the callee's code itself, and the locals prologue/epilogue restore fmp. *)
From Coq Require Import ZArith List Bool Arith Lia.
From MV Require Import Base.Field Core.Op Core.Batch Core.Rpo Core.Mast Gen.ConstGen Asm.Lower.
Import ListNotations.
Open Scope Z_scope.

(* ---- free join trees ------------------------------------------------------------------------ *)
Inductive jtree : Type := JLeaf (b : block) | JNode (l r : jtree).

Fixpoint to_block (t : jtree) : block :=
  match t with JLeaf b => b | JNode l r => BJoin (to_block l) (to_block r) end.
Fixpoint leaves (t : jtree) : list block :=
  match t with JLeaf b => [b] | JNode l r => leaves l ++ leaves r end.

Lemma pair_up_leaves : forall ts,
  flat_map leaves (pair_up_g jtree JNode ts) = flat_map leaves ts.
Proof.
  fix IH 1. intros ts. destruct ts as [|a [|b rest]]; cbn [pair_up_g flat_map]; try reflexivity.
  cbn [leaves]. rewrite IH. rewrite <- app_assoc. reflexivity.
Qed.

Lemma join_rounds_leaves fuel : forall ts,
  flat_map leaves (join_rounds_g jtree JNode fuel ts) = flat_map leaves ts.
Proof.
  induction fuel as [|f IH]; intros ts; cbn [join_rounds_g]; [reflexivity|].
  destruct ts as [|a [|b rest]]; try reflexivity.
  rewrite IH. apply pair_up_leaves.
Qed.

Lemma pair_up_to_block : forall ts,
  map to_block (pair_up_g jtree JNode ts) = pair_up (map to_block ts).
Proof.
  fix IH 1. intros ts. destruct ts as [|a [|b rest]]; cbn [pair_up_g map]; try reflexivity.
  unfold pair_up. cbn [pair_up_g to_block]. f_equal. apply IH.
Qed.

Lemma join_rounds_to_block fuel : forall ts,
  map to_block (join_rounds_g jtree JNode fuel ts) = join_rounds fuel (map to_block ts).
Proof.
  induction fuel as [|f IH]; intros ts; unfold join_rounds; cbn [join_rounds_g]; [reflexivity|].
  destruct ts as [|a [|b rest]]; try reflexivity.
  rewrite IH. rewrite pair_up_to_block. reflexivity.
Qed.

(* pairing halves the length, so `length` rounds are enough to reach a single tree *)
Lemma pair_up_length : forall (ts : list jtree),
  (length (pair_up_g jtree JNode ts) <= length ts)%nat /\
  (2 <= length ts -> length (pair_up_g jtree JNode ts) < length ts)%nat /\
  (1 <= length ts -> 1 <= length (pair_up_g jtree JNode ts))%nat.
Proof.
  fix IH 1. intros ts. destruct ts as [|a [|b rest]]; cbn [pair_up_g length]; try lia.
  destruct (IH rest) as [H1 [H2 H3]]. repeat split; lia.
Qed.

Lemma join_rounds_single fuel : forall ts,
  (1 <= length ts <= S fuel)%nat -> length (join_rounds_g jtree JNode fuel ts) = 1%nat.
Proof.
  induction fuel as [|f IH]; intros ts H; cbn [join_rounds_g]; [lia|].
  destruct ts as [|a [|b rest]]; cbn [length] in *; try lia.
  apply IH. destruct (pair_up_length (a :: b :: rest)) as [H1 [H2 H3]]. cbn [length] in *. lia.
Qed.

(* The tree the assembler builds for a non-empty block sequence [bs] (already span-merged) is
   [to_block t] for a join tree t whose leaves, left to right, are exactly [bs]. *)
Theorem join_tree_in_order bs :
  bs <> [] ->
  exists t, join_rounds (length bs) bs = [to_block t] /\ leaves t = bs.
Proof.
  intros Hne.
  pose (ts := map JLeaf bs).
  assert (Hmap : map to_block ts = bs).
  { unfold ts. rewrite map_map. cbn. apply map_id. }
  assert (Hlen : length ts = length bs) by (unfold ts; apply map_length).
  pose proof (join_rounds_single (length bs) ts) as Hs.
  assert (Hl1 : (1 <= length ts <= S (length bs))%nat).
  { rewrite Hlen. destruct bs; [congruence|]. cbn. lia. }
  specialize (Hs Hl1).
  destruct (join_rounds_g jtree JNode (length bs) ts) as [|t [|t2 r]] eqn:E; cbn in Hs; try lia.
  exists t. split.
  - rewrite <- Hmap at 2. rewrite <- join_rounds_to_block. rewrite E. reflexivity.
  - pose proof (join_rounds_leaves (length bs) ts) as HL. rewrite E in HL. cbn in HL.
    rewrite app_nil_r in HL. rewrite HL. unfold ts. clear.
    induction bs as [|b bs IH]; cbn; [reflexivity | rewrite IH; reflexivity].
Qed.

(* ---- span merging keeps the operation sequence ------------------------------------------------ *)
Inductive item := IOp (o : op) | IBlk (b : block).
Definition items_of (b : block) : list item :=
  match b with BSpan ops => map IOp ops | other => [IBlk other] end.
Definition flat_items (bs : list block) : list item := flat_map items_of bs.

Lemma merge_spans_items : forall bs cur,
  flat_items (merge_spans bs cur) =
  (match cur with Some c => map IOp c | None => [] end) ++ flat_items bs.
Proof.
  induction bs as [|b bs IH]; intros cur; cbn [merge_spans].
  - destruct cur; cbn; rewrite ?app_nil_r; reflexivity.
  - destruct b; try (destruct cur; cbn [flat_items flat_map items_of]; fold (flat_items bs);
                     fold (flat_items (merge_spans bs None)); rewrite IH; cbn; reflexivity).
    rewrite IH. unfold flat_items at 2. cbn [flat_map items_of]. fold (flat_items bs).
    destruct cur; cbn; [rewrite map_app, <- app_assoc|]; reflexivity.
Qed.

Theorem merge_spans_keeps_ops bs : flat_items (merge_spans bs None) = flat_items bs.
Proof. apply merge_spans_items. Qed.

(* ---- repeat and exec -------------------------------------------------------------------------- *)
Definition body_block (codes : list block) (ns : list node) : block :=
  compile_body codes ns [] [].

Theorem repeat_contributes_copies codes k b c :
  c_blocks (compile_node codes (NRepeat k b) c) =
  c_blocks (flush c) ++ repeat (body_block codes b) k /\
  c_span (compile_node codes (NRepeat k b) c) = [].
Proof. split; reflexivity. Qed.

Theorem exec_contributes_callee codes p c :
  c_blocks (compile_node codes (NExec p) c) = c_blocks (flush c) ++ [nth p codes default_block].
Proof. reflexivity. Qed.

(* the locals frame: push.n fmpupdate ... push.(-n) fmpupdate brings fmp back *)
Lemma fmp_bracket fmp n : canon fmp -> fadd (fadd fmp n) (fneg n) = fmp.
Proof.
  unfold fadd, fneg, canon. intros H.
  rewrite Zplus_mod_idemp_l, Zplus_mod_idemp_r.
  replace (fmp + n + - n) with fmp by lia. apply Z.mod_small. lia.
Qed.

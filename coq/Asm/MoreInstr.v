(* Instruction specifications beyond Stack/Field/U32Instr: word comparison, field ordering,
   extension-field arithmetic, remaining u32 arithmetic/comparison/bitwise forms, shifts and rotations
   by a variable amount, pow2.  All over the operation lists of Gen/AsmGen.v. *)
From Coq Require Import ZArith List Bool Arith Lia String.
From MV Require Import Base.Field Core.Op Core.Rpo Vm.Pure Vm.PureProps Gen.AsmGen Asm.Instr
  Asm.SpecDefs Asm.StackInstr Asm.FieldInstr Asm.U32Instr Asm.HintDefs Asm.HintInstr Asm.U64Instr Asm.U64More Asm.U64ShiftBase.
Import ListNotations.
Open Scope Z_scope.

Ltac revert_bools :=
  repeat match goal with
         | H : _ = true |- _ => revert H
         | H : _ = false |- _ => revert H
         end.
Ltac destruct_eqbs :=
  repeat match goal with
         | |- context [(?a =? ?b)%Z] => first [is_var a | is_var b]; destruct (a =? b)%Z eqn:?; cbn
         end.
Ltac by_eqbs := revert_bools; destruct_eqbs; intros; first [reflexivity | discriminate | congruence].

Lemma lo_sub a b : 0 <= a < TWO32 -> 0 <= b < TWO32 -> lo32 (wrap64 (a - b)) = (a - b) mod TWO32.
Proof.
  intros Ha Hb. rewrite lo32_mod. unfold wrap64, TWO64, TWO32 in *.
  Z.div_mod_to_equations. nia.
Qed.
Lemma hi32_small x : 0 <= x -> (hi32 x =? 0) = (x <? TWO32).
Proof.
  intros Hx. rewrite hi32_div. destruct (Z.ltb_spec x TWO32) as [L|L].
  - rewrite Z.div_small by lia. reflexivity.
  - apply Z.eqb_neq. intros Q. apply Z.div_small_iff in Q; unfold TWO32 in *; lia.
Qed.
Lemma land_one_mod2 x : 0 <= x -> Z.land (lo32 x) 1 = x mod 2.
Proof.
  intros Hx. unfold lo32. change U32MAX with (Z.ones 32). change 1 with (Z.ones 1).
  rewrite <- Z.land_assoc. change (Z.land (Z.ones 32) (Z.ones 1)) with (Z.ones 1).
  rewrite Z.land_ones by lia. reflexivity.
Qed.

Ltac sub_facts :=
  repeat match goal with
         | |- context [Z.shiftr (wrap64 (?a - ?b)) 63] => rewrite (borrow_bit a b) by lia
         | |- context [lo32 (wrap64 (?a - ?b))] => rewrite (lo_sub a b) by lia
         | H : context [Z.shiftr (wrap64 (?a - ?b)) 63] |- _ => rewrite (borrow_bit a b) in H by lia
         | H : context [lo32 (wrap64 (?a - ?b))] |- _ => rewrite (lo_sub a b) in H by lia
         end.
Ltac by_cmp :=
  sub_facts; revert_bools;
  repeat match goal with
         | |- context [(?a <? ?b)%Z] => destruct (Z.ltb_spec a b); cbn
         | |- context [(?a <=? ?b)%Z] => destruct (Z.leb_spec a b); cbn
         | |- context [(?a =? ?b)%Z] => first [is_var a | is_var b]; destruct (Z.eqb_spec a b); cbn
         end; intros; first [reflexivity | discriminate | lia | (exfalso; lia) | congruence].

Ltac by_hi :=
  unfold canon in *;
  repeat match goal with
         | H : context [hi32 ?x =? 0] |- _ => rewrite (hi32_small x) in H by lia
         | |- context [hi32 ?x =? 0] => rewrite (hi32_small x) by lia
         end;
  revert_bools;
  repeat match goal with |- context [(?a <? ?b)%Z] => destruct (a <? b)%Z; cbn end;
  intros; first [reflexivity | discriminate | congruence].

Lemma hi_bound a : 0 <= a < P -> 0 <= a / TWO32 < TWO32.
Proof. unfold P, TWO32. intros. split; [apply Z.div_pos; lia | apply Z.div_lt_upper_bound; lia]. Qed.
Ltac limb_bounds := first [ lia | apply mod32_bound | apply hi_bound; lia ].
Ltac sub_facts_l :=
  rewrite ?hi32_div, ?lo32_mod in *;
  repeat match goal with
         | |- context [Z.shiftr (wrap64 (?a - ?b)) 63] => rewrite (borrow_bit a b) by limb_bounds
         | |- context [wrap64 (?a - ?b) mod TWO32] => rewrite <- (lo32_mod (wrap64 (a - b))), (lo_sub a b) by limb_bounds
         | H : context [Z.shiftr (wrap64 (?a - ?b)) 63] |- _ => rewrite (borrow_bit a b) in H by limb_bounds
         | H : context [wrap64 (?a - ?b) mod TWO32] |- _ => rewrite <- (lo32_mod (wrap64 (a - b))), (lo_sub a b) in H by limb_bounds
         end.
Ltac by_cmp_l :=
  unfold canon in *; sub_facts_l; revert_bools;
  repeat match goal with
         | |- context [(?a <? ?b)%Z] => destruct (Z.ltb_spec a b); cbn
         | |- context [(?a <=? ?b)%Z] => destruct (Z.leb_spec a b); cbn
         | |- context [(?a =? ?b)%Z] => lazymatch a with context [if _ then _ else _] => fail | _ => idtac end; destruct (Z.eqb_spec a b); cbn
         end; intros; first [reflexivity | congruence | (exfalso; unfold TWO32, P in *; Z.div_mod_to_equations; lia) ].

Local Open Scope string_scope.
Theorem eqw_ok : instr_spec (ops_of "eqw") 8 no_pre
  (fun xs => (if (nz xs 7 =? nz xs 3) && (nz xs 6 =? nz xs 2) && (nz xs 5 =? nz xs 1) && (nz xs 4 =? nz xs 0) then 1 else 0)%Z
             :: firstn 8 xs).
Proof. solve_instr by_eqbs. Qed.
Theorem neq_ok : instr_spec (ops_of "neq") 2 no_pre (fun xs => [if (nz xs 1 =? nz xs 0)%Z then 0 else 1]).
Proof. solve_instr by_eqbs. Qed.
Theorem assert_eqw_ok : instr_spec (ops_of "assert_eqw") 8
  (fun xs => if (nz xs 0 =? nz xs 4) && (nz xs 1 =? nz xs 5) && (nz xs 2 =? nz xs 6) && (nz xs 7 =? nz xs 3) then None
             else Some (PAssert 0))%Z
  (fun _ => []).
Proof. solve_instr by_eqbs. Qed.
Theorem ext2add_ok : instr_spec (ops_of "ext2add") 4 no_pre
  (fun xs => [fadd (nz xs 2) (nz xs 0); fadd (nz xs 3) (nz xs 1)]).
Proof. solve_instr ltac:(unfold fadd; f_equal; lia). Qed.
Theorem ext2neg_ok : instr_spec (ops_of "ext2neg") 2 no_pre (fun xs => [fneg (nz xs 0); fneg (nz xs 1)]).
Proof. solve_instr idtac. Qed.
Theorem ext2sub_ok : instr_spec (ops_of "ext2sub") 4 no_pre
  (fun xs => [fsub (nz xs 2) (nz xs 0); fsub (nz xs 3) (nz xs 1)]).
Proof. solve_instr ltac:(rewrite <- ?fsub_as_add; unfold fadd; f_equal; lia). Qed.

Theorem xor_ok : instr_spec (ops_of "xor") 2 (fun xs => bin_or (nz xs 1) (bin_or (nz xs 0) None))
  (fun xs => [if (nz xs 1 =? 1) || (nz xs 0 =? 1) then (if (nz xs 1 =? 1) && (nz xs 0 =? 1) then 0 else 1) else 0])%Z.
Proof. solve_instr by_eqbs. Qed.
Theorem u32wrapping_add3_ok : instr_spec_g (ops_of "u32wrapping_add3") 3 g3 no_pre
    (fun xs => [(nz xs 2 + nz xs 1 + nz xs 0) mod TWO32]).
Proof. solve_instr_g ltac:(rewrite ?hi32_div, ?lo32_mod; small; reflexivity). Qed.
Theorem u32wrapping_madd_ok : instr_spec_g (ops_of "u32wrapping_madd") 3 g3 no_pre
    (fun xs => [(nz xs 1 * nz xs 0 + nz xs 2) mod TWO32]).
Proof. solve_instr_g ltac:(rewrite ?hi32_div, ?lo32_mod; small; reflexivity). Qed.

Theorem u32overflowing_sub_ok : instr_spec_g (ops_of "u32overflowing_sub") 2 g2 no_pre
    (fun xs => [if (nz xs 1 <? nz xs 0)%Z then 1 else 0; (nz xs 1 - nz xs 0) mod TWO32]).
Proof. solve_instr_g by_cmp. Qed.
Theorem u32wrapping_sub_ok : instr_spec_g (ops_of "u32wrapping_sub") 2 g2 no_pre
    (fun xs => [(nz xs 1 - nz xs 0) mod TWO32]).
Proof. solve_instr_g by_cmp. Qed.
Theorem u32lt_ok : instr_spec_g (ops_of "u32lt") 2 g2 no_pre (fun xs => [if (nz xs 1 <? nz xs 0)%Z then 1 else 0]).
Proof. solve_instr_g by_cmp. Qed.
Theorem u32gt_ok : instr_spec_g (ops_of "u32gt") 2 g2 no_pre (fun xs => [if (nz xs 0 <? nz xs 1)%Z then 1 else 0]).
Proof. solve_instr_g by_cmp. Qed.
Theorem u32lte_ok : instr_spec_g (ops_of "u32lte") 2 g2 no_pre (fun xs => [if (nz xs 1 <=? nz xs 0)%Z then 1 else 0]).
Proof. solve_instr_g by_cmp. Qed.
Theorem u32gte_ok : instr_spec_g (ops_of "u32gte") 2 g2 no_pre (fun xs => [if (nz xs 0 <=? nz xs 1)%Z then 1 else 0]).
Proof. solve_instr_g by_cmp. Qed.
Theorem u32min_instr_ok : instr_spec_g (ops_of "u32min") 2 g2 no_pre (fun xs => [Z.min (nz xs 1) (nz xs 0)]).
Proof. solve_instr_g by_cmp. Qed.
Theorem u32max_instr_ok : instr_spec_g (ops_of "u32max") 2 g2 no_pre (fun xs => [Z.max (nz xs 1) (nz xs 0)]).
Proof. solve_instr_g by_cmp. Qed.

Theorem u32test_ok : instr_spec (ops_of "u32test") 1 no_pre
  (fun xs => [if (nz xs 0 <? TWO32)%Z then 1 else 0; nz xs 0]).
Proof. solve_instr by_hi. Qed.
Theorem u32testw_ok : instr_spec (ops_of "u32testw") 4 no_pre
  (fun xs => (if (nz xs 3 <? TWO32) && (nz xs 2 <? TWO32) && (nz xs 1 <? TWO32) && (nz xs 0 <? TWO32) then 1 else 0)%Z
             :: firstn 4 xs).
Proof. solve_instr by_hi. Qed.
Theorem u32assertw_ok : instr_spec (ops_of "u32assertw") 4
  (fun xs => if negb (u32max_ok (nz xs 0)) then Some (PNotU32 (nz xs 0) 0)
             else if negb (u32max_ok (nz xs 1)) then Some (PNotU32 (nz xs 1) 0)
             else if negb (u32max_ok (nz xs 2)) then Some (PNotU32 (nz xs 2) 0)
             else if negb (u32max_ok (nz xs 3)) then Some (PNotU32 (nz xs 3) 0) else None)
  (fun xs => xs).
Proof. solve_instr ltac:(first [reflexivity | bool_contra | discriminate]). Qed.
Theorem u32or_ok : instr_spec_g (ops_of "u32or") 2 g2 no_pre (fun xs => [Z.lor (nz xs 1) (nz xs 0)]).
Proof.
  solve_instr_g ltac:(first [ rewrite lor_field by lia; first [reflexivity | apply Z.lor_comm]
                            | match goal with H : negb (u32max_ok ?z) = true |- _ =>
                                rewrite (u32max_ok_lt z) in H by assumption; discriminate H end ]).
Qed.
Theorem u32not_ok : instr_spec_g (ops_of "u32not") 1 g1 no_pre (fun xs => [4294967295 - nz xs 0]).
Proof.
  solve_instr_g ltac:(first [ rewrite lo_sub by (unfold TWO32 in *; lia); apply Z.mod_small; unfold TWO32 in *; lia
                            | match goal with H : negb (u32max_ok ?z) = true |- _ =>
                                rewrite (u32max_ok_lt z) in H by assumption; discriminate H end ]).
Qed.
Theorem is_odd_ok : instr_spec (ops_of "is_odd") 1 no_pre (fun xs => [nz xs 0 mod 2]).
Proof.
  solve_instr ltac:(first [ change (fadd 0 1) with 1; apply land_one_mod2; unfold canon in *; lia
                          | match goal with H : negb (u32max_ok (lo32 ?z)) = true |- _ =>
                              rewrite (u32max_ok_lt (lo32 z)) in H by (rewrite lo32_mod; apply mod32_bound); discriminate H end ]).
Qed.

Theorem lt_ok : instr_spec (ops_of "lt") 2 no_pre (fun xs => [if (nz xs 1 <? nz xs 0)%Z then 1 else 0]).
Proof. solve_instr by_cmp_l. Qed.
Theorem lte_ok : instr_spec (ops_of "lte") 2 no_pre (fun xs => [if (nz xs 1 <=? nz xs 0)%Z then 1 else 0]).
Proof. solve_instr by_cmp_l. Qed.
Theorem gt_ok : instr_spec (ops_of "gt") 2 no_pre (fun xs => [if (nz xs 0 <? nz xs 1)%Z then 1 else 0]).
Proof. solve_instr by_cmp_l. Qed.
Theorem gte_ok : instr_spec (ops_of "gte") 2 no_pre (fun xs => [if (nz xs 0 <=? nz xs 1)%Z then 1 else 0]).
Proof. solve_instr by_cmp_l. Qed.

Theorem ext2mul_ok : instr_spec (ops_of "ext2mul") 4 no_pre
  (fun xs => let c := ext_mul (nz xs 3, nz xs 2) (nz xs 1, nz xs 0) in [snd c; fst c]).
Proof. solve_instr idtac. Qed.

(* ---- shifts and rotations by a variable amount: 32 runs with the amount concrete ---------------- *)
Definition gsh32 (xs : list Z) : bool := (nz xs 0 <? 32)%Z && u32b (nz xs 1).
Ltac pow_const := repeat match goal with |- context [2 ^ ?a] => gnorm1 (2 ^ a) end.
Ltac shift32 leaf :=
  norm_ops_g; apply instr_by_view_g; [vm_compute; reflexivity|];
  intros l Hl Hc Hg; d16 l Hl; canon16 Hc;
  cbv [gsh32 nz nth firstn] in Hg; guard_facts;
  match goal with H : (?z <? 32)%Z = true |- _ =>
    apply Z.ltb_lt in H;
    let n := fresh "n" in let Hn := fresh "Hn" in let Hen := fresh "Hen" in
    destruct (small_enum z ltac:(lia)) as [n [Hn Hen]];
    do 32 (destruct n as [|n];
      [ vm_compute in Hen; subst z; split_ifs; run_view2; try kill_const;
        eexists; split; [reflexivity|]; cbv [nz nth]; norm_goal; pow_const; small_products_c; leaf |]);
    exfalso; lia
  end.

Theorem u32shl_ok : instr_spec_g (ops_of "u32shl") 2 gsh32 no_pre (fun xs => [(nz xs 1 * 2 ^ nz xs 0) mod TWO32]).
Proof. shift32 ltac:(apply stack_eq_refl). Qed.
Ltac fadd_c := repeat match goal with |- context [fadd ?a ?b] => rewrite (fadd_small a b) by cbounds end.
Theorem u32shr_ok : instr_spec_g (ops_of "u32shr") 2 gsh32 no_pre (fun xs => [nz xs 1 / 2 ^ nz xs 0]).
Proof. shift32 ltac:(apply stack_eq_refl). Qed.
Theorem u32rotl_ok : instr_spec_g (ops_of "u32rotl") 2 gsh32 no_pre
  (fun xs => [(nz xs 1 * 2 ^ nz xs 0) mod TWO32 + (nz xs 1 * 2 ^ nz xs 0) / TWO32]).
Proof. shift32 ltac:(fadd_c; apply stack_eq_refl). Qed.
Definition gsh32p (xs : list Z) : bool := (0 <? nz xs 0)%Z && (nz xs 0 <? 32)%Z && u32b (nz xs 1).

Lemma mul_pow32_small a : 0 <= a < TWO32 -> felt_of_u64 (wrap64 (a * 4294967296)) = a * 4294967296.
Proof. unfold felt_of_u64, wrap64, TWO32, TWO64, P. intros. rewrite (Z.mod_small (a * 4294967296)) by lia. apply Z.mod_small. lia. Qed.
Ltac rotr_leaf :=
  first
    [ fadd_c; apply stack_eq_cons; [|apply stack_eq_refl]; unfold TWO32 in *; Z.div_mod_to_equations; lia
    | match goal with |- context [felt_of_u64 (wrap64 (?a * 4294967296))] => rewrite (mul_pow32_small a) by cbounds end;
      apply stack_eq_cons; [|apply stack_eq_refl];
      unfold TWO32, fadd, P in *; rewrite Z_mod_mult, Z_div_mult, Z.div_1_r, Z.mod_1_r by lia;
      rewrite Z.mod_small by lia; lia ].
Theorem u32rotr_ok : instr_spec_g (ops_of "u32rotr") 2 gsh32 no_pre
  (fun xs => [nz xs 1 / 2 ^ nz xs 0 + (nz xs 1 mod 2 ^ nz xs 0) * 2 ^ (32 - nz xs 0)]).
Proof. shift32 rotr_leaf. Qed.

Definition g64 (xs : list Z) : bool := (nz xs 0 <? 64)%Z.
Theorem pow2_ok : instr_spec_g (ops_of "pow2") 1 g64 no_pre (fun xs => [2 ^ nz xs 0]).
Proof.
  norm_ops_g; apply instr_by_view_g; [vm_compute; reflexivity|];
  intros l Hl Hc Hg; d16 l Hl; canon16 Hc;
  cbv [g64 nz nth firstn] in Hg.
  apply Z.ltb_lt in Hg. unfold canon in *.
  destruct (small_enum z ltac:(lia)) as [n [Hn Hen]].
  do 64 (destruct n as [|n];
    [ vm_compute in Hen; subst z; split_ifs; run_view2; try kill_const;
      eexists; split; [reflexivity|]; cbv [nz nth]; norm_goal; pow_const; apply stack_eq_refl |]).
  exfalso; lia.
Qed.

(* ---- shifts and rotations by an immediate amount: all 32 forms of each family ------------------- *)
Ltac cases32 n tac := do 32 (destruct n as [|n]; [first [exfalso; lia | tac]|]); exfalso; lia.
Ltac imm_shift leaf :=
  match goal with |- instr_spec_g (ops_of ?nm) _ _ _ _ =>
    let o := eval vm_compute in (ops_of nm) in change (ops_of nm) with o end;
  apply instr_by_view_g; [vm_compute; reflexivity|];
  intros l Hl Hc Hg; d16 l Hl; canon16 Hc; cbv [g1 nz nth firstn] in Hg; guard_facts;
  split_ifs; run_view2; try kill_const;
  eexists; split; [reflexivity|]; cbv [nz nth Z.of_nat Pos.of_succ_nat Pos.succ]; norm_goal; pow_const; small_products_c; leaf.

Ltac imm_leaf := first [ apply stack_eq_refl | fadd_c; apply stack_eq_refl | fadd_c; apply stack_eq_cons; [|apply stack_eq_refl]; unfold TWO32 in *; Z.div_mod_to_equations; lia ].

Theorem u32shl_imm_ok : forall n, (n < 32)%nat ->
  instr_spec_g (ops_of ("u32shl." ++ show n)) 1 g1 no_pre (fun xs => [(nz xs 0 * 2 ^ Z.of_nat n) mod TWO32]).
Proof. intros n Hn. cases32 n ltac:(imm_shift imm_leaf). Qed.

Theorem u32shr_imm_ok : forall n, (n < 32)%nat ->
  instr_spec_g (ops_of ("u32shr." ++ show n)) 1 g1 no_pre (fun xs => [nz xs 0 / 2 ^ Z.of_nat n]).
Proof. intros n Hn. cases32 n ltac:(imm_shift imm_leaf). Qed.
Theorem u32rotl_imm_ok : forall n, (n < 32)%nat ->
  instr_spec_g (ops_of ("u32rotl." ++ show n)) 1 g1 no_pre
    (fun xs => [(nz xs 0 * 2 ^ Z.of_nat n) mod TWO32 + (nz xs 0 * 2 ^ Z.of_nat n) / TWO32]).
Proof. intros n Hn. cases32 n ltac:(imm_shift imm_leaf). Qed.

Theorem u32rotr_imm_ok : forall n, (n < 32)%nat ->
  instr_spec_g (ops_of ("u32rotr." ++ show n)) 1 g1 no_pre
    (fun xs => [nz xs 0 / 2 ^ Z.of_nat n + (nz xs 0 mod 2 ^ Z.of_nat n) * 2 ^ (32 - Z.of_nat n)]).
Proof. intros n Hn. cases32 n ltac:(imm_shift imm_leaf). Qed.

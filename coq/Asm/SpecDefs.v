(* Definitions only (no proofs): the documented effect of instructions as list functions, and the
   transcription of the assembler's immediate expansions.  Kept apart from the theorems so that the
   executable spec still extracts when a proof obligation breaks. *)
From Coq Require Import ZArith List Bool Arith Lia String DecimalString.
From MV Require Import Base.Field Core.Op Core.Rpo Vm.Pure.
Import ListNotations.
Open Scope Z_scope.

Definition no_pre : list Z -> option perr := fun _ => None.

(* list surgery used by the specifications *)
Definition nz (xs : list Z) (i : nat) : Z := nth i xs 0.
Fixpoint remove_at (i : nat) (xs : list Z) : list Z :=
  match xs, i with
  | [], _ => []
  | _ :: t, O => t
  | h :: t, S i' => h :: remove_at i' t
  end.
Fixpoint insert_at (i : nat) (x : Z) (xs : list Z) : list Z :=
  match i with
  | O => x :: xs
  | S i' => match xs with [] => [x] | h :: t => h :: insert_at i' x t end
  end.
Fixpoint set_at (i : nat) (x : Z) (xs : list Z) : list Z :=
  match xs, i with
  | [], _ => []
  | _ :: t, O => x :: t
  | h :: t, S i' => h :: set_at i' x t
  end.
Definition wordn (xs : list Z) (w : nat) : list Z := firstn 4 (skipn (4 * w) xs).

Definition spec_dup (n : nat) (xs : list Z) : list Z := nz xs n :: xs.
Definition spec_swap (n : nat) (xs : list Z) : list Z := set_at n (nz xs 0) (set_at 0 (nz xs n) xs).
Definition spec_movup (n : nat) (xs : list Z) : list Z := nz xs n :: remove_at n xs.
Definition spec_movdn (n : nat) (xs : list Z) : list Z := insert_at n (nz xs 0) (tl xs).
Definition spec_dupw (n : nat) (xs : list Z) : list Z := wordn xs n ++ xs.
Definition spec_swapw (n : nat) (xs : list Z) : list Z :=
  wordn xs n ++ firstn (4 * (n - 1)) (skipn 4 xs) ++ wordn xs 0.
Definition spec_movupw (n : nat) (xs : list Z) : list Z := wordn xs n ++ firstn (4 * n) xs.
Definition spec_movdnw (n : nat) (xs : list Z) : list Z := skipn 4 xs ++ wordn xs 0.


Definition bin_or (v : Z) (k : option perr) : option perr :=
  if negb (is_bin v) then Some (PNotBinary v) else k.


Definition cond_pre (c : Z) : option perr :=
  if c =? 0 then None else if c =? 1 then None else Some (PNotBinary c).

Definition u32b (x : Z) : bool := x <? TWO32.
Definition g1 (xs : list Z) : bool := u32b (nz xs 0).
Definition g2 (xs : list Z) : bool := u32b (nz xs 0) && u32b (nz xs 1).
Definition g3 (xs : list Z) : bool := u32b (nz xs 0) && u32b (nz xs 1) && u32b (nz xs 2).


Definition u32_pre2 (xs : list Z) : option perr :=
  if negb (u32max_ok (nz xs 1)) then Some (PNotU32 (nz xs 1) 0)
  else if negb (u32max_ok (nz xs 0)) then Some (PNotU32 (nz xs 0) 0) else None.

Definition zstr (v : Z) : string := NilZero.string_of_uint (N.to_uint (Z.to_N v)).

Definition push_felt (v : Z) : list op :=
  if v =? 0 then [Pad] else if v =? 1 then [Pad; Incr] else [Push v].

(* immediates are parsed as field elements: v ranges over 0 <= v < P *)
Definition c_add (v : Z) : list op :=
  if v =? 0 then [Noop] else if v =? 1 then [Incr] else if v =? 2 then [Incr; Incr] else [Push v; Add].
Definition c_sub (v : Z) : list op := if v =? 0 then [Noop] else [Push (fneg v); Add].
Definition c_mul (v : Z) : list op :=
  if v =? 0 then [Drop; Pad] else if v =? 1 then [Noop] else [Push v; Mul].
Definition c_div (v : Z) : option (list op) :=
  if v =? 0 then None else if v =? 1 then Some [Noop] else Some [Push (finv v); Mul].
Definition c_eq (v : Z) : list op := if v =? 0 then [Eqz] else [Push v; OpEq].
Definition c_neq (v : Z) : list op := if v =? 0 then [Eqz; Not] else [Push v; OpEq; Not].
Definition c_push (v : Z) : list op := push_felt v.
Definition c_u32 (o : op) (wrapping : bool) (v : Z) : list op :=
  (push_felt v ++ [o] ++ (if wrapping then [Drop] else []))%list.
Definition c_u32div (tail : list op) (v : Z) : option (list op) :=
  if v =? 0 then None else Some (push_felt v ++ [U32div] ++ tail)%list.

(* exp.n: small powers by repeated multiplication, otherwise square-and-multiply over the
   bit length of n *)
Definition c_exp (v : Z) : list op :=
  if v =? 0 then [Drop; Pad; Incr]
  else if v =? 1 then [Noop]
  else if v <=? 7 then (repeat Dup0 (Z.to_nat (v - 1)) ++ repeat Mul (Z.to_nat (v - 1)))%list
  else ([Push v; Pad; Incr; MovUp2; Pad] ++ repeat Expacc (Z.to_nat (Z.log2 v + 1)) ++
        [Drop; Drop; Swap; Eqz; Assert 0])%list.


Local Open Scope string_scope.
(* decimal names of small numbers, for the finite instruction families *)
Definition digit (n : nat) : string :=
  match n with
  | 0 => "0" | 1 => "1" | 2 => "2" | 3 => "3" | 4 => "4" | 5 => "5" | 6 => "6" | 7 => "7"
  | 8 => "8" | _ => "9"
  end%nat.
Definition show (n : nat) : string :=
  if Nat.ltb n 10 then digit n else append (digit (Nat.div n 10)) (digit (Nat.modulo n 10)).


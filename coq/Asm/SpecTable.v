(* Executable index of the instruction specifications used by the theorems of Asm/*Instr.v, so
   that the failing-input search can compare the real assembler + processor against the very
   spec functions the theorems are about. *)
From Coq Require Import ZArith List Bool Arith Lia String.
From MV Require Import Base.Field Core.Op Core.Rpo Vm.Pure Asm.SpecDefs.
Import ListNotations.
Open Scope string_scope.
Open Scope Z_scope.

Record ispec := mkSpec {
  sp_k : nat;
  sp_guard : list Z -> bool;
  sp_pre : list Z -> option perr;
  sp_f : list Z -> list Z }.

Definition tt1 : list Z -> bool := fun _ => true.
Definition S0 k pre f := mkSpec k tt1 pre f.

Definition range (a n : nat) : list nat := seq a n.

Definition spec_table : list (string * ispec) :=
  (map (fun n => (("dup." ++ show n)%string, S0 (n + 1) no_pre (spec_dup n))) (range 0 16) ++
   map (fun n => (("swap." ++ show n)%string, S0 (n + 1) no_pre (spec_swap n))) (range 1 15) ++
   map (fun n => (("movup." ++ show n)%string, S0 (n + 1) no_pre (spec_movup n))) (range 2 14) ++
   map (fun n => (("movdn." ++ show n)%string, S0 (n + 1) no_pre (spec_movdn n))) (range 2 14) ++
   map (fun n => (("dupw." ++ show n)%string, S0 (4 * n + 4) no_pre (spec_dupw n))) (range 0 4) ++
   map (fun n => (("swapw." ++ show n)%string, S0 (4 * n + 4) no_pre (spec_swapw n))) (range 1 3) ++
   map (fun n => (("movupw." ++ show n)%string, S0 (4 * n + 4) no_pre (spec_movupw n))) (range 2 2) ++
   map (fun n => (("movdnw." ++ show n)%string, S0 (4 * n + 4) no_pre (spec_movdnw n))) (range 2 2) ++
   [ ("drop", S0 1 no_pre (fun _ => []));
     ("dropw", S0 4 no_pre (fun _ => []));
     ("padw", S0 0 no_pre (fun _ => [0; 0; 0; 0]));
     ("swapdw", S0 16 no_pre (fun xs => skipn 8 xs ++ firstn 8 xs));
     ("add", S0 2 no_pre (fun xs => [fadd (nz xs 1) (nz xs 0)]));
     ("sub", S0 2 no_pre (fun xs => [fsub (nz xs 1) (nz xs 0)]));
     ("mul", S0 2 no_pre (fun xs => [fmul (nz xs 1) (nz xs 0)]));
     ("div", S0 2 (fun xs => if nz xs 0 =? 0 then Some PDivZero else None)
                (fun xs => [fmul (nz xs 1) (finv (nz xs 0))]));
     ("neg", S0 1 no_pre (fun xs => [fneg (nz xs 0)]));
     ("inv", S0 1 (fun xs => if nz xs 0 =? 0 then Some PDivZero else None) (fun xs => [finv (nz xs 0)]));
     ("not", S0 1 (fun xs => bin_or (nz xs 0) None) (fun xs => [fsub 1 (nz xs 0)]));
     ("and", S0 2 (fun xs => bin_or (nz xs 0) (bin_or (nz xs 1) None))
                (fun xs => [if (nz xs 1 =? 1) && (nz xs 0 =? 1) then 1 else 0]));
     ("or", S0 2 (fun xs => bin_or (nz xs 0) (bin_or (nz xs 1) None))
               (fun xs => [if (nz xs 1 =? 1) || (nz xs 0 =? 1) then 1 else 0]));
     ("eq", S0 2 no_pre (fun xs => [if nz xs 1 =? nz xs 0 then 1 else 0]));
     ("assert", S0 1 (fun xs => if nz xs 0 =? 1 then None else Some (PAssert 0)) (fun _ => []));
     ("assertz", S0 1 (fun xs => if nz xs 0 =? 0 then None else Some (PAssert 0)) (fun _ => []));
     ("assert_eq", S0 2 (fun xs => if nz xs 1 =? nz xs 0 then None else Some (PAssert 0)) (fun _ => []));
     ("cswap", S0 3 (fun xs => cond_pre (nz xs 0))
                  (fun xs => if nz xs 0 =? 0 then [nz xs 1; nz xs 2] else [nz xs 2; nz xs 1]));
     ("cdrop", S0 3 (fun xs => cond_pre (nz xs 0))
                  (fun xs => if nz xs 0 =? 0 then [nz xs 2] else [nz xs 1]));
     ("cswapw", S0 9 (fun xs => cond_pre (nz xs 0))
                   (fun xs => if nz xs 0 =? 0 then firstn 8 (skipn 1 xs)
                              else firstn 4 (skipn 5 xs) ++ firstn 4 (skipn 1 xs)));
     ("cdropw", S0 9 (fun xs => cond_pre (nz xs 0))
                   (fun xs => if nz xs 0 =? 0 then firstn 4 (skipn 5 xs) else firstn 4 (skipn 1 xs)));
     ("u32split", S0 1 no_pre (fun xs => [nz xs 0 / TWO32; nz xs 0 mod TWO32]));
     ("u32cast", S0 1 no_pre (fun xs => [nz xs 0 mod TWO32]));
     ("u32assert2", S0 2 (fun xs => if negb (u32max_ok (nz xs 0)) then Some (PNotU32 (nz xs 0) 0)
                                    else if negb (u32max_ok (nz xs 1)) then Some (PNotU32 (nz xs 1) 0)
                                    else None) (fun xs => xs));
     ("u32assert", S0 1 (fun xs => if negb (u32max_ok (nz xs 0)) then Some (PNotU32 (nz xs 0) 0) else None)
                      (fun xs => xs));
     ("u32overflowing_add", mkSpec 2 g2 no_pre
        (fun xs => [(nz xs 1 + nz xs 0) / TWO32; (nz xs 1 + nz xs 0) mod TWO32]));
     ("u32wrapping_add", mkSpec 2 g2 no_pre (fun xs => [(nz xs 1 + nz xs 0) mod TWO32]));
     ("u32overflowing_add3", mkSpec 3 g3 no_pre
        (fun xs => [(nz xs 2 + nz xs 1 + nz xs 0) / TWO32; (nz xs 2 + nz xs 1 + nz xs 0) mod TWO32]));
     ("u32overflowing_mul", mkSpec 2 g2 no_pre
        (fun xs => [(nz xs 1 * nz xs 0) / TWO32; (nz xs 1 * nz xs 0) mod TWO32]));
     ("u32wrapping_mul", mkSpec 2 g2 no_pre (fun xs => [(nz xs 1 * nz xs 0) mod TWO32]));
     ("u32overflowing_madd", mkSpec 3 g3 no_pre
        (fun xs => [(nz xs 1 * nz xs 0 + nz xs 2) / TWO32; (nz xs 1 * nz xs 0 + nz xs 2) mod TWO32]));
     ("u32divmod", mkSpec 2 g2 (fun xs => if nz xs 0 =? 0 then Some PDivZero else None)
        (fun xs => [nz xs 1 mod nz xs 0; nz xs 1 / nz xs 0]));
     ("u32div", mkSpec 2 g2 (fun xs => if nz xs 0 =? 0 then Some PDivZero else None)
        (fun xs => [nz xs 1 / nz xs 0]));
     ("u32mod", mkSpec 2 g2 (fun xs => if nz xs 0 =? 0 then Some PDivZero else None)
        (fun xs => [nz xs 1 mod nz xs 0]));
     ("u32and", S0 2 u32_pre2 (fun xs => [Z.land (nz xs 1) (nz xs 0)]));
     ("u32xor", S0 2 u32_pre2 (fun xs => [Z.lxor (nz xs 1) (nz xs 0)])) ])%list.

(* immediate families: name, immediate -> spec *)
Definition imm_spec (fam : string) (v : Z) : option ispec :=
  if String.eqb fam "push" then Some (S0 0 no_pre (fun _ => [v]))
  else if String.eqb fam "add" then Some (S0 1 no_pre (fun xs => [fadd (nz xs 0) v]))
  else if String.eqb fam "sub" then Some (S0 1 no_pre (fun xs => [fsub (nz xs 0) v]))
  else if String.eqb fam "mul" then Some (S0 1 no_pre (fun xs => [fmul (nz xs 0) v]))
  else if String.eqb fam "div" then Some (S0 1 no_pre (fun xs => [fmul (nz xs 0) (finv v)]))
  else if String.eqb fam "exp" then Some (S0 1 no_pre (fun xs => [fpow (nz xs 0) v]))
  else if String.eqb fam "eq" then Some (S0 1 no_pre (fun xs => [if nz xs 0 =? v then 1 else 0]))
  else None.

Fixpoint find_spec (name : string) (t : list (string * ispec)) : option ispec :=
  match t with
  | [] => None
  | (n, s) :: r => if String.eqb n name then Some s else find_spec name r
  end.

Inductive sres := SOk (l : list Z) | SErr (e : perr) | SUndef | SNoSpec.

Definition run_spec (s : ispec) (l : list Z) : sres :=
  let xs := firstn (sp_k s) l in
  if negb (sp_guard s xs) then SUndef
  else match sp_pre s xs with
       | Some e => SErr e
       | None => SOk (sp_f s xs ++ skipn (sp_k s) l)
       end.

(* stack given top first, padded by the caller to at least 16 elements *)
Definition spec_by_name (name : string) (l : list Z) : sres :=
  match find_spec name spec_table with Some s => run_spec s l | None => SNoSpec end.
Definition spec_by_imm (fam : string) (v : Z) (l : list Z) : sres :=
  match imm_spec fam v with Some s => run_spec s l | None => SNoSpec end.

(* Stack-manipulation instructions: every form the assembler accepts, against its documented
   effect, for every stack (docs/src/user_docs/assembly/stack_manipulation.md). *)
From Coq Require Import ZArith List Bool Arith Lia String.
From MV Require Import Base.Field Core.Op Core.Rpo Vm.Pure Vm.PureProps Gen.AsmGen Asm.Instr Asm.SpecDefs.
Import ListNotations.
Open Scope Z_scope.

Ltac d16 l Hl := do 16 (destruct l as [|? l]; [cbn in Hl; lia|]).

(* split [Forall canon (x0 :: ... :: x15 :: l)] into one hypothesis per element *)
Ltac canon16 Hc :=
  unfold all_canon in Hc;
  do 16 (let C := fresh "C" in let Hr := fresh "Hc" in
         pose proof (Forall_inv Hc) as C; pose proof (Forall_inv_tail Hc) as Hr; clear Hc; rename Hr into Hc).

Ltac run_view :=
  cbv [vpure_ops pure_ops_gen vpure_op pure_op_gen vreplace gl gls nth skipn app seq map firstn
       List.length no_pre nz remove_at insert_at set_at wordn spec_dup spec_swap spec_movup spec_movdn
       spec_dupw spec_swapw spec_movupw spec_movdnw Nat.mul Nat.add Nat.sub tl hd rev].

Ltac norm_ops :=
  match goal with
  | |- instr_spec (ops_of ?nm) _ _ _ =>
      let o := eval vm_compute in (ops_of nm) in change (ops_of nm) with o
  end.

Ltac elems :=
  repeat (apply stack_eq_cons; [first [reflexivity | (rewrite ?fadd_0_l, ?fadd_0_r by assumption); reflexivity]|]);
  apply stack_eq_refl.

Ltac perm_instr :=
  norm_ops; apply instr_by_view; [vm_compute; reflexivity|];
  intros l Hl Hc; d16 l Hl; canon16 Hc; run_view;
  eexists; split; [reflexivity | elems].

Ltac cases16 n Hn tac := do 16 (destruct n as [|n]; [first [exfalso; lia | tac]|]); exfalso; lia.

Theorem dup_ok : forall n, (n < 16)%nat ->
  instr_spec (ops_of ("dup." ++ show n)) (n + 1) no_pre (spec_dup n).
Proof. intros n Hn. cases16 n Hn perm_instr. Qed.

Theorem swap_ok : forall n, (1 <= n < 16)%nat ->
  instr_spec (ops_of ("swap." ++ show n)) (n + 1) no_pre (spec_swap n).
Proof. intros n Hn. destruct n as [|n]; [exfalso; lia|]. cases16 n Hn perm_instr. Qed.

Theorem movup_ok : forall n, (2 <= n < 16)%nat ->
  instr_spec (ops_of ("movup." ++ show n)) (n + 1) no_pre (spec_movup n).
Proof. intros n Hn. do 2 (destruct n as [|n]; [exfalso; lia|]). cases16 n Hn perm_instr. Qed.

Theorem movdn_ok : forall n, (2 <= n < 16)%nat ->
  instr_spec (ops_of ("movdn." ++ show n)) (n + 1) no_pre (spec_movdn n).
Proof. intros n Hn. do 2 (destruct n as [|n]; [exfalso; lia|]). cases16 n Hn perm_instr. Qed.

Theorem dupw_ok : forall n, (n < 4)%nat ->
  instr_spec (ops_of ("dupw." ++ show n)) (4 * n + 4) no_pre (spec_dupw n).
Proof. intros n Hn. do 4 (destruct n as [|n]; [perm_instr|]). exfalso; lia. Qed.

Theorem swapw_ok : forall n, (1 <= n < 4)%nat ->
  instr_spec (ops_of ("swapw." ++ show n)) (4 * n + 4) no_pre (spec_swapw n).
Proof. intros n Hn. destruct n as [|n]; [exfalso; lia|]. do 3 (destruct n as [|n]; [perm_instr|]). exfalso; lia. Qed.

Theorem movupw_ok : forall n, (2 <= n < 4)%nat ->
  instr_spec (ops_of ("movupw." ++ show n)) (4 * n + 4) no_pre (spec_movupw n).
Proof. intros n Hn. do 2 (destruct n as [|n]; [exfalso; lia|]). do 2 (destruct n as [|n]; [perm_instr|]). exfalso; lia. Qed.

Theorem movdnw_ok : forall n, (2 <= n < 4)%nat ->
  instr_spec (ops_of ("movdnw." ++ show n)) (4 * n + 4) no_pre (spec_movdnw n).
Proof. intros n Hn. do 2 (destruct n as [|n]; [exfalso; lia|]). do 2 (destruct n as [|n]; [perm_instr|]). exfalso; lia. Qed.

Theorem drop_ok : instr_spec (ops_of "drop") 1 no_pre (fun _ => []).
Proof. perm_instr. Qed.
Theorem dropw_ok : instr_spec (ops_of "dropw") 4 no_pre (fun _ => []).
Proof. perm_instr. Qed.
Theorem padw_ok : instr_spec (ops_of "padw") 0 no_pre (fun _ => [0; 0; 0; 0]).
Proof. perm_instr. Qed.
Theorem swapdw_ok : instr_spec (ops_of "swapdw") 16 no_pre (fun xs => (skipn 8 xs ++ firstn 8 xs)%list).
Proof. perm_instr. Qed.

(* Specification-level models of the standard library's stack and memory utilities (stdlib/asm/sys.masm,
   mem.masm), written after the structure of the procedures, with the contracts they keep.  The
   models are compared with the real procedures by the C18 check. *)
From Coq Require Import ZArith List Bool Arith Lia.
Import ListNotations.
Open Scope Z_scope.

(* ---- sys::truncate_stack --------------------------------------------------------------------- *)
(* the stack never gets shallower than 16: dropping refills with zeros from below *)
Definition pad16 (l : list Z) : list Z := l ++ repeat 0 (16 - length l).
Definition dropw (l : list Z) : list Z := pad16 (skipn 4 l).

(* save the top 16 in locals, drop them, drop words while the depth is not 16, restore *)
Fixpoint drop_until_16 (fuel : nat) (l : list Z) : list Z :=
  match fuel with
  | O => l
  | S f => if Nat.eqb (length l) 16 then l else drop_until_16 f (dropw l)
  end.

Definition truncate_stack (l : list Z) : list Z :=
  let saved := firstn 16 l in
  let rest := dropw (dropw (dropw (dropw l))) in
  let rest := drop_until_16 (length l) rest in
  saved ++ skipn 16 rest.

Lemma pad16_length l : (16 <= length (pad16 l))%nat.
Proof. unfold pad16. rewrite app_length, repeat_length. lia. Qed.

Lemma dropw_length l : (16 <= length l)%nat -> length (dropw l) = Nat.max 16 (length l - 4).
Proof. intros H. unfold dropw, pad16. rewrite app_length, repeat_length, skipn_length. lia. Qed.

Lemma drop_until_16_length : forall fuel l,
  (16 <= length l)%nat -> (length l - 16 <= 4 * fuel)%nat -> length (drop_until_16 fuel l) = 16%nat.
Proof.
  induction fuel as [|f IH]; intros l Hl Hf; cbn [drop_until_16].
  - lia.
  - destruct (Nat.eqb (length l) 16) eqn:E; [apply Nat.eqb_eq in E; exact E|].
    apply Nat.eqb_neq in E. apply IH; rewrite dropw_length by exact Hl; lia.
Qed.

(* C18: for every stack of depth >= 16 the result is exactly the original top 16 elements *)
Theorem truncate_stack_spec : forall l, (16 <= length l)%nat -> truncate_stack l = firstn 16 l.
Proof.
  intros l Hl. unfold truncate_stack.
  set (r := dropw (dropw (dropw (dropw l)))).
  assert (Hr : (16 <= length r)%nat) by (unfold r, dropw; apply pad16_length).
  assert (Hr2 : (length r - 16 <= 4 * length l)%nat).
  { unfold r. rewrite !dropw_length; try lia; rewrite ?dropw_length; try lia;
      rewrite ?dropw_length; try lia; rewrite ?dropw_length; lia. }
  pose proof (drop_until_16_length (length l) r Hr Hr2) as H16.
  rewrite skipn_all2 by lia. apply app_nil_r.
Qed.

(* ---- mem::memcopy --------------------------------------------------------------------------------- *)
Definition word := list Z.
Definition memory := Z -> word.
Definition upd (m : memory) (a : Z) (w : word) : memory := fun x => if x =? a then w else m x.

(* n words, ascending, one read then one write per step *)
Fixpoint memcopy (n : nat) (r w : Z) (m : memory) : memory :=
  match n with
  | O => m
  | S n' => memcopy n' (r + 1) (w + 1) (upd m w (m r))
  end.

Lemma memcopy_outside : forall n r w m x, (x < w \/ w + Z.of_nat n <= x) -> memcopy n r w m x = m x.
Proof.
  induction n as [|n IH]; intros r w m x Hx; cbn [memcopy]; [reflexivity|].
  rewrite IH by lia. unfold upd. destruct (x =? w) eqn:E; [apply Z.eqb_eq in E; lia | reflexivity].
Qed.

(* C18: when the destination does not start inside the part of the source still to be read
   (write_ptr <= read_ptr, or the ranges are disjoint) every destination word is the source word,
   and nothing outside the destination changes; a zero length changes nothing *)
Theorem memcopy_spec : forall n r w m,
  (w <= r \/ r + Z.of_nat n <= w) ->
  (forall i, 0 <= i < Z.of_nat n -> memcopy n r w m (w + i) = m (r + i)) /\
  (forall x, (x < w \/ w + Z.of_nat n <= x) -> memcopy n r w m x = m x).
Proof.
  intros n r w m H. split; [|intros x Hx; apply memcopy_outside; exact Hx].
  revert r w m H. induction n as [|n IH]; intros r w m H i Hi; [lia|].
  cbn [memcopy]. destruct (Z.eq_dec i 0) as [->|Hi0].
  - rewrite Z.add_0_r. rewrite memcopy_outside by lia. unfold upd. rewrite Z.eqb_refl. rewrite Z.add_0_r. reflexivity.
  - replace (w + i) with (w + 1 + (i - 1)) by lia.
    rewrite IH by lia. unfold upd.
    destruct (r + 1 + (i - 1) =? w) eqn:E; [apply Z.eqb_eq in E; lia|]. f_equal. lia.
Qed.

Theorem memcopy_zero : forall r w m, memcopy 0 r w m = m.
Proof. reflexivity. Qed.

(* The 256-bit procedures of the standard library (std::math::u256) over the operation lists of
   Gen/StdGen.v: addition modulo 2^256 (carry chain over eight limbs), limb-wise AND/OR/XOR, zero and
   equality tests.  Operands: b at positions 0..7, a at positions 8..15, most significant limb first. *)
From Coq Require Import ZArith List Bool Arith Lia String.
From MV Require Import Base.Field Core.Op Core.Rpo Vm.Pure Vm.PureProps Gen.AsmGen Gen.StdGen Asm.Instr
  Asm.SpecDefs Asm.StackInstr Asm.FieldInstr Asm.U32Instr Asm.U64Instr Asm.U64More Asm.MoreInstr.
Import ListNotations.
Open Scope Z_scope.

(* little-endian value of a list of 32-bit limbs *)
Fixpoint val (rs : list Z) : Z := match rs with [] => 0 | r :: t => r + TWO32 * val t end.
Definition limb (r : Z) : Prop := 0 <= r < TWO32.

Lemma val_bound rs : Forall limb rs -> 0 <= val rs < TWO32 ^ Z.of_nat (List.length rs).
Proof.
  induction 1 as [|r t Hr Ht IH]; [cbn; lia|].
  cbn [val List.length]. rewrite Nat2Z.inj_succ, Z.pow_succ_r by lia. unfold limb in Hr. unfold TWO32 in *. nia.
Qed.

Lemma val_limb rs : Forall limb rs -> forall j, (val rs / TWO32 ^ Z.of_nat j) mod TWO32 = nth j rs 0.
Proof.
  induction 1 as [|r t Hr Ht IH]; intros j.
  - cbn [val]. rewrite Z.div_0_l, Z.mod_0_l; [destruct j; reflexivity | unfold TWO32; lia | apply Z.pow_nonzero; unfold TWO32; lia].
  - destruct j as [|j].
    + cbn [Z.of_nat nth val]. rewrite Z.pow_0_r, Z.div_1_r. unfold limb in Hr.
      replace (r + TWO32 * val t) with (r + val t * TWO32) by ring.
      rewrite Z_mod_plus_full. apply Z.mod_small. exact Hr.
    + cbn [nth val]. rewrite Nat2Z.inj_succ, Z.pow_succ_r by lia.
      rewrite <- Z.div_div; [|unfold TWO32; lia | apply Z.pow_pos_nonneg; unfold TWO32; lia].
      replace ((r + TWO32 * val t) / TWO32) with (val t); [apply IH|].
      unfold limb in Hr. replace (r + TWO32 * val t) with (val t * TWO32 + r) by ring.
      rewrite Z.div_add_l by (unfold TWO32; lia). rewrite (Z.div_small r) by exact Hr. lia.
Qed.

(* most significant limb first, as the 256-bit procedures return them *)
Definition limbs256 (v : Z) : list Z :=
  map (fun k => (v / TWO32 ^ Z.of_nat (7 - k)) mod TWO32) (seq 0 8).

Lemma limbs256_val r0 r1 r2 r3 r4 r5 r6 r7 c :
  limb r0 -> limb r1 -> limb r2 -> limb r3 -> limb r4 -> limb r5 -> limb r6 -> limb r7 ->
  limbs256 ((val [r0; r1; r2; r3; r4; r5; r6; r7] + c * 2 ^ 256) mod 2 ^ 256) = [r7; r6; r5; r4; r3; r2; r1; r0].
Proof.
  intros L0 L1 L2 L3 L4 L5 L6 L7.
  assert (F : Forall limb [r0; r1; r2; r3; r4; r5; r6; r7]) by (repeat (constructor; [assumption|]); constructor).
  pose proof (val_bound _ F) as B. cbn [List.length] in B.
  replace (TWO32 ^ Z.of_nat 8) with (2 ^ 256) in B by reflexivity.
  rewrite Z_mod_plus_full, Z.mod_small by exact B.
  unfold limbs256. cbn [seq map Nat.sub]. rewrite !(val_limb _ F). reflexivity.
Qed.

Definition g16 (xs : list Z) : bool := forallb u32b (firstn 16 xs).
(* eight limbs, most significant first, from position i of the operand list *)
Definition V256 (xs : list Z) (i : nat) : Z :=
  val [nz xs (i + 7); nz xs (i + 6); nz xs (i + 5); nz xs (i + 4); nz xs (i + 3); nz xs (i + 2); nz xs (i + 1); nz xs i].

Lemma carry3_bound a b c : 0 <= a < TWO32 -> 0 <= b < TWO32 -> 0 <= c < TWO32 -> 0 <= (a + b + c) / TWO32 < TWO32.
Proof. unfold TWO32. intros. split; [apply Z.div_pos; lia | apply Z.div_lt_upper_bound; lia]. Qed.
Lemma add3_small a b c : 0 <= a < TWO32 -> 0 <= b < TWO32 -> 0 <= c < TWO32 ->
  felt_of_u64 (wrap64 (a + b + c)) = a + b + c.
Proof. unfold felt_of_u64, wrap64, TWO32, TWO64, P. intros. rewrite (Z.mod_small (a + b + c)) by lia. apply Z.mod_small. lia. Qed.

Ltac wb := first [ assumption | lia | apply mod32_bound | apply carry_bound; wb | apply carry3_bound; wb ].
Ltac small_sums :=
  repeat first
    [ rewrite hi32_div | rewrite lo32_mod
    | match goal with
      | |- context [felt_of_u64 (wrap64 (?a + ?b + ?c))] => rewrite (add3_small a b c) by wb
      | |- context [fadd ?a ?b] => rewrite (fadd_small a b) by wb
      end ].

Ltac no_divmod t :=
  lazymatch t with
  | context [_ / TWO32] => fail
  | context [_ mod TWO32] => fail
  | _ => idtac
  end.
Ltac name_one_g t :=
  let q := fresh "q" in let r := fresh "r" in
  let E := fresh "E" in let B := fresh "B" in
  destruct (div_mod32 t) as [E B];
  set (q := t / TWO32) in *; set (r := t mod TWO32) in *; clearbody q r.
Ltac name_divmods_g :=
  repeat match goal with
         | |- context [?t / TWO32] => no_divmod t; name_one_g t
         | |- context [?t mod TWO32] => no_divmod t; name_one_g t
         end.

Lemma stack_eq_tail3 (l : list Z) : stack_eq (nth 0 l 0 :: nth 1 l 0 :: nth 2 l 0 :: skipn 3 l) l.
Proof. intros i. destruct i as [|[|[|i]]]; try reflexivity. cbn [nth]. rewrite nth_skipn_z. reflexivity. Qed.

Ltac limb_of_hyps := unfold limb; first [assumption | lia].

Local Open Scope string_scope.
Theorem u256_add : instr_spec_g (std_ops_of "u256::add_unsafe") 16 g16 no_pre
  (fun xs => limbs256 ((V256 xs 8 + V256 xs 0) mod 2 ^ 256)).
Proof.
  norm_std; apply instr_by_view_g; [vm_compute; reflexivity|].
  intros l Hl Hc Hg; d16 l Hl; canon16 Hc.
  cbv [g16 forallb firstn] in Hg; guard_facts.
  split_ifs; run_view2; try kill_const.
  eexists; split; [reflexivity|]. cbv [V256 nz]. cbn [nth Nat.add firstn]. small_sums.
  name_divmods_g.
  match goal with
  | E : _ = TWO32 * ?c + ?a7 |- stack_eq (?a7 :: ?a6 :: ?a5 :: ?a4 :: ?a3 :: ?a2 :: ?a1 :: ?a0 :: _) _ =>
      replace (val [z14; z13; z12; z11; z10; z9; z8; z7] + val [z6; z5; z4; z3; z2; z1; z0; z])
        with (val [a0; a1; a2; a3; a4; a5; a6; a7] + c * 2 ^ 256)
        by (cbn [val]; change (2 ^ 256) with (TWO32 * TWO32 * TWO32 * TWO32 * TWO32 * TWO32 * TWO32 * TWO32); unfold TWO32 in *; lia);
      rewrite limbs256_val by limb_of_hyps
  end.
  cbn [app]. repeat (apply stack_eq_cons; [reflexivity|]). apply stack_eq_tail3.
Qed.

(* limb-wise bitwise operations; operands b = positions 0..7, a = positions 8..15 *)
Definition limbwise (f : Z -> Z -> Z) (xs : list Z) : list Z :=
  map (fun k => f (nz xs k) (nz xs (8 + k))) (seq 0 8).

Ltac not_u32_contra16 :=
  exfalso;
  match goal with
  | H : negb (u32max_ok ?z) = true |- _ => rewrite (u32max_ok_lt z) in H by assumption; discriminate H
  end.

Ltac limbwise_proof comm :=
  norm_std; apply instr_by_view_g; [vm_compute; reflexivity|];
  intros l Hl Hc Hg; d16 l Hl; canon16 Hc;
  cbv [g16 forallb firstn] in Hg; guard_facts;
  split_ifs; run_view2; try kill_const;
  lazymatch goal with
  | |- exists _, POk _ = POk _ /\ _ =>
      eexists; split; [reflexivity|]; cbv [limbwise map seq nz]; cbn [nth Nat.add app];
      rewrite ?lor_field by lia;
      repeat (apply stack_eq_cons; [first [reflexivity | apply comm]|]); apply stack_eq_refl
  | |- _ => not_u32_contra16
  end.

Theorem u256_and : instr_spec_g (std_ops_of "u256::and") 16 g16 no_pre (limbwise Z.land).
Proof. limbwise_proof Z.land_comm. Qed.
Theorem u256_xor : instr_spec_g (std_ops_of "u256::xor") 16 g16 no_pre (limbwise Z.lxor).
Proof. limbwise_proof Z.lxor_comm. Qed.
Theorem u256_or : instr_spec_g (std_ops_of "u256::or") 16 g16 no_pre (limbwise Z.lor).
Proof. limbwise_proof Z.lor_comm. Qed.

Ltac destruct_eqbs :=
  repeat match goal with
         | |- context [(?a =? ?b)%Z] => first [is_var a | is_var b]; destruct (a =? b)%Z; cbn
         | H : context [(?a =? ?b)%Z] |- _ => first [is_var a | is_var b]; destruct (a =? b)%Z; cbn in H
         end.
Ltac revert_bools :=
  repeat match goal with
         | H : _ = true |- _ => revert H
         | H : _ = false |- _ => revert H
         end.
Ltac flags_proof :=
  norm_std; apply instr_by_view_g; [vm_compute; reflexivity|];
  intros l Hl Hc Hg; d16 l Hl; canon16 Hc;
  split_ifs; run_view2; try kill_const;
  lazymatch goal with
  | |- exists _, POk _ = POk _ /\ _ =>
      eexists; split; [reflexivity|]; cbv [bool01 forallb seq nz]; cbn [nth Nat.add app];
      apply stack_eq_cons; [|apply stack_eq_refl];
      revert_bools; destruct_eqbs; intros; first [reflexivity | discriminate | congruence]
  | |- _ =>
      exfalso; revert_bools; destruct_eqbs; intros; first [discriminate | congruence]
  end.

Theorem u256_iszero : instr_spec_g (std_ops_of "u256::iszero_unsafe") 8 (fun _ => true) no_pre
  (fun xs => [bool01 (forallb (fun k => nz xs k =? 0)%Z (seq 0 8))]).
Proof. flags_proof. Qed.
Theorem u256_eq : instr_spec_g (std_ops_of "u256::eq_unsafe") 16 (fun _ => true) no_pre
  (fun xs => [bool01 (forallb (fun k => nz xs k =? nz xs (8 + k))%Z (seq 0 8))]).
Proof. flags_proof. Qed.

(* ---- subtraction modulo 2^256: borrow chain over eight limbs ---------------------------------------- *)
Lemma borrow_div a b : 0 <= a < TWO32 -> 0 <= b < TWO32 ->
  Z.shiftr (wrap64 (a - b)) 63 = - ((a - b) / TWO32).
Proof.
  intros Ha Hb. rewrite borrow_bit by lia. unfold TWO32 in *.
  destruct (Z.ltb_spec a b); Z.div_mod_to_equations; nia.
Qed.

Ltac pure t :=
  lazymatch t with
  | context [fadd _ _] => fail
  | context [hi32 _] => fail
  | context [lo32 _] => fail
  | context [wrap64 _] => fail
  | context [Z.shiftr _ _] => fail
  | context [_ / _] => fail
  | context [_ mod _] => fail
  | _ => idtac
  end.
Ltac nm t :=
  let q := fresh "q" in let r := fresh "r" in
  let E := fresh "E" in let B := fresh "B" in
  destruct (div_mod32 t) as [E B];
  set (q := t / TWO32) in *; set (r := t mod TWO32) in *; clearbody q r.
Ltac tb := unfold TWO32 in *; lia.
Ltac norm_u32_step :=
  match goal with
  | |- context [fadd ?a ?b] => pure a; pure b; rewrite (fadd_small a b) by tb
  | |- context [lo32 (wrap64 (?a - ?b))] => pure a; pure b;
      rewrite ?(lo_sub a b), ?(borrow_div a b) by tb; nm (a - b)
  | |- context [Z.shiftr (wrap64 (?a - ?b)) 63] => pure a; pure b;
      rewrite ?(lo_sub a b), ?(borrow_div a b) by tb; nm (a - b)
  | |- context [hi32 ?x] => pure x; rewrite ?(hi32_div x), ?(lo32_mod x); nm x
  | |- context [lo32 ?x] => pure x; rewrite ?(hi32_div x), ?(lo32_mod x); nm x
  end.

Theorem u256_sub : instr_spec_g (std_ops_of "u256::sub_unsafe") 16 g16 no_pre
  (fun xs => limbs256 ((V256 xs 8 - V256 xs 0) mod 2 ^ 256)).
Proof.
  norm_std; apply instr_by_view_g; [vm_compute; reflexivity|].
  intros l Hl Hc Hg; d16 l Hl; canon16 Hc.
  cbv [g16 forallb firstn] in Hg; guard_facts.
  split_ifs; run_view2; try kill_const.
  eexists; split; [reflexivity|]. cbv [V256 nz]. cbn [nth Nat.add firstn].
  repeat norm_u32_step.
  match goal with
  | Es : ?x - ?rt = TWO32 * ?qs + ?a7, Et : _ = TWO32 * ?qt + ?rt
    |- stack_eq (?a7 :: ?a6 :: ?a5 :: ?a4 :: ?a3 :: ?a2 :: ?a1 :: ?a0 :: _) _ =>
      replace (val [z14; z13; z12; z11; z10; z9; z8; z7] - val [z6; z5; z4; z3; z2; z1; z0; z])
        with (val [a0; a1; a2; a3; a4; a5; a6; a7] + (qs - qt) * 2 ^ 256)
        by (cbn [val]; change (2 ^ 256) with (TWO32 * TWO32 * TWO32 * TWO32 * TWO32 * TWO32 * TWO32 * TWO32); unfold TWO32 in *; lia);
      rewrite limbs256_val by (unfold limb; assumption)
  end.
  cbn [app]. repeat (apply stack_eq_cons; [reflexivity|]). apply stack_eq_tail3.
Qed.

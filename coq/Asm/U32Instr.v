(* u32 instructions against docs/src/user_docs/assembly/u32_operations.md.  Unchecked
   operations are specified under the guard "operands < 2^32" (the documentation leaves the
   result undefined otherwise); checked ones fail with NotU32 exactly outside it. *)
From Coq Require Import ZArith List Bool Arith Lia String.
From MV Require Import Base.Field Core.Op Core.Rpo Vm.Pure Vm.PureProps Gen.AsmGen Asm.Instr
  Asm.SpecDefs Asm.StackInstr Asm.FieldInstr.
Import ListNotations.
Open Scope Z_scope.

Lemma hi32_div x : hi32 x = x / TWO32.
Proof. unfold hi32. rewrite Z.shiftr_div_pow2 by lia. reflexivity. Qed.
Lemma lo32_mod x : lo32 x = x mod TWO32.
Proof. unfold lo32. change U32MAX with (Z.ones 32). rewrite Z.land_ones by lia. reflexivity. Qed.

Ltac guard_facts :=
  repeat match goal with
         | H : _ && _ = true |- _ => apply andb_true_iff in H; destruct H
         | H : u32b _ = true |- _ => unfold u32b in H; apply Z.ltb_lt in H
         | H : canon _ |- _ => unfold canon in H
         end.

Ltac solve_instr_g alg :=
  norm_ops_g; apply instr_by_view_g; [vm_compute; reflexivity|];
  intros l Hl Hc Hg; d16 l Hl; canon16 Hc;
  cbv [g1 g2 g3 nz nth firstn] in Hg; guard_facts; split_ifs; close_leaf alg
with norm_ops_g :=
  match goal with
  | |- instr_spec_g (ops_of ?nm) _ _ _ _ =>
      let o := eval vm_compute in (ops_of nm) in change (ops_of nm) with o
  end.

Ltac small :=
  unfold fadd, felt_of_u64, wrap64, TWO64, TWO32, P in *;
  repeat match goal with
         | |- context [?x mod 18446744069414584321] =>
             rewrite (Z.mod_small x 18446744069414584321) by nia
         | |- context [?x mod 18446744073709551616] =>
             rewrite (Z.mod_small x 18446744073709551616) by nia
         end.

(* ---- conversions and tests ----------------------------------------------------------------- *)
Theorem u32split_ok : instr_spec (ops_of "u32split") 1 no_pre
    (fun xs => [nz xs 0 / TWO32; nz xs 0 mod TWO32]).
Proof.
  solve_instr ltac:(first [apply hi32_div | apply lo32_mod]).
Qed.
Theorem u32cast_ok : instr_spec (ops_of "u32cast") 1 no_pre (fun xs => [nz xs 0 mod TWO32]).
Proof. solve_instr ltac:(apply lo32_mod). Qed.
Theorem u32assert2_ok : instr_spec (ops_of "u32assert2") 2
    (fun xs => if negb (u32max_ok (nz xs 0)) then Some (PNotU32 (nz xs 0) 0)
               else if negb (u32max_ok (nz xs 1)) then Some (PNotU32 (nz xs 1) 0) else None)
    (fun xs => xs).
Proof. solve_instr idtac. Qed.
Theorem u32assert_ok : instr_spec (ops_of "u32assert") 1
    (fun xs => if negb (u32max_ok (nz xs 0)) then Some (PNotU32 (nz xs 0) 0) else None)
    (fun xs => xs).
Proof. solve_instr ltac:(try discriminate). Qed.

(* ---- arithmetic ------------------------------------------------------------------------------ *)
Theorem u32overflowing_add_ok : instr_spec_g (ops_of "u32overflowing_add") 2 g2 no_pre
    (fun xs => [(nz xs 1 + nz xs 0) / TWO32; (nz xs 1 + nz xs 0) mod TWO32]).
Proof.
  solve_instr_g ltac:(rewrite ?hi32_div, ?lo32_mod;
                      small; reflexivity).
Qed.
Theorem u32wrapping_add_ok : instr_spec_g (ops_of "u32wrapping_add") 2 g2 no_pre
    (fun xs => [(nz xs 1 + nz xs 0) mod TWO32]).
Proof.
  solve_instr_g ltac:(rewrite ?lo32_mod;
                      small; reflexivity).
Qed.
Theorem u32overflowing_add3_ok : instr_spec_g (ops_of "u32overflowing_add3") 3 g3 no_pre
    (fun xs => [(nz xs 2 + nz xs 1 + nz xs 0) / TWO32; (nz xs 2 + nz xs 1 + nz xs 0) mod TWO32]).
Proof.
  solve_instr_g ltac:(rewrite ?hi32_div, ?lo32_mod;
                      small; reflexivity).
Qed.
Theorem u32overflowing_mul_ok : instr_spec_g (ops_of "u32overflowing_mul") 2 g2 no_pre
    (fun xs => [(nz xs 1 * nz xs 0) / TWO32; (nz xs 1 * nz xs 0) mod TWO32]).
Proof.
  solve_instr_g ltac:(rewrite ?hi32_div, ?lo32_mod;
                      small; reflexivity).
Qed.
Theorem u32wrapping_mul_ok : instr_spec_g (ops_of "u32wrapping_mul") 2 g2 no_pre
    (fun xs => [(nz xs 1 * nz xs 0) mod TWO32]).
Proof.
  solve_instr_g ltac:(rewrite ?lo32_mod;
                      small; reflexivity).
Qed.
Theorem u32overflowing_madd_ok : instr_spec_g (ops_of "u32overflowing_madd") 3 g3 no_pre
    (fun xs => [(nz xs 1 * nz xs 0 + nz xs 2) / TWO32; (nz xs 1 * nz xs 0 + nz xs 2) mod TWO32]).
Proof.
  solve_instr_g ltac:(rewrite ?hi32_div, ?lo32_mod;
                      small; reflexivity).
Qed.

(* division: fails on a zero divisor, otherwise quotient / remainder *)
Theorem u32divmod_ok : instr_spec_g (ops_of "u32divmod") 2 g2
    (fun xs => if nz xs 0 =? 0 then Some PDivZero else None)
    (fun xs => [nz xs 1 mod nz xs 0; nz xs 1 / nz xs 0]).
Proof.
  solve_instr_g ltac:(match goal with H : (?b =? 0) = false |- _ => apply Z.eqb_neq in H end;
                      rewrite Z.mod_eq by lia; lia).
Qed.
Theorem u32div_ok : instr_spec_g (ops_of "u32div") 2 g2
    (fun xs => if nz xs 0 =? 0 then Some PDivZero else None) (fun xs => [nz xs 1 / nz xs 0]).
Proof. solve_instr_g idtac. Qed.
Theorem u32mod_ok : instr_spec_g (ops_of "u32mod") 2 g2
    (fun xs => if nz xs 0 =? 0 then Some PDivZero else None) (fun xs => [nz xs 1 mod nz xs 0]).
Proof.
  solve_instr_g ltac:(match goal with H : (?b =? 0) = false |- _ => apply Z.eqb_neq in H end;
                      rewrite Z.mod_eq by lia; lia).
Qed.

(* bitwise: checked *)
Theorem u32and_ok : instr_spec (ops_of "u32and") 2 u32_pre2 (fun xs => [Z.land (nz xs 1) (nz xs 0)]).
Proof. unfold u32_pre2. solve_instr idtac. Qed.
Theorem u32xor_ok : instr_spec (ops_of "u32xor") 2 u32_pre2 (fun xs => [Z.lxor (nz xs 1) (nz xs 0)]).
Proof. unfold u32_pre2. solve_instr idtac. Qed.

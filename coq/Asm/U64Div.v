(* 64-bit division of the standard library (u64::div, mod, divmod): whatever quotient and remainder
   limbs the host supplies, a completed run leaves the true quotient / remainder, and no hints let a
   run with a zero divisor complete. *)
From Coq Require Import ZArith List Bool Arith Lia String.
From MV Require Import Base.Field Core.Op Core.Rpo Vm.Pure Vm.PureProps Gen.AsmGen Gen.StdGen Asm.Instr
  Asm.SpecDefs Asm.StackInstr Asm.FieldInstr Asm.U32Instr Asm.HintDefs Asm.HintInstr Asm.U64Instr Asm.U64More
  Asm.U64ShiftBase.
Import ListNotations.
Open Scope Z_scope.

Lemma u32max_ok_iff h : 0 <= h -> negb (u32max_ok h) = false -> 0 <= h < TWO32.
Proof. unfold u32max_ok, U32MAX, TWO32. intros H0 H. apply negb_false_iff, Z.leb_le in H. lia. Qed.
Lemma add3_small a b c : 0 <= a < TWO32 -> 0 <= b < TWO32 -> 0 <= c < TWO32 ->
  felt_of_u64 (wrap64 (a + b + c)) = a + b + c.
Proof. unfold felt_of_u64, wrap64, TWO32, TWO64, P. intros. rewrite (Z.mod_small (a + b + c)) by lia. apply Z.mod_small. lia. Qed.
Lemma fmul_zero a b : 0 <= a < TWO32 -> 0 <= b < TWO32 -> fmul a b = 0 -> a * b = 0.
Proof. unfold fmul, TWO32, P. intros Ha Hb H. rewrite Z.mod_small in H by nia. exact H. Qed.
Lemma flag_true (c : bool) : ((if c then 1 else 0) =? 1) = true -> c = true.
Proof. destruct c; [reflexivity | discriminate]. Qed.

Ltac hb := first [ assumption | lia | unfold TWO32; lia | apply mod32_bound
                 | apply div32_bound; hb | apply div32_bound0; hb | apply carry_bound; hb ].
Ltac small_in H :=
  repeat first
    [ rewrite hi32_div in H | rewrite lo32_mod in H
    | match type of H with
      | context [felt_of_u64 (wrap64 (?a * ?b + ?c))] => rewrite (madd_small a b c) in H by hb
      | context [felt_of_u64 (wrap64 (?a * ?b))] => rewrite (mul_small a b) in H by hb
      | context [felt_of_u64 (wrap64 (?a + ?b + ?c))] => rewrite (add3_small a b c) in H by hb
      | context [fadd ?a ?b] => rewrite (fadd_small a b) in H by hb
      end ].

Ltac cmp_facts_h :=
  repeat match goal with
         | H : context [Z.shiftr (wrap64 (?a - ?b)) 63] |- _ => rewrite (borrow_bit a b) in H by lia
         | H : context [lo32 (wrap64 (?a - ?b)) =? 0] |- _ => rewrite (sub_zero a b) in H by lia
         end.

Lemma div_unique_limbs a b q r : 0 <= r < b -> a = b * q + r -> a / b = q.
Proof. intros Hr E. symmetry. apply Z.div_unique with r; [left; exact Hr | exact E]. Qed.

Lemma mod_unique_limbs a b q r : 0 <= r < b -> a = b * q + r -> a mod b = r.
Proof. intros Hr E. symmetry. apply Z.mod_unique with q; [left; exact Hr | exact E]. Qed.

(* name every quotient and remainder by 2^32, innermost first *)
Ltac no_divmod t :=
  lazymatch t with
  | context [_ / TWO32] => fail
  | context [_ mod TWO32] => fail
  | _ => idtac
  end.
Ltac name_one t :=
  let q := fresh "q" in let r := fresh "r" in
  let E := fresh "E" in let B := fresh "B" in
  destruct (div_mod32 t) as [E B];
  set (q := t / TWO32) in *; set (r := t mod TWO32) in *; clearbody q r.
Ltac name_divmods :=
  repeat match goal with
         | H : context [?t / TWO32] |- _ => no_divmod t; name_one t
         | H : context [?t mod TWO32] |- _ => no_divmod t; name_one t
         end.

(* the facts a completed run of the division procedures establishes, as integer (in)equalities;
   the hints are h1 = q_lo, h2 = q_hi, h3 = r_lo, h4 = r_hi *)
Ltac div_run_facts :=
  repeat match goal with
         | H : negb (u32max_ok ?h) = false |- _ => apply u32max_ok_iff in H; [|lia]
         end;
  repeat match goal with
         | H : ((if ?c then 1 else 0) =? 1)%Z = true |- _ => apply flag_true in H
         end;
  cmp_facts_h;
  repeat match goal with
         | H : negb (is_bin _) = false |- _ => clear H
         end;
  repeat match goal with
         | H : _ = true |- _ => progress small_in H
         end;
  repeat match goal with
         | H : (fmul ?a ?b =? 0)%Z = true |- _ => apply Z.eqb_eq in H; apply fmul_zero in H; [|lia|lia]
         | H : (_ =? _)%Z = true |- _ => apply Z.eqb_eq in H
         end.

Lemma gt_flag r_hi r_lo b_hi b_lo :
  0 <= r_lo < TWO32 -> 0 <= b_lo < TWO32 -> 0 <= r_hi -> 0 <= b_hi ->
  (((if r_hi <? b_hi then 1 else 0) =? 1)
   || ((if ((if r_lo <? b_lo then 1 else 0) =? 1) && ((if r_hi =? b_hi then 1 else 0) =? 1) then 1 else 0) =? 1))%Z = true ->
  r_hi * TWO32 + r_lo < b_hi * TWO32 + b_lo.
Proof.
  intros A B C D. unfold TWO32 in *.
  destruct (Z.ltb_spec r_hi b_hi), (Z.ltb_spec r_lo b_lo), (Z.eqb_spec r_hi b_hi); cbn; intros Q; try discriminate Q; lia.
Qed.

Local Open Scope string_scope.
Theorem u64_div_sound : forall h1 h2 h3 h4, canon h1 -> canon h2 -> canon h3 -> canon h4 ->
  view_sound (hinted (std_ops_of "u64::div") [h1; h2; h3; h4]) 4 g4 (fun xs => limbs64 (A64 xs / B64 xs)).
Proof.
  intros h1 h2 h3 h4 C1 C2 C3 C4.
  let o := eval vm_compute in (std_ops_of "u64::div") in change (std_ops_of "u64::div") with o.
  cbn [hinted].
  intros l Hl Hc Hg; d16 l Hl; canon16 Hc; cbv [g4 nz nth firstn] in Hg; guard_facts.
  split_ifs; try exact I; run_view2.
  div_run_facts.
  match goal with H : (_ || _)%bool = true |- _ => apply gt_flag in H; [|lia..] end.
  name_divmods.
  cbv [limbs64 A64 B64 nz nth app].
  rewrite (div_unique_limbs (z1 * TWO32 + z2) (z * TWO32 + z0) (h2 * TWO32 + h1) (h4 * TWO32 + h3)).
  - rewrite limbs_div, limbs_mod by lia. apply stack_eq_refl.
  - unfold TWO32 in *. lia.
  - unfold TWO32 in *. Time lia.
Qed.

Theorem u64_mod_sound : forall h1 h2 h3 h4, canon h1 -> canon h2 -> canon h3 -> canon h4 ->
  view_sound (hinted (std_ops_of "u64::mod") [h1; h2; h3; h4]) 4 g4 (fun xs => limbs64 (A64 xs mod B64 xs)).
Proof.
  intros h1 h2 h3 h4 C1 C2 C3 C4.
  let o := eval vm_compute in (std_ops_of "u64::mod") in change (std_ops_of "u64::mod") with o.
  cbn [hinted].
  intros l Hl Hc Hg; d16 l Hl; canon16 Hc; cbv [g4 nz nth firstn] in Hg; guard_facts.
  split_ifs; try exact I; run_view2.
  div_run_facts.
  match goal with H : (_ || _)%bool = true |- _ => apply gt_flag in H; [|lia..] end.
  name_divmods.
  cbv [limbs64 A64 B64 nz nth app].
  rewrite (mod_unique_limbs (z1 * TWO32 + z2) (z * TWO32 + z0) (h2 * TWO32 + h1) (h4 * TWO32 + h3)).
  - rewrite limbs_div, limbs_mod by lia. apply stack_eq_refl.
  - unfold TWO32 in *. lia.
  - unfold TWO32 in *. Time lia.
Qed.

Theorem u64_divmod_sound : forall h1 h2 h3 h4, canon h1 -> canon h2 -> canon h3 -> canon h4 ->
  view_sound (hinted (std_ops_of "u64::divmod") [h1; h2; h3; h4]) 4 g4
    (fun xs => (limbs64 (A64 xs mod B64 xs) ++ limbs64 (A64 xs / B64 xs))%list).
Proof.
  intros h1 h2 h3 h4 C1 C2 C3 C4.
  let o := eval vm_compute in (std_ops_of "u64::divmod") in change (std_ops_of "u64::divmod") with o.
  cbn [hinted].
  intros l Hl Hc Hg; d16 l Hl; canon16 Hc; cbv [g4 nz nth firstn] in Hg; guard_facts.
  split_ifs; try exact I; run_view2.
  div_run_facts.
  match goal with H : (_ || _)%bool = true |- _ => apply gt_flag in H; [|lia..] end.
  name_divmods.
  cbv [limbs64 A64 B64 nz nth app].
  assert (RR : 0 <= h4 * TWO32 + h3 < z * TWO32 + z0) by (unfold TWO32 in *; lia).
  assert (EE : z1 * TWO32 + z2 = (z * TWO32 + z0) * (h2 * TWO32 + h1) + (h4 * TWO32 + h3)) by (unfold TWO32 in *; lia).
  rewrite (mod_unique_limbs _ _ _ _ RR EE), (div_unique_limbs _ _ _ _ RR EE).
  rewrite !limbs_div, !limbs_mod by lia. apply stack_eq_refl.
Qed.

(* a zero divisor: no choice of hints lets the run complete *)
Definition view_rejects (ops : list op) (k : nat) (guard : list Z -> bool) (bad : list Z -> Prop) : Prop :=
  forall l, (16 <= List.length l)%nat -> all_canon l -> guard (firstn k l) = true -> bad (firstn k l) ->
  exists e, vpure_ops ops l = PErr e.

Ltac zero_divisor nm :=
  intros h1 h2 h3 h4 C1 C2 C3 C4;
  let o := eval vm_compute in (std_ops_of nm) in change (std_ops_of nm) with o;
  cbn [hinted];
  intros l Hl Hc Hg Hbad; d16 l Hl; canon16 Hc; cbv [g4 nz nth firstn] in Hg; guard_facts;
  cbv [B64 nz nth firstn] in Hbad;
  split_ifs; try (eexists; reflexivity); run_view2;
  exfalso; div_run_facts;
  match goal with H : (_ || _)%bool = true |- _ => apply gt_flag in H; [|lia..] end;
  unfold TWO32 in *; lia.

Theorem u64_div_zero : forall h1 h2 h3 h4, canon h1 -> canon h2 -> canon h3 -> canon h4 ->
  view_rejects (hinted (std_ops_of "u64::div") [h1; h2; h3; h4]) 4 g4 (fun xs => B64 xs = 0).
Proof. zero_divisor "u64::div". Qed.
Theorem u64_mod_zero : forall h1 h2 h3 h4, canon h1 -> canon h2 -> canon h3 -> canon h4 ->
  view_rejects (hinted (std_ops_of "u64::mod") [h1; h2; h3; h4]) 4 g4 (fun xs => B64 xs = 0).
Proof. zero_divisor "u64::mod". Qed.
Theorem u64_divmod_zero : forall h1 h2 h3 h4, canon h1 -> canon h2 -> canon h3 -> canon h4 ->
  view_rejects (hinted (std_ops_of "u64::divmod") [h1; h2; h3; h4]) 4 g4 (fun xs => B64 xs = 0).
Proof. zero_divisor "u64::divmod". Qed.

(* ---- on the real stack, for every list of four hints ------------------------------------------------ *)
Lemma sound_of_view4 ops k guard f :
  count_advpop ops = 4%nat -> has_sdepth ops = false ->
  (forall h1 h2 h3 h4, canon h1 -> canon h2 -> canon h3 -> canon h4 ->
     view_sound (hinted ops [h1; h2; h3; h4]) k guard f) -> hint_sound ops k guard f.
Proof.
  intros Hc Hs Hv hs Hlen Hcan l Hl Hcl Hg l' H.
  rewrite Hc in Hlen. destruct hs as [|h1 [|h2 [|h3 [|h4 [|h5 t]]]]]; try discriminate Hlen.
  inversion Hcan as [|? ? Q1 R1]; subst. inversion R1 as [|? ? Q2 R2]; subst.
  inversion R2 as [|? ? Q3 R3]; subst. inversion R3 as [|? ? Q4 R4]; subst.
  apply (view_to_sound ops [h1; h2; h3; h4] k guard f);
    [apply hinted_sdepth; exact Hs | apply Hv; assumption | assumption..].
Qed.

Theorem u64_div_hint_sound : hint_sound (std_ops_of "u64::div") 4 g4 (fun xs => limbs64 (A64 xs / B64 xs)).
Proof. apply sound_of_view4; [vm_compute; reflexivity | vm_compute; reflexivity | exact u64_div_sound]. Qed.
Theorem u64_mod_hint_sound : hint_sound (std_ops_of "u64::mod") 4 g4 (fun xs => limbs64 (A64 xs mod B64 xs)).
Proof. apply sound_of_view4; [vm_compute; reflexivity | vm_compute; reflexivity | exact u64_mod_sound]. Qed.
Theorem u64_divmod_hint_sound : hint_sound (std_ops_of "u64::divmod") 4 g4
  (fun xs => (limbs64 (A64 xs mod B64 xs) ++ limbs64 (A64 xs / B64 xs))%list).
Proof. apply sound_of_view4; [vm_compute; reflexivity | vm_compute; reflexivity | exact u64_divmod_sound]. Qed.

(* The 64-bit procedures of the standard library (stdlib/asm/math/u64.masm), as the operation
   lists the real assembler inlines for `exec.u64::<name>` (Gen/StdGen.v), against exact integer
   arithmetic on operands given as 32-bit limbs. *)
From Coq Require Import ZArith List Bool Arith Lia String.
From MV Require Import Base.Field Core.Op Core.Rpo Vm.Pure Vm.PureProps Gen.AsmGen Gen.StdGen Asm.Instr
  Asm.SpecDefs Asm.StackInstr Asm.FieldInstr Asm.U32Instr.
Import ListNotations.
Open Scope Z_scope.

Definition std_ops_of (name : string) : list op :=
  match lookup name std_table with Some (Some ops) => ops | _ => [] end.

(* operands: [b_hi; b_lo; a_hi; a_lo] with b on top *)
Definition A64 (xs : list Z) : Z := nz xs 2 * TWO32 + nz xs 3.
Definition B64 (xs : list Z) : Z := nz xs 0 * TWO32 + nz xs 1.
Definition g4 (xs : list Z) : bool := u32b (nz xs 0) && u32b (nz xs 1) && u32b (nz xs 2) && u32b (nz xs 3).
(* a 64-bit value as [hi; lo] with hi on top *)
Definition limbs64 (v : Z) : list Z := [v / TWO32; v mod TWO32].
Definition bool01 (b : bool) : Z := if b then 1 else 0.

Ltac norm_std :=
  match goal with
  | |- instr_spec_g (std_ops_of ?nm) _ _ _ _ =>
      let o := eval vm_compute in (std_ops_of nm) in change (std_ops_of nm) with o
  end.

Ltac start_u64 :=
  norm_std; apply instr_by_view_g; [vm_compute; reflexivity|];
  intros l Hl Hc Hg; d16 l Hl; canon16 Hc;
  cbv [g4 g2 g1 nz nth firstn] in Hg; guard_facts.

Ltac arith64 :=
  rewrite ?hi32_div, ?lo32_mod; rewrite ?Z.shiftr_div_pow2 by lia;
  repeat match goal with
         | H : context [hi32 ?a] |- _ => rewrite (hi32_div a) in H
         | H : context [lo32 ?a] |- _ => rewrite (lo32_mod a) in H
         | H : context [Z.shiftr ?a ?b] |- _ => rewrite (Z.shiftr_div_pow2 a b) in H by lia
         end;
  unfold wrap64, felt_of_u64, fadd, fmul, fsub, fneg, TWO32, TWO64, P in *;
  change (2 ^ 63) with 9223372036854775808 in *;
  Z.div_mod_to_equations; timeout 60 nia.

(* all leaves: a successful run whose elements are closed by [alg]; a failing run is impossible *)
Ltac leaves alg :=
  split_ifs; run_view2; try kill_const;
  lazymatch goal with
  | |- exists _, POk _ = POk _ /\ _ =>
      eexists; split; [reflexivity|];
      cbv [limbs64 A64 B64 bool01 nz nth];
      repeat (apply stack_eq_cons; [first [reflexivity | alg]|]); apply stack_eq_refl
  | |- _ => exfalso; alg
  end.

Local Open Scope string_scope.

(* ---- addition, subtraction, multiplication ---------------------------------------------------- *)
Theorem u64_wrapping_add : instr_spec_g (std_ops_of "u64::wrapping_add") 4 g4 no_pre
  (fun xs => limbs64 ((A64 xs + B64 xs) mod TWO64)).
Proof. start_u64. leaves arith64. Qed.

Theorem u64_overflowing_add : instr_spec_g (std_ops_of "u64::overflowing_add") 4 g4 no_pre
  (fun xs => (A64 xs + B64 xs) / TWO64 :: limbs64 ((A64 xs + B64 xs) mod TWO64)).
Proof. start_u64. leaves arith64. Qed.


Theorem u64_wrapping_sub : instr_spec_g (std_ops_of "u64::wrapping_sub") 4 g4 no_pre
  (fun xs => limbs64 ((A64 xs - B64 xs) mod TWO64)).
Proof. start_u64. leaves arith64. Qed.



(* boolean side conditions of a run as integer facts *)
Ltac boolfacts :=
  unfold is_bin in *;
  repeat match goal with
         | H : negb _ = true |- _ => apply negb_true_iff in H
         | H : negb _ = false |- _ => apply negb_false_iff in H
         | H : _ || _ = false |- _ => apply orb_false_iff in H; destruct H
         | H : _ || _ = true |- _ => apply orb_true_iff in H; destruct H
         | H : _ && _ = true |- _ => apply andb_true_iff in H; destruct H
         | H : _ && _ = false |- _ => apply andb_false_iff in H; destruct H
         | H : (_ =? _)%Z = true |- _ => apply Z.eqb_eq in H
         | H : (_ =? _)%Z = false |- _ => apply Z.eqb_neq in H
         | H : (_ <? _)%Z = true |- _ => apply Z.ltb_lt in H
         | H : (_ <? _)%Z = false |- _ => apply Z.ltb_ge in H
         | H : (_ <=? _)%Z = true |- _ => apply Z.leb_le in H
         | H : (_ <=? _)%Z = false |- _ => apply Z.leb_gt in H
         end.

Ltac split_goal_ifs :=
  repeat match goal with
         | |- context [if ?c then _ else _] => destruct c eqn:?
         | H : context [if ?c then _ else _] |- _ => destruct c eqn:?
         end.

Ltac alg64 := cbv [bool01 Z.min Z.max]; split_goal_ifs; boolfacts; try discriminate; try lia; arith64.

(* ---- comparisons ------------------------------------------------------------------------------------ *)

(* ---- comparisons ------------------------------------------------------------------------------------ *)
Theorem u64_lt : instr_spec_g (std_ops_of "u64::lt") 4 g4 no_pre (fun xs => [bool01 (A64 xs <? B64 xs)%Z]).
Proof. start_u64. leaves alg64. Qed.
Theorem u64_lte : instr_spec_g (std_ops_of "u64::lte") 4 g4 no_pre (fun xs => [bool01 (A64 xs <=? B64 xs)%Z]).
Proof. start_u64. leaves alg64. Qed.
Theorem u64_gt : instr_spec_g (std_ops_of "u64::gt") 4 g4 no_pre (fun xs => [bool01 (B64 xs <? A64 xs)%Z]).
Proof. start_u64. leaves alg64. Qed.
Theorem u64_gte : instr_spec_g (std_ops_of "u64::gte") 4 g4 no_pre (fun xs => [bool01 (B64 xs <=? A64 xs)%Z]).
Proof. start_u64. leaves alg64. Qed.
Theorem u64_eq : instr_spec_g (std_ops_of "u64::eq") 4 g4 no_pre (fun xs => [bool01 (A64 xs =? B64 xs)%Z]).
Proof. start_u64. leaves alg64. Qed.
Theorem u64_neq : instr_spec_g (std_ops_of "u64::neq") 4 g4 no_pre (fun xs => [bool01 (negb (A64 xs =? B64 xs)%Z)]).
Proof. start_u64. leaves alg64. Qed.
Theorem u64_eqz : instr_spec_g (std_ops_of "u64::eqz") 2 g2 no_pre
  (fun xs => [bool01 (nz xs 0 * TWO32 + nz xs 1 =? 0)%Z]).
Proof. start_u64. leaves alg64. Qed.

Theorem u64_overflowing_sub : instr_spec_g (std_ops_of "u64::overflowing_sub") 4 g4 no_pre
  (fun xs => bool01 (A64 xs <? B64 xs)%Z :: limbs64 ((A64 xs - B64 xs) mod TWO64)).
Proof. start_u64. leaves alg64. Qed.

(* ---- bitwise: limb by limb, and the 64-bit value of the limbs ----------------------------------- *)
Theorem u64_and : instr_spec (std_ops_of "u64::and") 4
  (fun xs => if negb (u32max_ok (nz xs 1)) then Some (PNotU32 (nz xs 1) 0)
             else if negb (u32max_ok (nz xs 3)) then Some (PNotU32 (nz xs 3) 0)
             else if negb (u32max_ok (nz xs 0)) then Some (PNotU32 (nz xs 0) 0)
             else if negb (u32max_ok (nz xs 2)) then Some (PNotU32 (nz xs 2) 0) else None)
  (fun xs => [Z.land (nz xs 0) (nz xs 2); Z.land (nz xs 1) (nz xs 3)]).
Proof.
  match goal with |- instr_spec (std_ops_of ?nm) _ _ _ =>
    let o := eval vm_compute in (std_ops_of nm) in change (std_ops_of nm) with o end.
  apply instr_by_view; [vm_compute; reflexivity|].
  intros l Hl Hc; d16 l Hl; canon16 Hc; split_ifs; close_leaf ltac:(first [apply Z.land_comm | bool_contra | idtac]).
Qed.

(* the value of two 32-bit limbs under a bitwise operation is the operation on the values *)
Lemma land64_limbs ah al bh bl :
  0 <= ah -> 0 <= al < TWO32 -> 0 <= bh -> 0 <= bl < TWO32 ->
  Z.land (ah * TWO32 + al) (bh * TWO32 + bl) = Z.land ah bh * TWO32 + Z.land al bl.
Proof.
  unfold TWO32. change 4294967296 with (2 ^ 32). intros Hah Hal Hbh Hbl.
  assert (D : forall h x, 0 <= h -> 0 <= x < 2 ^ 32 -> h * 2 ^ 32 + x = Z.lxor (Z.shiftl h 32) x).
  { intros h x Hh Hx. rewrite Z.shiftl_mul_pow2 by lia. rewrite <- Z.add_nocarry_lxor; [reflexivity|].
    apply Z.bits_inj'. intros n Hn. rewrite Z.land_spec, Z.bits_0.
    destruct (Z_lt_ge_dec n 32).
    - rewrite Z.mul_pow2_bits_low by lia. reflexivity.
    - rewrite (Z.bits_above_log2 x n); [apply andb_false_r | lia |].
      destruct (Z.eq_dec x 0) as [->|Hx0]; [cbn; lia|]. apply Z.log2_lt_pow2; [lia|].
      apply Z.lt_le_trans with (2 ^ 32); [lia | apply Z.pow_le_mono_r; lia]. }
  rewrite (D ah al), (D bh bl), (D (Z.land ah bh) (Z.land al bl)); try lia.
  - apply Z.bits_inj'. intros n Hn. rewrite !Z.land_spec, !Z.lxor_spec, !Z.land_spec.
    destruct (Z_lt_ge_dec n 32).
    + rewrite !Z.shiftl_spec_low by lia. cbn [xorb]. destruct (Z.testbit al n), (Z.testbit bl n); reflexivity.
    + rewrite !Z.shiftl_spec by lia. rewrite Z.land_spec.
      rewrite (Z.bits_above_log2 al n), (Z.bits_above_log2 bl n); try lia.
      * rewrite !xorb_false_r. reflexivity.
      * destruct (Z.eq_dec bl 0) as [->|]; [cbn; lia|]. apply Z.log2_lt_pow2; [lia|].
        apply Z.lt_le_trans with (2 ^ 32); [lia | apply Z.pow_le_mono_r; lia].
      * destruct (Z.eq_dec al 0) as [->|]; [cbn; lia|]. apply Z.log2_lt_pow2; [lia|].
        apply Z.lt_le_trans with (2 ^ 32); [lia | apply Z.pow_le_mono_r; lia].
  - apply Z.land_nonneg. left. exact Hah.
  - assert (E : Z.land al bl = Z.land al bl mod 2 ^ 32).
    { rewrite <- Z.land_ones by lia. rewrite <- Z.land_assoc. rewrite (Z.land_ones bl) by lia.
      rewrite (Z.mod_small bl) by lia. reflexivity. }
    rewrite E. apply Z.mod_pos_bound. lia.
Qed.

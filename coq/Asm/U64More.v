(* More 64-bit procedures of the standard library over the operation lists of Gen/StdGen.v:
   multiplication (wrapping and overflowing), min, max, or, xor. *)
From Coq Require Import ZArith List Bool Arith Lia String.
From MV Require Import Base.Field Core.Op Core.Rpo Vm.Pure Vm.PureProps Gen.AsmGen Gen.StdGen Asm.Instr
  Asm.SpecDefs Asm.StackInstr Asm.FieldInstr Asm.U32Instr Asm.U64Instr.
Import ListNotations.
Open Scope Z_scope.

(* ---- multiplication ------------------------------------------------------------------------ *)
Section Mul.


Lemma madd_small a b c : 0 <= a < TWO32 -> 0 <= b < TWO32 -> 0 <= c < TWO32 ->
  felt_of_u64 (wrap64 (a * b + c)) = a * b + c.
Proof.
  unfold felt_of_u64, wrap64, TWO32, TWO64, P. intros Ha Hb Hc.
  assert (0 <= a * b <= 4294967295 * 4294967295) by nia.
  rewrite (Z.mod_small (a * b + c)) by lia. rewrite Z.mod_small by lia. reflexivity.
Qed.
Lemma mul_small a b : 0 <= a < TWO32 -> 0 <= b < TWO32 -> felt_of_u64 (wrap64 (a * b)) = a * b.
Proof. intros. rewrite <- (Z.add_0_r (a * b)). apply madd_small; unfold TWO32 in *; lia. Qed.

Lemma mod32_bound x : 0 <= x mod TWO32 < TWO32.
Proof. apply Z.mod_pos_bound. unfold TWO32. lia. Qed.
Lemma div32_bound a b c : 0 <= a < TWO32 -> 0 <= b < TWO32 -> 0 <= c < TWO32 -> 0 <= (a * b + c) / TWO32 < TWO32.
Proof.
  unfold TWO32. intros. assert (0 <= a * b <= 4294967295 * 4294967295) by nia.
  split; [apply Z.div_pos; lia | apply Z.div_lt_upper_bound; lia].
Qed.

(* schoolbook product of two-limb numbers, low 64 bits *)
Lemma wrapping_mul_limbs al ah bl bh :
  0 <= al < TWO32 -> 0 <= ah < TWO32 -> 0 <= bl < TWO32 -> 0 <= bh < TWO32 ->
  ((ah * TWO32 + al) * (bh * TWO32 + bl)) mod TWO64 =
  ((al * bh + (ah * bl + (al * bl) / TWO32) mod TWO32) mod TWO32) * TWO32 + (al * bl) mod TWO32.
Proof.
  intros Hal Hah Hbl Hbh.
  assert (E0 : al * bl = TWO32 * ((al * bl) / TWO32) + (al * bl) mod TWO32) by (apply Z.div_mod; unfold TWO32; lia).
  assert (R0 : 0 <= (al * bl) mod TWO32 < TWO32) by apply mod32_bound.
  set (h0 := (al * bl) / TWO32) in *. set (r0 := (al * bl) mod TWO32) in *.
  set (x := ah * bl + al * bh + h0).
  assert (L2 : (al * bh + (ah * bl + h0) mod TWO32) mod TWO32 = x mod TWO32).
  { unfold x. rewrite Zplus_mod_idemp_r. f_equal. ring. }
  rewrite L2.
  assert (EX : x = TWO32 * (x / TWO32) + x mod TWO32) by (apply Z.div_mod; unfold TWO32; lia).
  assert (RX : 0 <= x mod TWO32 < TWO32) by apply mod32_bound.
  replace ((ah * TWO32 + al) * (bh * TWO32 + bl))
    with ((x mod TWO32) * TWO32 + r0 + (ah * bh + x / TWO32) * TWO64).
  - rewrite Z_mod_plus_full. rewrite Z.mod_small; [reflexivity|].
    unfold TWO32, TWO64 in *. nia.
  - transitivity (ah * bh * TWO64 + (ah * bl + al * bh) * TWO32 + al * bl); [|unfold TWO64, TWO32; ring].
    rewrite E0. set (q := x / TWO32) in *. set (m := x mod TWO32) in *.
    assert (ah * bl + al * bh = TWO32 * q + m - h0) by (unfold x in EX; lia).
    unfold TWO64, TWO32 in *. nia.
Qed.
Lemma div32_bound0 a b : 0 <= a < TWO32 -> 0 <= b < TWO32 -> 0 <= (a * b) / TWO32 < TWO32.
Proof. intros. rewrite <- (Z.add_0_r (a * b)). apply div32_bound; unfold TWO32 in *; lia. Qed.

Ltac u32bounds :=
  first [ lia | apply mod32_bound | apply div32_bound; u32bounds | apply div32_bound0; u32bounds ].
Lemma fadd_small a b : 0 <= a < TWO32 -> 0 <= b < TWO32 -> fadd a b = a + b.
Proof. unfold fadd, TWO32, P. intros. apply Z.mod_small. lia. Qed.
Lemma carry_bound a b : 0 <= a < TWO32 -> 0 <= b < TWO32 -> 0 <= (a + b) / TWO32 < TWO32.
Proof. unfold TWO32. intros. split; [apply Z.div_pos; lia | apply Z.div_lt_upper_bound; lia]. Qed.
Ltac u32bounds ::=
  first [ lia | apply mod32_bound | apply div32_bound; u32bounds | apply div32_bound0; u32bounds
        | apply carry_bound; u32bounds ].
Ltac small_products :=
  repeat first
    [ rewrite hi32_div | rewrite lo32_mod
    | match goal with
      | |- context [felt_of_u64 (wrap64 (?a * ?b + ?c))] => rewrite (madd_small a b c) by u32bounds
      | |- context [felt_of_u64 (wrap64 (?a * ?b))] => rewrite (mul_small a b) by u32bounds
      | |- context [fadd ?a ?b] => rewrite (fadd_small a b) by u32bounds
      end ].

Lemma limbs_div h r : 0 <= r < TWO32 -> (h * TWO32 + r) / TWO32 = h.
Proof. intros. unfold TWO32 in *. Z.div_mod_to_equations. nia. Qed.
Lemma limbs_mod h r : 0 <= r < TWO32 -> (h * TWO32 + r) mod TWO32 = r.
Proof. intros. unfold TWO32 in *. Z.div_mod_to_equations. nia. Qed.

Local Open Scope string_scope.
Theorem u64_wrapping_mul : instr_spec_g (std_ops_of "u64::wrapping_mul") 4 g4 no_pre
  (fun xs => limbs64 ((A64 xs * B64 xs) mod TWO64)).
Proof.
  start_u64. split_ifs; run_view2; try kill_const.
  all: try (eexists; split; [reflexivity|]; cbv [limbs64 A64 B64 bool01 nz nth]).
  small_products.
  rewrite (wrapping_mul_limbs z2 z1 z0 z) by lia.
  rewrite limbs_div, limbs_mod by apply mod32_bound. apply stack_eq_refl.
Qed.

Lemma four_limbs N d s l2 l0 :
  N = ((d * TWO32 + s) * TWO32 + l2) * TWO32 + l0 ->
  0 <= s < TWO32 -> 0 <= l2 < TWO32 -> 0 <= l0 < TWO32 ->
  N / TWO64 / TWO32 = d /\ (N / TWO64) mod TWO32 = s /\ (N mod TWO64) / TWO32 = l2 /\ (N mod TWO64) mod TWO32 = l0.
Proof.
  intros E Hs H2 H0.
  assert (A : N = (d * TWO32 + s) * TWO64 + (l2 * TWO32 + l0)) by (rewrite E; unfold TWO64, TWO32; ring).
  assert (B : 0 <= l2 * TWO32 + l0 < TWO64) by (unfold TWO64, TWO32 in *; lia).
  assert (D : N / TWO64 = d * TWO32 + s).
  { rewrite A. unfold TWO64 in *. Z.div_mod_to_equations. nia. }
  assert (M : N mod TWO64 = l2 * TWO32 + l0).
  { rewrite A. unfold TWO64 in *. Z.div_mod_to_equations. nia. }
  rewrite D, M. rewrite !limbs_div, !limbs_mod by assumption. auto.
Qed.

Lemma div_mod32 p : p = TWO32 * (p / TWO32) + p mod TWO32 /\ 0 <= p mod TWO32 < TWO32.
Proof. split; [apply Z.div_mod; unfold TWO32; lia | apply mod32_bound]. Qed.

Lemma overflowing_mul_limbs al ah bl bh :
  0 <= al < TWO32 -> 0 <= ah < TWO32 -> 0 <= bl < TWO32 -> 0 <= bh < TWO32 ->
  let N := (ah * TWO32 + al) * (bh * TWO32 + bl) in
  let p1 := ah * bl + al * bl / TWO32 in
  let p2 := al * bh + p1 mod TWO32 in
  let p3 := ah * bh + p2 / TWO32 in
  let sm := p1 / TWO32 + p3 mod TWO32 in
  N / TWO64 / TWO32 = sm / TWO32 + p3 / TWO32 /\ (N / TWO64) mod TWO32 = sm mod TWO32 /\
  (N mod TWO64) / TWO32 = p2 mod TWO32 /\ (N mod TWO64) mod TWO32 = (al * bl) mod TWO32.
Proof.
  intros Hal Hah Hbl Hbh N p1 p2 p3 sm.
  apply four_limbs; try apply mod32_bound.
  destruct (div_mod32 (al * bl)) as [E0 _]. destruct (div_mod32 p1) as [E1 _].
  destruct (div_mod32 p2) as [E2 _]. destruct (div_mod32 p3) as [E3 _]. destruct (div_mod32 sm) as [E4 _].
  unfold sm in E4 at 1. unfold p3 in E3 at 1. unfold p2 in E2 at 1. unfold p1 in E1 at 1.
  unfold N.
  generalize dependent (sm / TWO32). generalize dependent (sm mod TWO32).
  generalize dependent (p3 / TWO32). generalize dependent (p3 mod TWO32).
  generalize dependent (p2 / TWO32). generalize dependent (p2 mod TWO32).
  generalize dependent (p1 / TWO32). generalize dependent (p1 mod TWO32).
  generalize dependent (al * bl / TWO32). generalize dependent ((al * bl) mod TWO32).
  clear. intros. unfold TWO32 in *. lia.
Qed.

Theorem u64_overflowing_mul : instr_spec_g (std_ops_of "u64::overflowing_mul") 4 g4 no_pre
  (fun xs => (limbs64 ((A64 xs * B64 xs) / TWO64) ++ limbs64 ((A64 xs * B64 xs) mod TWO64))%list).
Proof.
  start_u64. split_ifs; run_view2; try kill_const.
  all: try (eexists; split; [reflexivity|]; cbv [limbs64 A64 B64 bool01 nz nth app]).
  small_products.
  destruct (overflowing_mul_limbs z2 z1 z0 z ltac:(lia) ltac:(lia) ltac:(lia) ltac:(lia)) as (E1 & E2 & E3 & E4).
  cbv zeta in E1, E2, E3, E4. rewrite E1, E2, E3, E4. apply stack_eq_refl.
Qed.

End Mul.

(* ---- min / max ------------------------------------------------------------------------------- *)
Section MinMax.



Lemma borrow_bit a b : 0 <= a < TWO32 -> 0 <= b < TWO32 ->
  Z.shiftr (wrap64 (a - b)) 63 = if a <? b then 1 else 0.
Proof.
  intros Ha Hb. rewrite Z.shiftr_div_pow2 by lia. unfold wrap64, TWO64, TWO32 in *.
  change (2 ^ 63) with 9223372036854775808.
  destruct (Z.ltb_spec a b); Z.div_mod_to_equations; nia.
Qed.
Lemma sub_zero a b : 0 <= a < TWO32 -> 0 <= b < TWO32 ->
  (lo32 (wrap64 (a - b)) =? 0) = (a =? b).
Proof.
  intros Ha Hb. rewrite lo32_mod. unfold wrap64, TWO64, TWO32 in *.
  destruct (Z.eqb_spec a b) as [->|N].
  - rewrite Z.sub_diag. reflexivity.
  - apply Z.eqb_neq. Z.div_mod_to_equations. nia.
Qed.

Ltac cmp_facts :=
  repeat match goal with
         | H : context [Z.shiftr (wrap64 (?a - ?b)) 63] |- _ => rewrite (borrow_bit a b) in H by lia
         | |- context [Z.shiftr (wrap64 (?a - ?b)) 63] => rewrite (borrow_bit a b) by lia
         | H : context [lo32 (wrap64 (?a - ?b)) =? 0] |- _ => rewrite (sub_zero a b) in H by lia
         | |- context [lo32 (wrap64 (?a - ?b)) =? 0] => rewrite (sub_zero a b) by lia
         end.

Ltac order_cases :=
  repeat match goal with
         | H : context [?a <? ?b] |- _ => destruct (Z.ltb_spec a b)
         | H : context [?a =? ?b] |- _ => destruct (Z.eqb_spec a b)
         | |- context [?a <? ?b] => destruct (Z.ltb_spec a b)
         | |- context [?a =? ?b] => destruct (Z.eqb_spec a b)
         end.

Local Open Scope string_scope.
Theorem u64_min : instr_spec_g (std_ops_of "u64::min") 4 g4 no_pre
  (fun xs => limbs64 (Z.min (A64 xs) (B64 xs))).
Proof.
  start_u64. split_ifs; run_view2; try kill_const.
  all: try (eexists; split; [reflexivity|]; cbv [limbs64 A64 B64 bool01 nz nth app]).
  all: cmp_facts; order_cases; cbn in *; try discriminate; try (exfalso; lia).
  all: first [ rewrite Z.min_l by (unfold TWO32 in *; lia) | rewrite Z.min_r by (unfold TWO32 in *; lia) ];
       rewrite limbs_div, limbs_mod by lia; apply stack_eq_refl.
Qed.
Theorem u64_max : instr_spec_g (std_ops_of "u64::max") 4 g4 no_pre
  (fun xs => limbs64 (Z.max (A64 xs) (B64 xs))).
Proof.
  start_u64. split_ifs; run_view2; try kill_const.
  all: try (eexists; split; [reflexivity|]; cbv [limbs64 A64 B64 bool01 nz nth app]).
  all: cmp_facts; order_cases; cbn in *; try discriminate; try (exfalso; lia).
  all: first [ rewrite Z.max_l by (unfold TWO32 in *; lia) | rewrite Z.max_r by (unfold TWO32 in *; lia) ];
       rewrite limbs_div, limbs_mod by lia; apply stack_eq_refl.
Qed.

End MinMax.

(* ---- or / xor -------------------------------------------------------------------------------- *)
Section OrXor.


Ltac bits := apply Z.bits_inj'; intros n Hn;
  rewrite ?Z.lor_spec, ?Z.land_spec, ?Z.ldiff_spec, ?Z.lxor_spec, ?Z.bits_0.

Lemma lor_plus_land a b : Z.lor a b + Z.land a b = a + b.
Proof.
  assert (E1 : a + Z.ldiff b a = Z.lor a b).
  { rewrite Z.add_nocarry_lxor, Z.lxor_lor.
    - bits. destruct (Z.testbit a n), (Z.testbit b n); reflexivity.
    - bits. destruct (Z.testbit a n), (Z.testbit b n); reflexivity.
    - bits. destruct (Z.testbit a n), (Z.testbit b n); reflexivity. }
  assert (E2 : Z.land a b + Z.ldiff b a = b).
  { rewrite Z.add_nocarry_lxor, Z.lxor_lor.
    - bits. destruct (Z.testbit a n), (Z.testbit b n); reflexivity.
    - bits. destruct (Z.testbit a n), (Z.testbit b n); reflexivity.
    - bits. destruct (Z.testbit a n), (Z.testbit b n); reflexivity. }
  lia.
Qed.

Lemma land_u32 a b : 0 <= a < TWO32 -> 0 <= b < TWO32 -> 0 <= Z.land a b < TWO32.
Proof.
  intros Ha Hb. assert (E : Z.land a b = Z.land a b mod 2 ^ 32).
  { rewrite <- Z.land_ones by lia. rewrite <- Z.land_assoc. rewrite (Z.land_ones b) by lia.
    unfold TWO32 in *. rewrite (Z.mod_small b) by lia. reflexivity. }
  rewrite E. unfold TWO32. apply Z.mod_pos_bound. lia.
Qed.
Lemma lor_u32 a b : 0 <= a < TWO32 -> 0 <= b < TWO32 -> 0 <= Z.lor a b < TWO32.
Proof.
  intros Ha Hb. assert (E : Z.lor a b = Z.lor a b mod 2 ^ 32).
  { rewrite <- Z.land_ones by lia. rewrite Z.land_lor_distr_l. rewrite !Z.land_ones by lia.
    unfold TWO32 in *. rewrite !Z.mod_small by lia. reflexivity. }
  rewrite E. unfold TWO32. apply Z.mod_pos_bound. lia.
Qed.
Lemma lxor_u32 a b : 0 <= a < TWO32 -> 0 <= b < TWO32 -> 0 <= Z.lxor a b < TWO32.
Proof.
  intros Ha Hb. pose proof (lor_u32 a b Ha Hb). pose proof (land_u32 a b Ha Hb).
  assert (Z.lxor a b + Z.land a b = Z.lor a b).
  { rewrite Z.add_nocarry_lxor, Z.lxor_lor.
    - bits. destruct (Z.testbit a n), (Z.testbit b n); reflexivity.
    - bits. destruct (Z.testbit a n), (Z.testbit b n); reflexivity.
    - bits. destruct (Z.testbit a n), (Z.testbit b n); reflexivity. }
  assert (0 <= Z.lxor a b) by (apply Z.lxor_nonneg; lia). lia.
Qed.

Lemma lor_field a b : 0 <= a < TWO32 -> 0 <= b < TWO32 ->
  fadd a (fadd b (fneg (Z.land a b))) = Z.lor a b.
Proof.
  intros Ha Hb. pose proof (lor_plus_land a b). pose proof (land_u32 a b Ha Hb). pose proof (lor_u32 a b Ha Hb).
  unfold fadd, fneg, P, TWO32 in *. Z.div_mod_to_equations. lia.
Qed.

(* the value of two 32-bit limbs under OR / XOR *)
Lemma high_bits_zero x n : 0 <= x < 2 ^ 32 -> 32 <= n -> Z.testbit x n = false.
Proof.
  intros Hx Hn. destruct (Z.eq_dec x 0) as [->|Hx0]; [apply Z.bits_0|].
  apply Z.bits_above_log2; [lia|]. apply Z.lt_le_trans with 32; [|lia].
  apply Z.log2_lt_pow2; lia.
Qed.
Lemma limbs_as_lxor h x : 0 <= h -> 0 <= x < 2 ^ 32 -> h * 2 ^ 32 + x = Z.lxor (Z.shiftl h 32) x.
Proof.
  intros Hh Hx. rewrite Z.shiftl_mul_pow2 by lia. rewrite <- Z.add_nocarry_lxor; [reflexivity|].
  bits. destruct (Z_lt_ge_dec n 32).
  - rewrite Z.mul_pow2_bits_low by lia. reflexivity.
  - rewrite (high_bits_zero x n) by lia. apply andb_false_r.
Qed.
Lemma limbs_testbit h x n : 0 <= h -> 0 <= x < 2 ^ 32 -> 0 <= n ->
  Z.testbit (h * 2 ^ 32 + x) n = if Z_lt_ge_dec n 32 then Z.testbit x n else Z.testbit h (n - 32).
Proof.
  intros Hh Hx Hn. rewrite limbs_as_lxor by lia. rewrite Z.lxor_spec.
  destruct (Z_lt_ge_dec n 32).
  - rewrite Z.shiftl_spec_low by lia. apply xorb_false_l.
  - rewrite Z.shiftl_spec by lia. rewrite (high_bits_zero x n) by lia. apply xorb_false_r.
Qed.
Lemma lor64_limbs ah al bh bl :
  0 <= ah < TWO32 -> 0 <= al < TWO32 -> 0 <= bh < TWO32 -> 0 <= bl < TWO32 ->
  Z.lor (ah * TWO32 + al) (bh * TWO32 + bl) = Z.lor ah bh * TWO32 + Z.lor al bl.
Proof.
  intros Hah Hal Hbh Hbl. pose proof (lor_u32 al bl Hal Hbl). pose proof (lor_u32 ah bh Hah Hbh).
  unfold TWO32 in *. change 4294967296 with (2 ^ 32) in *.
  apply Z.bits_inj'. intros n Hn. rewrite Z.lor_spec, !limbs_testbit by lia.
  destruct (Z_lt_ge_dec n 32); rewrite Z.lor_spec; reflexivity.
Qed.
Lemma lxor64_limbs ah al bh bl :
  0 <= ah < TWO32 -> 0 <= al < TWO32 -> 0 <= bh < TWO32 -> 0 <= bl < TWO32 ->
  Z.lxor (ah * TWO32 + al) (bh * TWO32 + bl) = Z.lxor ah bh * TWO32 + Z.lxor al bl.
Proof.
  intros Hah Hal Hbh Hbl. pose proof (lxor_u32 al bl Hal Hbl). pose proof (lxor_u32 ah bh Hah Hbh).
  unfold TWO32 in *. change 4294967296 with (2 ^ 32) in *.
  apply Z.bits_inj'. intros n Hn. rewrite Z.lxor_spec, !limbs_testbit by lia.
  destruct (Z_lt_ge_dec n 32); rewrite Z.lxor_spec; reflexivity.
Qed.

Lemma u32max_ok_lt z : z < TWO32 -> u32max_ok z = true.
Proof. unfold u32max_ok, U32MAX, TWO32. intros. apply Z.leb_le. lia. Qed.
Ltac not_u32_contra :=
  exfalso;
  match goal with
  | H : negb (u32max_ok ?z) = true |- _ => rewrite (u32max_ok_lt z) in H by assumption; discriminate H
  end.

Local Open Scope string_scope.
Theorem u64_or : instr_spec_g (std_ops_of "u64::or") 4 g4 no_pre
  (fun xs => [Z.lor (nz xs 0) (nz xs 2); Z.lor (nz xs 1) (nz xs 3)]).
Proof.
  start_u64. split_ifs; run_view2; try kill_const.
  1-4: timeout 20 not_u32_contra.
  eexists; split; [reflexivity|]. rewrite !lor_field by lia. timeout 20 apply stack_eq_refl.
Qed.
Theorem u64_xor : instr_spec_g (std_ops_of "u64::xor") 4 g4 no_pre
  (fun xs => [Z.lxor (nz xs 0) (nz xs 2); Z.lxor (nz xs 1) (nz xs 3)]).
Proof.
  start_u64. split_ifs; run_view2; try kill_const.
  1-4: timeout 20 not_u32_contra.
  eexists; split; [reflexivity|]. timeout 20 apply stack_eq_refl.
Qed.


End OrXor.

(* u64::rotl is the 64-bit left rotation for every amount 0..63 and every operand. *)
From Coq Require Import ZArith List Bool Arith Lia String.
From MV Require Import Base.Field Core.Op Core.Rpo Vm.Pure Vm.PureProps Gen.AsmGen Gen.StdGen Asm.Instr
  Asm.SpecDefs Asm.StackInstr Asm.FieldInstr Asm.U32Instr Asm.HintInstr Asm.U64Instr Asm.U64More Asm.U64ShiftBase.
Import ListNotations.
Open Scope Z_scope.

Ltac rotl_leaf :=
  split_ifs; run_view2; try kill_const;
  eexists; split; [reflexivity|]; cbv [limbs64 rotl64 AS nz nth app]; norm_goal; small_products_c;
  match goal with
  | |- context [(?ah * TWO32 + ?al) * 2 ^ ?n] =>
      let m := eval vm_compute in (n mod 32) in
      let p := eval vm_compute in (2 ^ m) in
      let q := eval vm_compute in (4294967296 / p) in
      let hi := eval vm_compute in (32 <=? n) in
      let F := fresh "F" in let L1 := fresh "L" in let L2 := fresh "L" in let L3 := fresh "L" in let L4 := fresh "L" in
      destruct (rotl_core al ah p q ltac:(cbounds) ltac:(cbounds) ltac:(lia) ltac:(lia) ltac:(reflexivity))
        as (F & L1 & L2 & L3 & L4);
      cbv zeta in F, L1, L2, L3, L4; rewrite F;
      lazymatch hi with
      | false => replace (2 ^ n) with p by (vm_compute; reflexivity); rewrite L1, L2
      | true => replace (2 ^ n) with (p * TWO32) by (vm_compute; reflexivity); rewrite !Z.mul_assoc; rewrite L3, L4
      end
  end; apply stack_eq_refl.

Local Open Scope string_scope.
Theorem u64_rotl : instr_spec_g (std_ops_of "u64::rotl") 3 gshift no_pre
  (fun xs => limbs64 (rotl64 (AS xs) (nz xs 0))).
Proof.
  norm_std; apply instr_by_view_g; [vm_compute; reflexivity|].
  intros l Hl Hc Hg; d16 l Hl; canon16 Hc.
  cbv [gshift nz nth firstn] in Hg; guard_facts.
  match goal with H : (z <? 64)%Z = true |- _ => apply Z.ltb_lt in H end.
  destruct (small_enum z ltac:(lia)) as [n [Hn Hen]].
  do 64 (destruct n as [|n]; [vm_compute in Hen; subst z; rotl_leaf|]).
  exfalso; lia.
Qed.

(* Shifts and rotations of std::math::u64: operands, normalisation tactics, limb lemmas. *)
From Coq Require Import ZArith List Bool Arith Lia String.
From MV Require Import Base.Field Core.Op Core.Rpo Vm.Pure Vm.PureProps Gen.AsmGen Gen.StdGen Asm.Instr
  Asm.SpecDefs Asm.StackInstr Asm.FieldInstr Asm.U32Instr Asm.HintInstr Asm.U64Instr Asm.U64More.
Import ListNotations.
Open Scope Z_scope.

(* operands of the shifts: [n; a_hi; a_lo] with the shift amount on top *)
Definition gshift (xs : list Z) : bool := (nz xs 0 <? 64) && u32b (nz xs 1) && u32b (nz xs 2).
Definition AS (xs : list Z) : Z := nz xs 1 * TWO32 + nz xs 2.

Ltac gnorm1 t := tryif has_var t then fail else (let v := eval vm_compute in t in progress change t with v).
Ltac norm_goal :=
  repeat match goal with
         | |- context [fadd ?a ?b] => gnorm1 (fadd a b)
         | |- context [fmul ?a ?b] => gnorm1 (fmul a b)
         | |- context [lo32 ?a] => gnorm1 (lo32 a)
         | |- context [hi32 ?a] => gnorm1 (hi32 a)
         end.

Ltac cbounds := first [ assumption | lia | unfold TWO32; lia | apply mod32_bound
                      | apply div32_bound; cbounds | apply div32_bound0; cbounds ].
Ltac small_products_c :=
  repeat first
    [ rewrite hi32_div | rewrite lo32_mod
    | match goal with
      | |- context [felt_of_u64 (wrap64 (?a * ?b + ?c))] => rewrite (madd_small a b c) by cbounds
      | |- context [felt_of_u64 (wrap64 (?a * ?b))] => rewrite (mul_small a b) by cbounds
      end ].

(* the power of two of a shift amount as two limbs *)
Ltac split_pow :=
  match goal with
  | |- context [2 ^ ?n] =>
      let C := eval vm_compute in (2 ^ n) in
      let ch := eval vm_compute in (C / 4294967296) in
      let cl := eval vm_compute in (C mod 4294967296) in
      replace (2 ^ n) with (ch * TWO32 + cl) by (vm_compute; reflexivity)
  end.

Lemma rotl_core al ah p q :
  0 <= al < TWO32 -> 0 <= ah < TWO32 -> 0 < p -> 0 < q -> p * q = TWO32 ->
  let l0 := (p * al) mod TWO32 in
  let x := ah * p + p * al / TWO32 in
  let h1 := x / TWO32 in
  let l1 := x mod TWO32 in
  let N := (ah * TWO32 + al) * p in
  fadd h1 l0 = h1 + l0 /\
  (N mod TWO64 + N / TWO64) / TWO32 = l1 /\ (N mod TWO64 + N / TWO64) mod TWO32 = h1 + l0 /\
  ((N * TWO32) mod TWO64 + (N * TWO32) / TWO64) / TWO32 = h1 + l0 /\
  ((N * TWO32) mod TWO64 + (N * TWO32) / TWO64) mod TWO32 = l1.
Proof.
  intros Hal Hah Hp Hq Hpq l0 x h1 l1 N.
  assert (T0 : TWO32 > 0) by (unfold TWO32; lia).
  (* l0 = p * (al mod q), h0 = al / q *)
  assert (L0 : l0 = p * (al mod q)).
  { unfold l0. rewrite <- Hpq. apply Z.mul_mod_distr_l; lia. }
  assert (H0 : p * al / TWO32 = al / q).
  { rewrite <- Hpq. apply Z.div_mul_cancel_l; lia. }
  assert (Bq : 0 <= al mod q < q) by (apply Z.mod_pos_bound; lia).
  assert (Bh0 : 0 <= al / q < p).
  { split; [apply Z.div_pos; lia|]. apply Z.div_lt_upper_bound; [lia|]. rewrite Z.mul_comm. lia. }
  assert (Bx : 0 <= x < TWO32 * p) by (unfold x; rewrite H0; nia).
  assert (Bh1 : 0 <= h1 < p).
  { unfold h1. split; [apply Z.div_pos; lia|]. apply Z.div_lt_upper_bound; lia. }
  assert (Bl0 : 0 <= l0 <= TWO32 - p) by (rewrite L0; nia).
  assert (Bl1 : 0 <= l1 < TWO32) by (apply Z.mod_pos_bound; lia).
  assert (EX : x = TWO32 * h1 + l1) by (apply Z.div_mod; lia).
  assert (EL : p * al = TWO32 * (al / q) + l0).
  { rewrite <- H0. unfold l0. apply Z.div_mod. lia. }
  assert (EN : N = h1 * TWO64 + (l1 * TWO32 + l0)).
  { unfold N. replace TWO64 with (TWO32 * TWO32) by reflexivity.
    replace ((ah * TWO32 + al) * p) with ((ah * p) * TWO32 + p * al) by ring.
    rewrite EL. unfold x in EX. rewrite H0 in EX. nia. }
  assert (B2 : 0 <= l1 * TWO32 + l0 < TWO64) by (unfold TWO64, TWO32 in *; nia).
  assert (NM : N mod TWO64 = l1 * TWO32 + l0).
  { rewrite EN, Z.add_comm, Z_mod_plus_full. apply Z.mod_small. exact B2. }
  assert (ND : N / TWO64 = h1).
  { rewrite EN, Z.add_comm, Z.div_add by (unfold TWO64; lia). rewrite Z.div_small by exact B2. lia. }
  assert (EN2 : N * TWO32 = (h1 * TWO32 + l1) * TWO64 + l0 * TWO32).
  { rewrite EN. unfold TWO64, TWO32. ring. }
  assert (B3 : 0 <= l0 * TWO32 < TWO64) by (unfold TWO64, TWO32 in *; nia).
  assert (NM2 : (N * TWO32) mod TWO64 = l0 * TWO32).
  { rewrite EN2, Z.add_comm, Z_mod_plus_full. apply Z.mod_small. exact B3. }
  assert (ND2 : (N * TWO32) / TWO64 = h1 * TWO32 + l1).
  { rewrite EN2, Z.add_comm, Z.div_add by (unfold TWO64; lia). rewrite Z.div_small by exact B3. lia. }
  split. { unfold fadd. apply Z.mod_small. unfold P, TWO32 in *. lia. }
  rewrite NM, ND, NM2, ND2.
  replace (l1 * TWO32 + l0 + h1) with (l1 * TWO32 + (h1 + l0)) by ring.
  replace (l0 * TWO32 + (h1 * TWO32 + l1)) with ((h1 + l0) * TWO32 + l1) by ring.
  rewrite !limbs_div, !limbs_mod by lia. auto.
Qed.

Definition rotl64 (a n : Z) : Z := (a * 2 ^ n) mod TWO64 + (a * 2 ^ n) / TWO64.


(* u64::shl = (a * 2^n) mod 2^64 for every shift amount 0..63 and every operand: 64 runs with the
   shift amount concrete and the operand symbolic, each closed by the schoolbook-product lemma. *)
From Coq Require Import ZArith List Bool Arith Lia String.
From MV Require Import Base.Field Core.Op Core.Rpo Vm.Pure Vm.PureProps Gen.AsmGen Gen.StdGen Asm.Instr
  Asm.SpecDefs Asm.StackInstr Asm.FieldInstr Asm.U32Instr Asm.HintInstr Asm.U64Instr Asm.U64More Asm.U64ShiftBase.
Import ListNotations.
Open Scope Z_scope.

Ltac shl_leaf :=
  split_ifs; run_view2; try kill_const;
  eexists; split; [reflexivity|]; cbv [limbs64 AS nz nth app]; split_pow; norm_goal; small_products_c;
  match goal with
  | |- context [((?ah * TWO32 + ?al) * (?bh * TWO32 + ?bl)) mod TWO64] =>
      rewrite (wrapping_mul_limbs al ah bl bh) by cbounds
  end;
  rewrite limbs_div, limbs_mod by apply mod32_bound; apply stack_eq_refl.

Local Open Scope string_scope.
Theorem u64_shl : instr_spec_g (std_ops_of "u64::shl") 3 gshift no_pre
  (fun xs => limbs64 ((AS xs * 2 ^ (nz xs 0)) mod TWO64)).
Proof.
  norm_std; apply instr_by_view_g; [vm_compute; reflexivity|].
  intros l Hl Hc Hg; d16 l Hl; canon16 Hc.
  cbv [gshift nz nth firstn] in Hg; guard_facts.
  match goal with H : (z <? 64)%Z = true |- _ => apply Z.ltb_lt in H end.
  destruct (small_enum z ltac:(lia)) as [n [Hn Hen]].
  do 64 (destruct n as [|n]; [vm_compute in Hen; subst z; shl_leaf|]).
  exfalso; lia.
Qed.



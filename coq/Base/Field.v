(* Goldilocks field arithmetic on canonical integers: the executable model of
   winter-math f64::BaseElement as the VM observes it (as_int values). *)
From Coq Require Import ZArith List Lia.
Import ListNotations.
Open Scope Z_scope.

Definition P : Z := 18446744069414584321.
Definition TWO32 : Z := 4294967296.
Definition TWO64 : Z := 18446744073709551616.
Definition U32MAX : Z := 4294967295.

Definition canon (x : Z) : Prop := 0 <= x < P.
Definition canonb (x : Z) : bool := (0 <=? x) && (x <? P).

Definition fnorm (x : Z) : Z := x mod P.
Definition fadd (a b : Z) : Z := (a + b) mod P.
Definition fsub (a b : Z) : Z := (a - b) mod P.
Definition fmul (a b : Z) : Z := (a * b) mod P.
Definition fneg (a : Z) : Z := (- a) mod P.

(* square-and-multiply on a positive exponent; stays reduced at every step *)
Fixpoint fpow_pos (a : Z) (e : positive) : Z :=
  match e with
  | xH => a mod P
  | xO e' => let h := fpow_pos a e' in fmul h h
  | xI e' => let h := fpow_pos a e' in fmul (fmul h h) a
  end.

Definition fpow (a e : Z) : Z :=
  match e with
  | Z0 => 1
  | Zpos e' => fpow_pos a e'
  | Zneg _ => 0
  end.

(* Rust: inv(0) = 0, otherwise a^(p-2) *)
Definition finv (a : Z) : Z := fpow a 18446744069414584319.

(* Felt::new(x) for a u64 x: reduction mod p *)
Definition felt_of_u64 (x : Z) : Z := x mod P.
(* wrapping u64 arithmetic of release builds *)
Definition wrap64 (x : Z) : Z := x mod TWO64.

Definition is_u32b (x : Z) : bool := (0 <=? x) && (x <? TWO32).

Lemma P_pos : 0 < P. Proof. reflexivity. Qed.

Lemma fnorm_canon x : canon (fnorm x).
Proof. unfold canon, fnorm. apply Z.mod_pos_bound. reflexivity. Qed.
Lemma fadd_canon a b : canon (fadd a b). Proof. apply fnorm_canon. Qed.
Lemma fsub_canon a b : canon (fsub a b). Proof. apply fnorm_canon. Qed.
Lemma fmul_canon a b : canon (fmul a b). Proof. apply fnorm_canon. Qed.
Lemma fneg_canon a : canon (fneg a). Proof. apply fnorm_canon. Qed.

Lemma fpow_pos_canon a e : canon (fpow_pos a e).
Proof. destruct e; cbn [fpow_pos]; try apply fmul_canon. apply fnorm_canon. Qed.

Lemma fpow_canon a e : canon (fpow a e).
Proof. destruct e; cbn [fpow]. - unfold canon, P; lia. - apply fpow_pos_canon. - unfold canon, P; lia. Qed.
Lemma finv_canon a : canon (finv a). Proof. apply fpow_canon. Qed.

Lemma canonb_true x : canonb x = true <-> canon x.
Proof. unfold canonb, canon. rewrite Bool.andb_true_iff, Z.leb_le, Z.ltb_lt. tauto. Qed.

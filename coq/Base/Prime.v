(* The Goldilocks modulus p = 2^64 - 2^32 + 1 is prime.
   Pocklington-style argument with the 2-part F = 2^32 of p - 1: for the concrete residue
   C = 7^(2^32-1) mod p we have C^(2^31) = -1 (mod p), checked by computation with Zpow_mod.
   Hence modulo every prime divisor q of p the element C has order exactly 2^32, its 2^32 powers
   are pairwise distinct non-zero residues, so q - 1 >= 2^32 and q^2 > p.
   Big powers never appear with a concrete base and exponent: the general lemmas are stated for
   variables and instantiated through equations (see DESIGN.md, "big-exponent hazard"). *)
From Coq Require Import ZArith List Lia Znumtheory Zpow_facts.
From MV Require Import Base.Field.
Import ListNotations.
Open Scope Z_scope.

(* ---- generic number theory ------------------------------------------------------------------ *)

Lemma pow_diff_div q a b n : 0 <= n -> (q | a - b) -> (q | a ^ n - b ^ n).
Proof.
  intros Hn Hd. pattern n. apply natlike_ind; [| |exact Hn].
  - rewrite !Z.pow_0_r. replace (1 - 1) with 0 by lia. apply Z.divide_0_r.
  - intros x Hx IH. rewrite !Z.pow_succ_r by exact Hx.
    replace (a * a ^ x - b * b ^ x) with (a * (a ^ x - b ^ x) + (a - b) * b ^ x) by ring.
    apply Z.divide_add_r; [apply Z.divide_mul_r; exact IH | apply Z.divide_mul_l; exact Hd].
Qed.

Lemma prime_div_pow q a n : prime q -> 0 <= n -> (q | a ^ n) -> n = 0 \/ (q | a).
Proof.
  intros Hq Hn. pattern n. apply natlike_ind; [| |exact Hn].
  - intros _. left; reflexivity.
  - intros x Hx IH Hd. right. rewrite Z.pow_succ_r in Hd by exact Hx.
    apply prime_mult in Hd; [|exact Hq]. destruct Hd as [Hd|Hd]; [exact Hd|].
    destruct (IH Hd) as [E|E]; [|exact E]. subst x. rewrite Z.pow_0_r in Hd.
    exfalso. apply Z.divide_1_r_nonneg in Hd; [|destruct Hq; lia]. destruct Hq; lia.
Qed.

(* every number > 1 has a prime divisor *)
Lemma prime_divisor : forall n, 1 < n -> exists q, prime q /\ (q | n).
Proof.
  intros n Hn. assert (H0 : 0 <= n) by lia. revert Hn. pattern n. apply Z_lt_induction; [|exact H0].
  intros x IH Hx. destruct (prime_dec x) as [Hp|Hnp].
  - exists x. split; [exact Hp | apply Z.divide_refl].
  - destruct (not_prime_divide x Hx Hnp) as [a [[Ha1 Ha2] Hd]].
    destruct (IH a ltac:(lia) Ha1) as [q [Hq Hqa]].
    exists q. split; [exact Hq | eapply Z.divide_trans; eauto].
Qed.

(* 2-adic decomposition *)
Lemma two_adic : forall d, 0 < d -> exists t m, 0 <= t /\ 0 <= m /\ d = 2 ^ t * (2 * m + 1).
Proof.
  intros d Hd. assert (H0 : 0 <= d) by lia. revert Hd. pattern d. apply Z_lt_induction; [|exact H0].
  intros x IH Hx. destruct (Z.even x) eqn:E.
  - apply Z.even_spec in E. destruct E as [h Hh].
    destruct (IH h ltac:(lia) ltac:(lia)) as [t [m [Ht [Hm Eh]]]].
    exists (t + 1), m. split; [lia|]. split; [exact Hm|].
    rewrite Z.pow_add_r by lia. rewrite Z.pow_1_r. rewrite Hh, Eh. ring.
  - assert (O : Z.odd x = true) by (rewrite <- Z.negb_even, E; reflexivity).
    apply Z.odd_spec in O. destruct O as [h Hh].
    exists 0, h. split; [lia|]. split; [lia|]. rewrite Z.pow_0_r. lia.
Qed.

Lemma pow_neg_one_odd m : 0 <= m -> (-1) ^ (2 * m + 1) = -1.
Proof.
  intros Hm. rewrite Z.pow_add_r by lia. rewrite Z.pow_mul_r by lia.
  replace ((-1) ^ 2) with 1 by reflexivity. rewrite Z.pow_1_l by exact Hm. reflexivity.
Qed.

(* if c^(2^k) = -1 mod q (q an odd prime) then no exponent 0 < d < 2^(k+1) gives c^d = 1 mod q *)
Lemma no_small_order q c k d :
  prime q -> 2 < q -> 0 <= k -> (q | c ^ (2 ^ k) + 1) ->
  0 < d < 2 ^ (k + 1) -> (q | c ^ d - 1) -> False.
Proof.
  intros Hq Hq2 Hk Hm1 Hd H1.
  destruct (two_adic d ltac:(lia)) as [t [m [Ht [Hm Ed]]]].
  assert (Htk : t <= k).
  { destruct (Z_le_gt_dec t k) as [L|G]; [exact L|]. exfalso.
    assert (2 ^ (k + 1) <= 2 ^ t) by (apply Z.pow_le_mono_r; lia).
    assert (0 < 2 ^ t) by (apply Z.pow_pos_nonneg; lia). nia. }
  set (x := c ^ (2 ^ t)).
  set (w := 2 ^ (k - t)).
  assert (Hw : 0 <= w) by (unfold w; apply Z.pow_nonneg; lia).
  assert (H2t : 0 <= 2 ^ t) by (apply Z.pow_nonneg; lia).
  (* y = x^w = c^(2^k) *)
  assert (Ey : x ^ w = c ^ (2 ^ k)).
  { unfold x, w. rewrite <- Z.pow_mul_r by assumption. rewrite <- Z.pow_add_r by lia.
    replace (t + (k - t)) with k by lia. reflexivity. }
  (* x^(2m+1) = c^d *)
  assert (Ex : x ^ (2 * m + 1) = c ^ d).
  { unfold x. rewrite <- Z.pow_mul_r by lia. rewrite <- Ed. reflexivity. }
  (* (x^w)^(2m+1) = (x^(2m+1))^w is 1 mod q *)
  assert (A : (q | (x ^ w) ^ (2 * m + 1) - 1)).
  { rewrite <- Z.pow_mul_r by lia. rewrite (Z.mul_comm w). rewrite Z.pow_mul_r by lia.
    rewrite Ex. pose proof (pow_diff_div q (c ^ d) 1 w Hw H1) as T.
    rewrite Z.pow_1_l in T by exact Hw. exact T. }
  (* and it is (-1)^(2m+1) = -1 mod q *)
  assert (B : (q | (x ^ w) ^ (2 * m + 1) + 1)).
  { rewrite Ey. replace ((c ^ 2 ^ k) ^ (2 * m + 1) + 1) with ((c ^ 2 ^ k) ^ (2 * m + 1) - (-1) ^ (2 * m + 1)).
    - apply pow_diff_div; [lia|]. replace (c ^ 2 ^ k - -1) with (c ^ 2 ^ k + 1) by ring. exact Hm1.
    - rewrite pow_neg_one_odd by exact Hm. ring. }
  assert (D : (q | 2)).
  { replace 2 with (((x ^ w) ^ (2 * m + 1) + 1) - ((x ^ w) ^ (2 * m + 1) - 1)) by ring.
    apply Z.divide_sub_r; assumption. }
  apply Z.divide_pos_le in D; lia.
Qed.

(* powers of c below 2^(k+1) are pairwise incongruent and non-zero mod q *)
Lemma powers_nonzero q c k i :
  prime q -> 0 <= k -> (q | c ^ (2 ^ k) + 1) -> 0 <= i -> ~ (q | c ^ i).
Proof.
  intros Hq Hk Hm1 Hi Hd.
  destruct (prime_div_pow q c i Hq Hi Hd) as [E|Hc].
  - subst i. rewrite Z.pow_0_r in Hd. apply Z.divide_1_r_nonneg in Hd; destruct Hq; lia.
  - assert (H2k : 0 < 2 ^ k) by (apply Z.pow_pos_nonneg; lia).
    assert (Hp : (q | c ^ (2 ^ k))).
    { replace (2 ^ k) with (Z.succ (2 ^ k - 1)) by lia. rewrite Z.pow_succ_r by lia.
      apply Z.divide_mul_l. exact Hc. }
    assert (H1 : (q | 1)).
    { replace 1 with ((c ^ 2 ^ k + 1) - c ^ 2 ^ k) by ring. apply Z.divide_sub_r; assumption. }
    apply Z.divide_1_r_nonneg in H1; destruct Hq; lia.
Qed.

Lemma powers_distinct q c k i j :
  prime q -> 2 < q -> 0 <= k -> (q | c ^ (2 ^ k) + 1) ->
  0 <= i -> i < j -> j < 2 ^ (k + 1) -> (q | c ^ j - c ^ i) -> False.
Proof.
  intros Hq Hq2 Hk Hm1 Hi Hij Hj Hd.
  replace (c ^ j - c ^ i) with (c ^ i * (c ^ (j - i) - 1)) in Hd.
  2:{ replace j with (i + (j - i)) at 2 by lia. rewrite Z.pow_add_r by lia. ring. }
  apply prime_mult in Hd; [|exact Hq]. destruct Hd as [Hd|Hd].
  - exact (powers_nonzero q c k i Hq Hk Hm1 Hi Hd).
  - apply (no_small_order q c k (j - i) Hq Hq2 Hk Hm1); [lia | exact Hd].
Qed.

(* pigeonhole on lists *)
Lemma NoDup_map_on {A B} (f : A -> B) (l : list A) :
  (forall x y, In x l -> In y l -> f x = f y -> x = y) -> NoDup l -> NoDup (map f l).
Proof.
  induction l as [|a l IH]; intros Hinj Hnd; [constructor|].
  inversion Hnd as [|? ? Hna Hnd']; subst. cbn. constructor.
  - intros Hin. apply in_map_iff in Hin. destruct Hin as [y [Ey Hy]].
    assert (y = a) by (apply Hinj; [right; exact Hy | left; reflexivity | exact Ey]).
    subst y. contradiction.
  - apply IH; [|exact Hnd']. intros x y Hx Hy. apply Hinj; right; assumption.
Qed.

Lemma order_bound q c k :
  prime q -> 2 < q -> 0 <= k -> (q | c ^ (2 ^ k) + 1) -> 2 ^ (k + 1) <= q - 1.
Proof.
  intros Hq Hq2 Hk Hm1.
  set (n := Z.to_nat (2 ^ (k + 1))).
  set (f := fun i : nat => (c ^ Z.of_nat i) mod q).
  assert (Hn : Z.of_nat n = 2 ^ (k + 1)).
  { unfold n. apply Z2Nat.id. apply Z.pow_nonneg. lia. }
  assert (Hnd : NoDup (map f (seq 0 n))).
  { apply NoDup_map_on; [|apply seq_NoDup].
    intros x y Hx Hy E. apply in_seq in Hx, Hy. unfold f in E.
    destruct (Nat.lt_trichotomy x y) as [L|[L|L]]; [|exact L|]; exfalso.
    - apply (powers_distinct q c k (Z.of_nat x) (Z.of_nat y)); try assumption; try lia.
      apply Z.mod_divide; [lia|]. rewrite Zminus_mod, E, Z.sub_diag. reflexivity.
    - apply (powers_distinct q c k (Z.of_nat y) (Z.of_nat x)); try assumption; try lia.
      apply Z.mod_divide; [lia|]. rewrite Zminus_mod, E, Z.sub_diag. reflexivity. }
  set (m := Z.to_nat (q - 1)).
  assert (Hincl : incl (map f (seq 0 n)) (map Z.of_nat (seq 1 m))).
  { intros v Hv. apply in_map_iff in Hv. destruct Hv as [i [Ev Hi]]. apply in_seq in Hi.
    assert (Hr : 0 <= v < q) by (rewrite <- Ev; unfold f; apply Z.mod_pos_bound; lia).
    assert (Hnz : v <> 0).
    { intros Z0. rewrite <- Ev in Z0. unfold f in Z0. apply Z.mod_divide in Z0; [|lia].
      exact (powers_nonzero q c k (Z.of_nat i) Hq Hk Hm1 ltac:(lia) Z0). }
    apply in_map_iff. exists (Z.to_nat v). split; [apply Z2Nat.id; lia|].
    apply in_seq. unfold m. lia. }
  pose proof (NoDup_incl_length Hnd Hincl) as HL.
  rewrite !map_length, !seq_length in HL. unfold m in HL. lia.
Qed.

(* ---- the concrete computation -------------------------------------------------------------- *)
Definition C : Z := 1753635133440165772.

Lemma key_fact c k : c = C -> k = 31 -> (P | c ^ (2 ^ k) + 1).
Proof.
  intros Hc Hk. apply Z.mod_divide; [discriminate|].
  rewrite Zplus_mod. rewrite <- Zpow_mod_correct by discriminate.
  rewrite Hc, Hk. vm_compute. reflexivity.
Qed.

Lemma P_odd : ~ (2 | P).
Proof. intros H. apply Z.mod_divide in H; [|discriminate]. vm_compute in H. discriminate. Qed.

Lemma prime_factor_big q : prime q -> (q | P) -> 4294967296 < q.
Proof.
  intros Hq Hd.
  assert (Hq2 : 2 < q).
  { destruct Hq as [H1 _]. destruct (Z.eq_dec q 2) as [E|E]; [|lia].
    subst q. exfalso. exact (P_odd Hd). }
  pose (c := C). pose (k := 31).
  assert (Hm1 : (q | c ^ (2 ^ k) + 1)).
  { eapply Z.divide_trans; [exact Hd|]. apply key_fact; reflexivity. }
  pose proof (order_bound q c k Hq Hq2 ltac:(unfold k; lia) Hm1) as HB.
  unfold k in HB. change (2 ^ (31 + 1)) with 4294967296 in HB. lia.
Qed.

Theorem P_prime : prime P.
Proof.
  destruct (prime_dec P) as [Hp|Hnp]; [exact Hp|]. exfalso.
  destruct (not_prime_divide P ltac:(reflexivity) Hnp) as [a [[Ha1 Ha2] [b Hb]]].
  (* P = b * a with 1 < a < P, hence 1 < b *)
  assert (Hb1 : 1 < b) by (unfold P in *; nia).
  destruct (prime_divisor a Ha1) as [q [Hq Hqa]].
  destruct (prime_divisor b Hb1) as [r [Hr Hrb]].
  assert (Hqa' : q <= a) by (apply Z.divide_pos_le; [lia | exact Hqa]).
  assert (Hrb' : r <= b) by (apply Z.divide_pos_le; [lia | exact Hrb]).
  assert (Hq' : 4294967296 < q).
  { apply prime_factor_big; [exact Hq|]. eapply Z.divide_trans; [exact Hqa|]. exists b. exact Hb. }
  assert (Hr' : 4294967296 < r).
  { apply prime_factor_big; [exact Hr|]. eapply Z.divide_trans; [exact Hrb|]. exists a. rewrite Hb. ring. }
  unfold P in *. nia.
Qed.

(* no zero divisors modulo p *)
Theorem P_no_zero_div a b : (a * b) mod P = 0 -> a mod P = 0 \/ b mod P = 0.
Proof.
  intros H. apply Z.mod_divide in H; [|discriminate].
  apply prime_mult in H; [|exact P_prime].
  destruct H as [H|H]; [left|right]; apply Z.mod_divide; try discriminate; exact H.
Qed.

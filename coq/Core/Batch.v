(* Operation batching: a transcription of OpBatchAccumulator / batch_ops
   (core/src/program/blocks/span_block.rs). *)
From Coq Require Import ZArith List Bool Arith Lia.
From MV Require Import Base.Field Core.Op.
Import ListNotations.
Open Scope Z_scope.

Definition GROUP_SIZE : nat := 9.
Definition BATCH_SIZE : nat := 8.

Fixpoint set_nth {A} (n : nat) (x : A) (l : list A) : list A :=
  match l, n with
  | [], _ => []
  | _ :: t, O => x :: t
  | h :: t, S n' => h :: set_nth n' x t
  end.

Record batch := mkBatch {
  b_ops : list op;
  b_groups : list Z;        (* always 8 entries *)
  b_counts : list nat;      (* always 8 entries *)
  b_num_groups : nat }.

Record acc := mkAcc {
  a_ops : list op;          (* in order *)
  a_groups : list Z;
  a_counts : list nat;
  a_group : Z;
  a_opidx : nat;
  a_gidx : nat;
  a_next : nat }.

Definition acc_new : acc :=
  mkAcc [] (repeat 0 BATCH_SIZE) (repeat O BATCH_SIZE) 0 O O 1%nat.

Definition has_imm (o : op) : bool :=
  match imm_value o with Some _ => true | None => false end.

Definition can_accept_op (a : acc) (o : op) : bool :=
  if has_imm o then
    if Nat.ltb (a_opidx a) (GROUP_SIZE - 1) then Nat.ltb (a_next a) BATCH_SIZE
    else Nat.ltb (a_next a + 1) BATCH_SIZE
  else
    Nat.ltb (a_opidx a) GROUP_SIZE || Nat.ltb (a_next a) BATCH_SIZE.

Definition finalize_group (a : acc) : acc :=
  mkAcc (a_ops a)
        (set_nth (a_gidx a) (felt_of_u64 (a_group a)) (a_groups a))
        (set_nth (a_gidx a) (a_opidx a) (a_counts a))
        0 O (a_next a) (a_next a + 1).

Definition add_op (a : acc) (o : op) : acc :=
  let a1 := if Nat.eqb (a_opidx a) GROUP_SIZE then finalize_group a else a in
  let a2 :=
    match imm_value o with
    | Some imm =>
        let a1' := if Nat.eqb (a_opidx a1) (GROUP_SIZE - 1) then finalize_group a1 else a1 in
        mkAcc (a_ops a1') (set_nth (a_next a1') imm (a_groups a1')) (a_counts a1')
              (a_group a1') (a_opidx a1') (a_gidx a1') (a_next a1' + 1)
    | None => a1
    end in
  mkAcc (a_ops a2 ++ [o]) (a_groups a2) (a_counts a2)
        (Z.lor (a_group a2) (Z.shiftl (opcode o) (7 * Z.of_nat (a_opidx a2))))
        (a_opidx a2 + 1) (a_gidx a2) (a_next a2).

Definition into_batch (a : acc) : batch :=
  let store := negb (Z.eqb (a_group a) 0) || negb (Nat.eqb (a_opidx a) 0) in
  mkBatch (a_ops a)
          (if store then set_nth (a_gidx a) (felt_of_u64 (a_group a)) (a_groups a) else a_groups a)
          (if store then set_nth (a_gidx a) (a_opidx a) (a_counts a) else a_counts a)
          (a_next a).

Fixpoint batch_loop (ops : list op) (a : acc) (done : list batch) : list batch :=
  match ops with
  | [] => if match a_ops a with [] => true | _ => false end then done
          else done ++ [into_batch a]
  | o :: rest =>
      if can_accept_op a o then batch_loop rest (add_op a o) done
      else batch_loop rest (add_op acc_new o) (done ++ [into_batch a])
  end.

Definition batch_ops (ops : list op) : list batch := batch_loop ops acc_new [].

Definition next_pow2 (n : nat) : nat :=
  if Nat.leb n 1 then 1%nat else if Nat.leb n 2 then 2%nat
  else if Nat.leb n 4 then 4%nat else 8%nat.

Definition span_group_count (bs : list batch) : nat :=
  (length bs - 1) * BATCH_SIZE + next_pow2 (b_num_groups (last bs (mkBatch [] [] [] 0))).

(* the element sequence that is hashed: all 8 groups of every batch *)
Definition span_hash_input (bs : list batch) : list Z := flat_map b_groups bs.

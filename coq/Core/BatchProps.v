(* Shape of operation batches: every batch has 8 group slots, uses at most 8 groups, no group
   holds more than 9 operations, and opcodes are a 7-bit injective code. *)
From Coq Require Import ZArith List Bool Arith Lia.
From MV Require Import Base.Field Core.Op Core.Batch.
Import ListNotations.
Open Scope Z_scope.

Lemma set_nth_length {A} n (x : A) l : length (set_nth n x l) = length l.
Proof. revert n; induction l as [|h t IH]; intros [|n]; cbn; auto. Qed.

(* accumulator invariant *)
Definition acc_ok (a : acc) : Prop :=
  (a_opidx a <= 9)%nat /\ (a_gidx a < a_next a)%nat /\ (a_next a <= 8)%nat /\
  length (a_groups a) = 8%nat /\ length (a_counts a) = 8%nat /\
  Forall (fun c => (c <= 9)%nat) (a_counts a).

Lemma acc_new_ok : acc_ok acc_new.
Proof. unfold acc_ok, acc_new; cbn. repeat split; try lia. repeat constructor; lia. Qed.

Lemma Forall_set_nth n (x : nat) l (P : nat -> Prop) : P x -> Forall P l -> Forall P (set_nth n x l).
Proof.
  intros Hx. revert n. induction l as [|h t IH]; intros n H; [destruct n; constructor|].
  inversion H; subst. destruct n; cbn; constructor; auto.
Qed.

Lemma finalize_ok a : acc_ok a -> (a_next a < 8)%nat -> acc_ok (finalize_group a).
Proof.
  intros [H1 [H2 [H3 [H4 [H5 H6]]]]] Hn. unfold acc_ok, finalize_group; cbn.
  rewrite !set_nth_length. repeat split; try lia. apply Forall_set_nth; [lia | exact H6].
Qed.

Lemma add_op_ok a o : acc_ok a -> can_accept_op a o = true -> acc_ok (add_op a o).
Proof.
  intros Hok Hc. pose proof Hok as [H1 [H2 [H3 [H4 [H5 H6]]]]].
  unfold can_accept_op in Hc. unfold add_op. unfold has_imm in Hc.
  destruct (imm_value o) as [imm|] eqn:Ei.
  - (* operation with an immediate *)
    destruct (Nat.eqb (a_opidx a) GROUP_SIZE) eqn:E9.
    + apply Nat.eqb_eq in E9. unfold GROUP_SIZE in *.
      assert (Hlt : Nat.ltb (a_opidx a) (9 - 1) = false) by (apply Nat.ltb_ge; lia).
      unfold GROUP_SIZE in Hc. rewrite Hlt in Hc. apply Nat.ltb_lt in Hc. unfold BATCH_SIZE in Hc.
      pose proof (finalize_ok a Hok ltac:(lia)) as [F1 [F2 [F3 [F4 [F5 F6]]]]].
      cbn [finalize_group a_opidx] in *. cbn [Nat.eqb]. unfold acc_ok; cbn.
      rewrite !set_nth_length. repeat split; try lia; cbn in *; try lia.
      apply Forall_set_nth; [lia | exact H6].
    + apply Nat.eqb_neq in E9. unfold GROUP_SIZE in *.
      destruct (Nat.eqb (a_opidx a) (9 - 1)) eqn:E8.
      * apply Nat.eqb_eq in E8.
        assert (Hlt : Nat.ltb (a_opidx a) (9 - 1) = false) by (apply Nat.ltb_ge; lia).
        rewrite Hlt in Hc. apply Nat.ltb_lt in Hc. unfold BATCH_SIZE in Hc.
        unfold acc_ok; cbn. rewrite !set_nth_length. repeat split; try lia.
        apply Forall_set_nth; [lia | exact H6].
      * apply Nat.eqb_neq in E8.
        assert (Hlt : Nat.ltb (a_opidx a) (9 - 1) = true) by (apply Nat.ltb_lt; cbn in *; lia).
        rewrite Hlt in Hc. apply Nat.ltb_lt in Hc. unfold BATCH_SIZE in Hc.
        unfold acc_ok; cbn. rewrite !set_nth_length. repeat split; try lia. exact H6.
  - (* plain operation *)
    apply orb_true_iff in Hc. unfold GROUP_SIZE, BATCH_SIZE in *.
    destruct (Nat.eqb (a_opidx a) 9) eqn:E9.
    + apply Nat.eqb_eq in E9. destruct Hc as [Hc|Hc]; [apply Nat.ltb_lt in Hc; lia|].
      apply Nat.ltb_lt in Hc.
      unfold acc_ok; cbn. rewrite !set_nth_length. repeat split; try lia.
      apply Forall_set_nth; [lia | exact H6].
    + apply Nat.eqb_neq in E9. unfold acc_ok; cbn. repeat split; try lia. exact H6.
Qed.

Definition batch_ok (b : batch) : Prop :=
  length (b_groups b) = 8%nat /\ length (b_counts b) = 8%nat /\ (b_num_groups b <= 8)%nat /\
  Forall (fun c => (c <= 9)%nat) (b_counts b).

Lemma into_batch_ok a : acc_ok a -> batch_ok (into_batch a).
Proof.
  intros [H1 [H2 [H3 [H4 [H5 H6]]]]]. unfold batch_ok, into_batch; cbn.
  destruct (negb (a_group a =? 0) || negb (Nat.eqb (a_opidx a) 0)); rewrite ?set_nth_length;
    repeat split; try lia; try exact H6. apply Forall_set_nth; [lia | exact H6].
Qed.

Lemma batch_loop_ok : forall ops a done,
  acc_ok a -> Forall batch_ok done -> Forall batch_ok (batch_loop ops a done).
Proof.
  induction ops as [|o ops IH]; intros a done Ha Hd; cbn [batch_loop].
  - destruct (a_ops a); [exact Hd|]. apply Forall_app. split; [exact Hd|].
    constructor; [apply into_batch_ok; exact Ha | constructor].
  - destruct (can_accept_op a o) eqn:E.
    + apply IH; [apply add_op_ok; assumption | exact Hd].
    + apply IH.
      * apply add_op_ok; [apply acc_new_ok|].
        unfold can_accept_op, acc_new; cbn. destruct (has_imm o); reflexivity.
      * apply Forall_app. split; [exact Hd|]. constructor; [apply into_batch_ok; exact Ha | constructor].
Qed.

(* every batch of every span: 8 group slots, at most 8 groups used, at most 9 operations per group *)
Theorem batch_ops_shape ops : Forall batch_ok (batch_ops ops).
Proof. apply batch_loop_ok; [apply acc_new_ok | constructor]. Qed.

(* ---- opcodes ---------------------------------------------------------------------------------- *)
Lemma opcode_range o : 0 <= opcode o < 128.
Proof. destruct o; cbn; lia. Qed.

(* operations with the same opcode are the same operation up to the data they carry *)
Definition same_kind (a b : op) : Prop :=
  match a, b with
  | Push _, Push _ | Assert _, Assert _ | U32assert2 _, U32assert2 _ => True
  | _, _ => a = b
  end.

Lemma opcode_injective a b : opcode a = opcode b -> same_kind a b.
Proof.
  intros H. destruct a; destruct b; try discriminate H; try reflexivity; exact I.
Qed.

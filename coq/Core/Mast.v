(* MAST blocks and their hashes (core/src/program/blocks/*.rs). *)
From Coq Require Import ZArith List Bool Arith Lia.
From MV Require Import Base.Field Core.Op Core.Batch Core.Rpo Gen.ConstGen.
Import ListNotations.
Open Scope Z_scope.

Inductive block : Type :=
| BSpan (ops : list op)
| BJoin (a b : block)
| BSplit (t f : block)
| BLoop (body : block)
| BCall (fn_hash : word)
| BSysCall (fn_hash : word)
| BDyn.

Definition span_hash (ops : list op) : word :=
  hash_elements (span_hash_input (batch_ops ops)).

Definition call_hash (fn_hash : word) : word := merge_in_domain fn_hash ZERO_WORD CALL_DOMAIN.
Definition syscall_hash (fn_hash : word) : word := merge_in_domain fn_hash ZERO_WORD SYSCALL_DOMAIN.

Fixpoint block_hash (b : block) : word :=
  match b with
  | BSpan ops => span_hash ops
  | BJoin a b => merge_in_domain (block_hash a) (block_hash b) JOIN_DOMAIN
  | BSplit t f => merge_in_domain (block_hash t) (block_hash f) SPLIT_DOMAIN
  | BLoop body => merge_in_domain (block_hash body) ZERO_WORD LOOP_DOMAIN
  | BCall h => call_hash h
  | BSysCall h => syscall_hash h
  | BDyn => DYN_HASH
  end.

Definition word_eqb (a b : word) : bool :=
  (length a =? length b)%nat && forallb (fun p => Z.eqb (fst p) (snd p)) (combine a b).

Record program := mkProgram {
  p_root : block;
  p_kernel : list word;
  p_table : list (word * block) }.

Fixpoint table_get (t : list (word * block)) (h : word) : option block :=
  match t with
  | [] => None
  | (k, b) :: rest => if word_eqb k h then Some b else table_get rest h
  end.

Definition kernel_has (k : list word) (h : word) : bool := existsb (word_eqb h) k.

(* The 89 native operations of Miden VM v0.8 and their 7-bit opcodes
   (core/src/operations/mod.rs). *)
From Coq Require Import ZArith List Bool.
Import ListNotations.
Open Scope Z_scope.

Inductive op : Type :=
(* system *)
| Noop | Assert (code : Z) | FmpAdd | FmpUpdate | SDepth | Caller | Clk
(* flow control *)
| Join | Split | Loop | Call | Dyn | SysCall | Span | End | Repeat | Respan | Halt
(* field *)
| Add | Neg | Mul | Inv | Incr | And | Or | Not | OpEq | Eqz | Expacc
| Ext2Mul
(* u32 *)
| U32split | U32add | U32assert2 (code : Z) | U32add3 | U32sub | U32mul | U32madd | U32div
| U32and | U32xor
(* stack manipulation *)
| Pad | Drop
| Dup0 | Dup1 | Dup2 | Dup3 | Dup4 | Dup5 | Dup6 | Dup7 | Dup9 | Dup11 | Dup13 | Dup15
| Swap | SwapW | SwapW2 | SwapW3 | SwapDW
| MovUp2 | MovUp3 | MovUp4 | MovUp5 | MovUp6 | MovUp7 | MovUp8
| MovDn2 | MovDn3 | MovDn4 | MovDn5 | MovDn6 | MovDn7 | MovDn8
| CSwap | CSwapW
(* io *)
| Push (v : Z) | AdvPop | AdvPopW | MLoadW | MStoreW | MLoad | MStore | MStream | Pipe
(* crypto *)
| HPerm | MpVerify | MrUpdate | FriE2F4 | RCombBase.

Definition opcode (o : op) : Z :=
  match o with
  | Noop => 0 | Eqz => 1 | Neg => 2 | Inv => 3 | Incr => 4 | Not => 5 | FmpAdd => 6 | MLoad => 7
  | Swap => 8 | Caller => 9 | MovUp2 => 10 | MovDn2 => 11 | MovUp3 => 12 | MovDn3 => 13
  | AdvPopW => 14 | Expacc => 15 | MovUp4 => 16 | MovDn4 => 17 | MovUp5 => 18 | MovDn5 => 19
  | MovUp6 => 20 | MovDn6 => 21 | MovUp7 => 22 | MovDn7 => 23 | SwapW => 24 | Ext2Mul => 25
  | MovUp8 => 26 | MovDn8 => 27 | SwapW2 => 28 | SwapW3 => 29 | SwapDW => 30
  | Assert _ => 32 | OpEq => 33 | Add => 34 | Mul => 35 | And => 36 | Or => 37 | U32and => 38
  | U32xor => 39 | FriE2F4 => 40 | Drop => 41 | CSwap => 42 | CSwapW => 43 | MLoadW => 44
  | MStore => 45 | MStoreW => 46 | FmpUpdate => 47
  | Pad => 48 | Dup0 => 49 | Dup1 => 50 | Dup2 => 51 | Dup3 => 52 | Dup4 => 53 | Dup5 => 54
  | Dup6 => 55 | Dup7 => 56 | Dup9 => 57 | Dup11 => 58 | Dup13 => 59 | Dup15 => 60
  | AdvPop => 61 | SDepth => 62 | Clk => 63
  | U32add => 64 | U32sub => 66 | U32mul => 68 | U32div => 70 | U32split => 72
  | U32assert2 _ => 74 | U32add3 => 76 | U32madd => 78
  | HPerm => 80 | MpVerify => 81 | Pipe => 82 | MStream => 83 | Split => 84 | Loop => 85
  | Span => 86 | Join => 87 | Dyn => 88 | RCombBase => 89
  | MrUpdate => 96 | Push _ => 100 | SysCall => 104 | Call => 108
  | End => 112 | Repeat => 116 | Respan => 120 | Halt => 124
  end.

Definition imm_value (o : op) : option Z :=
  match o with Push v => Some v | _ => None end.

Definition is_control (o : op) : bool :=
  match o with
  | End | Join | Split | Loop | Repeat | Respan | Span | Halt | Call | SysCall | Dyn => true
  | _ => false
  end.

(* All operations, data-carrying ones instantiated with 0 (for finite sweeps). *)
Definition all_ops : list op :=
  [Noop; Assert 0; FmpAdd; FmpUpdate; SDepth; Caller; Clk;
   Join; Split; Loop; Call; Dyn; SysCall; Span; End; Repeat; Respan; Halt;
   Add; Neg; Mul; Inv; Incr; And; Or; Not; OpEq; Eqz; Expacc; Ext2Mul;
   U32split; U32add; U32assert2 0; U32add3; U32sub; U32mul; U32madd; U32div; U32and; U32xor;
   Pad; Drop; Dup0; Dup1; Dup2; Dup3; Dup4; Dup5; Dup6; Dup7; Dup9; Dup11; Dup13; Dup15;
   Swap; SwapW; SwapW2; SwapW3; SwapDW;
   MovUp2; MovUp3; MovUp4; MovUp5; MovUp6; MovUp7; MovUp8;
   MovDn2; MovDn3; MovDn4; MovDn5; MovDn6; MovDn7; MovDn8; CSwap; CSwapW;
   Push 0; AdvPop; AdvPopW; MLoadW; MStoreW; MLoad; MStore; MStream; Pipe;
   HPerm; MpVerify; MrUpdate; FriE2F4; RCombBase].

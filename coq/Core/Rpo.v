(* Rescue Prime Optimized over Goldilocks, as used by miden-crypto 0.8.4 (Rpo256):
   state of 12 elements, capacity 0..4, rate 4..12, digest 4..8, 7 rounds.
   Constants come from Gen/ConstGen.v (dumped from the crate on every run). *)
From Coq Require Import ZArith List Bool Arith Lia.
From MV Require Import Base.Field Gen.ConstGen.
Import ListNotations.
Open Scope Z_scope.

Definition word := list Z.  (* always 4 elements in well-formed values *)
Definition ZERO_WORD : word := [0;0;0;0].

Definition dot (r v : list Z) : Z :=
  fold_left (fun acc p => fadd acc (fmul (fst p) (snd p))) (combine r v) 0.

Definition apply_mds (st : list Z) : list Z := map (fun r => dot r st) RPO_MDS.

Definition add_consts (st c : list Z) : list Z :=
  map (fun p => fadd (fst p) (snd p)) (combine st c).

Definition sbox (x : Z) : Z := fpow x 7.
Definition INV_ALPHA : Z := 10540996611094048183.
Definition inv_sbox (x : Z) : Z := fpow x INV_ALPHA.

Definition rpo_round (st : list Z) (r : nat) : list Z :=
  let s1 := map sbox (add_consts (apply_mds st) (nth r RPO_ARK1 [])) in
  map inv_sbox (add_consts (apply_mds s1) (nth r RPO_ARK2 [])).

Definition rpo_permute (st : list Z) : list Z :=
  fold_left rpo_round (seq 0 RPO_NUM_ROUNDS) st.

Definition digest_of (st : list Z) : word := firstn 4 (skipn 4 st).

(* merge_in_domain([a, b], d): capacity = [0, d, 0, 0], rate = a ++ b *)
Definition merge_in_domain (a b : word) (d : Z) : word :=
  digest_of (rpo_permute ([0; d; 0; 0] ++ a ++ b)).

Definition merge (a b : word) : word := merge_in_domain a b 0.

(* hash_elements: absorb 8 at a time; if length is not a multiple of 8 the first capacity
   element is 1 and the last block is padded with 1 then zeros. *)
Fixpoint absorb_state (fuel : nat) (st : list Z) (xs : list Z) : list Z :=
  match fuel with
  | O => st
  | S f =>
    if Nat.leb 8 (length xs) then
      let st' := rpo_permute (firstn 4 st ++ firstn 8 xs) in
      match skipn 8 xs with
      | [] => st'
      | rest => absorb_state f st' rest
      end
    else
      rpo_permute (firstn 4 st ++ xs ++ [1] ++ repeat 0 (7 - length xs))
  end.

Definition hash_elements (xs : list Z) : word :=
  match xs with
  | [] => [0;0;0;0]
  | _ =>
    let c0 := if Nat.eqb (Nat.modulo (length xs) 8) 0 then 0 else 1 in
    digest_of (absorb_state (S (length xs)) ([c0;0;0;0] ++ repeat 0 8) xs)
  end.

(* ---- shape facts (they depend only on the generated constants) ------------------------------ *)
Lemma rpo_round_length st r : (r < RPO_NUM_ROUNDS)%nat -> length (rpo_round st r) = 12%nat.
Proof.
  intros Hr. unfold rpo_round, add_consts, apply_mds.
  rewrite !map_length, combine_length, !map_length.
  do 7 (destruct r as [|r]; [vm_compute; reflexivity|]).
  exfalso. change RPO_NUM_ROUNDS with 7%nat in Hr. lia.
Qed.

Lemma fold_rounds_length rs : forall st,
  (forall r, In r rs -> (r < RPO_NUM_ROUNDS)%nat) -> rs <> [] ->
  length (fold_left rpo_round rs st) = 12%nat.
Proof.
  induction rs as [|r rs IH]; intros st Hin Hne; [congruence|].
  cbn [fold_left]. destruct rs as [|r2 rs].
  - cbn. apply rpo_round_length. apply Hin. left; reflexivity.
  - apply IH; [intros x Hx; apply Hin; right; exact Hx | discriminate].
Qed.

Lemma rpo_permute_length st : length (rpo_permute st) = 12%nat.
Proof.
  unfold rpo_permute. apply fold_rounds_length.
  - intros r Hr. apply in_seq in Hr. lia.
  - vm_compute. discriminate.
Qed.

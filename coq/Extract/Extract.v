(* Extraction of the executable model to OCaml for the correspondence check.
   Directives used: ExtrOcamlBasic, ExtrOcamlZBigInt (positive/N/Z -> zarith big_int),
   ExtrOcamlNativeString (ascii -> char, string -> OCaml string). *)
From Coq Require Import ZArith List.
From Coq Require Extraction ExtrOcamlBasic ExtrOcamlZBigInt ExtrOcamlNativeString.
From MV Require Import Base.Field Core.Op Core.Batch Core.Rpo Core.Mast Vm.State Vm.Step Vm.Exec Vm.Options Vm.TraceLen Asm.SpecTable Asm.Lower Air.Expr Gen.AirGen Serde.Codec Serde.Ast Serde.Kinds Gen.SerdeGen Asm.Linker Air.ProofParams Air.PubInputs Ref.Sha256 Ref.Blake3 Ref.Keccak.
Extraction Language OCaml.
Extraction "../driver/gen/model.ml"
  Field.P Op.opcode Batch.batch_ops Batch.span_group_count Rpo.rpo_permute Rpo.hash_elements Rpo.merge_in_domain
  Mast.block_hash Mast.mkProgram State.init_state Step.steps Exec.span_stream Exec.exec_program Options.exec_options_new SpecTable.spec_by_name SpecTable.spec_by_imm Lower.compile_program Expr.eval_nodes AirGen.air_nodes AirGen.air_main
  Kinds.model_decode Kinds.ast_decode Kinds.ast_encode Ast.S_node Ast.S_program Ast.S_module Ast.S_proc Ast.de_tbl Ast.tables_agree Codec.wt SerdeGen.MAX_PUSH_INPUTS
  Linker.lk_program Linker.lk_procs Linker.calls_of
  ProofParams.reported_security ProofParams.accepts TraceLen.trace_len PubInputs.pub_elements
  Sha256.sha256 Blake3.blake3 Keccak.keccak256.

(* C01 - every successful execution is provable and its proof verifies (the decision logic of it).
   Only statements, [exact], and Print Assumptions. *)
From Coq Require Import ZArith List Bool Arith Lia.
From MV Require Import Gen.OptGen Air.ProofParams.
Import ListNotations.
Open Scope Z_scope.

(* the four standard configurations (hash function, proof options) are among what verify() accepts *)
Theorem c01_standard_sets_accepted : forallb (fun s => accepts (fst s) (snd s)) standard_sets = true.
Proof. exact standard_sets_accepted. Qed.
Print Assumptions c01_standard_sets_accepted.

(* the reported (conjectured) security of a standard configuration is exactly the configured one
   for every trace of at most 2^28 rows (96-bit sets) resp. 2^59 rows (128-bit sets) *)
Theorem c01_security_96 : forall h o k, In (h, o) standard_sets -> promised o = 96 -> 0 <= k <= 28 ->
  reported_security h o k = 96.
Proof. exact security_96. Qed.
Print Assumptions c01_security_96.
Theorem c01_security_128 : forall h o k, In (h, o) standard_sets -> promised o = 128 -> 0 <= k <= 59 ->
  reported_security h o k = 128.
Proof. exact security_128. Qed.
Print Assumptions c01_security_128.

(* and the bound is sharp: a 96-bit proof over 2^29 rows would report 95 bits (not reachable by a
   test: such a trace does not fit in memory here) *)
Theorem c01_security_96_refuted : reported_security 0 REGULAR_96_BITS 29 = 95.
Proof. exact security_96_refuted. Qed.
Print Assumptions c01_security_96_refuted.

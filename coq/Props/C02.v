(* C02 - a proof binds to its statement (the decision logic of it).
   Only statements, [exact], and Print Assumptions. *)
From Coq Require Import ZArith List Bool Arith Lia.
From MV Require Import Gen.OptGen Air.ProofParams.
Import ListNotations.
Open Scope Z_scope.

(* a proof produced with a standard configuration and relabelled with another hash function is
   outside the accepted parameter sets of that hash function *)
Theorem c02_relabel_rejected : forall h o h',
  In (h, o) standard_sets -> h' <> h -> 0 <= h' <= 2 -> accepts h' o = false.
Proof. exact relabel_rejected. Qed.
Print Assumptions c02_relabel_rejected.

(* nothing but the listed parameter sets is accepted, whatever security it would estimate *)
Theorem c02_only_listed_accepted : forall h o, accepts h o = true -> In o (acceptable h).
Proof. exact only_listed_accepted. Qed.
Print Assumptions c02_only_listed_accepted.

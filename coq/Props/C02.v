(* C02 - a proof binds to its statement (the decision logic of it).
   Only statements, [exact], and Print Assumptions. *)
From Coq Require Import ZArith List Bool Arith Lia.
From MV Require Import Gen.OptGen Air.ProofParams Air.PubInputs.
Import ListNotations.
Open Scope Z_scope.

(* a proof produced with a standard configuration and relabelled with another hash function is
   outside the accepted parameter sets of that hash function *)
Theorem c02_relabel_rejected : forall h o h',
  In (h, o) standard_sets -> h' <> h -> 0 <= h' <= 2 -> accepts h' o = false.
Proof. exact relabel_rejected. Qed.
Print Assumptions c02_relabel_rejected.

(* nothing but the listed parameter sets is accepted, whatever security it would estimate *)
Theorem c02_only_listed_accepted : forall h o, accepts h o = true -> In o (acceptable h).
Proof. exact only_listed_accepted. Qed.
Print Assumptions c02_only_listed_accepted.

(* the element sequence that seeds the Fiat-Shamir coin (program hash, kernel procedure hashes, stack
   inputs, stack outputs, overflow addresses, no length prefixes): given the three lengths it
   determines the statement ... *)
Theorem c02_seed_framing : forall h h' k k' ins ins' outs outs' addrs addrs',
  length h = 4%nat -> length h' = 4%nat ->
  Forall (fun w => length w = 4%nat) k -> Forall (fun w => length w = 4%nat) k' ->
  length k = length k' -> length ins = length ins' -> length outs = length outs' ->
  pub_elements h k ins outs addrs = pub_elements h' k' ins' outs' addrs' ->
  h = h' /\ k = k' /\ ins = ins' /\ outs = outs' /\ addrs = addrs'.
Proof. exact pub_elements_framed. Qed.
Print Assumptions c02_seed_framing.
(* ... and without them it does not: a kernel procedure and four stack inputs give the same elements,
   so the binding rests on the boundary assertions, not on the seed alone *)
Theorem c02_seed_collision_witness :
  exists h k ins outs addrs k' ins',
    (k, ins) <> (k', ins') /\ pub_elements h k ins outs addrs = pub_elements h k' ins' outs addrs.
Proof. exact pub_elements_not_framed. Qed.
Print Assumptions c02_seed_collision_witness.

(* C03 - honest execution traces satisfy the entire AIR.
   Only statements, [exact], and Print Assumptions.  The per-row part of this property is decided
   by evaluating the real constraint code on real traces (see DESIGN.md); the theorems here cover
   the trace length and the reduction of constraint evaluation to residual constraints. *)
From Coq Require Import ZArith List Bool Arith Lia.
From MV Require Import Base.Field Vm.Options Vm.TraceLen Air.Expr Air.Frame Gen.AirGen.
Import ListNotations.
Open Scope Z_scope.

Theorem c03_trace_length : forall clk rng chp,
  0 <= clk -> 0 <= rng -> 0 <= chp -> Z.max (Z.max rng (clk + 1)) chp + 1 <= 4294967296 ->
  let l := trace_len clk rng chp in
  clk + 2 <= l /\ rng + 1 <= l /\ chp + 1 <= l /\ is_pow2 l /\
  l < 2 * (Z.max (Z.max rng (clk + 1)) chp + 1).
Proof. exact trace_len_spec. Qed.
Print Assumptions c03_trace_length.

(* on a row that carries opcode [code], every constraint is congruent to its residual: checking
   the residual constraints of the opcode is checking the AIR *)
Theorem c03_residuals_decide : forall e code k,
  row_has_op e code -> (k < length air_main)%nat ->
  eeval e (nth k (residuals_g air_nodes air_main (pe_op code)) (EConst 0)) ==
  nth_z (eval_nodes e air_nodes) (nth k air_main 0).
Proof.
  intros e code k Ha Hk. unfold residuals_g.
  set (f := fun r => nth (Z.to_nat r) (pe_nodes (pe_op code) air_nodes) (EConst 0)).
  rewrite (nth_indep (map f air_main) (EConst 0) (f 0)) by (rewrite map_length; exact Hk).
  rewrite map_nth. unfold f. apply pe_sound. exact Ha.
Qed.
Print Assumptions c03_residuals_decide.

(* C04 - the AIR rejects any deviation from an operation's defined effect.
   Only statements, [exact], and Print Assumptions.  All theorems are about coq/Gen/AirGen.v, the
   constraint system obtained on every run by executing /repo's ProcessorAir::evaluate_transition
   over a symbolic field element.  [row_has_op e c]: the op bits (and the two degree-reduction
   columns) of the current row encode opcode c; [constraints_hold e]: every main transition
   constraint evaluates to 0 on the row pair e. *)
From Coq Require Import ZArith List Bool Arith Lia.
From MV Require Import Base.Field Base.Prime Core.Op Vm.Pure Air.Expr Air.Frame Air.StackSound Air.SystemSound
  Air.U32Sound Air.DepthSound Gen.AirGen.
Import ListNotations.
Open Scope Z_scope.

(* the modulus is prime (used for every "x (x - 1) = 0 implies x binary" and inverse argument) *)
Theorem c04_modulus_prime : Znumtheory.prime P.
Proof. exact P_prime. Qed.
Print Assumptions c04_modulus_prime.

(* operations whose next row is an explicit function of the current row: whenever the constraints
   vanish, the next stack cells (16, or 15 for left shifts whose last cell comes from the overflow
   table) are congruent to the result of the VM model's operation on the current cells *)
Theorem c04_explicit_ops :
  air_matches Noop 16 /\
  air_matches Neg 16 /\
  air_matches Incr 16 /\
  air_matches Ext2Mul 16 /\
  air_matches Pad 16 /\
  air_matches Dup0 16 /\
  air_matches Dup1 16 /\
  air_matches Dup2 16 /\
  air_matches Dup3 16 /\
  air_matches Dup4 16 /\
  air_matches Dup5 16 /\
  air_matches Dup6 16 /\
  air_matches Dup7 16 /\
  air_matches Dup9 16 /\
  air_matches Dup11 16 /\
  air_matches Dup13 16 /\
  air_matches Dup15 16 /\
  air_matches Swap 16 /\
  air_matches SwapW 16 /\
  air_matches SwapW2 16 /\
  air_matches SwapW3 16 /\
  air_matches SwapDW 16 /\
  air_matches MovUp2 16 /\
  air_matches MovUp3 16 /\
  air_matches MovUp4 16 /\
  air_matches MovUp5 16 /\
  air_matches MovUp6 16 /\
  air_matches MovUp7 16 /\
  air_matches MovUp8 16 /\
  air_matches MovDn2 16 /\
  air_matches MovDn3 16 /\
  air_matches MovDn4 16 /\
  air_matches MovDn5 16 /\
  air_matches MovDn6 16 /\
  air_matches MovDn7 16 /\
  air_matches MovDn8 16 /\
  air_matches Not 16 /\
  air_matches Add 15 /\
  air_matches Mul 15 /\
  air_matches Drop 15 /\
  air_matches And 15 /\
  air_matches Or 15 /\
  air_matches CSwap 15 /\
  air_matches CSwapW 15.
Proof.
  exact ((conj noop_sound (conj neg_sound (conj incr_sound (conj ext2mul_sound (conj pad_sound (conj dup0_sound (conj dup1_sound (conj dup2_sound (conj dup3_sound (conj dup4_sound (conj dup5_sound (conj dup6_sound (conj dup7_sound (conj dup9_sound (conj dup11_sound (conj dup13_sound (conj dup15_sound (conj swap_sound (conj swapw_sound (conj swapw2_sound (conj swapw3_sound (conj swapdw_sound (conj movup2_sound (conj movup3_sound (conj movup4_sound (conj movup5_sound (conj movup6_sound (conj movup7_sound (conj movup8_sound (conj movdn2_sound (conj movdn3_sound (conj movdn4_sound (conj movdn5_sound (conj movdn6_sound (conj movdn7_sound (conj movdn8_sound (conj not_sound (conj add_sound (conj mul_sound (conj drop_sound (conj and_sound (conj or_sound (conj cswap_sound cswapw_sound)))))))))))))))))))))))))))))))))))))))))))).
Qed.
Print Assumptions c04_explicit_ops.

(* operands that must be binary are binary in every accepted row *)
Theorem c04_binary_operands :
  (forall e, row_has_op e 5 -> constraints_hold e -> scur e 0 == 0 \/ scur e 0 == 1) /\
  (forall e, row_has_op e 36 -> constraints_hold e ->
     (scur e 0 == 0 \/ scur e 0 == 1) /\ (scur e 1 == 0 \/ scur e 1 == 1)) /\
  (forall e, row_has_op e 37 -> constraints_hold e ->
     (scur e 0 == 0 \/ scur e 0 == 1) /\ (scur e 1 == 0 \/ scur e 1 == 1)) /\
  (forall e, row_has_op e 42 -> constraints_hold e -> scur e 0 == 0 \/ scur e 0 == 1) /\
  (forall e, row_has_op e 43 -> constraints_hold e -> scur e 0 == 0 \/ scur e 0 == 1).
Proof.
  exact (conj not_operand_binary (conj and_operands_binary (conj or_operands_binary
        (conj cswap_condition_binary cswapw_condition_binary)))).
Qed.
Print Assumptions c04_binary_operands.

(* system operations: the clock advances on every row; CLK, SDEPTH, FMPADD, FMPUPDATE, ASSERT *)
Theorem c04_system_ops :
  (forall e, constraints_hold e -> nxt e CLK_COL == cur e CLK_COL + 1) /\
  (forall e, row_has_op e 63 -> constraints_hold e ->
     snxt e 0 == cur e CLK_COL /\ nxt e CLK_COL == cur e CLK_COL + 1 /\
     Forall2 cong (map (fun i => snxt e (Z.of_nat i)) (seq 1 15)) (map (fun i => scur e (Z.of_nat i)) (seq 0 15))) /\
  (forall e, row_has_op e 62 -> constraints_hold e -> snxt e 0 == cur e B0_COL) /\
  (forall e, row_has_op e 6 -> constraints_hold e -> snxt e 0 == scur e 0 + cur e FMP_COL) /\
  (forall e, row_has_op e 47 -> constraints_hold e -> nxt e FMP_COL == cur e FMP_COL + scur e 0) /\
  (forall e, row_has_op e 32 -> constraints_hold e -> scur e 0 == 1).
Proof.
  exact (conj clk_increments (conj clk_op_sound (conj sdepth_op_sound (conj fmpadd_op_sound
        (conj fmpupdate_op_sound assert_op_sound))))).
Qed.
Print Assumptions c04_system_ops.

(* u32 operations with the element-validity check: with range-checked limbs and 32-bit operands
   the next cells are the unique 32-bit decomposition of the exact integer result; the alias
   result + p is rejected *)
Theorem c04_u32_validity :
  (forall e, row_has_op e 78 -> constraints_hold e ->
     limb (helper e 0) -> limb (helper e 1) -> limb (helper e 2) -> limb (helper e 3) ->
     0 <= scur e 0 < TWO32 -> 0 <= scur e 1 < TWO32 -> 0 <= scur e 2 < TWO32 ->
     canon (snxt e 0) -> canon (snxt e 1) ->
     snxt e 0 = (scur e 0 * scur e 1 + scur e 2) / TWO32 /\
     snxt e 1 = (scur e 0 * scur e 1 + scur e 2) mod TWO32) /\
  (forall e, row_has_op e 68 -> constraints_hold e ->
     limb (helper e 0) -> limb (helper e 1) -> limb (helper e 2) -> limb (helper e 3) ->
     0 <= scur e 0 < TWO32 -> 0 <= scur e 1 < TWO32 ->
     canon (snxt e 0) -> canon (snxt e 1) ->
     snxt e 0 = (scur e 0 * scur e 1) / TWO32 /\ snxt e 1 = (scur e 0 * scur e 1) mod TWO32) /\
  (forall e, row_has_op e 72 -> constraints_hold e ->
     limb (helper e 0) -> limb (helper e 1) -> limb (helper e 2) -> limb (helper e 3) ->
     canon (scur e 0) -> canon (snxt e 0) -> canon (snxt e 1) ->
     snxt e 0 = scur e 0 / TWO32 /\ snxt e 1 = scur e 0 mod TWO32).
Proof. exact (conj u32madd_sound (conj u32mul_sound u32split_sound)). Qed.
Print Assumptions c04_u32_validity.

(* depth bookkeeping for every opcode of each shift class *)
Theorem c04_depth :
  Forall left_shift_ok [32; 33; 34; 35; 36; 37; 38; 39; 41; 42; 43; 44; 45; 46; 47; 76; 78; 84; 85] /\
  Forall right_shift_ok [48; 49; 50; 51; 52; 53; 54; 55; 56; 57; 58; 59; 60; 61; 62; 63; 72; 100] /\
  Forall no_shift_ok [0; 1; 2; 3; 4; 5; 6; 7; 8; 10; 11; 12; 13; 24; 25; 28; 29; 30; 64; 66; 68; 70; 74; 80; 86; 87].
Proof. exact (conj left_shift_ops (conj right_shift_ops no_shift_ops)). Qed.
Print Assumptions c04_depth.

(* the partial evaluator the above rest on is sound *)
Theorem c04_partial_evaluation_sound : forall e pe nodes i,
  agrees e pe -> eeval e (nth i (pe_nodes pe nodes) (EConst 0)) == nth i (eval_nodes e nodes) 0.
Proof. exact pe_sound. Qed.
Print Assumptions c04_partial_evaluation_sound.

(* C05 - instruction semantics match the instruction reference on every stack state.
   Only statements, [exact], and Print Assumptions.  [instr_spec ops k pre f] (Asm/Instr.v) says:
   for EVERY stack of depth >= 16 of canonical elements, with xs its top k elements, running the op
   list the real assembler emits fails with [e] when [pre xs = Some e], and otherwise yields
   [f xs] on top of the untouched remainder (every position, also below 15) with depth >= 16. *)
From Coq Require Import ZArith List Bool Arith Lia String.
From MV Require Import Base.Field Core.Op Vm.Pure Vm.PureProps Vm.State Vm.Step Vm.StepProps
  Gen.AsmGen Asm.SpecDefs Asm.Instr Asm.StackInstr Asm.FieldInstr Asm.U32Instr Asm.ImmInstr Asm.HintDefs Asm.MoreInstr.
Import ListNotations.
Open Scope Z_scope.

Theorem c05_stack_manipulation :
  (forall n, (n < 16)%nat -> instr_spec (ops_of ("dup." ++ show n)) (n + 1) no_pre (spec_dup n)) /\
  (forall n, (1 <= n < 16)%nat -> instr_spec (ops_of ("swap." ++ show n)) (n + 1) no_pre (spec_swap n)) /\
  (forall n, (2 <= n < 16)%nat -> instr_spec (ops_of ("movup." ++ show n)) (n + 1) no_pre (spec_movup n)) /\
  (forall n, (2 <= n < 16)%nat -> instr_spec (ops_of ("movdn." ++ show n)) (n + 1) no_pre (spec_movdn n)) /\
  (forall n, (n < 4)%nat -> instr_spec (ops_of ("dupw." ++ show n)) (4 * n + 4) no_pre (spec_dupw n)) /\
  (forall n, (1 <= n < 4)%nat -> instr_spec (ops_of ("swapw." ++ show n)) (4 * n + 4) no_pre (spec_swapw n)) /\
  (forall n, (2 <= n < 4)%nat -> instr_spec (ops_of ("movupw." ++ show n)) (4 * n + 4) no_pre (spec_movupw n)) /\
  (forall n, (2 <= n < 4)%nat -> instr_spec (ops_of ("movdnw." ++ show n)) (4 * n + 4) no_pre (spec_movdnw n)) /\
  instr_spec (ops_of "drop") 1 no_pre (fun _ => []) /\
  instr_spec (ops_of "dropw") 4 no_pre (fun _ => []) /\
  instr_spec (ops_of "padw") 0 no_pre (fun _ => [0; 0; 0; 0]) /\
  instr_spec (ops_of "swapdw") 16 no_pre (fun xs => (skipn 8 xs ++ firstn 8 xs)%list) /\
  instr_spec (ops_of "cswap") 3 (fun xs => cond_pre (nz xs 0))
    (fun xs => if nz xs 0 =? 0 then [nz xs 1; nz xs 2] else [nz xs 2; nz xs 1]) /\
  instr_spec (ops_of "cdrop") 3 (fun xs => cond_pre (nz xs 0))
    (fun xs => if nz xs 0 =? 0 then [nz xs 2] else [nz xs 1]) /\
  instr_spec (ops_of "cswapw") 9 (fun xs => cond_pre (nz xs 0))
    (fun xs => if nz xs 0 =? 0 then firstn 8 (skipn 1 xs)
               else (firstn 4 (skipn 5 xs) ++ firstn 4 (skipn 1 xs))%list) /\
  instr_spec (ops_of "cdropw") 9 (fun xs => cond_pre (nz xs 0))
    (fun xs => if nz xs 0 =? 0 then firstn 4 (skipn 5 xs) else firstn 4 (skipn 1 xs)).
Proof.
  exact (conj dup_ok (conj swap_ok (conj movup_ok (conj movdn_ok (conj dupw_ok (conj swapw_ok
        (conj movupw_ok (conj movdnw_ok (conj drop_ok (conj dropw_ok (conj padw_ok (conj swapdw_ok
        (conj cswap_ok (conj cdrop_ok (conj cswapw_ok cdropw_ok))))))))))))))).
Qed.
Print Assumptions c05_stack_manipulation.

Theorem c05_field :
  instr_spec (ops_of "add") 2 no_pre (fun xs => [fadd (nz xs 1) (nz xs 0)]) /\
  instr_spec (ops_of "sub") 2 no_pre (fun xs => [fsub (nz xs 1) (nz xs 0)]) /\
  instr_spec (ops_of "mul") 2 no_pre (fun xs => [fmul (nz xs 1) (nz xs 0)]) /\
  instr_spec (ops_of "div") 2 (fun xs => if nz xs 0 =? 0 then Some PDivZero else None)
    (fun xs => [fmul (nz xs 1) (finv (nz xs 0))]) /\
  instr_spec (ops_of "neg") 1 no_pre (fun xs => [fneg (nz xs 0)]) /\
  instr_spec (ops_of "inv") 1 (fun xs => if nz xs 0 =? 0 then Some PDivZero else None)
    (fun xs => [finv (nz xs 0)]) /\
  instr_spec (ops_of "not") 1 (fun xs => bin_or (nz xs 0) None) (fun xs => [fsub 1 (nz xs 0)]) /\
  instr_spec (ops_of "and") 2 (fun xs => bin_or (nz xs 0) (bin_or (nz xs 1) None))
    (fun xs => [if (nz xs 1 =? 1) && (nz xs 0 =? 1) then 1 else 0]) /\
  instr_spec (ops_of "or") 2 (fun xs => bin_or (nz xs 0) (bin_or (nz xs 1) None))
    (fun xs => [if (nz xs 1 =? 1) || (nz xs 0 =? 1) then 1 else 0]) /\
  instr_spec (ops_of "eq") 2 no_pre (fun xs => [if nz xs 1 =? nz xs 0 then 1 else 0]) /\
  instr_spec (ops_of "assert") 1 (fun xs => if nz xs 0 =? 1 then None else Some (PAssert 0)) (fun _ => []) /\
  instr_spec (ops_of "assertz") 1 (fun xs => if nz xs 0 =? 0 then None else Some (PAssert 0)) (fun _ => []) /\
  instr_spec (ops_of "assert_eq") 2 (fun xs => if nz xs 1 =? nz xs 0 then None else Some (PAssert 0))
    (fun _ => []).
Proof.
  exact (conj add_ok (conj sub_ok (conj mul_ok (conj div_ok (conj neg_ok (conj inv_ok (conj not_ok
        (conj and_ok (conj or_ok (conj eq_ok (conj assert_ok (conj assertz_ok assert_eq_ok)))))))))))).
Qed.
Print Assumptions c05_field.

Theorem c05_u32 :
  instr_spec (ops_of "u32split") 1 no_pre (fun xs => [nz xs 0 / TWO32; nz xs 0 mod TWO32]) /\
  instr_spec (ops_of "u32cast") 1 no_pre (fun xs => [nz xs 0 mod TWO32]) /\
  instr_spec (ops_of "u32assert2") 2
    (fun xs => if negb (u32max_ok (nz xs 0)) then Some (PNotU32 (nz xs 0) 0)
               else if negb (u32max_ok (nz xs 1)) then Some (PNotU32 (nz xs 1) 0) else None)
    (fun xs => xs) /\
  instr_spec (ops_of "u32assert") 1
    (fun xs => if negb (u32max_ok (nz xs 0)) then Some (PNotU32 (nz xs 0) 0) else None) (fun xs => xs) /\
  instr_spec_g (ops_of "u32overflowing_add") 2 g2 no_pre
    (fun xs => [(nz xs 1 + nz xs 0) / TWO32; (nz xs 1 + nz xs 0) mod TWO32]) /\
  instr_spec_g (ops_of "u32wrapping_add") 2 g2 no_pre (fun xs => [(nz xs 1 + nz xs 0) mod TWO32]) /\
  instr_spec_g (ops_of "u32overflowing_add3") 3 g3 no_pre
    (fun xs => [(nz xs 2 + nz xs 1 + nz xs 0) / TWO32; (nz xs 2 + nz xs 1 + nz xs 0) mod TWO32]) /\
  instr_spec_g (ops_of "u32overflowing_mul") 2 g2 no_pre
    (fun xs => [(nz xs 1 * nz xs 0) / TWO32; (nz xs 1 * nz xs 0) mod TWO32]) /\
  instr_spec_g (ops_of "u32wrapping_mul") 2 g2 no_pre (fun xs => [(nz xs 1 * nz xs 0) mod TWO32]) /\
  instr_spec_g (ops_of "u32overflowing_madd") 3 g3 no_pre
    (fun xs => [(nz xs 1 * nz xs 0 + nz xs 2) / TWO32; (nz xs 1 * nz xs 0 + nz xs 2) mod TWO32]) /\
  instr_spec_g (ops_of "u32divmod") 2 g2 (fun xs => if nz xs 0 =? 0 then Some PDivZero else None)
    (fun xs => [nz xs 1 mod nz xs 0; nz xs 1 / nz xs 0]) /\
  instr_spec_g (ops_of "u32div") 2 g2 (fun xs => if nz xs 0 =? 0 then Some PDivZero else None)
    (fun xs => [nz xs 1 / nz xs 0]) /\
  instr_spec_g (ops_of "u32mod") 2 g2 (fun xs => if nz xs 0 =? 0 then Some PDivZero else None)
    (fun xs => [nz xs 1 mod nz xs 0]) /\
  instr_spec (ops_of "u32and") 2 u32_pre2 (fun xs => [Z.land (nz xs 1) (nz xs 0)]) /\
  instr_spec (ops_of "u32xor") 2 u32_pre2 (fun xs => [Z.lxor (nz xs 1) (nz xs 0)]).
Proof.
  exact (conj u32split_ok (conj u32cast_ok (conj u32assert2_ok (conj u32assert_ok
        (conj u32overflowing_add_ok (conj u32wrapping_add_ok (conj u32overflowing_add3_ok
        (conj u32overflowing_mul_ok (conj u32wrapping_mul_ok (conj u32overflowing_madd_ok
        (conj u32divmod_ok (conj u32div_ok (conj u32mod_ok (conj u32and_ok u32xor_ok)))))))))))))).
Qed.
Print Assumptions c05_u32.

(* immediates from an unbounded domain: the expansion is a function of the immediate, it agrees
   with the real assembler on the generated grid, and meets the documented effect for every v *)
Theorem c05_immediates :
  (forall v, canon v -> instr_spec (c_push v) 0 no_pre (fun _ => [v])) /\
  (forall v, canon v -> instr_spec (c_add v) 1 no_pre (fun xs => [fadd (nz xs 0) v])) /\
  (forall v, canon v -> instr_spec (c_sub v) 1 no_pre (fun xs => [fsub (nz xs 0) v])) /\
  (forall v, canon v -> instr_spec (c_mul v) 1 no_pre (fun xs => [fmul (nz xs 0) v])) /\
  (forall v ops, canon v -> c_div v = Some ops ->
     instr_spec ops 1 no_pre (fun xs => [fmul (nz xs 0) (finv v)])) /\
  c_div 0 = None /\
  (forall v, canon v -> instr_spec (c_eq v) 1 no_pre (fun xs => [if nz xs 0 =? v then 1 else 0])).
Proof.
  exact (conj push_imm_ok (conj add_imm_ok (conj sub_imm_ok (conj mul_imm_ok (conj div_imm_ok
        (conj div_imm_zero_rejected eq_imm_ok)))))).
Qed.
Print Assumptions c05_immediates.

(* the stack depth never drops below 16, for every op sequence *)
Theorem c05_depth_floor : forall ops l l',
  (16 <= List.length l)%nat -> pure_ops ops l = POk l' -> (16 <= List.length l')%nat.
Proof. exact pure_ops_depth. Qed.
Print Assumptions c05_depth_floor.

(* elements pushed beyond position 15 come back in LIFO order *)
Theorem c05_lifo : forall xs l, (16 <= List.length l)%nat ->
  pure_ops (map Push xs ++ repeat Drop (List.length xs)) l = POk l.
Proof. exact push_then_drop. Qed.
Print Assumptions c05_lifo.

(* the zero-extended view used above is sound for the real 16-floor semantics *)
Theorem c05_view_sound : forall ops l lv,
  ~ In SDepth ops -> stack_eq l lv -> sim_res (pure_ops ops l) (vpure_ops ops lv).
Proof. exact pure_ops_sim. Qed.
Print Assumptions c05_view_sound.

(* and [pure_op] is what the interpreter runs for these operations *)
Theorem c05_interpreter_uses_pure : forall o s,
  is_pure o = true -> exec_op o s = lift_pure s (pure_op o (stk s)).
Proof. exact exec_op_pure. Qed.
Print Assumptions c05_interpreter_uses_pure.


(* ---- further instructions (Asm/MoreInstr.v): word comparison, field ordering, extension-field
   arithmetic, the remaining u32 arithmetic / comparison / bitwise forms, shifts and rotations by a
   variable amount (for every amount 0..31), pow2 (for every exponent 0..63) ------------------------ *)
Local Open Scope string_scope.
Theorem c05_eqw : instr_spec (ops_of "eqw") 8 no_pre
  (fun xs => (if (nz xs 7 =? nz xs 3) && (nz xs 6 =? nz xs 2) && (nz xs 5 =? nz xs 1) && (nz xs 4 =? nz xs 0) then 1 else 0)%Z
             :: firstn 8 xs).
Proof. exact eqw_ok. Qed.
Print Assumptions c05_eqw.
Theorem c05_neq : instr_spec (ops_of "neq") 2 no_pre (fun xs => [if (nz xs 1 =? nz xs 0)%Z then 0 else 1]).
Proof. exact neq_ok. Qed.
Print Assumptions c05_neq.
Theorem c05_assert_eqw : instr_spec (ops_of "assert_eqw") 8
  (fun xs => if (nz xs 0 =? nz xs 4) && (nz xs 1 =? nz xs 5) && (nz xs 2 =? nz xs 6) && (nz xs 7 =? nz xs 3) then None
             else Some (PAssert 0))%Z
  (fun _ => []).
Proof. exact assert_eqw_ok. Qed.
Print Assumptions c05_assert_eqw.
Theorem c05_ext2add : instr_spec (ops_of "ext2add") 4 no_pre
  (fun xs => [fadd (nz xs 2) (nz xs 0); fadd (nz xs 3) (nz xs 1)]).
Proof. exact ext2add_ok. Qed.
Print Assumptions c05_ext2add.
Theorem c05_ext2neg : instr_spec (ops_of "ext2neg") 2 no_pre (fun xs => [fneg (nz xs 0); fneg (nz xs 1)]).
Proof. exact ext2neg_ok. Qed.
Print Assumptions c05_ext2neg.
Theorem c05_ext2sub : instr_spec (ops_of "ext2sub") 4 no_pre
  (fun xs => [fsub (nz xs 2) (nz xs 0); fsub (nz xs 3) (nz xs 1)]).
Proof. exact ext2sub_ok. Qed.
Print Assumptions c05_ext2sub.
Theorem c05_xor : instr_spec (ops_of "xor") 2 (fun xs => bin_or (nz xs 1) (bin_or (nz xs 0) None))
  (fun xs => [if (nz xs 1 =? 1) || (nz xs 0 =? 1) then (if (nz xs 1 =? 1) && (nz xs 0 =? 1) then 0 else 1) else 0])%Z.
Proof. exact xor_ok. Qed.
Print Assumptions c05_xor.
Theorem c05_u32wrapping_add3 : instr_spec_g (ops_of "u32wrapping_add3") 3 g3 no_pre
    (fun xs => [(nz xs 2 + nz xs 1 + nz xs 0) mod TWO32]).
Proof. exact u32wrapping_add3_ok. Qed.
Print Assumptions c05_u32wrapping_add3.
Theorem c05_u32wrapping_madd : instr_spec_g (ops_of "u32wrapping_madd") 3 g3 no_pre
    (fun xs => [(nz xs 1 * nz xs 0 + nz xs 2) mod TWO32]).
Proof. exact u32wrapping_madd_ok. Qed.
Print Assumptions c05_u32wrapping_madd.
Theorem c05_u32overflowing_sub : instr_spec_g (ops_of "u32overflowing_sub") 2 g2 no_pre
    (fun xs => [if (nz xs 1 <? nz xs 0)%Z then 1 else 0; (nz xs 1 - nz xs 0) mod TWO32]).
Proof. exact u32overflowing_sub_ok. Qed.
Print Assumptions c05_u32overflowing_sub.
Theorem c05_u32wrapping_sub : instr_spec_g (ops_of "u32wrapping_sub") 2 g2 no_pre
    (fun xs => [(nz xs 1 - nz xs 0) mod TWO32]).
Proof. exact u32wrapping_sub_ok. Qed.
Print Assumptions c05_u32wrapping_sub.
Theorem c05_u32lt : instr_spec_g (ops_of "u32lt") 2 g2 no_pre (fun xs => [if (nz xs 1 <? nz xs 0)%Z then 1 else 0]).
Proof. exact u32lt_ok. Qed.
Print Assumptions c05_u32lt.
Theorem c05_u32gt : instr_spec_g (ops_of "u32gt") 2 g2 no_pre (fun xs => [if (nz xs 0 <? nz xs 1)%Z then 1 else 0]).
Proof. exact u32gt_ok. Qed.
Print Assumptions c05_u32gt.
Theorem c05_u32lte : instr_spec_g (ops_of "u32lte") 2 g2 no_pre (fun xs => [if (nz xs 1 <=? nz xs 0)%Z then 1 else 0]).
Proof. exact u32lte_ok. Qed.
Print Assumptions c05_u32lte.
Theorem c05_u32gte : instr_spec_g (ops_of "u32gte") 2 g2 no_pre (fun xs => [if (nz xs 0 <=? nz xs 1)%Z then 1 else 0]).
Proof. exact u32gte_ok. Qed.
Print Assumptions c05_u32gte.
Theorem c05_u32min : instr_spec_g (ops_of "u32min") 2 g2 no_pre (fun xs => [Z.min (nz xs 1) (nz xs 0)]).
Proof. exact u32min_instr_ok. Qed.
Print Assumptions c05_u32min.
Theorem c05_u32max : instr_spec_g (ops_of "u32max") 2 g2 no_pre (fun xs => [Z.max (nz xs 1) (nz xs 0)]).
Proof. exact u32max_instr_ok. Qed.
Print Assumptions c05_u32max.
Theorem c05_u32test : instr_spec (ops_of "u32test") 1 no_pre
  (fun xs => [if (nz xs 0 <? TWO32)%Z then 1 else 0; nz xs 0]).
Proof. exact u32test_ok. Qed.
Print Assumptions c05_u32test.
Theorem c05_u32testw : instr_spec (ops_of "u32testw") 4 no_pre
  (fun xs => (if (nz xs 3 <? TWO32) && (nz xs 2 <? TWO32) && (nz xs 1 <? TWO32) && (nz xs 0 <? TWO32) then 1 else 0)%Z
             :: firstn 4 xs).
Proof. exact u32testw_ok. Qed.
Print Assumptions c05_u32testw.
Theorem c05_u32assertw : instr_spec (ops_of "u32assertw") 4
  (fun xs => if negb (u32max_ok (nz xs 0)) then Some (PNotU32 (nz xs 0) 0)
             else if negb (u32max_ok (nz xs 1)) then Some (PNotU32 (nz xs 1) 0)
             else if negb (u32max_ok (nz xs 2)) then Some (PNotU32 (nz xs 2) 0)
             else if negb (u32max_ok (nz xs 3)) then Some (PNotU32 (nz xs 3) 0) else None)
  (fun xs => xs).
Proof. exact u32assertw_ok. Qed.
Print Assumptions c05_u32assertw.
Theorem c05_u32or : instr_spec_g (ops_of "u32or") 2 g2 no_pre (fun xs => [Z.lor (nz xs 1) (nz xs 0)]).
Proof. exact u32or_ok. Qed.
Print Assumptions c05_u32or.
Theorem c05_u32not : instr_spec_g (ops_of "u32not") 1 g1 no_pre (fun xs => [4294967295 - nz xs 0]).
Proof. exact u32not_ok. Qed.
Print Assumptions c05_u32not.
Theorem c05_is_odd : instr_spec (ops_of "is_odd") 1 no_pre (fun xs => [nz xs 0 mod 2]).
Proof. exact is_odd_ok. Qed.
Print Assumptions c05_is_odd.
Theorem c05_lt : instr_spec (ops_of "lt") 2 no_pre (fun xs => [if (nz xs 1 <? nz xs 0)%Z then 1 else 0]).
Proof. exact lt_ok. Qed.
Print Assumptions c05_lt.
Theorem c05_lte : instr_spec (ops_of "lte") 2 no_pre (fun xs => [if (nz xs 1 <=? nz xs 0)%Z then 1 else 0]).
Proof. exact lte_ok. Qed.
Print Assumptions c05_lte.
Theorem c05_gt : instr_spec (ops_of "gt") 2 no_pre (fun xs => [if (nz xs 0 <? nz xs 1)%Z then 1 else 0]).
Proof. exact gt_ok. Qed.
Print Assumptions c05_gt.
Theorem c05_gte : instr_spec (ops_of "gte") 2 no_pre (fun xs => [if (nz xs 0 <=? nz xs 1)%Z then 1 else 0]).
Proof. exact gte_ok. Qed.
Print Assumptions c05_gte.
Theorem c05_ext2mul : instr_spec (ops_of "ext2mul") 4 no_pre
  (fun xs => let c := ext_mul (nz xs 3, nz xs 2) (nz xs 1, nz xs 0) in [snd c; fst c]).
Proof. exact ext2mul_ok. Qed.
Print Assumptions c05_ext2mul.
Theorem c05_u32shl : instr_spec_g (ops_of "u32shl") 2 gsh32 no_pre (fun xs => [(nz xs 1 * 2 ^ nz xs 0) mod TWO32]).
Proof. exact u32shl_ok. Qed.
Print Assumptions c05_u32shl.
Theorem c05_u32shr : instr_spec_g (ops_of "u32shr") 2 gsh32 no_pre (fun xs => [nz xs 1 / 2 ^ nz xs 0]).
Proof. exact u32shr_ok. Qed.
Print Assumptions c05_u32shr.
Theorem c05_u32rotl : instr_spec_g (ops_of "u32rotl") 2 gsh32 no_pre
  (fun xs => [(nz xs 1 * 2 ^ nz xs 0) mod TWO32 + (nz xs 1 * 2 ^ nz xs 0) / TWO32]).
Proof. exact u32rotl_ok. Qed.
Print Assumptions c05_u32rotl.
Theorem c05_u32rotr : instr_spec_g (ops_of "u32rotr") 2 gsh32 no_pre
  (fun xs => [nz xs 1 / 2 ^ nz xs 0 + (nz xs 1 mod 2 ^ nz xs 0) * 2 ^ (32 - nz xs 0)]).
Proof. exact u32rotr_ok. Qed.
Print Assumptions c05_u32rotr.
Theorem c05_pow2 : instr_spec_g (ops_of "pow2") 1 g64 no_pre (fun xs => [2 ^ nz xs 0]).
Proof. exact pow2_ok. Qed.
Print Assumptions c05_pow2.

(* shifts and rotations by an immediate amount: every form u32shl.N, u32shr.N, u32rotl.N, u32rotr.N, N = 0..31 *)
Theorem c05_u32shl_imm : forall n, (n < 32)%nat ->
  instr_spec_g (ops_of ("u32shl." ++ show n)) 1 g1 no_pre (fun xs => [(nz xs 0 * 2 ^ Z.of_nat n) mod TWO32]).
Proof. exact u32shl_imm_ok. Qed.
Print Assumptions c05_u32shl_imm.
Theorem c05_u32shr_imm : forall n, (n < 32)%nat ->
  instr_spec_g (ops_of ("u32shr." ++ show n)) 1 g1 no_pre (fun xs => [nz xs 0 / 2 ^ Z.of_nat n]).
Proof. exact u32shr_imm_ok. Qed.
Print Assumptions c05_u32shr_imm.
Theorem c05_u32rotl_imm : forall n, (n < 32)%nat ->
  instr_spec_g (ops_of ("u32rotl." ++ show n)) 1 g1 no_pre
    (fun xs => [(nz xs 0 * 2 ^ Z.of_nat n) mod TWO32 + (nz xs 0 * 2 ^ Z.of_nat n) / TWO32]).
Proof. exact u32rotl_imm_ok. Qed.
Print Assumptions c05_u32rotl_imm.
Theorem c05_u32rotr_imm : forall n, (n < 32)%nat ->
  instr_spec_g (ops_of ("u32rotr." ++ show n)) 1 g1 no_pre
    (fun xs => [nz xs 0 / 2 ^ Z.of_nat n + (nz xs 0 mod 2 ^ Z.of_nat n) * 2 ^ (32 - Z.of_nat n)]).
Proof. exact u32rotr_imm_ok. Qed.
Print Assumptions c05_u32rotr_imm.

(* non-vacuity: the generated table really contains these instructions, and a concrete stack
   meets the hypotheses *)
Example c05_table_nonempty :
  ops_of "add" = [Add] /\ ops_of "dup.8" = [Pad; Dup9; Add] /\ accepted "u32wrapping_add" = true /\
  rejected "div.0" = true.
Proof. vm_compute. repeat split. Qed.
Example c05_concrete :
  pure_ops (ops_of "swap.3") [1;2;3;4;5;6;7;8;9;10;11;12;13;14;15;16;17] =
  POk [4;2;3;1;5;6;7;8;9;10;11;12;13;14;15;16;17].
Proof. vm_compute. reflexivity. Qed.

(* C06 - control flow and procedure inlining follow the documented semantics.
   Only statements, [exact], and Print Assumptions. *)
From Coq Require Import ZArith List Bool Arith Lia.
From MV Require Import Base.Field Core.Op Core.Mast Vm.State Vm.Step Vm.Exec Vm.ControlProps
  Asm.Lower Asm.LowerProps.
Import ListNotations.
Open Scope Z_scope.

(* if/else: 1 runs exactly the true branch, 0 exactly the false branch, any other value fails
   with NotBinary right after the condition was popped - neither branch runs *)
Theorem c06_if : forall m T K f t e s s1, cstep m Split Drop s = Ok s1 ->
  (get s 0 = 1 -> exec_block m T K (S f) (BSplit t e) s = bind (exec_block m T K f t s1) (cstep m End Noop)) /\
  (get s 0 = 0 -> exec_block m T K (S f) (BSplit t e) s = bind (exec_block m T K f e s1) (cstep m End Noop)) /\
  (get s 0 <> 0 -> get s 0 <> 1 ->
     exec_block m T K (S f) (BSplit t e) s = Err (NotBinary (get s 0)) s1).
Proof.
  intros m T K f t e s s1 Hs.
  exact (conj (fun H => split_true m T K f t e s s1 H Hs)
        (conj (fun H => split_false m T K f t e s s1 H Hs)
              (fun H0 H1 => split_nonbinary m T K f t e s s1 H0 H1 Hs))).
Qed.
Print Assumptions c06_if.

(* while: at entry *)
Theorem c06_while_entry : forall m T K f body s s1, cstep m Loop Drop s = Ok s1 ->
  (get s 0 = 1 -> exec_block m T K (S f) (BLoop body) s =
                  bind (exec_block m T K f body s1) (exec_loop m T K f body)) /\
  (get s 0 = 0 -> exec_block m T K (S f) (BLoop body) s = cstep m End Noop s1) /\
  (get s 0 <> 0 -> get s 0 <> 1 ->
     exec_block m T K (S f) (BLoop body) s = Err (NotBinary (get s 0)) s1).
Proof.
  intros m T K f body s s1 Hs.
  exact (conj (fun H => loop_enter m T K f body s s1 H Hs)
        (conj (fun H => loop_skip m T K f body s s1 H Hs)
              (fun H0 H1 => loop_entry_nonbinary m T K f body s s1 H0 H1 Hs))).
Qed.
Print Assumptions c06_while_entry.

(* while: after every iteration the value left on top decides *)
Theorem c06_while_iteration : forall m T K f body s,
  (get s 0 = 1 -> exec_loop m T K (S f) body s =
     bind (cstep m Repeat Drop s) (fun s1 => bind (exec_block m T K f body s1) (exec_loop m T K f body))) /\
  (get s 0 = 0 -> exec_loop m T K (S f) body s = cstep m End Drop s) /\
  (get s 0 <> 0 -> get s 0 <> 1 -> exec_loop m T K (S f) body s = Err (NotBinary (get s 0)) s).
Proof.
  intros m T K f body s.
  exact (conj (loop_again m T K f body s) (conj (loop_exit m T K f body s) (loop_iter_nonbinary m T K f body s))).
Qed.
Print Assumptions c06_while_iteration.

(* sequencing: the tree built for a block sequence runs the blocks in their textual order *)
Theorem c06_join_order : forall bs, bs <> [] ->
  exists t, join_rounds (length bs) bs = [to_block t] /\ leaves t = bs.
Proof. exact join_tree_in_order. Qed.
Print Assumptions c06_join_order.

Theorem c06_join_runs_children_in_order : forall m T K f x y s,
  exec_block m T K (S f) (BJoin x y) s =
  bind (cstep m Join Noop s) (fun s1 => bind (exec_block m T K f x s1)
       (fun s2 => bind (exec_block m T K f y s2) (cstep m End Noop))).
Proof. exact join_seq. Qed.
Print Assumptions c06_join_runs_children_in_order.

Theorem c06_span_merge_keeps_ops : forall bs, flat_items (merge_spans bs None) = flat_items bs.
Proof. exact merge_spans_keeps_ops. Qed.
Print Assumptions c06_span_merge_keeps_ops.

(* repeat.n contributes exactly n copies of its body's block, exec contributes the callee's code *)
Theorem c06_repeat : forall codes k b c,
  c_blocks (compile_node codes (NRepeat k b) c) =
  c_blocks (flush c) ++ repeat (body_block codes b) k /\
  c_span (compile_node codes (NRepeat k b) c) = [].
Proof. exact repeat_contributes_copies. Qed.
Print Assumptions c06_repeat.

Theorem c06_exec_inline : forall codes p c,
  c_blocks (compile_node codes (NExec p) c) = c_blocks (flush c) ++ [nth p codes default_block].
Proof. exact exec_contributes_callee. Qed.
Print Assumptions c06_exec_inline.

Theorem c06_locals_frame_restored : forall fmp n, canon fmp -> fadd (fadd fmp n) (fneg n) = fmp.
Proof. exact fmp_bracket. Qed.
Print Assumptions c06_locals_frame_restored.

(* non-vacuity: `push.1 while.true push.2 end` fails with NotBinary 2 (the loop-exit defect that was
   repaired in processor/src/decoder/mod.rs) *)
Example c06_loop_exit_nonbinary :
  exists s, exec_program 100 1000 (mkProgram (BJoin (BSpan [Push 1]) (BLoop (BSpan [Push 2]))) [] []) [] []
            = Err (NotBinary 2) s.
Proof. eexists. vm_compute. reflexivity. Qed.

(* C07 - contexts isolate memory and stack; memory is zero-initialised word RAM.
   Only statements, [exact], and Print Assumptions. *)
From Coq Require Import ZArith List Bool Arith Lia.
From MV Require Import Base.Field Core.Op Core.Rpo Core.Mast Gen.ConstGen Vm.State Vm.Pure Vm.Step Vm.Exec
  Vm.MemProps Vm.CallProps.
Import ListNotations.
Open Scope Z_scope.

Theorem c07_read_fresh : forall inputs advice c a, mem_read (init_state inputs advice) c a = ZERO_WORD.
Proof. exact read_fresh. Qed.
Print Assumptions c07_read_fresh.

Theorem c07_read_after_write : forall s c a w, mem_read (mem_write s c a w) c a = w.
Proof. exact read_after_write. Qed.
Print Assumptions c07_read_after_write.

Theorem c07_write_other : forall s c a w c' a',
  (c, a) <> (c', a') -> mem_read (mem_write s c a w) c' a' = mem_read s c' a'.
Proof. exact write_other. Qed.
Print Assumptions c07_write_other.

(* no operation ever changes the memory of a context other than the current one *)
Theorem c07_context_isolation : forall o s s' c a,
  exec_op o s = Ok s' -> c <> ctx s -> mem_read s' c a = mem_read s c a.
Proof. exact exec_op_other_ctx. Qed.
Print Assumptions c07_context_isolation.

Theorem c07_element_store : forall s s',
  exec_op MStore s = Ok s' ->
  let a := get s 0 in
  let old := mem_read s (ctx s) a in
  mem_read s' (ctx s) a = [get s 1; nthw old 1; nthw old 2; nthw old 3] /\
  forall c' a', (ctx s, a) <> (c', a') -> mem_read s' c' a' = mem_read s c' a'.
Proof. exact mstore_element. Qed.
Print Assumptions c07_element_store.

Theorem c07_word_store : forall s s',
  exec_op MStoreW s = Ok s' ->
  mem_read s' (ctx s) (get s 0) = [get s 4; get s 3; get s 2; get s 1] /\
  forall c' a', (ctx s, get s 0) <> (c', a') -> mem_read s' c' a' = mem_read s c' a'.
Proof. exact mstorew_then_read. Qed.
Print Assumptions c07_word_store.

Theorem c07_addr_bound : forall o s,
  In o [MLoad; MLoadW; MStore; MStoreW] -> U32MAX < get s 0 ->
  exec_op o s = Err (MemAddr (get s 0)) s.
Proof. exact addr_bound_single. Qed.
Print Assumptions c07_addr_bound.

(* the two-word operations fail when either word would be at 2^32 or beyond *)
Theorem c07_addr_bound_double : forall o s,
  In o [MStream; Pipe] -> U32MAX < get s 12 + 1 ->
  exists a, exec_op o s = Err (MemAddr a) s /\ U32MAX < a.
Proof. exact addr_bound_double. Qed.
Print Assumptions c07_addr_bound_double.

(* call / dyncall / syscall: the caller's frame after a completed call *)
Theorem c07_call_frame : forall m T K fuel h sys s s',
  exec_call m T K fuel h sys s = Ok s' ->
  saved s' = saved s /\ ctx s' = ctx s /\ fn_hash s' = fn_hash s /\ in_syscall s' = false /\
  fmp s' = fmp s /\
  exists s2, (length (stk s2) <= 16)%nat /\ stk s' = stk s2 ++ skipn 16 (stk s) /\ oaddr s' = oaddr s.
Proof. exact call_frame_restored. Qed.
Print Assumptions c07_call_frame.

Theorem c07_depth_on_return : forall m T K f h (sys : bool) s s1 s2,
  cstep m (if sys then SysCall else Call) Noop (start_call_ctx s h sys) = Ok s1 ->
  (if word_eqb h DYN_HASH then exec_dyn m T K f s1
   else match table_get T h with Some body => exec_block m T K f body s1
                               | None => Err CodeBlockNotFound s1 end) = Ok s2 ->
  (16 < depth s2)%nat ->
  exec_call m T K (S f) h sys s = Err (DepthOnReturn (Z.of_nat (depth s2))) s2.
Proof. exact call_depth_on_return. Qed.
Print Assumptions c07_depth_on_return.

Theorem c07_callee_view : forall s h,
  stk (start_call_ctx s h false) = firstn 16 (stk s) /\ oaddr (start_call_ctx s h false) = [] /\
  ctx (start_call_ctx s h false) = clk s + 1 /\ fmp (start_call_ctx s h false) = FMP_MIN /\
  fn_hash (start_call_ctx s h false) = h /\
  ctx (start_call_ctx s h true) = 0 /\ fmp (start_call_ctx s h true) = SYSCALL_FMP_MIN /\
  in_syscall (start_call_ctx s h true) = true /\ fn_hash (start_call_ctx s h true) = fn_hash s /\
  mem (start_call_ctx s h true) = mem s.
Proof. exact callee_view. Qed.
Print Assumptions c07_callee_view.

Theorem c07_syscall_kernel_only : forall m T K f h s,
  kernel_has K h = false -> exec_block m T K (S f) (BSysCall h) s = Err NotInKernel s.
Proof. exact syscall_not_in_kernel. Qed.
Print Assumptions c07_syscall_kernel_only.

Theorem c07_caller : forall s,
  (in_syscall s = false -> exec_op Caller s = Err CallerNotInSyscall s) /\
  (in_syscall s = true ->
     exists s', exec_op Caller s = Ok s' /\
                firstn 4 (stk s') = [nthw (fn_hash s) 3; nthw (fn_hash s) 2; nthw (fn_hash s) 1; nthw (fn_hash s) 0]).
Proof. exact caller_semantics. Qed.
Print Assumptions c07_caller.

(* non-vacuity: a call with a deep caller stack completes and keeps the deep elements *)
Example c07_call_example :
  let callee := BSpan [Push 5; Add] in
  let h := block_hash callee in
  exists s, exec_program 50 1000 (mkProgram (BCall h) [] [(h, callee)])
              [1;2;3;4;5;6;7;8;9;10;11;12;13;14;15;16;17;18] [] = Ok s /\
            skipn 16 (stk s) = [17; 18] /\ ctx s = 0.
Proof. eexists. split; [vm_compute; reflexivity | split; reflexivity]. Qed.

(* C08 - the program commitment is the specified MAST hash of the executable code.
   Only statements, [exact], and Print Assumptions. *)
From Coq Require Import ZArith List Bool Arith Lia.
From MV Require Import Base.Field Core.Op Core.Batch Core.BatchProps Core.Rpo Core.Mast Gen.ConstGen
  Vm.StreamProps.
Import ListNotations.
Open Scope Z_scope.

(* batching rules: 8 group slots per batch, at most 8 groups used, at most 9 operations per group *)
Theorem c08_batch_shape : forall ops, Forall batch_ok (batch_ops ops).
Proof. exact batch_ops_shape. Qed.
Print Assumptions c08_batch_shape.

(* the batches hold exactly the span's operations, in order (nothing lost, added or reordered) *)
Theorem c08_batches_keep_ops : forall ops, flat_map b_ops (batch_ops ops) = ops.
Proof. exact batch_ops_concat. Qed.
Print Assumptions c08_batches_keep_ops.

(* opcodes are 7-bit and determine the operation up to the data it carries *)
Theorem c08_opcode_range : forall o, 0 <= opcode o < 128.
Proof. exact opcode_range. Qed.
Print Assumptions c08_opcode_range.
Theorem c08_opcode_injective : forall a b, opcode a = opcode b -> same_kind a b.
Proof. exact opcode_injective. Qed.
Print Assumptions c08_opcode_injective.

(* the hash of each block kind is the domain-separated RPO hash of its children / its groups *)
Theorem c08_block_hash : forall a b body ops h,
  block_hash (BJoin a b) = merge_in_domain (block_hash a) (block_hash b) JOIN_DOMAIN /\
  block_hash (BSplit a b) = merge_in_domain (block_hash a) (block_hash b) SPLIT_DOMAIN /\
  block_hash (BLoop body) = merge_in_domain (block_hash body) ZERO_WORD LOOP_DOMAIN /\
  block_hash (BCall h) = merge_in_domain h ZERO_WORD CALL_DOMAIN /\
  block_hash (BSysCall h) = merge_in_domain h ZERO_WORD SYSCALL_DOMAIN /\
  block_hash BDyn = DYN_HASH /\
  block_hash (BSpan ops) = hash_elements (flat_map b_groups (batch_ops ops)).
Proof. intros. repeat split. Qed.
Print Assumptions c08_block_hash.

(* the domains are pairwise different and the dyn constant is the hash it is documented to be *)
Theorem c08_domains_distinct :
  NoDup [JOIN_DOMAIN; SPLIT_DOMAIN; LOOP_DOMAIN; CALL_DOMAIN; SYSCALL_DOMAIN; DYN_DOMAIN; SPAN_DOMAIN] /\
  merge_in_domain ZERO_WORD ZERO_WORD DYN_DOMAIN = DYN_HASH.
Proof.
  split; [|vm_compute; reflexivity].
  repeat constructor; cbn; intros H; repeat (destruct H as [H|H]; [discriminate H|]); exact H.
Qed.
Print Assumptions c08_domains_distinct.

(* C09 - prover-supplied hints cannot change results.
   Only statements, [exact], and Print Assumptions. *)
From Coq Require Import ZArith List Bool Arith Lia String.
From MV Require Import Base.Field Core.Op Core.Rpo Vm.Pure Vm.PureProps Vm.State Vm.Step Vm.AdviceProps
  Gen.AsmGen Gen.StdGen Asm.Instr Asm.SpecDefs Asm.HintDefs Asm.HintInstr Asm.U64Instr Asm.U64Div.
Import ListNotations.
Open Scope Z_scope.
Open Scope string_scope.

(* For the operation lists the real assembler emits (Gen/AsmGen.v, regenerated on every run), with
   the advice pops replaced by ARBITRARY canonical field elements: whenever the run completes,
   the stack holds the bit count of the operand - no hint makes it complete with anything else -
   and the rest of the stack (every position) is untouched. *)
Theorem c09_u32clz : hint_sound (ops_of "u32clz") 1 g1 (fun xs => [clz32 (nz xs 0)]).
Proof. exact u32clz_sound. Qed.
Print Assumptions c09_u32clz.
Theorem c09_u32clo : hint_sound (ops_of "u32clo") 1 g1 (fun xs => [clo32 (nz xs 0)]).
Proof. exact u32clo_sound. Qed.
Print Assumptions c09_u32clo.
Theorem c09_u32ctz : hint_sound (ops_of "u32ctz") 1 g1 (fun xs => [ctz32 (nz xs 0)]).
Proof. exact u32ctz_sound. Qed.
Print Assumptions c09_u32ctz.
Theorem c09_u32cto : hint_sound (ops_of "u32cto") 1 g1 (fun xs => [cto32 (nz xs 0)]).
Proof. exact u32cto_sound. Qed.
Print Assumptions c09_u32cto.

(* ilog2: the result is floor(log2 n) for every non-zero field element n, whatever the hint *)
Theorem c09_ilog2 : hint_sound (ops_of "ilog2") 1 (fun _ => true) (fun xs => [Z.log2 (nz xs 0)]).
Proof. exact ilog2_sound. Qed.
Print Assumptions c09_ilog2.

(* ext2inv: whatever pair the host supplies, a completed run leaves b with a * b = 1 in the
   quadratic extension; ext2div multiplies by such an inverse *)
Theorem c09_ext2inv : forall h1 h2, canon h1 -> canon h2 ->
  view_post (hinted (ops_of "ext2inv") [h1; h2]) (fun _ => true)
    (fun l lv => ext_mul (nz l 1, nz l 0) (nz lv 1, nz lv 0) = (1, 0) /\ stack_eq (skipn 2 lv) (skipn 2 l)).
Proof. exact ext2inv_view. Qed.
Print Assumptions c09_ext2inv.
Theorem c09_ext2div : forall h1 h2, canon h1 -> canon h2 ->
  view_post (hinted (ops_of "ext2div") [h1; h2]) (fun _ => true)
    (fun l lv => exists b0 b1, ext_mul (nz l 1, nz l 0) (b0, b1) = (1, 0) /\
                               (nz lv 1, nz lv 0) = ext_mul (nz l 3, nz l 2) (b0, b1) /\
                               stack_eq (skipn 2 lv) (skipn 4 l)).
Proof. exact ext2div_view. Qed.
Print Assumptions c09_ext2div.

(* order in which advice arrives: a pop is a push of the head of the advice stack, which loses
   exactly that element; adv_loadw puts the first-popped element deepest; adv_pipe writes the
   first word to the address and the second to the next one *)
Theorem c09_advpop : forall s h r s',
  adv s = h :: r -> exec_op AdvPop s = Ok s' -> stk s' = h :: stk s /\ adv s' = r.
Proof. exact advpop_stack. Qed.
Print Assumptions c09_advpop.
Theorem c09_advpopw : forall s t0 t1 t2 t3 r s',
  adv s = t0 :: t1 :: t2 :: t3 :: r -> exec_op AdvPopW s = Ok s' ->
  stk s' = t3 :: t2 :: t1 :: t0 :: skipn 4 (stk s) /\ adv s' = r.
Proof. exact advpopw_stack. Qed.
Print Assumptions c09_advpopw.
Theorem c09_pipe : forall s a0 a1 a2 a3 b0 b1 b2 b3 r s',
  adv s = a0 :: a1 :: a2 :: a3 :: b0 :: b1 :: b2 :: b3 :: r -> exec_op Pipe s = Ok s' ->
  let a := get s 12%nat in
  adv s' = r /\
  firstn 8 (stk s') = [b3; b2; b1; b0; a3; a2; a1; a0] /\
  mem_read s' (ctx s) a = [a0; a1; a2; a3] /\
  (a + 1 <> a -> mem_read s' (ctx s) (a + 1) = [b0; b1; b2; b3]).
Proof. exact pipe_effect. Qed.
Print Assumptions c09_pipe.

(* the 64-bit division procedures of the standard library (operation lists of Gen/StdGen.v): quotient
   and remainder limbs are hints; for EVERY four canonical field elements the host may supply, a
   completed run leaves the true quotient / remainder of the operands and the rest of the stack
   untouched *)
Theorem c09_u64_div : hint_sound (std_ops_of "u64::div") 4 g4 (fun xs => limbs64 (A64 xs / B64 xs)).
Proof. exact u64_div_hint_sound. Qed.
Print Assumptions c09_u64_div.
Theorem c09_u64_mod : hint_sound (std_ops_of "u64::mod") 4 g4 (fun xs => limbs64 (A64 xs mod B64 xs)).
Proof. exact u64_mod_hint_sound. Qed.
Print Assumptions c09_u64_mod.
Theorem c09_u64_divmod : hint_sound (std_ops_of "u64::divmod") 4 g4
  (fun xs => (limbs64 (A64 xs mod B64 xs) ++ limbs64 (A64 xs / B64 xs))%list).
Proof. exact u64_divmod_hint_sound. Qed.
Print Assumptions c09_u64_divmod.

(* C10 - serialised code and data round-trip.
   Only statements, [exact], and Print Assumptions. *)
From Coq Require Import ZArith List Bool Arith Lia.
From MV Require Import Base.Field Serde.Codec Serde.CodecProps Serde.Containers Gen.SerdeGen Serde.Ast Serde.AstProps.
Import ListNotations.
Open Scope Z_scope.

(* the instruction tables read out of the Rust serialiser and deserialiser are inverse to each
   other: every variant the writer handles is written under an opcode that the reader maps back
   to the same variant while reading exactly the fields that were written, every opcode the
   reader accepts is written for the variant it builds, discriminants are distinct bytes, the
   three control-flow opcodes are not instruction opcodes, and the same holds for the advice
   injector, debug option and signature sub-tables *)
Theorem c10_tables_agree : tables_agree = true.
Proof. exact tables_agree_ok. Qed.
Print Assumptions c10_tables_agree.

(* for every schema: decoding the encoding gives the value back and leaves what follows alone *)
Theorem c10_codec_roundtrip : forall rec fuel s v r,
  Codec.wt rec s v = true -> (Codec.need rec s v <= fuel)%nat -> Codec.dec rec fuel s (Codec.enc rec s v ++ r) = Some (v, r).
Proof. exact roundtrip. Qed.
Print Assumptions c10_codec_roundtrip.

(* ProgramAst, ModuleAst and the module part of a MaslLibrary: the bytes produced with the
   writer's tables decode, with the reader's tables, to the same AST (any nesting depth, any
   instruction, any immediate the reader's range checks admit) *)
Theorem c10_program_roundtrip : forall fuel v r,
  Codec.wt S_node S_program v = true -> (Codec.need S_node S_program v <= fuel)%nat ->
  Codec.dec S_node fuel S_program (Codec.enc S_node_w S_program v ++ r) = Some (v, r).
Proof. exact program_roundtrip. Qed.
Print Assumptions c10_program_roundtrip.

Theorem c10_module_roundtrip : forall fuel v r,
  Codec.wt S_node S_module v = true -> (Codec.need S_node S_module v <= fuel)%nat ->
  Codec.dec S_node fuel S_module (Codec.enc S_node_w S_module v ++ r) = Some (v, r).
Proof. exact module_roundtrip. Qed.
Print Assumptions c10_module_roundtrip.

Theorem c10_library_roundtrip : forall fuel v r,
  Codec.wt S_node S_lib_head v = true -> (Codec.need S_node S_lib_head v <= fuel)%nat ->
  Codec.dec S_node fuel S_lib_head (Codec.enc S_node_w S_lib_head v ++ r) = Some (v, r).
Proof. exact lib_head_roundtrip. Qed.
Print Assumptions c10_library_roundtrip.

(* source locations written after the AST are read back when the reader expects as many as were
   written *)
Theorem c10_locations_roundtrip : forall (count : nat) l r,
  length l = count -> forallb loc_ok l = true ->
  Codec.dec SUnit 3 (SArr count S_loc) (Codec.enc SUnit (SArr count S_loc) (locs_value l) ++ r) = Some (locs_value l, r).
Proof. exact locations_roundtrip. Qed.
Print Assumptions c10_locations_roundtrip.

(* stack inputs, kernels, program info *)
Theorem c10_data_roundtrip : forall s v r,
  Containers.wt s v = true -> (Codec.need SUnit s v <= dfuel)%nat ->
  Containers.dec s (Containers.enc s v ++ r) = Some (v, r).
Proof. exact data_roundtrip. Qed.
Print Assumptions c10_data_roundtrip.

(* stack outputs built by the constructor *)
Theorem c10_stack_outputs_roundtrip : forall st ad so r,
  so_new st ad = Some so -> so_dec (so_enc so ++ r) = Some (so, r).
Proof. exact so_roundtrip. Qed.
Print Assumptions c10_stack_outputs_roundtrip.

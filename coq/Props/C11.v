(* C11 - assembly is self-contained and independent of library order and re-export paths.
   Only statements, [exact], and Print Assumptions. *)
From Coq Require Import ZArith List Bool Arith Lia Permutation.
From MV Require Import Asm.Linker Asm.LinkerProps.
Import ListNotations.
Open Scope Z_scope.

(* every call, syscall or procref target that occurs in an assembled program - in its code or in
   the code of anything in its code-block table - has its body in the table, for every library
   set, kernel, program and nesting of modules *)
Theorem c11_self_contained : forall L kernel,
  (forall n cp, find_kernel n kernel = Some cp -> closed (snd cp) (fst cp)) ->
  forall fuel ps body c T, lk_program L kernel fuel ps body = Some (c, T) -> closed T c.
Proof. exact program_self_contained. Qed.
Print Assumptions c11_self_contained.

(* a procedure reached through a re-export is the procedure the re-export names *)
Theorem c11_reexport : forall L kernel f m md n m' n',
  find_mod m L = Some md -> find_reexp n (m_reexp md) = Some (m', n') ->
  forall cp, lk_lookup L kernel (S f) m n = Some cp -> lk_lookup L kernel f m' n' = Some cp.
Proof. exact reexport_is_target. Qed.
Print Assumptions c11_reexport.

(* the order in which libraries were added is irrelevant (module paths are unique) *)
Theorem c11_library_order : forall (L L' : libs) kernel,
  Permutation L L' -> NoDup (map fst L) ->
  forall fuel ps body, lk_program L' kernel fuel ps body = lk_program L kernel fuel ps body.
Proof. exact library_order_irrelevant. Qed.
Print Assumptions c11_library_order.

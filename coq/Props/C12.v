(* C12 - lookups between trace components balance.
   Only statements, [exact], and Print Assumptions. *)
From Coq Require Import ZArith List Bool Arith Lia Permutation.
From MV Require Import Base.Field Core.Op Vm.State Vm.Exec Vm.StreamProps Air.Bus Air.BusExec.
Import ListNotations.
Open Scope Z_scope.

(* when the multiset of requests equals the multiset of responses, the two running products agree
   for EVERY choice of challenges (rows of any width) *)
Theorem c12_bus_balanced : forall alphas (requests responses : list row),
  Permutation requests responses ->
  fprod (map (encode alphas) requests) = fprod (map (encode alphas) responses).
Proof. exact bus_balanced. Qed.
Print Assumptions c12_bus_balanced.

(* hence a bus column that is multiplied by responses and divided by requests ends at its initial
   value (the products of the requests being invertible) *)
Theorem c12_bus_terminal : forall alphas requests responses b0 v,
  Permutation requests responses ->
  fmul v (fprod (map (encode alphas) requests)) = fmul b0 (fprod (map (encode alphas) responses)) ->
  forall qinv, fmul (fprod (map (encode alphas) requests)) qinv = 1 ->
  fmul v 1 = fmul b0 1.
Proof. exact bus_terminal. Qed.
Print Assumptions c12_bus_terminal.

(* the range checker's running sum: equal multisets give equal sums for every challenge *)
Theorem c12_logup_balanced : forall (term : Z -> Z) (lookups table : list Z),
  Permutation lookups table -> fsum (map term lookups) = fsum (map term table).
Proof. exact logup_balanced. Qed.
Print Assumptions c12_logup_balanced.

(* a virtual table that is used as a stack and ends empty has removed exactly what it added *)
Theorem c12_table_returns : forall alphas evs,
  run_stack evs [] = Some [] ->
  fprod (map (encode alphas) (adds evs)) = fprod (map (encode alphas) (removes evs)).
Proof. exact table_returns. Qed.
Print Assumptions c12_table_returns.

(* in every successful execution of the interpreter model the block stack table - a row added at
   every block start, the row of the latest open block removed at every END - ends empty, so its
   column returns to its initial value whatever the challenges *)
Theorem c12_block_table : forall fuel m p inputs advice s' alphas,
  exec_program fuel m p inputs advice = Ok s' ->
  run_stack (block_events (rev (olog s'))) [] = Some [] /\
  fprod (map (encode alphas) (adds (block_events (rev (olog s'))))) =
  fprod (map (encode alphas) (removes (block_events (rev (olog s'))))).
Proof. exact block_table_both. Qed.
Print Assumptions c12_block_table.

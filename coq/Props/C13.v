(* C13 - the decoded operation stream is exactly the program.
   Only statements, [exact], and Print Assumptions. *)
From Coq Require Import ZArith List Bool Arith Lia.
From MV Require Import Base.Field Core.Op Core.Batch Core.Mast Vm.State Vm.Step Vm.Exec Vm.StreamProps.
Import ListNotations.
Open Scope Z_scope.

(* the batches of a span hold exactly the span's operations, in order *)
Theorem c13_batching_keeps_ops : forall ops, flat_map b_ops (batch_ops ops) = ops.
Proof. exact batch_ops_concat. Qed.
Print Assumptions c13_batching_keeps_ops.

(* executing a batch runs its operations in order and adds nothing but NOOPs *)
Theorem c13_batch_adds_only_noops : forall b, erase (batch_stream b) = erase (b_ops b).
Proof. exact batch_stream_only_adds_noops. Qed.
Print Assumptions c13_batch_adds_only_noops.

(* a span is recorded as SPAN, its batches separated by RESPAN, END *)
Theorem c13_span_shape : forall ops,
  span_stream ops = (Span, Noop) :: span_mid ops ++ [(End, Noop)].
Proof. exact span_stream_shape. Qed.
Print Assumptions c13_span_shape.

(* block starts and ends recorded by any successful execution are properly nested *)
Theorem c13_nested : forall fuel m p inputs advice s',
  exec_program fuel m p inputs advice = Ok s' -> nest 0 (rev (olog s')) = Some 0%nat.
Proof. exact stream_nested. Qed.
Print Assumptions c13_nested.

(* non-vacuity: the recorded stream of a small program with a RESPAN-free span, a split and a loop *)
Example c13_example :
  exists s, exec_program 100 1000
     (mkProgram (BJoin (BSpan [Push 1; Push 0]) (BSplit (BSpan [Add]) (BLoop (BSpan [Pad])))) [] []) [] [] = Ok s /\
  rev (olog s) = [Join; Span; Push 1; Push 0; Noop; Noop; End; Split; Loop; Span; Pad; End; End; End; End].
Proof. eexists. split; vm_compute; reflexivity. Qed.

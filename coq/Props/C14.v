(* C14 - execution is deterministic and step-through agrees with the trace.
   Only statements, [exact], and Print Assumptions. *)
From Coq Require Import ZArith List Bool Arith Lia.
From MV Require Import Base.Field Core.Op Vm.State Vm.Pure Vm.Step Vm.Exec Vm.History.
Import ListNotations.
Open Scope nat_scope.

(* the rows recorded in a growable column are the written values whatever the initial capacity
   (expected-cycles hint), and rows already written are never disturbed by growth *)
Theorem c14_hint_independent : forall vs c1 c2 k,
  1 <= c1 -> 1 <= c2 -> k < length vs ->
  nth (1 + k) (History.run (repeat 0 c1) 0 vs) 0 = nth (1 + k) (History.run (repeat 0 c2) 0 vs) 0.
Proof. exact hint_independent. Qed.
Print Assumptions c14_hint_independent.

Theorem c14_growth_keeps_rows : forall vs col clk,
  1 <= length col -> clk < length col ->
  (forall k, k < length vs -> nth (clk + 1 + k) (History.run col clk vs) 0 = nth k vs 0) /\
  (forall i, i <= clk -> nth i (History.run col clk vs) 0 = nth i col 0).
Proof. exact run_rows. Qed.
Print Assumptions c14_growth_keeps_rows.

(* the clk operation pushes the clock of its own row *)
Theorem c14_clk : forall s, exec_op Clk s = Ok (replace_top 0 [clk s] s).
Proof. reflexivity. Qed.
Print Assumptions c14_clk.


(* C15 - the cycle limit is enforced exactly.  Only statements, [exact], and Print Assumptions. *)
From Coq Require Import ZArith List Bool Lia.
From MV Require Import Core.Op Core.Mast Vm.State Vm.Step Vm.Exec Vm.ExecProps Vm.Options Gen.ConstGen.
Import ListNotations.
Open Scope Z_scope.

(* If a run succeeds (under any limit M) with final clock n, then under limit m it succeeds with
   the same final state exactly when n <= m, and otherwise stops with CycleLimit m after the clock
   has been incremented m + 1 times (no cycle beyond the limit has an effect). *)
Theorem c15_exact : forall fuel p inputs advice M s',
  exec_program fuel M p inputs advice = Ok s' ->
  forall m, 0 <= m ->
    (clk s' <= m -> exec_program fuel m p inputs advice = Ok s') /\
    (m < clk s' -> exists s2, exec_program fuel m p inputs advice = Err (CycleLimit m) s2
                              /\ clk s2 = m + 1).
Proof. exact exec_limit_exact. Qed.
Print Assumptions c15_exact.

(* Every program, terminating or not, stops: with fuel 2m + 4 the interpreter never reports
   OutOfFuel, so its result is a final state or a VM error (CycleLimit among them). *)
Theorem c15_total : forall p inputs advice m (fuel : nat),
  0 <= m -> (2 * Z.to_nat (m + 1) + 1 < fuel)%nat ->
  forall s1, exec_program fuel m p inputs advice <> Err OutOfFuel s1.
Proof. exact exec_total. Qed.
Print Assumptions c15_total.

(* Option sets are refused exactly when the maximum is below the minimum trace length or below
   the expected cycles. *)
Theorem c15_options : forall mc e,
  let m := match mc with Some m => m | None => U32_MAX end in
  exec_options_new mc e = None <-> (m < MIN_TRACE_LEN \/ m < e).
Proof. exact exec_options_refused. Qed.
Print Assumptions c15_options.

(* non-vacuity: an unbounded loop meets the hypotheses of c15_total and is stopped by the limit;
   a terminating program meets those of c15_exact *)
Definition inf_loop : program :=
  mkProgram (BJoin (BSpan [Push 1]) (BLoop (BSpan [Push 1]))) [] [].
Example c15_unbounded_stops :
  exists s, exec_program 204 100 inf_loop [] [] = Err (CycleLimit 100) s /\ clk s = 101.
Proof. eexists. split; vm_compute; reflexivity. Qed.
Example c15_terminating :
  exists s, exec_program 50 1000 (mkProgram (BSpan [Push 1; Push 2; Add]) [] []) [] [] = Ok s
            /\ clk s = 6.
Proof. eexists. split; vm_compute; reflexivity. Qed.

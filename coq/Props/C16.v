(* C16 - standard-library 64-bit arithmetic is exact.
   Only statements, [exact], and Print Assumptions. *)
From Coq Require Import ZArith List Bool Arith Lia String.
From MV Require Import Base.Field Core.Op Core.Rpo Vm.Pure Vm.PureProps Gen.StdGen Asm.Instr Asm.SpecDefs Asm.U64Instr Asm.U64More Asm.U64ShiftBase Asm.U64Shl Asm.U64Rotl Asm.HintDefs Asm.U64Div Asm.U256Instr.
Import ListNotations.
Open Scope Z_scope.
Open Scope string_scope.

(* Operation lists of `exec.u64::<name>` as the real assembler inlines them from the compiled
   standard library (Gen/StdGen.v, regenerated on every run).  Operands [b_hi; b_lo; a_hi; a_lo]
   with b on top, every limb below 2^32; A64/B64 are the 64-bit values.  Each theorem holds for
   EVERY such operand pair and every stack: the result is exactly the integer function, every
   other position of the stack is untouched, the depth stays >= 16, and no failure occurs. *)
Theorem c16_wrapping_add : instr_spec_g (std_ops_of "u64::wrapping_add") 4 g4 no_pre
  (fun xs => limbs64 ((A64 xs + B64 xs) mod TWO64)).
Proof. exact u64_wrapping_add. Qed.
Print Assumptions c16_wrapping_add.
Theorem c16_overflowing_add : instr_spec_g (std_ops_of "u64::overflowing_add") 4 g4 no_pre
  (fun xs => (A64 xs + B64 xs) / TWO64 :: limbs64 ((A64 xs + B64 xs) mod TWO64)).
Proof. exact u64_overflowing_add. Qed.
Print Assumptions c16_overflowing_add.
Theorem c16_wrapping_sub : instr_spec_g (std_ops_of "u64::wrapping_sub") 4 g4 no_pre
  (fun xs => limbs64 ((A64 xs - B64 xs) mod TWO64)).
Proof. exact u64_wrapping_sub. Qed.
Print Assumptions c16_wrapping_sub.
Theorem c16_overflowing_sub : instr_spec_g (std_ops_of "u64::overflowing_sub") 4 g4 no_pre
  (fun xs => bool01 (A64 xs <? B64 xs)%Z :: limbs64 ((A64 xs - B64 xs) mod TWO64)).
Proof. exact u64_overflowing_sub. Qed.
Print Assumptions c16_overflowing_sub.
Theorem c16_lt : instr_spec_g (std_ops_of "u64::lt") 4 g4 no_pre (fun xs => [bool01 (A64 xs <? B64 xs)%Z]).
Proof. exact u64_lt. Qed.
Print Assumptions c16_lt.
Theorem c16_lte : instr_spec_g (std_ops_of "u64::lte") 4 g4 no_pre (fun xs => [bool01 (A64 xs <=? B64 xs)%Z]).
Proof. exact u64_lte. Qed.
Print Assumptions c16_lte.
Theorem c16_gt : instr_spec_g (std_ops_of "u64::gt") 4 g4 no_pre (fun xs => [bool01 (B64 xs <? A64 xs)%Z]).
Proof. exact u64_gt. Qed.
Print Assumptions c16_gt.
Theorem c16_gte : instr_spec_g (std_ops_of "u64::gte") 4 g4 no_pre (fun xs => [bool01 (B64 xs <=? A64 xs)%Z]).
Proof. exact u64_gte. Qed.
Print Assumptions c16_gte.
Theorem c16_eq : instr_spec_g (std_ops_of "u64::eq") 4 g4 no_pre (fun xs => [bool01 (A64 xs =? B64 xs)%Z]).
Proof. exact u64_eq. Qed.
Print Assumptions c16_eq.
Theorem c16_neq : instr_spec_g (std_ops_of "u64::neq") 4 g4 no_pre (fun xs => [bool01 (negb (A64 xs =? B64 xs)%Z)]).
Proof. exact u64_neq. Qed.
Print Assumptions c16_neq.
Theorem c16_eqz : instr_spec_g (std_ops_of "u64::eqz") 2 g2 no_pre
  (fun xs => [bool01 (nz xs 0 * TWO32 + nz xs 1 =? 0)%Z]).
Proof. exact u64_eqz. Qed.
Print Assumptions c16_eqz.

(* bitwise AND works limb by limb (and fails exactly on a limb that is not 32-bit), and the value of
   the limbs is the AND of the values *)
Theorem c16_and : instr_spec (std_ops_of "u64::and") 4
  (fun xs => if negb (u32max_ok (nz xs 1)) then Some (PNotU32 (nz xs 1) 0)
             else if negb (u32max_ok (nz xs 3)) then Some (PNotU32 (nz xs 3) 0)
             else if negb (u32max_ok (nz xs 0)) then Some (PNotU32 (nz xs 0) 0)
             else if negb (u32max_ok (nz xs 2)) then Some (PNotU32 (nz xs 2) 0) else None)
  (fun xs => [Z.land (nz xs 0) (nz xs 2); Z.land (nz xs 1) (nz xs 3)]).
Proof. exact u64_and. Qed.
Print Assumptions c16_and.
Theorem c16_and_value : forall ah al bh bl,
  0 <= ah -> 0 <= al < TWO32 -> 0 <= bh -> 0 <= bl < TWO32 ->
  Z.land (ah * TWO32 + al) (bh * TWO32 + bl) = Z.land ah bh * TWO32 + Z.land al bl.
Proof. exact land64_limbs. Qed.
Print Assumptions c16_and_value.

(* multiplication: the low 64 bits, and all 128 bits as four limbs *)
Theorem c16_wrapping_mul : instr_spec_g (std_ops_of "u64::wrapping_mul") 4 g4 no_pre
  (fun xs => limbs64 ((A64 xs * B64 xs) mod TWO64)).
Proof. exact u64_wrapping_mul. Qed.
Print Assumptions c16_wrapping_mul.
Theorem c16_overflowing_mul : instr_spec_g (std_ops_of "u64::overflowing_mul") 4 g4 no_pre
  (fun xs => (limbs64 ((A64 xs * B64 xs) / TWO64) ++ limbs64 ((A64 xs * B64 xs) mod TWO64))%list).
Proof. exact u64_overflowing_mul. Qed.
Print Assumptions c16_overflowing_mul.
Theorem c16_min : instr_spec_g (std_ops_of "u64::min") 4 g4 no_pre (fun xs => limbs64 (Z.min (A64 xs) (B64 xs))).
Proof. exact u64_min. Qed.
Print Assumptions c16_min.
Theorem c16_max : instr_spec_g (std_ops_of "u64::max") 4 g4 no_pre (fun xs => limbs64 (Z.max (A64 xs) (B64 xs))).
Proof. exact u64_max. Qed.
Print Assumptions c16_max.
(* OR and XOR work limb by limb on 32-bit limbs, and the value of the limbs is the operation on the values *)
Theorem c16_or : instr_spec_g (std_ops_of "u64::or") 4 g4 no_pre
  (fun xs => [Z.lor (nz xs 0) (nz xs 2); Z.lor (nz xs 1) (nz xs 3)]).
Proof. exact u64_or. Qed.
Print Assumptions c16_or.
Theorem c16_xor : instr_spec_g (std_ops_of "u64::xor") 4 g4 no_pre
  (fun xs => [Z.lxor (nz xs 0) (nz xs 2); Z.lxor (nz xs 1) (nz xs 3)]).
Proof. exact u64_xor. Qed.
Print Assumptions c16_xor.
Theorem c16_or_value : forall ah al bh bl,
  0 <= ah < TWO32 -> 0 <= al < TWO32 -> 0 <= bh < TWO32 -> 0 <= bl < TWO32 ->
  Z.lor (ah * TWO32 + al) (bh * TWO32 + bl) = Z.lor ah bh * TWO32 + Z.lor al bl.
Proof. exact lor64_limbs. Qed.
Print Assumptions c16_or_value.
Theorem c16_xor_value : forall ah al bh bl,
  0 <= ah < TWO32 -> 0 <= al < TWO32 -> 0 <= bh < TWO32 -> 0 <= bl < TWO32 ->
  Z.lxor (ah * TWO32 + al) (bh * TWO32 + bl) = Z.lxor ah bh * TWO32 + Z.lxor al bl.
Proof. exact lxor64_limbs. Qed.
Print Assumptions c16_xor_value.

(* shifts and rotations: operands [n; a_hi; a_lo] with the amount on top, 0 <= n < 64 *)
Theorem c16_shl : instr_spec_g (std_ops_of "u64::shl") 3 gshift no_pre
  (fun xs => limbs64 ((AS xs * 2 ^ (nz xs 0)) mod TWO64)).
Proof. exact u64_shl. Qed.
Print Assumptions c16_shl.
Theorem c16_rotl : instr_spec_g (std_ops_of "u64::rotl") 3 gshift no_pre
  (fun xs => limbs64 ((AS xs * 2 ^ (nz xs 0)) mod TWO64 + (AS xs * 2 ^ (nz xs 0)) / TWO64)).
Proof. exact u64_rotl. Qed.
Print Assumptions c16_rotl.

(* division: the quotient and remainder limbs come from the advice stack; for EVERY four canonical
   field elements a host may supply, a completed run leaves exactly a / b (a mod b, both), and with a
   zero divisor no hints let the run complete *)
Theorem c16_div : hint_sound (std_ops_of "u64::div") 4 g4 (fun xs => limbs64 (A64 xs / B64 xs)).
Proof. exact u64_div_hint_sound. Qed.
Print Assumptions c16_div.
Theorem c16_mod : hint_sound (std_ops_of "u64::mod") 4 g4 (fun xs => limbs64 (A64 xs mod B64 xs)).
Proof. exact u64_mod_hint_sound. Qed.
Print Assumptions c16_mod.
Theorem c16_divmod : hint_sound (std_ops_of "u64::divmod") 4 g4
  (fun xs => (limbs64 (A64 xs mod B64 xs) ++ limbs64 (A64 xs / B64 xs))%list).
Proof. exact u64_divmod_hint_sound. Qed.
Print Assumptions c16_divmod.
Theorem c16_div_zero : forall h1 h2 h3 h4, canon h1 -> canon h2 -> canon h3 -> canon h4 ->
  view_rejects (hinted (std_ops_of "u64::div") [h1; h2; h3; h4]) 4 g4 (fun xs => B64 xs = 0).
Proof. exact u64_div_zero. Qed.
Print Assumptions c16_div_zero.
Theorem c16_mod_zero : forall h1 h2 h3 h4, canon h1 -> canon h2 -> canon h3 -> canon h4 ->
  view_rejects (hinted (std_ops_of "u64::mod") [h1; h2; h3; h4]) 4 g4 (fun xs => B64 xs = 0).
Proof. exact u64_mod_zero. Qed.
Print Assumptions c16_mod_zero.
Theorem c16_divmod_zero : forall h1 h2 h3 h4, canon h1 -> canon h2 -> canon h3 -> canon h4 ->
  view_rejects (hinted (std_ops_of "u64::divmod") [h1; h2; h3; h4]) 4 g4 (fun xs => B64 xs = 0).
Proof. exact u64_divmod_zero. Qed.
Print Assumptions c16_divmod_zero.

(* ---- 256-bit procedures: operands b at positions 0..7 and a at positions 8..15, most significant limb
   first, every limb below 2^32 (V256 is the value, limbs256 the eight result limbs) ------------------- *)
Theorem c16_u256_add : instr_spec_g (std_ops_of "u256::add_unsafe") 16 g16 no_pre
  (fun xs => limbs256 ((V256 xs 8 + V256 xs 0) mod 2 ^ 256)).
Proof. exact u256_add. Qed.
Print Assumptions c16_u256_add.
Theorem c16_u256_and : instr_spec_g (std_ops_of "u256::and") 16 g16 no_pre (limbwise Z.land).
Proof. exact u256_and. Qed.
Print Assumptions c16_u256_and.
Theorem c16_u256_xor : instr_spec_g (std_ops_of "u256::xor") 16 g16 no_pre (limbwise Z.lxor).
Proof. exact u256_xor. Qed.
Print Assumptions c16_u256_xor.
Theorem c16_u256_or : instr_spec_g (std_ops_of "u256::or") 16 g16 no_pre (limbwise Z.lor).
Proof. exact u256_or. Qed.
Print Assumptions c16_u256_or.
Theorem c16_u256_iszero : instr_spec_g (std_ops_of "u256::iszero_unsafe") 8 (fun _ => true) no_pre
  (fun xs => [bool01 (forallb (fun k => nz xs k =? 0)%Z (seq 0 8))]).
Proof. exact u256_iszero. Qed.
Print Assumptions c16_u256_iszero.
Theorem c16_u256_eq : instr_spec_g (std_ops_of "u256::eq_unsafe") 16 (fun _ => true) no_pre
  (fun xs => [bool01 (forallb (fun k => nz xs k =? nz xs (8 + k))%Z (seq 0 8))]).
Proof. exact u256_eq. Qed.
Print Assumptions c16_u256_eq.
Theorem c16_u256_sub : instr_spec_g (std_ops_of "u256::sub_unsafe") 16 g16 no_pre
  (fun xs => limbs256 ((V256 xs 8 - V256 xs 0) mod 2 ^ 256)).
Proof. exact u256_sub. Qed.
Print Assumptions c16_u256_sub.

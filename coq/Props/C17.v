(* C17 - standard-library hash functions agree with their reference definitions.
   Only statements, [exact], and Print Assumptions.  The reference definitions are executable
   transcriptions of FIPS 180-4 (SHA-256), the BLAKE3 specification (single block) and Keccak-256;
   what is proved here is that the transcriptions reproduce the published digests; the agreement
   of the standard library's procedures with them, for all inputs, is decided by running both. *)
From Coq Require Import ZArith List.
From MV Require Import Ref.Sha256 Ref.Blake3 Ref.Keccak.
Import ListNotations.
Open Scope Z_scope.

Theorem c17_sha256_vectors :
  sha256 [] = [3820012610; 2566659092; 2600203464; 2574235940; 665731556; 1687917388; 2761267483; 2018687061] /\
  sha256 [1633837924; 1650680933; 1667523942; 1684366951; 1701209960; 1718052969; 1734895978;
          1751738987; 1768581996; 1785425005; 1802268014; 1819111023; 1835954032; 1852797041] =
  [613247585; 3523623096; 3854575251; 205414457; 2738676825; 1694441831; 4142722516; 433784513].
Proof. exact (conj sha256_empty sha256_56_bytes). Qed.
Print Assumptions c17_sha256_vectors.

Theorem c17_blake3_vector :
  blake3 [] = [3108574127; 2795633141; 3930931360; 1237965878; 3374697371; 3071459757; 3398671052; 1647452132].
Proof. exact blake3_empty. Qed.
Print Assumptions c17_blake3_vector.

Theorem c17_keccak256_vector :
  keccak256 [] = [4333579421379646149; 13836122230913597074; 4262519377828905189; 8116759062988257915].
Proof. exact keccak256_empty. Qed.
Print Assumptions c17_keccak256_vector.

(* C18 - standard-library memory and stack utilities keep their contracts (the part modelled).
   Only statements, [exact], and Print Assumptions. *)
From Coq Require Import ZArith List Bool Arith Lia.
From MV Require Import Asm.StdUtil.
Import ListNotations.
Open Scope Z_scope.

(* truncate_stack (save 16, drop 16, drop words until the depth is 16, restore): for EVERY stack of
   depth >= 16 the result is exactly the original top 16 elements *)
Theorem c18_truncate_stack : forall l, (16 <= length l)%nat -> truncate_stack l = firstn 16 l.
Proof. exact truncate_stack_spec. Qed.
Print Assumptions c18_truncate_stack.

(* memcopy (one read then one write per word, ascending): for every length, pointers and memory,
   when write_ptr <= read_ptr or the ranges are disjoint every destination word holds the source
   word and no other address changes *)
Theorem c18_memcopy : forall n r w m,
  (w <= r \/ r + Z.of_nat n <= w) ->
  (forall i, 0 <= i < Z.of_nat n -> memcopy n r w m (w + i) = m (r + i)) /\
  (forall x, (x < w \/ w + Z.of_nat n <= x) -> memcopy n r w m x = m x).
Proof. exact memcopy_spec. Qed.
Print Assumptions c18_memcopy.

Theorem c18_memcopy_zero : forall r w m, memcopy 0 r w m = m.
Proof. exact memcopy_zero. Qed.
Print Assumptions c18_memcopy_zero.

(* C19 - decoders of untrusted bytes accept only what they can re-encode.
   Only statements, [exact], and Print Assumptions. *)
From Coq Require Import ZArith List Bool Arith Lia.
From MV Require Import Base.Field Serde.Codec Serde.CodecProps Serde.Containers Gen.SerdeGen Serde.Ast Serde.AstProps.
Import ListNotations.
Open Scope Z_scope.

(* every decoder of the schema language is a total function; what it accepts is well typed, is
   the unique encoding of the value followed by the untouched rest, and re-encodes to bytes that
   decode to the same value with nothing left *)
Theorem c19_accepted_is_canonical : forall rec fuel s bs v r,
  Codec.dec rec fuel s bs = Some (v, r) -> Codec.wt rec s v = true /\ bs = Codec.enc rec s v ++ r /\ (Codec.need rec s v <= fuel)%nat.
Proof. exact accepted_is_canonical. Qed.
Print Assumptions c19_accepted_is_canonical.

Theorem c19_reencode : forall rec fuel s bs v r,
  Codec.dec rec fuel s bs = Some (v, r) -> Codec.dec rec fuel s (Codec.enc rec s v) = Some (v, []).
Proof. exact reencode. Qed.
Print Assumptions c19_reencode.

(* the answer does not depend on the fuel once there is enough of it *)
Theorem c19_fuel_irrelevant : forall rec f f' s bs v r,
  Codec.dec rec f s bs = Some (v, r) -> (f <= f')%nat -> Codec.dec rec f' s bs = Some (v, r).
Proof. exact dec_fuel_mono. Qed.
Print Assumptions c19_fuel_irrelevant.

(* program and module ASTs and libraries, with the writer's tables on the way out *)
Theorem c19_program_reencode : forall fuel bs v r,
  Codec.dec S_node fuel S_program bs = Some (v, r) ->
  Codec.wt S_node S_program v = true /\ bs = Codec.enc S_node_w S_program v ++ r /\
  Codec.dec S_node fuel S_program (Codec.enc S_node_w S_program v) = Some (v, []).
Proof. exact program_reencode. Qed.
Print Assumptions c19_program_reencode.

Theorem c19_module_reencode : forall fuel bs v r,
  Codec.dec S_node fuel S_module bs = Some (v, r) ->
  Codec.wt S_node S_module v = true /\ bs = Codec.enc S_node_w S_module v ++ r /\
  Codec.dec S_node fuel S_module (Codec.enc S_node_w S_module v) = Some (v, []).
Proof. exact module_reencode. Qed.
Print Assumptions c19_module_reencode.

Theorem c19_library_reencode : forall fuel bs v r,
  Codec.dec S_node fuel S_lib_head bs = Some (v, r) ->
  Codec.wt S_node S_lib_head v = true /\ bs = Codec.enc S_node_w S_lib_head v ++ r /\
  Codec.dec S_node fuel S_lib_head (Codec.enc S_node_w S_lib_head v) = Some (v, []).
Proof. exact lib_head_reencode. Qed.
Print Assumptions c19_library_reencode.

(* stack inputs, kernels, program info *)
Theorem c19_data_reencode : forall s bs v r,
  Containers.dec s bs = Some (v, r) ->
  Containers.wt s v = true /\ bs = Containers.enc s v ++ r /\ Containers.dec s (Containers.enc s v) = Some (v, []).
Proof. exact data_reencode. Qed.
Print Assumptions c19_data_reencode.

(* stack outputs: the decoder validates like the constructor, and what it accepts re-encodes *)
Theorem c19_stack_outputs_reencode : forall bs so r,
  so_dec bs = Some (so, r) -> so_dec (so_enc so) = Some (so, []).
Proof. exact so_reencode. Qed.
Print Assumptions c19_stack_outputs_reencode.

(* values that are not canonical field elements are rejected *)
Theorem c19_stack_outputs_reject : forall st ad x,
  In x st \/ In x ad -> canonical x = false -> so_new st ad = None.
Proof. exact so_new_rejects_noncanonical. Qed.
Print Assumptions c19_stack_outputs_reject.

Theorem c19_stack_inputs_reject : forall l x, In x l -> canonical x = false -> si_try l = None.
Proof. exact si_try_rejects_noncanonical. Qed.
Print Assumptions c19_stack_inputs_reject.

(* BLAKE3 for inputs of at most 64 bytes (one chunk, one block), as an executable reference for the
   standard library's blake3::hash_1to1 / hash_2to1.  Words are little-endian 32-bit. *)
From Coq Require Import ZArith List.
From MV Require Import Ref.Sha256.
Import ListNotations.
Open Scope Z_scope.

Definition IV : list Z := H0.
Definition PERM : list nat := [2; 6; 3; 10; 7; 0; 4; 13; 1; 11; 12; 5; 9; 14; 15; 8]%nat.

Definition setn (l : list Z) (i : nat) (x : Z) : list Z := firstn i l ++ [x] ++ skipn (S i) l.

Definition g (v : list Z) (a b c d : nat) (mx my : Z) : list Z :=
  let va := w32 (nthz v a + nthz v b + mx) in
  let vd := rotr32 16 (Z.lxor (nthz v d) va) in
  let vc := w32 (nthz v c + vd) in
  let vb := rotr32 12 (Z.lxor (nthz v b) vc) in
  let va := w32 (va + vb + my) in
  let vd := rotr32 8 (Z.lxor vd va) in
  let vc := w32 (vc + vd) in
  let vb := rotr32 7 (Z.lxor vb vc) in
  setn (setn (setn (setn v a va) b vb) c vc) d vd.

Definition round3 (v m : list Z) : list Z :=
  let v := g v 0 4 8 12 (nthz m 0) (nthz m 1) in
  let v := g v 1 5 9 13 (nthz m 2) (nthz m 3) in
  let v := g v 2 6 10 14 (nthz m 4) (nthz m 5) in
  let v := g v 3 7 11 15 (nthz m 6) (nthz m 7) in
  let v := g v 0 5 10 15 (nthz m 8) (nthz m 9) in
  let v := g v 1 6 11 12 (nthz m 10) (nthz m 11) in
  let v := g v 2 7 8 13 (nthz m 12) (nthz m 13) in
  g v 3 4 9 14 (nthz m 14) (nthz m 15).

Definition permute (m : list Z) : list Z := map (nthz m) PERM.

Fixpoint rounds (n : nat) (v m : list Z) : list Z :=
  match n with
  | O => v
  | S n' => rounds n' (round3 v m) (permute m)
  end.

Definition CHUNK_START : Z := 1.
Definition CHUNK_END : Z := 2.
Definition ROOT : Z := 8.

(* the first 8 output words of the root compression of a single block *)
Definition blake3_block (m : list Z) (block_len : Z) : list Z :=
  let v := IV ++ firstn 4 IV ++ [0; 0; block_len; CHUNK_START + CHUNK_END + ROOT] in
  let v := rounds 7 v m in
  map (fun i => Z.lxor (nthz v i) (nthz v (i + 8))) (seq 0 8).

(* ws: the input as little-endian 32-bit words (8 or 16 of them) *)
Definition blake3 (ws : list Z) : list Z :=
  blake3_block (ws ++ repeat 0 (16 - length ws)) (4 * Z.of_nat (length ws)).

(* official test vector: the empty input *)
Example blake3_empty :
  blake3 [] = [3108574127; 2795633141; 3930931360; 1237965878; 3374697371; 3071459757; 3398671052; 1647452132].
Proof. vm_compute. reflexivity. Qed.

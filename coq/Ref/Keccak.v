(* Keccak-256 (the original padding 0x01, as used by Ethereum) for a 64-byte input, as an
   executable reference for the standard library's keccak256::hash.  Lanes are 64-bit. *)
From Coq Require Import ZArith List.
Import ListNotations.
Open Scope Z_scope.

Definition M64 : Z := 18446744073709551616.
Definition w64 (x : Z) : Z := x mod M64.
Definition rotl64 (n x : Z) : Z :=
  if n =? 0 then x else Z.lor (w64 (Z.shiftl x n)) (Z.shiftr x (64 - n)).
Definition not64 (x : Z) : Z := M64 - 1 - x.
Definition lane (s : list Z) (x y : nat) : Z := nth (x + 5 * y) s 0.

Definition RC : list Z :=
 [1; 32898; 9223372036854808714; 9223372039002292224; 32907; 2147483649; 9223372039002292353;
  9223372036854808585; 138; 136; 2147516425; 2147483658; 2147516555; 9223372036854775947;
  9223372036854808713; 9223372036854808579; 9223372036854808578; 9223372036854775936; 32778;
  9223372039002259466; 9223372039002292353; 9223372036854808704; 2147483649; 9223372039002292232].

(* rotation offsets r[x][y] indexed by x + 5*y *)
Definition ROT : list Z :=
 [0; 1; 62; 28; 27;  36; 44; 6; 55; 20;  3; 10; 43; 25; 39;  41; 45; 15; 21; 8;  18; 2; 61; 56; 14].

Definition xor5 (a b c d e : Z) : Z := Z.lxor (Z.lxor (Z.lxor (Z.lxor a b) c) d) e.

Definition theta (s : list Z) : list Z :=
  let c := map (fun x => xor5 (lane s x 0) (lane s x 1) (lane s x 2) (lane s x 3) (lane s x 4)) (seq 0 5) in
  let d := map (fun x => Z.lxor (nth ((x + 4) mod 5) c 0) (rotl64 1 (nth ((x + 1) mod 5) c 0))) (seq 0 5) in
  map (fun i => Z.lxor (nth i s 0) (nth (i mod 5) d 0)) (seq 0 25).

(* rho and pi: B[y][(2x+3y) mod 5] = rot(A[x][y], r[x][y]) *)
Definition rho_pi (s : list Z) : list Z :=
  map (fun i =>
         let x' := (i mod 5)%nat in let y' := (i / 5)%nat in
         (* find (x, y) with y = x' and (2x + 3y) mod 5 = y' : x = (x' + 3 y') mod 5 *)
         let x := ((x' + 3 * y') mod 5)%nat in let y := x' in
         rotl64 (nth (x + 5 * y) ROT 0) (lane s x y)) (seq 0 25).

Definition chi (s : list Z) : list Z :=
  map (fun i =>
         let x := (i mod 5)%nat in let y := (i / 5)%nat in
         Z.lxor (lane s x y) (Z.land (not64 (lane s ((x + 1) mod 5) y)) (lane s ((x + 2) mod 5) y))) (seq 0 25).

Definition iota (rc : Z) (s : list Z) : list Z :=
  match s with a :: r => Z.lxor a rc :: r | [] => [] end.

Definition keccak_round (s : list Z) (rc : Z) : list Z := iota rc (chi (rho_pi (theta s))).
Definition keccak_f (s : list Z) : list Z := fold_left keccak_round RC s.

(* lanes: the input as little-endian 64-bit lanes (at most 16 of them, rate = 17 lanes) *)
Definition keccak256 (lanes : list Z) : list Z :=
  let n := length lanes in
  let padded := lanes ++ [1] ++ repeat 0 (16 - n - 1) ++ repeat 0 (25 - 16) in
  (* the final bit of the padding goes into the last byte of the rate: lane 16, top byte *)
  let st := map (fun i => if Nat.eqb i 16 then Z.lxor (nth i padded 0) 9223372036854775808 else nth i padded 0) (seq 0 25) in
  firstn 4 (keccak_f st).

(* the well-known digest of the empty input, c5d24601 86f7233c 927e7db2 dcc703c0 e500b653 ca82273b 7bfad804 5d85a470 *)
Example keccak256_empty :
  keccak256 [] = [4333579421379646149; 13836122230913597074; 4262519377828905189; 8116759062988257915].
Proof. vm_compute. reflexivity. Qed.

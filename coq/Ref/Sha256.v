(* SHA-256 (FIPS 180-4) on 32-bit words, as an executable reference for the standard library's
   sha256 procedures.  Messages are given as a list of big-endian 32-bit words (the byte length
   is a multiple of 4, which is all the library's stack procedures take). *)
From Coq Require Import ZArith List.
Import ListNotations.
Open Scope Z_scope.

Definition M32 : Z := 4294967296.
Definition w32 (x : Z) : Z := x mod M32.
Definition rotr32 (n x : Z) : Z := Z.lor (Z.shiftr x n) (w32 (Z.shiftl x (32 - n))).
Definition shr32 (n x : Z) : Z := Z.shiftr x n.
Definition not32 (x : Z) : Z := M32 - 1 - x.

Definition ch (x y z : Z) : Z := Z.lxor (Z.land x y) (Z.land (not32 x) z).
Definition maj (x y z : Z) : Z := Z.lxor (Z.lxor (Z.land x y) (Z.land x z)) (Z.land y z).
Definition bsig0 (x : Z) : Z := Z.lxor (Z.lxor (rotr32 2 x) (rotr32 13 x)) (rotr32 22 x).
Definition bsig1 (x : Z) : Z := Z.lxor (Z.lxor (rotr32 6 x) (rotr32 11 x)) (rotr32 25 x).
Definition ssig0 (x : Z) : Z := Z.lxor (Z.lxor (rotr32 7 x) (rotr32 18 x)) (shr32 3 x).
Definition ssig1 (x : Z) : Z := Z.lxor (Z.lxor (rotr32 17 x) (rotr32 19 x)) (shr32 10 x).

Definition K256 : list Z :=
 [1116352408; 1899447441; 3049323471; 3921009573; 961987163; 1508970993; 2453635748; 2870763221;
  3624381080; 310598401; 607225278; 1426881987; 1925078388; 2162078206; 2614888103; 3248222580;
  3835390401; 4022224774; 264347078; 604807628; 770255983; 1249150122; 1555081692; 1996064986;
  2554220882; 2821834349; 2952996808; 3210313671; 3336571891; 3584528711; 113926993; 338241895;
  666307205; 773529912; 1294757372; 1396182291; 1695183700; 1986661051; 2177026350; 2456956037;
  2730485921; 2820302411; 3259730800; 3345764771; 3516065817; 3600352804; 4094571909; 275423344;
  430227734; 506948616; 659060556; 883997877; 958139571; 1322822218; 1537002063; 1747873779;
  1955562222; 2024104815; 2227730452; 2361852424; 2428436474; 2756734187; 3204031479; 3329325298].

Definition H0 : list Z :=
 [1779033703; 3144134277; 1013904242; 2773480762; 1359893119; 2600822924; 528734635; 1541459225].

Definition nthz (l : list Z) (i : nat) : Z := nth i l 0.

(* message schedule: 16 words extended to 64 *)
Fixpoint extend (n : nat) (w : list Z) : list Z :=
  match n with
  | O => w
  | S n' =>
      let i := length w in
      let x := w32 (ssig1 (nthz w (i - 2)) + nthz w (i - 7) + ssig0 (nthz w (i - 15)) + nthz w (i - 16)) in
      extend n' (w ++ [x])
  end.

Definition round (st : list Z) (kw : Z) : list Z :=
  match st with
  | [a; b; c; d; e; f; g; h] =>
      let t1 := h + bsig1 e + ch e f g + kw in
      let t2 := bsig0 a + maj a b c in
      [w32 (t1 + t2); a; b; c; w32 (d + t1); e; f; g]
  | _ => st
  end.

Definition compress (hs : list Z) (block : list Z) : list Z :=
  let w := extend 48 block in
  let kws := map (fun p => fst p + snd p) (combine K256 w) in
  let st := fold_left round kws hs in
  map (fun p => w32 (fst p + snd p)) (combine hs st).

Fixpoint blocks (fuel : nat) (ws : list Z) : list (list Z) :=
  match fuel with
  | O => []
  | S f => match ws with [] => [] | _ => firstn 16 ws :: blocks f (skipn 16 ws) end
  end.

(* padding for a message of [length ws] 32-bit words *)
Definition pad (ws : list Z) : list Z :=
  let n := length ws in
  let bits := Z.of_nat n * 32 in
  let zeros := ((16 - (n + 3) mod 16) mod 16)%nat in
  ws ++ [2147483648] ++ repeat 0 zeros ++ [bits / M32; bits mod M32].

Definition sha256 (ws : list Z) : list Z :=
  let p := pad ws in
  fold_left compress (blocks (length p) p) H0.

(* FIPS 180-4 test vectors: "abc" cannot be expressed in whole words; the empty message and the
   56-byte message "abcdbcdecdefdefgefghfghighijhijkijkljklmklmnlmnomnopnopq" can *)
Example sha256_empty :
  sha256 [] = [3820012610; 2566659092; 2600203464; 2574235940; 665731556; 1687917388; 2761267483; 2018687061].
Proof. vm_compute. reflexivity. Qed.

Example sha256_56_bytes :
  sha256 [1633837924; 1650680933; 1667523942; 1684366951; 1701209960; 1718052969; 1734895978;
          1751738987; 1768581996; 1785425005; 1802268014; 1819111023; 1835954032; 1852797041] =
  [613247585; 3523623096; 3854575251; 205414457; 2738676825; 1694441831; 4142722516; 433784513].
Proof. vm_compute. reflexivity. Qed.

(* The byte format of the serialised AST: instruction tables translated from the Rust source
   (Gen/SerdeGen.v), the containers around them modelled by hand from
   assembly/src/ast/{program,module,procedure,imports,code_body}.rs and library/{masl,path,mod}.rs. *)
From Coq Require Import ZArith List Bool Arith Lia String.
From MV Require Import Base.Field Serde.Codec Gen.SerdeGen.
Import ListNotations.
Open Scope Z_scope.

(* ---- tables keyed by opcode number --------------------------------------------------------------- *)
Fixpoint assoc {A} (k : string) (l : list (string * A)) : option A :=
  match l with
  | [] => None
  | (k', a) :: r => if String.eqb k k' then Some a else assoc k r
  end.

Definition opnum (n : string) : option Z := assoc n opcode_enum.

Definition de_tbl : list (Z * schema) :=
  flat_map (fun r => match opnum (fst (fst r)) with Some k => [(k, snd r)] | None => [] end) instr_de.

Definition ser_tbl : list (Z * schema) :=
  flat_map (fun r => match snd (fst r) with
                     | Some o => match opnum o with Some k => [(k, snd r)] | None => [] end
                     | None => []
                     end) instr_ser.

(* ---- nodes ------------------------------------------------------------------------------------- *)
(* Node::write_into / read_from: control-flow opcodes carry bodies of nodes *)
Definition S_body : schema := SSeq SU16 SVar.
Definition OP_IFELSE : Z := 253.
Definition OP_REPEAT : Z := 254.
Definition OP_WHILE : Z := 255.
Definition ctl_tbl : list (Z * schema) :=
  [(OP_IFELSE, SPair S_body S_body); (OP_REPEAT, SPair SU32 S_body); (OP_WHILE, S_body)].

(* the reader tests the three control opcodes first and only then reads an instruction *)
Definition S_node : schema := STag (ctl_tbl ++ de_tbl).
Definition S_node_w : schema := STag (ctl_tbl ++ ser_tbl).

(* ---- containers -------------------------------------------------------------------------------- *)
Definition S_str8 : schema := SSeq SU8 SU8.          (* ProcedureName, LibraryNamespace *)
Definition S_str16 : schema := SSeq SU16 SU8.        (* LibraryPath, docs (empty = none) *)
Definition S_bool : schema := SRange 0 1 SU8.
Definition S_procid : schema := SArr PROC_ID_SIZE SU8.
Definition S_proc : schema :=                        (* ProcedureAst *)
  SPair S_str8 (SPair S_str16 (SPair S_bool (SPair SU16 S_body))).
Definition S_reexport : schema := SPair S_procid (SPair S_str8 S_str16).
Definition S_imports : schema :=                     (* ModuleImports *)
  SPair (SSeq SU16 S_str16) (SSeq SU16 (SPair S_procid (SPair S_str8 S_str16))).
Definition S_prog_body : schema := SPair (SSeq SU16 S_proc) S_body.
(* ProgramAst: the options byte selects whether imports follow *)
Definition S_program : schema := STag [(0, S_prog_body); (1, SPair S_imports S_prog_body)].
Definition S_mod_body : schema := SPair (SSeq SU16 S_reexport) (SSeq SU16 S_proc).
Definition S_module_opt (imports : bool) : schema :=
  SPair S_str16 (if imports then SPair S_imports S_mod_body else S_mod_body).
Definition S_module : schema := STag [(0, S_module_opt false); (1, S_module_opt true)].
Definition S_loc : schema := SPair SU32 SU32.        (* SourceLocation *)
Definition S_version : schema := SPair SU16 (SPair SU16 SU16).
(* MaslLibrary up to and including the has_source_locations flag; the locations that follow a
   set flag are a run of S_loc whose length the decoded modules determine (see lib_loc_count) *)
Definition S_lib_head : schema :=
  SPair S_str8 (SPair S_version (SPair (SSeq SU16 S_str8)
    (SPair (SSeq SU16 (SPair S_str16 (S_module_opt true))) S_bool))).

(* ---- reader / writer agreement ----------------------------------------------------------------- *)
Definition all_tags : list Z := map Z.of_nat (seq 0 256).

Fixpoint agree (fuel : nat) (de ser : schema) : bool :=
  match fuel with
  | O => false
  | S f =>
      match de, ser with
      | SRange _ _ d, SRange _ _ d' => agree f d d'
      | SRange _ _ d, _ => agree f d ser           (* the reader may accept less *)
      | SU8, SU8 | SU16, SU16 | SU32, SU32 | SU64, SU64 | SFelt, SFelt | SUnit, SUnit | SVar, SVar => true
      | SSeq c e, SSeq c' e' => agree f c c' && agree f e e'
      | SArr n e, SArr n' e' => Nat.eqb n n' && agree f e e'
      | SPair a b, SPair a' b' => agree f a a' && agree f b b'
      | STag t, STag t' =>
          forallb (fun k => match lookup k t, lookup k t' with
                            | Some a, Some b => agree f a b
                            | None, None => true
                            | _, _ => false
                            end) all_tags
      | _, _ => false
      end
  end.

(* name-level checks on the translated tables *)
Definition tag_rows_ok (de : list (Z * string * schema)) (ser : list (string * Z * schema)) : bool :=
  forallb (fun r => let '(v, t, s) := r in
             is_byte t &&
             match find (fun d => fst (fst d) =? t) de with
             | Some (_, v', s') => String.eqb v v' && agree 6 s' s
             | None => false
             end) ser
  && forallb (fun d => let '(t, v, _) := d in
             is_byte t && existsb (fun r => String.eqb (fst (fst r)) v && (snd (fst r) =? t)) ser) de.

Fixpoint distinct (l : list Z) : bool :=
  match l with
  | [] => true
  | x :: r => negb (existsb (Z.eqb x) r) && distinct r
  end.

Definition is_ctl (k : Z) : bool := (k =? OP_IFELSE) || (k =? OP_REPEAT) || (k =? OP_WHILE).

Definition instr_rows_ok : bool :=
  (* every variant the writer handles writes an opcode the reader maps back to that variant,
     reading the fields that were written *)
  forallb (fun r => let '(v, o, s) := r in
             match o with
             | Some op =>
                 match opnum op, find (fun d => String.eqb (fst (fst d)) op) instr_de with
                 | Some k, Some (_, v', s') => is_byte k && negb (is_ctl k) && String.eqb v v' && agree 8 s' s
                 | _, _ => false
                 end
             | None => false
             end) instr_ser
  (* and every opcode the reader accepts is written for the variant it builds *)
  && forallb (fun d => let '(op, v, _) := d in
             existsb (fun r => String.eqb (fst (fst r)) v &&
                               match snd (fst r) with Some o => String.eqb o op | None => false end) instr_ser
             && match opnum op with Some k => is_byte k && negb (is_ctl k) | None => false end) instr_de.

Definition tables_agree : bool :=
  match untranslated with [] => true | _ => false end
  && distinct (map snd opcode_enum)
  && distinct (map (fun r => snd (fst r)) sig_ser) && tag_rows_ok sig_de sig_ser
  && distinct (map (fun r => snd (fst r)) dbg_ser) && tag_rows_ok dbg_de dbg_ser
  && distinct (map (fun r => snd (fst r)) adv_ser) && tag_rows_ok adv_de adv_ser
  && instr_rows_ok
  && agree 10 S_node S_node_w.

From Coq Require Import ZArith List Bool Arith Lia.
From MV Require Import Base.Field Serde.Codec Serde.CodecProps Gen.SerdeGen Serde.Ast.
Import ListNotations.
Open Scope Z_scope.

Lemma tables_agree_ok : tables_agree = true.
Proof. vm_compute. reflexivity. Qed.

(* ---- induction over values with the list case spelled out --------------------------------------- *)
Section ValueInd.
Variable Pv : value -> Prop.
Hypothesis HN : forall n, Pv (VN n).
Hypothesis HU : Pv VUnit.
Hypothesis HL : forall l, Forall Pv l -> Pv (VList l).
Hypothesis HP : forall a b, Pv a -> Pv b -> Pv (VPair a b).
Hypothesis HT : forall t v, Pv v -> Pv (VTag t v).
Hypothesis HR : forall v, Pv v -> Pv (VRec v).
Fixpoint value_ind' (v : value) : Pv v :=
  match v with
  | VN n => HN n
  | VUnit => HU
  | VList l => HL l ((fix go (l : list value) : Forall Pv l :=
                        match l with [] => Forall_nil _ | x :: r => Forall_cons _ (value_ind' x) (go r) end) l)
  | VPair a b => HP a b (value_ind' a) (value_ind' b)
  | VTag t x => HT t x (value_ind' x)
  | VRec x => HR x (value_ind' x)
  end.
End ValueInd.

(* ---- what the writer emits is what the reader's schema would emit ------------------------------- *)
Lemma agree_width : forall f de ser, agree f de ser = true -> int_width de = int_width ser.
Proof.
  induction f as [|f IH]; intros de ser H; [discriminate|].
  destruct de; cbn [agree] in H; try (destruct ser; try discriminate; reflexivity).
  cbn [int_width]. destruct ser; cbn [int_width]; try (rewrite (IH _ _ H); reflexivity).
Qed.

Lemma in_all_tags t : is_byte t = true -> In t all_tags.
Proof.
  unfold is_byte. intros H. apply andb_true_iff in H. destruct H as [A B].
  apply Z.leb_le in A. apply Z.ltb_lt in B. unfold all_tags. apply in_map_iff.
  exists (Z.to_nat t). split; [lia|]. apply in_seq. lia.
Qed.

Section EncAgree.
Variables rd rw : schema.       (* what SVar stands for on the reader's and the writer's side *)
Variable f0 : nat.
Hypothesis Hrec : agree f0 rd rw = true.

Lemma enc_agree : forall v f de ser,
  agree f de ser = true -> wt rd de v = true -> enc rw ser v = enc rd de v.
Proof.
  induction v as [x| |l IHl|a b IHa IHb|t x IHx|x IHx] using value_ind'; intros f de ser Hag Hwt.
  - (* integers: only the width matters *)
    pose proof (agree_width _ _ _ Hag) as Hw.
    replace (enc rw ser (VN x)) with (match int_width ser with Some w => le_bytes w x | None => [] end)
      by (destruct ser; reflexivity).
    replace (enc rd de (VN x)) with (match int_width de with Some w => le_bytes w x | None => [] end)
      by (destruct de; reflexivity).
    rewrite Hw. reflexivity.
  - destruct de, ser; reflexivity.
  - (* lists: SSeq and SArr *)
    revert de ser Hag Hwt. induction f as [|f IHf]; intros de ser Hag Hwt; [discriminate|].
    destruct de; cbn [wt] in Hwt; try discriminate.
    + (* SSeq *)
      destruct ser; cbn [agree] in Hag; try discriminate.
      apply andb_true_iff in Hag. destruct Hag as [Hc He].
      cbn [enc]. rewrite <- (agree_width _ _ _ Hc).
      destruct (int_width de1) as [w|]; [|reflexivity].
      apply andb_true_iff in Hwt. destruct Hwt as [_ Hl]. f_equal.
      clear -IHl He Hl. induction l as [|y l IH]; [reflexivity|].
      inversion IHl as [|? ? Hy Hr]; subst. cbn [forallb] in Hl. apply andb_true_iff in Hl.
      destruct Hl as [Hy' Hl]. cbn [flat_map]. rewrite (Hy f de2 ser2 He Hy'). rewrite IH by assumption. reflexivity.
    + (* SArr *)
      destruct ser; cbn [agree] in Hag; try discriminate.
      apply andb_true_iff in Hag. destruct Hag as [_ He].
      apply andb_true_iff in Hwt. destruct Hwt as [_ Hl]. cbn [enc].
      clear -IHl He Hl. induction l as [|y l IH]; [reflexivity|].
      inversion IHl as [|? ? Hy Hr]; subst. cbn [forallb] in Hl. apply andb_true_iff in Hl.
      destruct Hl as [Hy' Hl]. cbn [flat_map]. rewrite (Hy f de ser He Hy'). rewrite IH by assumption. reflexivity.
  - (* pairs *)
    destruct f as [|f]; [discriminate|].
    destruct de; cbn [wt] in Hwt; try discriminate.
    destruct ser; cbn [agree] in Hag; try discriminate.
    apply andb_true_iff in Hag. destruct Hag as [H1 H2].
    apply andb_true_iff in Hwt. destruct Hwt as [W1 W2].
    cbn [enc]. rewrite (IHa f _ _ H1 W1), (IHb f _ _ H2 W2). reflexivity.
  - (* tagged *)
    destruct f as [|f]; [discriminate|].
    destruct de; cbn [wt] in Hwt; try discriminate.
    destruct ser; cbn [agree] in Hag; try discriminate.
    destruct (lookup t tbl) as [s'|] eqn:Hl; [|discriminate].
    apply andb_true_iff in Hwt. destruct Hwt as [Ht Hx].
    rewrite forallb_forall in Hag. specialize (Hag t (in_all_tags t Ht)). rewrite Hl in Hag.
    cbn [enc]. rewrite Hl. destruct (lookup t tbl0) as [b|]; [|discriminate].
    rewrite (IHx f _ _ Hag Hx). reflexivity.
  - (* recursive reference *)
    destruct f as [|f]; [discriminate|].
    destruct de; cbn [wt] in Hwt; try discriminate.
    destruct ser; cbn [agree] in Hag; try discriminate.
    cbn [enc]. apply (IHx f0 rd rw Hrec Hwt).
Qed.
End EncAgree.

(* ---- C10 / C19 for the AST containers ------------------------------------------------------------ *)
Lemma nodes_agree : agree 10 S_node S_node_w = true.
Proof. vm_compute. reflexivity. Qed.

(* a container schema is the same on both sides; only what SVar stands for differs *)
Lemma agree_program : agree 30 S_program S_program = true.  Proof. vm_compute. reflexivity. Qed.
Lemma agree_module : agree 30 S_module S_module = true.     Proof. vm_compute. reflexivity. Qed.
Lemma agree_lib_head : agree 30 S_lib_head S_lib_head = true. Proof. vm_compute. reflexivity. Qed.
Lemma agree_proc : agree 30 S_proc S_proc = true.           Proof. vm_compute. reflexivity. Qed.

Section Containers.
Variable s : schema.
Variable k : nat.
Hypothesis Hs : agree k s s = true.

(* the bytes the writer produces (writer-side tables) decode (reader-side tables) to the value *)
Theorem ast_roundtrip : forall fuel v r,
  wt S_node s v = true -> (need S_node s v <= fuel)%nat ->
  dec S_node fuel s (enc S_node_w s v ++ r) = Some (v, r).
Proof.
  intros fuel v r Hwt Hn.
  rewrite (enc_agree S_node S_node_w 10 nodes_agree v k s s Hs Hwt).
  apply roundtrip; assumption.
Qed.

(* whatever the reader accepts is well formed, was the writer's own encoding of it, and the
   writer's bytes for it decode to it again with nothing left over *)
Theorem ast_reencode : forall fuel bs v r,
  dec S_node fuel s bs = Some (v, r) ->
  wt S_node s v = true /\ bs = enc S_node_w s v ++ r /\
  dec S_node fuel s (enc S_node_w s v) = Some (v, []).
Proof.
  intros fuel bs v r H.
  destruct (accepted_is_canonical S_node fuel s bs v r H) as [Hwt [Hbs Hn]].
  rewrite (enc_agree S_node S_node_w 10 nodes_agree v k s s Hs Hwt).
  split; [exact Hwt|]. split; [exact Hbs|].
  rewrite <- (app_nil_r (enc S_node s v)). apply roundtrip; assumption.
Qed.
End Containers.

Definition program_roundtrip := ast_roundtrip S_program 30 agree_program.
Definition module_roundtrip := ast_roundtrip S_module 30 agree_module.
Definition lib_head_roundtrip := ast_roundtrip S_lib_head 30 agree_lib_head.
Definition program_reencode := ast_reencode S_program 30 agree_program.
Definition module_reencode := ast_reencode S_module 30 agree_module.
Definition lib_head_reencode := ast_reencode S_lib_head 30 agree_lib_head.

(* source locations are written as a bare run of (line, column) pairs; the reader takes as many
   as the AST it already holds has places for *)
Definition locs_value (l : list (Z * Z)) : value := VList (map (fun p => VPair (VN (fst p)) (VN (snd p))) l).
Definition loc_ok (p : Z * Z) : bool := int_ok SU32 (fst p) && int_ok SU32 (snd p).

Theorem locations_roundtrip : forall (count : nat) l r,
  length l = count -> forallb loc_ok l = true ->
  dec SUnit 3 (SArr count S_loc) (enc SUnit (SArr count S_loc) (locs_value l) ++ r) = Some (locs_value l, r).
Proof.
  intros count l r Hl Hok. apply roundtrip.
  - unfold locs_value. cbn [wt]. rewrite map_length, Hl, Nat.eqb_refl. cbn [andb].
    clear Hl. induction l as [|p l IH]; [reflexivity|]. cbn [forallb map] in *.
    apply andb_true_iff in Hok. destruct Hok as [Hp Hr]. rewrite IH by exact Hr. rewrite andb_true_r.
    unfold loc_ok in Hp. exact Hp.
  - unfold locs_value. cbn [need]. apply le_n_S. apply list_max_le. apply Forall_forall.
    intros n Hn. apply in_map_iff in Hn. destruct Hn as [v [<- Hv]]. apply in_map_iff in Hv.
    destruct Hv as [p [<- _]]. cbn. lia.
Qed.

(* non-vacuity: a program with a procedure, an if/else, a repeat and immediates is well typed *)
Example sample_program : value :=
  VTag 0 (VPair (VList [VPair (VList [VN 102; VN 111; VN 111])
                          (VPair (VList []) (VPair (VN 0) (VPair (VN 2)
                             (VList [VRec (VTag 198 (VN 1)); VRec (VTag 182 (VList [VN 1; VN 2; VN 3]))]))))])
               (VList [VRec (VTag 216 (VN 0));
                       VRec (VTag 253 (VPair (VList [VRec (VTag 8 VUnit)])
                                             (VList [VRec (VTag 12 VUnit); VRec (VTag 226 (VTag 1 (VN 3)))])));
                       VRec (VTag 254 (VPair (VN 3) (VList [VRec (VTag 122 VUnit)])))])).

Example sample_program_wt : wt S_node S_program sample_program = true /\ (need S_node S_program sample_program <= 12)%nat.
Proof. vm_compute. split; [reflexivity | lia]. Qed.

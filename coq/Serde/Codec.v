(* A schema language for the byte formats the VM reads and writes (stack inputs and outputs,
   kernels, program info, the serialised AST and libraries), with its encoder and decoder.

   The decoder runs on fuel (one unit per schema step) because the AST format is recursive; the
   theorems in CodecProps.v quantify over the fuel.  Counts read from untrusted bytes are clamped
   to what the remaining input can hold before the element loop runs (an element of a non-empty
   schema takes at least one byte, so a larger count fails either way); this keeps the model
   executable on hostile inputs, and the decoder still checks that it got exactly `count`
   elements. *)
From Coq Require Import ZArith List Bool Arith Lia.
From MV Require Import Base.Field.
Import ListNotations.
Open Scope Z_scope.

Definition byte := Z.

Inductive schema : Type :=
| SU8 | SU16 | SU32 | SU64
| SFelt                                   (* u64 little endian, must be < p *)
| SRange (lo hi : Z) (s : schema)         (* an integer schema restricted to lo <= x <= hi *)
| SUnit                                   (* no bytes *)
| SSeq (count : schema) (elem : schema)   (* count (an integer schema), then that many elems *)
| SArr (n : nat) (elem : schema)          (* exactly n elems, no count *)
| SPair (a b : schema)
| STag (tbl : list (Z * schema))          (* one tag byte, then the payload the table gives *)
| SVar.                                   (* the recursive schema (AST nodes) *)

Inductive value : Type :=
| VN (n : Z)
| VUnit
| VList (l : list value)
| VPair (a b : value)
| VTag (t : Z) (v : value)
| VRec (v : value).

(* ---- little-endian integers ---------------------------------------------------------------- *)
Fixpoint le_bytes (n : nat) (x : Z) : list byte :=
  match n with
  | O => []
  | S n' => (x mod 256) :: le_bytes n' (x / 256)
  end.

Fixpoint le_val (bs : list byte) : Z :=
  match bs with
  | [] => 0
  | b :: r => b + 256 * le_val r
  end.

Definition is_byte (b : Z) : bool := (0 <=? b) && (b <? 256).

(* the first n bytes and the rest, or None when fewer are left (one pass, no length computed) *)
Fixpoint take (n : nat) (bs : list byte) : option (list byte * list byte) :=
  match n with
  | O => Some ([], bs)
  | S n' =>
      match bs with
      | [] => None
      | b :: r => match take n' r with Some (h, t) => Some (b :: h, t) | None => None end
      end
  end.

(* ---- integers of the schema language ---------------------------------------------------------- *)
Fixpoint int_width (s : schema) : option nat :=
  match s with
  | SU8 => Some 1%nat | SU16 => Some 2%nat | SU32 => Some 4%nat | SU64 | SFelt => Some 8%nat
  | SRange _ _ s' => int_width s'
  | _ => None
  end.

Fixpoint int_ok (s : schema) (x : Z) : bool :=
  match s with
  | SU8 => (0 <=? x) && (x <? 256)
  | SU16 => (0 <=? x) && (x <? 65536)
  | SU32 => (0 <=? x) && (x <? 4294967296)
  | SU64 => (0 <=? x) && (x <? 18446744073709551616)
  | SFelt => (0 <=? x) && (x <? P)
  | SRange lo hi s' => (lo <=? x) && (x <=? hi) && int_ok s' x
  | _ => false
  end.

Fixpoint lookup (t : Z) (tbl : list (Z * schema)) : option schema :=
  match tbl with
  | [] => None
  | (t', s) :: r => if t =? t' then Some s else lookup t r
  end.

Section Codec.
(* the schema SVar stands for *)
Variable rec : schema.

(* ---- well-typed values ----------------------------------------------------------------------- *)
Fixpoint wt (s : schema) (v : value) {struct v} : bool :=
  match s, v with
  | SUnit, VUnit => true
  | SSeq c e, VList l =>
      match int_width c with
      | Some _ => int_ok c (Z.of_nat (length l)) && forallb (wt e) l
      | None => false
      end
  | SArr n e, VList l => Nat.eqb (length l) n && forallb (wt e) l
  | SPair a b, VPair x y => wt a x && wt b y
  | STag tbl, VTag t x =>
      match lookup t tbl with Some s' => is_byte t && wt s' x | None => false end
  | SVar, VRec x => wt rec x
  | _, VN x => match int_width s with Some _ => int_ok s x | None => false end
  | _, _ => false
  end.

(* ---- encoder ---------------------------------------------------------------------------------- *)
Fixpoint enc (s : schema) (v : value) {struct v} : list byte :=
  match s, v with
  | SSeq c e, VList l =>
      match int_width c with
      | Some w => le_bytes w (Z.of_nat (length l)) ++ flat_map (enc e) l
      | None => []
      end
  | SArr n e, VList l => flat_map (enc e) l
  | SPair a b, VPair x y => enc a x ++ enc b y
  | STag tbl, VTag t x => match lookup t tbl with Some s' => t :: enc s' x | None => [] end
  | SVar, VRec x => enc rec x
  | _, VN x => match int_width s with Some w => le_bytes w x | None => [] end
  | _, _ => []
  end.

(* fuel the decoder needs to rebuild a value: the height of the schema/value unfolding *)
Fixpoint need (s : schema) (v : value) {struct v} : nat :=
  match s, v with
  | SSeq c e, VList l => S (list_max (map (need e) l))
  | SArr n e, VList l => S (list_max (map (need e) l))
  | SPair a b, VPair x y => S (Nat.max (need a x) (need b y))
  | STag tbl, VTag t x => match lookup t tbl with Some s' => S (need s' x) | None => 1%nat end
  | SVar, VRec x => S (need rec x)
  | _, _ => 1%nat
  end.

(* ---- decoder ---------------------------------------------------------------------------------- *)
Definition dec_int (s : schema) (bs : list byte) : option (Z * list byte) :=
  match int_width s with
  | Some w =>
      match take w bs with
      | Some (h, r) => if forallb is_byte h && int_ok s (le_val h) then Some (le_val h, r) else None
      | None => None
      end
  | None => None
  end.

Fixpoint dec_n (d : list byte -> option (value * list byte)) (n : nat) (bs : list byte)
  : option (list value * list byte) :=
  match n with
  | O => Some ([], bs)
  | S n' => match d bs with
            | Some (v, r) => match dec_n d n' r with
                             | Some (vs, r') => Some (v :: vs, r')
                             | None => None
                             end
            | None => None
            end
  end.

(* every encoding of a value of this schema has at least one byte (a syntactic under-estimate;
   SVar counts as possibly empty) *)
Fixpoint nonempty (s : schema) : bool :=
  match s with
  | SU8 | SU16 | SU32 | SU64 | SFelt => true
  | SRange _ _ s' => match int_width s' with Some _ => true | None => false end
  | SUnit => false
  | SSeq c _ => match int_width c with Some _ => true | None => false end
  | SArr n e => negb (Nat.eqb n 0) && nonempty e
  | SPair a b => nonempty a || nonempty b
  | STag _ => true
  | SVar => false
  end.

(* the number of elements to try for a count n read from the input: when every element takes at
   least one byte, more than (remaining bytes + 1) attempts cannot change the outcome *)
Definition clamp (e : schema) (n : Z) (r : list byte) : nat :=
  if nonempty e then Z.to_nat (Z.min n (Z.of_nat (length r) + 1)) else Z.to_nat n.

Fixpoint dec (fuel : nat) (s : schema) (bs : list byte) {struct fuel} : option (value * list byte) :=
  match fuel with
  | O => None
  | S f =>
      match s with
      | SUnit => Some (VUnit, bs)
      | SSeq c e =>
          match dec_int c bs with
          | Some (n, r) =>
              match dec_n (dec f e) (clamp e n r) r with
              | Some (vs, r') => if Z.of_nat (length vs) =? n then Some (VList vs, r') else None
              | None => None
              end
          | None => None
          end
      | SArr n e =>
          match dec_n (dec f e) n bs with
          | Some (vs, r') => Some (VList vs, r')
          | None => None
          end
      | SPair a b =>
          match dec f a bs with
          | Some (x, r) => match dec f b r with Some (y, r') => Some (VPair x y, r') | None => None end
          | None => None
          end
      | STag tbl =>
          match bs with
          | t :: r =>
              if is_byte t then
                match lookup t tbl with
                | Some s' => match dec f s' r with Some (x, r') => Some (VTag t x, r') | None => None end
                | None => None
                end
              else None
          | [] => None
          end
      | SVar => match dec f rec bs with Some (x, r) => Some (VRec x, r) | None => None end
      | _ => match dec_int s bs with Some (x, r) => Some (VN x, r) | None => None end
      end
  end.

End Codec.

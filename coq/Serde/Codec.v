(* A small schema language for the byte formats of the VM's data containers, its encoder and
   decoder, and the two generic theorems: decoding an encoding gives the value back (with any
   suffix left untouched), and whatever the decoder accepts re-encodes to bytes that decode to the
   same value with nothing left over. *)
From Coq Require Import ZArith List Bool Arith Lia.
From MV Require Import Base.Field.
Import ListNotations.
Open Scope Z_scope.

Definition byte := Z.

Inductive schema : Type :=
| SU8 | SU16 | SU32 | SU64
| SFelt                      (* u64 little endian, must be < p *)
| SSeq (count : schema) (elem : schema)   (* count (an integer schema) followed by that many elems *)
| SPair (a b : schema).

Inductive value : Type :=
| VN (n : Z)
| VList (l : list value)
| VPair (a b : value).

(* ---- little-endian integers ---------------------------------------------------------------- *)
Fixpoint le_bytes (n : nat) (x : Z) : list byte :=
  match n with
  | O => []
  | S n' => (x mod 256) :: le_bytes n' (x / 256)
  end.

Fixpoint le_val (bs : list byte) : Z :=
  match bs with
  | [] => 0
  | b :: r => b + 256 * le_val r
  end.

Definition is_byte (b : Z) : bool := (0 <=? b) && (b <? 256).

Definition take (n : nat) (bs : list byte) : option (list byte * list byte) :=
  if Nat.leb n (length bs) then Some (firstn n bs, skipn n bs) else None.

Lemma le_val_le_bytes n x : 0 <= x < 256 ^ Z.of_nat n -> le_val (le_bytes n x) = x.
Proof.
  revert x. induction n as [|n IH]; intros x Hx; cbn [le_bytes le_val].
  - cbn in Hx. lia.
  - rewrite IH.
    + pose proof (Z.div_mod x 256 ltac:(lia)). lia.
    + rewrite Nat2Z.inj_succ, Z.pow_succ_r in Hx by lia.
      split; [apply Z.div_pos; lia | apply Z.div_lt_upper_bound; lia].
Qed.

Lemma le_bytes_length n x : length (le_bytes n x) = n.
Proof. revert x; induction n; intros; cbn; auto. Qed.

Lemma le_bytes_le_val bs : Forall (fun b => 0 <= b < 256) bs -> le_bytes (length bs) (le_val bs) = bs.
Proof.
  induction bs as [|b r IH]; intros H; [reflexivity|].
  inversion H as [|? ? Hb Hr]; subst. cbn [length le_bytes le_val].
  replace (b + 256 * le_val r) with (b + le_val r * 256) by ring.
  rewrite Z_mod_plus_full, Z.mod_small by lia.
  rewrite Z_div_plus_full by lia. rewrite Z.div_small by lia. rewrite Z.add_0_l.
  rewrite IH by exact Hr. reflexivity.
Qed.

Lemma le_val_bound bs : Forall (fun b => 0 <= b < 256) bs -> 0 <= le_val bs < 256 ^ Z.of_nat (length bs).
Proof.
  induction bs as [|b r IH]; intros H; cbn [le_val length]; [cbn; lia|].
  inversion H as [|? ? Hb Hr]; subst. specialize (IH Hr).
  rewrite Nat2Z.inj_succ, Z.pow_succ_r by lia. lia.
Qed.

(* ---- integers of the schema language ---------------------------------------------------------- *)
Definition int_width (s : schema) : option nat :=
  match s with SU8 => Some 1%nat | SU16 => Some 2%nat | SU32 => Some 4%nat | SU64 | SFelt => Some 8%nat | _ => None end.

Definition int_ok (s : schema) (x : Z) : bool :=
  match s with
  | SU8 => (0 <=? x) && (x <? 256)
  | SU16 => (0 <=? x) && (x <? 65536)
  | SU32 => (0 <=? x) && (x <? 4294967296)
  | SU64 => (0 <=? x) && (x <? 18446744073709551616)
  | SFelt => (0 <=? x) && (x <? P)
  | _ => false
  end.

(* ---- well-typed values ----------------------------------------------------------------------- *)
Fixpoint wt (s : schema) (v : value) {struct s} : bool :=
  match s, v with
  | SSeq c e, VList l =>
      match int_width c with
      | Some _ => int_ok c (Z.of_nat (length l)) && forallb (wt e) l
      | None => false
      end
  | SPair a b, VPair x y => wt a x && wt b y
  | (SU8 | SU16 | SU32 | SU64 | SFelt), VN x => int_ok s x
  | _, _ => false
  end.

(* ---- encoder ---------------------------------------------------------------------------------- *)
Fixpoint enc (s : schema) (v : value) {struct s} : list byte :=
  match s, v with
  | SSeq c e, VList l =>
      match int_width c with
      | Some w => le_bytes w (Z.of_nat (length l)) ++ flat_map (enc e) l
      | None => []
      end
  | SPair a b, VPair x y => enc a x ++ enc b y
  | _, VN x => match int_width s with Some w => le_bytes w x | None => [] end
  | _, _ => []
  end.

(* ---- decoder ---------------------------------------------------------------------------------- *)
Definition dec_int (s : schema) (bs : list byte) : option (Z * list byte) :=
  match int_width s with
  | Some w =>
      match take w bs with
      | Some (h, r) => if forallb is_byte h && int_ok s (le_val h) then Some (le_val h, r) else None
      | None => None
      end
  | None => None
  end.

Fixpoint dec_n (d : list byte -> option (value * list byte)) (n : nat) (bs : list byte)
  : option (list value * list byte) :=
  match n with
  | O => Some ([], bs)
  | S n' => match d bs with
            | Some (v, r) => match dec_n d n' r with
                             | Some (vs, r') => Some (v :: vs, r')
                             | None => None
                             end
            | None => None
            end
  end.

Fixpoint dec (s : schema) (bs : list byte) {struct s} : option (value * list byte) :=
  match s with
  | SSeq c e =>
      match dec_int c bs with
      | Some (n, r) =>
          (* the count is untrusted: every element needs at least one byte unless it is empty *)
          match dec_n (dec e) (Z.to_nat n) r with
          | Some (vs, r') => Some (VList vs, r')
          | None => None
          end
      | None => None
      end
  | SPair a b =>
      match dec a bs with
      | Some (x, r) => match dec b r with Some (y, r') => Some (VPair x y, r') | None => None end
      | None => None
      end
  | _ => match dec_int s bs with Some (x, r) => Some (VN x, r) | None => None end
  end.

(* Round trip and re-encoding for every schema. *)
From Coq Require Import ZArith List Bool Arith Lia.
From MV Require Import Base.Field Serde.Codec.
Import ListNotations.
Open Scope Z_scope.

Lemma take_app n (h r : list byte) : length h = n -> take n (h ++ r) = Some (h, r).
Proof.
  intros <-. unfold take. rewrite app_length.
  replace (Nat.leb (length h) (length h + length r)) with true by (symmetry; apply Nat.leb_le; lia).
  rewrite firstn_app, firstn_all, Nat.sub_diag, app_nil_r. rewrite skipn_app, skipn_all, Nat.sub_diag.
  reflexivity.
Qed.

Lemma take_spec n bs h r : take n bs = Some (h, r) -> bs = h ++ r /\ length h = n.
Proof.
  unfold take. destruct (Nat.leb n (length bs)) eqn:E; [|discriminate].
  intros H. inversion H; subst. apply Nat.leb_le in E. split.
  - symmetry. apply firstn_skipn.
  - apply firstn_length_le. exact E.
Qed.

Lemma le_bytes_bytes n x : forallb is_byte (le_bytes n x) = true.
Proof.
  revert x. induction n as [|n IH]; intros x; cbn [le_bytes forallb]; [reflexivity|].
  rewrite IH, andb_true_r. unfold is_byte.
  pose proof (Z.mod_pos_bound x 256 ltac:(lia)).
  apply andb_true_iff. split; [apply Z.leb_le | apply Z.ltb_lt]; lia.
Qed.

Lemma forallb_is_byte bs : forallb is_byte bs = true -> Forall (fun b => 0 <= b < 256) bs.
Proof.
  intros H. apply Forall_forall. intros b Hb. rewrite forallb_forall in H. specialize (H b Hb).
  unfold is_byte in H. apply andb_true_iff in H. destruct H as [A B].
  apply Z.leb_le in A. apply Z.ltb_lt in B. lia.
Qed.

Definition is_int (s : schema) : Prop := exists w, int_width s = Some w.

Lemma int_ok_range s x w : int_width s = Some w -> int_ok s x = true -> 0 <= x < 256 ^ Z.of_nat w.
Proof.
  destruct s; cbn; intros Hw H; inversion Hw; subst; apply andb_true_iff in H; destruct H as [A B];
    apply Z.leb_le in A; apply Z.ltb_lt in B; try (unfold P in B); cbn; lia.
Qed.

Lemma dec_int_enc s w x r :
  int_width s = Some w -> int_ok s x = true -> dec_int s (le_bytes w x ++ r) = Some (x, r).
Proof.
  intros Hw Hok. unfold dec_int. rewrite Hw. rewrite take_app by apply le_bytes_length.
  rewrite le_bytes_bytes. rewrite le_val_le_bytes by (eapply int_ok_range; eauto).
  rewrite Hok. reflexivity.
Qed.

Lemma dec_int_inv s bs x r :
  dec_int s bs = Some (x, r) ->
  exists w, int_width s = Some w /\ int_ok s x = true /\ bs = le_bytes w x ++ r.
Proof.
  unfold dec_int. destruct (int_width s) as [w|] eqn:Hw; [|discriminate].
  destruct (take w bs) as [[h t]|] eqn:Ht; [|discriminate].
  destruct (forallb is_byte h && int_ok s (le_val h)) eqn:E; [|discriminate].
  intros H. inversion H; subst. apply andb_true_iff in E. destruct E as [Eb Eo].
  apply take_spec in Ht. destruct Ht as [-> Hl].
  exists w. split; [reflexivity|]. split; [exact Eo|].
  rewrite <- Hl. rewrite le_bytes_le_val by (apply forallb_is_byte; exact Eb). reflexivity.
Qed.

(* ---- round trip --------------------------------------------------------------------------------- *)
Lemma dec_n_enc (e : schema) :
  (forall v r, wt e v = true -> dec e (enc e v ++ r) = Some (v, r)) ->
  forall l r, forallb (wt e) l = true ->
  dec_n (dec e) (length l) (flat_map (enc e) l ++ r) = Some (l, r).
Proof.
  intros IH. induction l as [|v l IHl]; intros r Hl; cbn [length dec_n flat_map]; [reflexivity|].
  cbn [forallb] in Hl. apply andb_true_iff in Hl. destruct Hl as [Hv Hl].
  rewrite <- app_assoc. rewrite IH by exact Hv. rewrite IHl by exact Hl. reflexivity.
Qed.

Theorem roundtrip : forall s v r, wt s v = true -> dec s (enc s v ++ r) = Some (v, r).
Proof.
  induction s as [| | | | |c IHc e IHe|a IHa b IHb]; intros v r Hwt;
    try (destruct v as [x| |]; cbn [wt] in Hwt; try discriminate;
         cbn [enc dec int_width]; rewrite dec_int_enc by (try reflexivity; exact Hwt); reflexivity).
  - destruct v as [|l|]; cbn [wt] in Hwt; try discriminate.
    destruct (int_width c) as [w|] eqn:Hw; [|discriminate].
    apply andb_true_iff in Hwt. destruct Hwt as [Hn Hl].
    cbn [enc dec]. rewrite Hw. rewrite <- app_assoc.
    rewrite (dec_int_enc c w _ _ Hw Hn). rewrite Nat2Z.id.
    rewrite (dec_n_enc e IHe l r Hl). reflexivity.
  - destruct v as [| |x y]; cbn [wt] in Hwt; try discriminate.
    apply andb_true_iff in Hwt. destruct Hwt as [Hx Hy].
    cbn [enc dec]. rewrite <- app_assoc. rewrite IHa by exact Hx. rewrite IHb by exact Hy. reflexivity.
Qed.

(* ---- what is accepted is a well-typed value in its unique encoding ----------------------------- *)
Lemma dec_n_inv (e : schema) :
  (forall bs v r, dec e bs = Some (v, r) -> wt e v = true /\ bs = enc e v ++ r) ->
  forall n bs vs r, dec_n (dec e) n bs = Some (vs, r) ->
  length vs = n /\ forallb (wt e) vs = true /\ bs = flat_map (enc e) vs ++ r.
Proof.
  intros IH. induction n as [|n IHn]; intros bs vs r H; cbn [dec_n] in H.
  - inversion H; subst. repeat split; reflexivity.
  - destruct (dec e bs) as [[v t]|] eqn:E; [|discriminate].
    destruct (dec_n (dec e) n t) as [[vs' r']|] eqn:E2; [|discriminate].
    inversion H; subst. destruct (IH _ _ _ E) as [Hv ->]. destruct (IHn _ _ _ E2) as [Hl [Hw ->]].
    cbn [length forallb flat_map]. rewrite Hl, Hv, Hw, <- app_assoc. repeat split; reflexivity.
Qed.

Theorem accepted_is_canonical : forall s bs v r,
  dec s bs = Some (v, r) -> wt s v = true /\ bs = enc s v ++ r.
Proof.
  induction s as [| | | | |c IHc e IHe|a IHa b IHb]; intros bs v r H;
    try (cbn [dec] in H; destruct (dec_int _ bs) as [[x t]|] eqn:E; [|discriminate];
         inversion H; subst; apply dec_int_inv in E; destruct E as [w [Hw [Hok ->]]];
         cbn in Hw; inversion Hw; subst; cbn [wt enc int_width]; split; [exact Hok | reflexivity]).
  - cbn [dec] in H. destruct (dec_int c bs) as [[n t]|] eqn:E; [|discriminate].
    destruct (dec_n (dec e) (Z.to_nat n) t) as [[vs r']|] eqn:E2; [|discriminate].
    inversion H; subst. apply dec_int_inv in E. destruct E as [w [Hw [Hok ->]]].
    destruct (dec_n_inv e IHe _ _ _ _ E2) as [Hl [Hwt ->]].
    assert (Hn : Z.of_nat (length vs) = n).
    { rewrite Hl. apply Z2Nat.id. pose proof (int_ok_range c n w Hw Hok). lia. }
    cbn [wt enc]. rewrite Hw, Hn, Hok, Hwt, <- app_assoc. split; reflexivity.
  - cbn [dec] in H. destruct (dec a bs) as [[x t]|] eqn:E; [|discriminate].
    destruct (dec b t) as [[y r']|] eqn:E2; [|discriminate]. inversion H; subst.
    destruct (IHa _ _ _ E) as [Hx ->]. destruct (IHb _ _ _ E2) as [Hy ->].
    cbn [wt enc]. rewrite Hx, Hy, <- app_assoc. split; reflexivity.
Qed.

(* C19: any accepted value re-serialises to bytes that decode to an equal value, nothing left *)
Corollary reencode : forall s bs v r, dec s bs = Some (v, r) -> dec s (enc s v) = Some (v, []).
Proof.
  intros s bs v r H. destruct (accepted_is_canonical s bs v r H) as [Hwt _].
  rewrite <- (app_nil_r (enc s v)). apply roundtrip. exact Hwt.
Qed.

(* the decoder is total (it is a function into option) and consumes a prefix *)
Corollary dec_prefix : forall s bs v r, dec s bs = Some (v, r) -> exists h, bs = h ++ r.
Proof. intros s bs v r H. destruct (accepted_is_canonical s bs v r H) as [_ ->]. eauto. Qed.

(* Round trip and re-encoding for every schema. *)
From Coq Require Import ZArith List Bool Arith Lia.
From MV Require Import Base.Field Serde.Codec.
Import ListNotations.
Open Scope Z_scope.

Lemma le_val_le_bytes n x : 0 <= x < 256 ^ Z.of_nat n -> le_val (le_bytes n x) = x.
Proof.
  revert x. induction n as [|n IH]; intros x Hx; cbn [le_bytes le_val].
  - cbn in Hx. lia.
  - rewrite IH.
    + pose proof (Z.div_mod x 256 ltac:(lia)). lia.
    + rewrite Nat2Z.inj_succ, Z.pow_succ_r in Hx by lia.
      split; [apply Z.div_pos; lia | apply Z.div_lt_upper_bound; lia].
Qed.

Lemma le_bytes_length n x : length (le_bytes n x) = n.
Proof. revert x; induction n; intros; cbn; auto. Qed.

Lemma le_bytes_le_val bs : Forall (fun b => 0 <= b < 256) bs -> le_bytes (length bs) (le_val bs) = bs.
Proof.
  induction bs as [|b r IH]; intros H; [reflexivity|].
  inversion H as [|? ? Hb Hr]; subst. cbn [length le_bytes le_val].
  replace (b + 256 * le_val r) with (b + le_val r * 256) by ring.
  rewrite Z_mod_plus_full, Z.mod_small by lia.
  rewrite Z_div_plus_full by lia. rewrite Z.div_small by lia. rewrite Z.add_0_l.
  rewrite IH by exact Hr. reflexivity.
Qed.

Lemma take_app n (h r : list byte) : length h = n -> take n (h ++ r) = Some (h, r).
Proof.
  intros <-. induction h as [|b h IH]; cbn [length take app]; [reflexivity|]. rewrite IH. reflexivity.
Qed.

Lemma take_spec n : forall bs h r, take n bs = Some (h, r) -> bs = h ++ r /\ length h = n.
Proof.
  induction n as [|n IH]; intros bs h r H; cbn [take] in H.
  - inversion H; subst. split; reflexivity.
  - destruct bs as [|b t]; [discriminate|]. destruct (take n t) as [[h' r']|] eqn:E; [|discriminate].
    inversion H; subst. destruct (IH _ _ _ E) as [-> Hl]. cbn [app length]. split; [reflexivity | rewrite Hl; reflexivity].
Qed.

Lemma le_bytes_bytes n x : forallb is_byte (le_bytes n x) = true.
Proof.
  revert x. induction n as [|n IH]; intros x; cbn [le_bytes forallb]; [reflexivity|].
  rewrite IH, andb_true_r. unfold is_byte.
  pose proof (Z.mod_pos_bound x 256 ltac:(lia)).
  apply andb_true_iff. split; [apply Z.leb_le | apply Z.ltb_lt]; lia.
Qed.

Lemma forallb_is_byte bs : forallb is_byte bs = true -> Forall (fun b => 0 <= b < 256) bs.
Proof.
  intros H. apply Forall_forall. intros b Hb. rewrite forallb_forall in H. specialize (H b Hb).
  unfold is_byte in H. apply andb_true_iff in H. destruct H as [A B].
  apply Z.leb_le in A. apply Z.ltb_lt in B. lia.
Qed.

Lemma int_ok_range s : forall x w, int_width s = Some w -> int_ok s x = true -> 0 <= x < 256 ^ Z.of_nat w.
Proof.
  induction s as [| | | | |lo hi s IH| | | | | |]; intros x w Hw H; cbn [int_width] in Hw; try discriminate;
    try (inversion Hw; subst; cbn [int_ok] in H; apply andb_true_iff in H; destruct H as [A B];
         apply Z.leb_le in A; apply Z.ltb_lt in B; try (unfold P in B); cbn; lia).
  cbn [int_ok] in H. apply andb_true_iff in H. destruct H as [_ H]. exact (IH x w Hw H).
Qed.

Lemma dec_int_enc s w x r :
  int_width s = Some w -> int_ok s x = true -> dec_int s (le_bytes w x ++ r) = Some (x, r).
Proof.
  intros Hw Hok. unfold dec_int. rewrite Hw. rewrite take_app by apply le_bytes_length.
  rewrite le_bytes_bytes. rewrite le_val_le_bytes by (eapply int_ok_range; eauto).
  rewrite Hok. reflexivity.
Qed.

Lemma dec_int_inv s bs x r :
  dec_int s bs = Some (x, r) ->
  exists w, int_width s = Some w /\ int_ok s x = true /\ bs = le_bytes w x ++ r.
Proof.
  unfold dec_int. destruct (int_width s) as [w|] eqn:Hw; [|discriminate].
  destruct (take w bs) as [[h t]|] eqn:Ht; [|discriminate].
  destruct (forallb is_byte h && int_ok s (le_val h)) eqn:E; [|discriminate].
  intros H. inversion H; subst. apply andb_true_iff in E. destruct E as [Eb Eo].
  apply take_spec in Ht. destruct Ht as [-> Hl].
  exists w. split; [reflexivity|]. split; [exact Eo|].
  rewrite <- Hl. rewrite le_bytes_le_val by (apply forallb_is_byte; exact Eb). reflexivity.
Qed.

Lemma list_max_cons a l : list_max (a :: l) = Nat.max a (list_max l).
Proof. reflexivity. Qed.

Section Props.
Variable rec : schema.
Notation wt := (wt rec).
Notation enc := (enc rec).
Notation dec := (dec rec).
Notation need := (need rec).

(* an integer value under an integer schema *)
Lemma wt_int s x : wt s (VN x) = match int_width s with Some _ => int_ok s x | None => false end.
Proof. destruct s; reflexivity. Qed.

Lemma enc_int s x : enc s (VN x) = match int_width s with Some w => le_bytes w x | None => [] end.
Proof. destruct s; reflexivity. Qed.

(* ---- encodings of non-empty schemas are non-empty ---------------------------------------------- *)
Lemma enc_nonempty s : forall v, nonempty s = true -> wt s v = true -> (1 <= length (enc s v))%nat.
Proof.
  induction s as [| | | | |lo hi s IH| |c IHc e IHe|n e IHe|a IHa b IHb|tbl|]; intros v Hne Hwt;
    try (destruct v; cbn [Codec.wt int_width] in Hwt; try discriminate;
         cbn [Codec.enc int_width le_bytes length]; lia);
    try discriminate.
  - (* SRange *)
    destruct v as [x| | | | |]; try (cbn [Codec.wt] in Hwt; discriminate).
    rewrite wt_int in Hwt. rewrite enc_int. cbn [nonempty] in Hne. cbn [int_width] in *.
    destruct (int_width s) as [w|] eqn:Hw; [|discriminate].
    rewrite le_bytes_length.
    destruct s; cbn [int_width] in Hw; try discriminate; inversion Hw; try lia.
    (* nested range: its width is that of the inner schema, which is positive by induction *)
    cbn [int_ok] in Hwt. apply andb_true_iff in Hwt. destruct Hwt as [_ Hwt].
    assert (Hn : nonempty (SRange lo0 hi0 s) = true) by (cbn [nonempty]; rewrite Hw; reflexivity).
    specialize (IH (VN x) Hn). rewrite wt_int, enc_int in IH. cbn [int_width] in IH. rewrite Hw in IH.
    rewrite le_bytes_length in IH. apply IH. exact Hwt.
  - (* SSeq *)
    destruct v as [| |l| | |]; cbn [Codec.wt] in Hwt; try discriminate.
    cbn [nonempty] in Hne. cbn [Codec.enc]. destruct (int_width c) as [w|] eqn:Hw; [|discriminate].
    rewrite app_length, le_bytes_length.
    assert (1 <= w)%nat; [|lia].
    clear -Hw. revert w Hw. induction c; intros w Hw; cbn [int_width] in Hw; try discriminate;
      try (inversion Hw; lia). apply IHc. exact Hw.
  - (* SArr *)
    destruct v as [| |l| | |]; cbn [Codec.wt] in Hwt; try discriminate.
    cbn [nonempty] in Hne. apply andb_true_iff in Hne. destruct Hne as [Hn He].
    apply andb_true_iff in Hwt. destruct Hwt as [Hl Hf]. apply Nat.eqb_eq in Hl.
    destruct l as [|x l]; [cbn in Hl; subst; discriminate|].
    cbn [forallb] in Hf. apply andb_true_iff in Hf. destruct Hf as [Hx _].
    cbn [Codec.enc flat_map]. rewrite app_length. specialize (IHe x He Hx). lia.
  - (* SPair *)
    destruct v as [| | |x y| |]; cbn [Codec.wt] in Hwt; try discriminate.
    apply andb_true_iff in Hwt. destruct Hwt as [Hx Hy]. cbn [nonempty] in Hne.
    cbn [Codec.enc]. rewrite app_length. apply orb_true_iff in Hne. destruct Hne as [Hne|Hne].
    + specialize (IHa x Hne Hx). lia.
    + specialize (IHb y Hne Hy). lia.
  - (* STag *)
    destruct v as [| | | |t x|]; cbn [Codec.wt] in Hwt; try discriminate.
    cbn [Codec.enc]. destruct (lookup t tbl); [cbn [length]; lia | discriminate].
Qed.

Lemma flat_map_length_ge (e : schema) l :
  nonempty e = true -> forallb (wt e) l = true -> (length l <= length (flat_map (enc e) l))%nat.
Proof.
  intros Hne. induction l as [|x l IH]; intros Hl; cbn [flat_map length]; [lia|].
  cbn [forallb] in Hl. apply andb_true_iff in Hl. destruct Hl as [Hx Hl].
  rewrite app_length. pose proof (enc_nonempty e x Hne Hx). specialize (IH Hl). lia.
Qed.

Lemma clamp_exact e l r :
  forallb (wt e) l = true ->
  clamp e (Z.of_nat (length l)) (flat_map (enc e) l ++ r) = length l.
Proof.
  intros Hl. unfold clamp. destruct (nonempty e) eqn:Hne; [|apply Nat2Z.id].
  pose proof (flat_map_length_ge e l Hne Hl). rewrite app_length.
  rewrite Z.min_l by lia. apply Nat2Z.id.
Qed.

(* ---- round trip --------------------------------------------------------------------------------- *)
Lemma dec_n_enc f (e : schema) :
  (forall v r, wt e v = true -> (need e v <= f)%nat -> dec f e (enc e v ++ r) = Some (v, r)) ->
  forall l r, forallb (wt e) l = true -> (list_max (map (need e) l) <= f)%nat ->
  dec_n (dec f e) (length l) (flat_map (enc e) l ++ r) = Some (l, r).
Proof.
  intros IH. induction l as [|v l IHl]; intros r Hl Hm; cbn [length dec_n flat_map]; [reflexivity|].
  cbn [forallb] in Hl. apply andb_true_iff in Hl. destruct Hl as [Hv Hl].
  cbn [map] in Hm. rewrite list_max_cons in Hm.
  rewrite <- app_assoc. rewrite IH by (try exact Hv; lia). rewrite IHl by (try exact Hl; lia). reflexivity.
Qed.

Theorem roundtrip : forall fuel s v r,
  wt s v = true -> (need s v <= fuel)%nat -> dec fuel s (enc s v ++ r) = Some (v, r).
Proof.
  induction fuel as [|f IH]; intros s v r Hwt Hn.
  { destruct s, v; cbn [Codec.need] in Hn; try lia; destruct (lookup _ _); lia. }
  destruct s as [| | | | |lo hi s| |c e|n e|a b|tbl|];
    try (destruct v as [x| | | | |]; try (cbn [Codec.wt] in Hwt; discriminate);
         rewrite wt_int in Hwt; rewrite enc_int; cbn [Codec.dec];
         destruct (int_width _) as [w|] eqn:Hw; [|discriminate];
         rewrite (dec_int_enc _ w x r Hw Hwt); reflexivity).
  - (* SUnit *) destruct v; cbn [Codec.wt] in Hwt; try discriminate. reflexivity.
  - (* SSeq *)
    destruct v as [| |l| | |]; cbn [Codec.wt] in Hwt; try discriminate.
    destruct (int_width c) as [w|] eqn:Hw; [|discriminate].
    apply andb_true_iff in Hwt. destruct Hwt as [Hc Hl].
    cbn [Codec.need] in Hn. cbn [Codec.enc Codec.dec]. rewrite Hw, <- app_assoc.
    rewrite (dec_int_enc c w _ _ Hw Hc). rewrite clamp_exact by exact Hl.
    rewrite (dec_n_enc f e (fun v r => IH e v r) l r Hl) by lia.
    rewrite Z.eqb_refl. reflexivity.
  - (* SArr *)
    destruct v as [| |l| | |]; cbn [Codec.wt] in Hwt; try discriminate.
    apply andb_true_iff in Hwt. destruct Hwt as [Hlen Hl]. apply Nat.eqb_eq in Hlen. subst n.
    cbn [Codec.need] in Hn. cbn [Codec.enc Codec.dec].
    rewrite (dec_n_enc f e (fun v r => IH e v r) l r Hl) by lia. reflexivity.
  - (* SPair *)
    destruct v as [| | |x y| |]; cbn [Codec.wt] in Hwt; try discriminate.
    apply andb_true_iff in Hwt. destruct Hwt as [Hx Hy]. cbn [Codec.need] in Hn.
    cbn [Codec.enc Codec.dec]. rewrite <- app_assoc.
    rewrite IH by (try exact Hx; lia). rewrite IH by (try exact Hy; lia). reflexivity.
  - (* STag *)
    destruct v as [| | | |t x|]; cbn [Codec.wt] in Hwt; try discriminate.
    cbn [Codec.need] in Hn. cbn [Codec.enc].
    destruct (lookup t tbl) as [s'|] eqn:Hlk; [|discriminate].
    apply andb_true_iff in Hwt. destruct Hwt as [Ht Hx].
    cbn [app Codec.dec]. rewrite Ht, Hlk. rewrite IH by (try exact Hx; lia). reflexivity.
  - (* SVar *)
    destruct v as [| | | | |x]; cbn [Codec.wt] in Hwt; try discriminate.
    cbn [Codec.need] in Hn. cbn [Codec.enc Codec.dec]. rewrite IH by (try exact Hwt; lia). reflexivity.
Qed.

(* ---- what is accepted is a well-typed value in its unique encoding ----------------------------- *)
Lemma dec_n_inv f (e : schema) :
  (forall bs v r, dec f e bs = Some (v, r) -> wt e v = true /\ bs = enc e v ++ r /\ (need e v <= f)%nat) ->
  forall n bs vs r, dec_n (dec f e) n bs = Some (vs, r) ->
  length vs = n /\ forallb (wt e) vs = true /\ bs = flat_map (enc e) vs ++ r /\
  (list_max (map (need e) vs) <= f)%nat.
Proof.
  intros IH. induction n as [|n IHn]; intros bs vs r H; cbn [dec_n] in H.
  - inversion H; subst. cbn. repeat split; lia.
  - destruct (dec f e bs) as [[v t]|] eqn:E; [|discriminate].
    destruct (dec_n (dec f e) n t) as [[vs' r']|] eqn:E2; [|discriminate].
    inversion H; subst. destruct (IH _ _ _ E) as [Hv [-> Hnv]].
    destruct (IHn _ _ _ E2) as [Hl [Hw [-> Hm]]].
    cbn [length forallb flat_map map]. rewrite list_max_cons, Hl, Hv, Hw, <- app_assoc.
    repeat split; try reflexivity. lia.
Qed.

Theorem accepted_is_canonical : forall fuel s bs v r,
  dec fuel s bs = Some (v, r) -> wt s v = true /\ bs = enc s v ++ r /\ (need s v <= fuel)%nat.
Proof.
  induction fuel as [|f IH]; intros s bs v r H; [discriminate|].
  destruct s as [| | | | |lo hi s| |c e|n e|a b|tbl|];
    try (cbn [Codec.dec] in H; destruct (dec_int _ bs) as [[x t]|] eqn:E; [|discriminate];
         inversion H; subst; apply dec_int_inv in E; destruct E as [w [Hw [Hok ->]]];
         rewrite wt_int, enc_int, Hw; cbn [Codec.need]; repeat split; [exact Hok | lia]).
  - (* SUnit *) cbn [Codec.dec] in H. inversion H; subst. cbn. repeat split; lia.
  - (* SSeq *)
    cbn [Codec.dec] in H. destruct (dec_int c bs) as [[n t]|] eqn:E; [|discriminate].
    destruct (dec_n (dec f e) (clamp e n t) t) as [[vs r']|] eqn:E2; [|discriminate].
    destruct (Z.of_nat (length vs) =? n) eqn:En; [|discriminate]. apply Z.eqb_eq in En.
    inversion H; subst. apply dec_int_inv in E. destruct E as [w [Hw [Hok ->]]].
    destruct (dec_n_inv f e (fun bs v r => IH e bs v r) _ _ _ _ E2) as [Hl [Hwt [-> Hm]]].
    cbn [Codec.wt Codec.enc Codec.need]. rewrite Hw, Hok, Hwt, <- app_assoc. repeat split. lia.
  - (* SArr *)
    cbn [Codec.dec] in H. destruct (dec_n (dec f e) n bs) as [[vs r']|] eqn:E2; [|discriminate].
    inversion H; subst.
    destruct (dec_n_inv f e (fun bs v r => IH e bs v r) _ _ _ _ E2) as [Hl [Hwt [-> Hm]]].
    cbn [Codec.wt Codec.enc Codec.need]. rewrite Hl, Nat.eqb_refl, Hwt. repeat split. lia.
  - (* SPair *)
    cbn [Codec.dec] in H. destruct (dec f a bs) as [[x t]|] eqn:E; [|discriminate].
    destruct (dec f b t) as [[y r']|] eqn:E2; [|discriminate]. inversion H; subst.
    destruct (IH _ _ _ _ E) as [Hx [-> Hnx]]. destruct (IH _ _ _ _ E2) as [Hy [-> Hny]].
    cbn [Codec.wt Codec.enc Codec.need]. rewrite Hx, Hy, <- app_assoc. repeat split. lia.
  - (* STag *)
    cbn [Codec.dec] in H. destruct bs as [|t bs]; [discriminate|].
    destruct (is_byte t) eqn:Ht; [|discriminate].
    destruct (lookup t tbl) as [s'|] eqn:Hlk; [|discriminate].
    destruct (dec f s' bs) as [[x r']|] eqn:E; [|discriminate]. inversion H; subst.
    destruct (IH _ _ _ _ E) as [Hx [-> Hnx]].
    cbn [Codec.wt Codec.enc Codec.need]. rewrite Hlk, Ht, Hx. repeat split. lia.
  - (* SVar *)
    cbn [Codec.dec] in H. destruct (dec f rec bs) as [[x r']|] eqn:E; [|discriminate]. inversion H; subst.
    destruct (IH _ _ _ _ E) as [Hx [-> Hnx]].
    cbn [Codec.wt Codec.enc Codec.need]. repeat split; [exact Hx | lia].
Qed.

(* C19: any accepted value re-serialises to bytes that decode to an equal value, nothing left *)
Corollary reencode : forall fuel s bs v r,
  dec fuel s bs = Some (v, r) -> dec fuel s (enc s v) = Some (v, []).
Proof.
  intros fuel s bs v r H. destruct (accepted_is_canonical fuel s bs v r H) as [Hwt [_ Hn]].
  rewrite <- (app_nil_r (enc s v)). apply roundtrip; assumption.
Qed.

(* more fuel never changes an answer *)
Corollary dec_fuel_mono : forall f f' s bs v r,
  dec f s bs = Some (v, r) -> (f <= f')%nat -> dec f' s bs = Some (v, r).
Proof.
  intros f f' s bs v r H Hf. destruct (accepted_is_canonical f s bs v r H) as [Hwt [-> Hn]].
  apply roundtrip; [exact Hwt | lia].
Qed.

(* the decoder consumes a prefix *)
Corollary dec_prefix : forall fuel s bs v r, dec fuel s bs = Some (v, r) -> exists h, bs = h ++ r.
Proof. intros fuel s bs v r H. destruct (accepted_is_canonical fuel s bs v r H) as [_ [-> _]]. eauto. Qed.

End Props.

(* Byte formats of the VM's data containers as schemas (core/src/stack/{inputs,outputs}.rs,
   core/src/program/{mod,info}.rs), with the validation StackOutputs applies on top of the codec. *)
From Coq Require Import ZArith List Bool Arith Lia.
From MV Require Import Base.Field Serde.Codec Serde.CodecProps.
Import ListNotations.
Open Scope Z_scope.

Definition S_stack_inputs : schema := SSeq SU32 SFelt.
Definition S_digest : schema := SArr 4 SFelt.
Definition S_kernel : schema := SSeq SU16 S_digest.
Definition S_program_info : schema := SPair S_digest S_kernel.
Definition S_stack_outputs_raw : schema := SPair (SSeq SU32 SU64) (SSeq SU32 SU64).

(* none of these formats is recursive; eight units of fuel cover their height *)
Definition dfuel : nat := 8.
Notation enc := (Codec.enc SUnit).
Notation wt := (Codec.wt SUnit).
Definition dec (s : schema) (bs : list byte) := Codec.dec SUnit dfuel s bs.

Definition ints (l : list Z) : value := VList (map VN l).
Fixpoint unints (l : list value) : option (list Z) :=
  match l with
  | [] => Some []
  | VN x :: r => match unints r with Some t => Some (x :: t) | None => None end
  | _ => None
  end.

Lemma unints_ints l : unints (map VN l) = Some l.
Proof. induction l as [|x l IH]; cbn; [reflexivity | rewrite IH; reflexivity]. Qed.

(* StackOutputs::new: at most 65535 elements, every element and address canonical, the stack
   padded with zeros to 16, and (depth - 15) overflow addresses when deeper than 16 *)
Definition pad16 (l : list Z) : list Z := l ++ repeat 0 (16 - length l).

Definition so_new (stack addrs : list Z) : option (list Z * list Z) :=
  if 65535 <? Z.of_nat (length stack) then None
  else if negb (forallb (fun x => (0 <=? x) && (x <? P)) stack) then None
  else if negb (forallb (fun x => (0 <=? x) && (x <? P)) addrs) then None
  else
    let st := pad16 stack in
    let want := if Nat.ltb 16 (length st) then (length st + 1 - 16)%nat else O in
    if Nat.eqb (length addrs) want then Some (st, addrs) else None.

Definition so_enc (so : list Z * list Z) : list byte :=
  enc S_stack_outputs_raw (VPair (ints (fst so)) (ints (snd so))).

Definition so_dec (bs : list byte) : option ((list Z * list Z) * list byte) :=
  match dec S_stack_outputs_raw bs with
  | Some (VPair (VList a) (VList b), r) =>
      match unints a, unints b with
      | Some st, Some ad => match so_new st ad with Some so => Some (so, r) | None => None end
      | _, _ => None
      end
  | _ => None
  end.

Lemma pad16_idem l : pad16 (pad16 l) = pad16 l.
Proof.
  unfold pad16. rewrite app_length, repeat_length.
  replace (16 - (length l + (16 - length l)))%nat with O by lia. cbn. apply app_nil_r.
Qed.

Lemma forallb_pad16 f l : f 0 = true -> forallb f l = true -> forallb f (pad16 l) = true.
Proof.
  intros H0 Hl. unfold pad16. rewrite forallb_app, Hl. cbn [andb].
  generalize (16 - length l)%nat. intros n. induction n as [|n IH]; cbn [repeat forallb]; [reflexivity|].
  rewrite H0. exact IH.
Qed.

(* what the constructor returns is a fixed point of the constructor *)
Lemma so_new_idem st ad st' ad' : so_new st ad = Some (st', ad') -> so_new st' ad' = Some (st', ad').
Proof.
  unfold so_new. destruct (65535 <? Z.of_nat (length st)) eqn:E1; [discriminate|].
  destruct (forallb _ st) eqn:E2; cbn [negb]; [|discriminate].
  destruct (forallb _ ad) eqn:E3; cbn [negb]; [|discriminate].
  destruct (Nat.eqb (length ad) _) eqn:E4; [|discriminate].
  intros H. inversion H; subst. clear H.
  apply Z.ltb_ge in E1.
  assert (L : Z.of_nat (length (pad16 st)) <= 65535) by (unfold pad16; rewrite app_length, repeat_length; lia).
  replace (65535 <? Z.of_nat (length (pad16 st))) with false by (symmetry; apply Z.ltb_ge; exact L).
  rewrite forallb_pad16 by (try reflexivity; exact E2). rewrite E3. cbn [negb].
  rewrite pad16_idem, E4. reflexivity.
Qed.

Lemma wt_ints_u64 l : forallb (fun x => (0 <=? x) && (x <? P)) l = true ->
  forallb (wt SU64) (map VN l) = true.
Proof.
  induction l as [|x l IH]; cbn [forallb map]; [reflexivity|]. intros H.
  apply andb_true_iff in H. destruct H as [Hx Hl]. rewrite IH by exact Hl. rewrite andb_true_r.
  cbn [wt int_ok]. apply andb_true_iff in Hx. destruct Hx as [A B]. apply Z.leb_le in A. apply Z.ltb_lt in B.
  apply andb_true_iff. split; [apply Z.leb_le | apply Z.ltb_lt]; unfold P in *; lia.
Qed.

Lemma wt_seq32_unfold vs :
  wt (SSeq SU32 SU64) (VList vs) = int_ok SU32 (Z.of_nat (length vs)) && forallb (wt SU64) vs.
Proof. reflexivity. Qed.

Lemma wt_seq32 l :
  Z.of_nat (length l) < 4294967296 -> forallb (fun x => (0 <=? x) && (x <? P)) l = true ->
  wt (SSeq SU32 SU64) (ints l) = true.
Proof.
  intros Hl Hf. unfold ints. rewrite wt_seq32_unfold, map_length, wt_ints_u64 by exact Hf.
  rewrite andb_true_r. unfold int_ok. apply andb_true_iff. split; [apply Z.leb_le | apply Z.ltb_lt]; lia.
Qed.

Lemma wt_pair_unfold a b x y : wt (SPair a b) (VPair x y) = wt a x && wt b y.
Proof. reflexivity. Qed.

Lemma need_ints s l : (Codec.need SUnit (SSeq s SU64) (ints l) <= 2)%nat.
Proof.
  unfold ints. cbn [Codec.need]. apply le_n_S. apply list_max_le.
  apply Forall_forall. intros k Hk. apply in_map_iff in Hk. destruct Hk as [v [<- Hv]].
  apply in_map_iff in Hv. destruct Hv as [x [<- _]]. cbn. lia.
Qed.

Lemma need_so a b : (Codec.need SUnit S_stack_outputs_raw (VPair (ints a) (ints b)) <= dfuel)%nat.
Proof.
  unfold S_stack_outputs_raw, dfuel. cbn [Codec.need].
  pose proof (need_ints SU32 a). pose proof (need_ints SU32 b). lia.
Qed.

(* what the constructor returns is well typed for the raw codec *)
Lemma so_new_wt st ad st' ad' :
  so_new st ad = Some (st', ad') -> wt S_stack_outputs_raw (VPair (ints st') (ints ad')) = true.
Proof.
  intros En. unfold so_new in En. destruct (65535 <? Z.of_nat (length st)) eqn:E1; [discriminate|].
  destruct (forallb _ st) eqn:E2; cbn [negb] in En; [|discriminate].
  destruct (forallb _ ad) eqn:E3; cbn [negb] in En; [|discriminate].
  destruct (Nat.eqb (length ad) _) eqn:E4; [|discriminate]. inversion En; subst. clear En.
  apply Z.ltb_ge in E1. apply Nat.eqb_eq in E4.
  assert (L : Z.of_nat (length (pad16 st)) <= 65535) by (unfold pad16; rewrite app_length, repeat_length; lia).
  unfold S_stack_outputs_raw. rewrite wt_pair_unfold.
  rewrite (wt_seq32 (pad16 st)); [| lia | apply forallb_pad16; [reflexivity | exact E2]].
  rewrite (wt_seq32 ad'); [reflexivity | | exact E3].
  rewrite E4. destruct (Nat.ltb 16 (length (pad16 st))); lia.
Qed.

(* C10 for StackOutputs: what the constructor builds survives serialisation *)
Theorem so_roundtrip st ad so r : so_new st ad = Some so -> so_dec (so_enc so ++ r) = Some (so, r).
Proof.
  destruct so as [st' ad']. intros En. pose proof (so_new_wt _ _ _ _ En) as Hwt.
  pose proof (so_new_idem _ _ _ _ En) as Hid.
  unfold so_dec, so_enc. cbn [fst snd]. unfold dec. rewrite roundtrip by (try exact Hwt; apply need_so).
  unfold ints. rewrite !unints_ints. rewrite Hid. reflexivity.
Qed.

(* C19 for StackOutputs: whatever is accepted re-serialises to bytes that decode to an equal value *)
Theorem so_reencode bs so r : so_dec bs = Some (so, r) -> so_dec (so_enc so) = Some (so, []).
Proof.
  unfold so_dec at 1. destruct (dec S_stack_outputs_raw bs) as [[v t]|] eqn:E; [|discriminate].
  destruct v as [| | |a b| |]; try discriminate. destruct a as [| |a| | |]; try discriminate.
  destruct b as [| |b| | |]; try discriminate.
  destruct (unints a) as [st|] eqn:Ea; [|discriminate]. destruct (unints b) as [ad|] eqn:Eb; [|discriminate].
  destruct (so_new st ad) as [so'|] eqn:En; [|discriminate].
  intros H. inversion H; subst. clear H.
  rewrite <- (app_nil_r (so_enc so)). eapply so_roundtrip. exact En.
Qed.

(* the constructors that take integers reject anything that is not a canonical field element *)
Definition canonical (x : Z) : bool := (0 <=? x) && (x <? P).
Definition si_try (l : list Z) : option (list Z) := if forallb canonical l then Some l else None.

Theorem so_new_rejects_noncanonical st ad x :
  In x st \/ In x ad -> canonical x = false -> so_new st ad = None.
Proof.
  intros Hin Hx. unfold so_new. destruct (65535 <? Z.of_nat (length st)); [reflexivity|].
  destruct (forallb _ st) eqn:E2; cbn [negb]; [|reflexivity].
  destruct (forallb _ ad) eqn:E3; cbn [negb]; [|reflexivity].
  exfalso. destruct Hin as [Hin|Hin].
  - rewrite forallb_forall in E2. specialize (E2 x Hin). unfold canonical in Hx. congruence.
  - rewrite forallb_forall in E3. specialize (E3 x Hin). unfold canonical in Hx. congruence.
Qed.

Theorem si_try_rejects_noncanonical l x : In x l -> canonical x = false -> si_try l = None.
Proof.
  intros Hin Hx. unfold si_try. destruct (forallb canonical l) eqn:E; [|reflexivity].
  rewrite forallb_forall in E. specialize (E x Hin). congruence.
Qed.

(* the decoders of the plain containers, with everything the codec proves about them *)
Theorem data_roundtrip s v r : wt s v = true -> (Codec.need SUnit s v <= dfuel)%nat ->
  dec s (enc s v ++ r) = Some (v, r).
Proof. intros. unfold dec. apply roundtrip; assumption. Qed.

Theorem data_reencode s bs v r : dec s bs = Some (v, r) ->
  wt s v = true /\ bs = enc s v ++ r /\ dec s (enc s v) = Some (v, []).
Proof.
  unfold dec. intros H. destruct (accepted_is_canonical SUnit dfuel s bs v r H) as [Hwt [Hbs Hn]].
  split; [exact Hwt|]. split; [exact Hbs|]. eapply reencode. exact H.
Qed.

(* non-vacuity: a kernel with two procedures, stack inputs, stack outputs with an overflow address *)
Example kernel_sample_ok :
  wt S_kernel (VList [VList [VN 1; VN 2; VN 3; VN 4]; VList [VN 5; VN 6; VN 7; VN (P - 1)]]) = true /\
  so_new [1; 2; 3] [] <> None /\
  so_new [1;2;3;4;5;6;7;8;9;10;11;12;13;14;15;16;17] [5; 6] <> None.
Proof. vm_compute. repeat split; discriminate. Qed.

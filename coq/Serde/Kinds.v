(* The decoders of the serialisable kinds as the correspondence check runs them: decode with the
   reader-side tables, re-encode with the writer-side tables. *)
From Coq Require Import ZArith List Bool Arith Lia String.
From MV Require Import Base.Field Serde.Codec Serde.Containers Gen.SerdeGen Serde.Ast.
Import ListNotations.
Open Scope Z_scope.
Open Scope list_scope.

(* one level of node nesting costs four units of fuel and at least three bytes *)
Definition fuel_for (bs : list byte) : nat := (4 * List.length bs + 64)%nat.

Definition ast_decode (s : schema) (bs : list byte) : option (value * list byte) :=
  Codec.dec S_node (fuel_for bs) s bs.
Definition ast_encode (s : schema) (v : value) : list byte := Codec.enc S_node_w s v.

(* number of source locations a library's modules have places for: per procedure its start and
   one per body node plus the closing one *)
Definition proc_loc_count (p : value) : nat :=
  match p with
  | VPair _ (VPair _ (VPair _ (VPair _ (VList nodes)))) => (2 + List.length nodes)%nat
  | _ => O
  end.
Definition module_loc_count (m : value) : nat :=
  match m with
  | VPair _ (VPair _ (VPair _ (VPair _ (VList procs)))) => fold_right (fun p n => (proc_loc_count p + n)%nat) O procs
  | _ => O
  end.
Definition lib_loc_count (v : value) : nat :=
  match v with
  | VPair _ (VPair _ (VPair _ (VPair (VList mods) _))) => fold_right (fun m n => (module_loc_count m + n)%nat) O mods
  | _ => O
  end.
Definition lib_has_locs (v : value) : bool :=
  match v with
  | VPair _ (VPair _ (VPair _ (VPair _ (VN 1)))) => true
  | _ => false
  end.

Definition lib_decode (bs : list byte) : option ((value * value) * list byte) :=
  match ast_decode S_lib_head bs with
  | Some (h, r) =>
      if lib_has_locs h then
        match Codec.dec SUnit 3 (SArr (lib_loc_count h) S_loc) r with
        | Some (l, r') => Some ((h, l), r')
        | None => None
        end
      else Some ((h, VList []), r)
  | None => None
  end.
Definition lib_encode (hl : value * value) : list byte :=
  ast_encode S_lib_head (fst hl) ++
  (if lib_has_locs (fst hl) then Codec.enc SUnit (SArr (lib_loc_count (fst hl)) S_loc) (snd hl) else []).

(* kind -> bytes -> re-encoding of the accepted value *)
Definition model_decode (kind : string) (bs : list byte) : option (list byte) :=
  if String.eqb kind "prog" then
    match ast_decode S_program bs with Some (v, _) => Some (ast_encode S_program v) | None => None end
  else if String.eqb kind "mod" then
    match ast_decode S_module bs with Some (v, _) => Some (ast_encode S_module v) | None => None end
  else if String.eqb kind "lib" then
    match lib_decode bs with Some (hl, _) => Some (lib_encode hl) | None => None end
  else if String.eqb kind "si" then
    match Containers.dec S_stack_inputs bs with Some (v, _) => Some (Codec.enc SUnit S_stack_inputs v) | None => None end
  else if String.eqb kind "so" then
    match so_dec bs with Some (so, _) => Some (so_enc so) | None => None end
  else if String.eqb kind "kern" then
    match Containers.dec S_kernel bs with Some (v, _) => Some (Codec.enc SUnit S_kernel v) | None => None end
  else if String.eqb kind "pinfo" then
    match Containers.dec S_program_info bs with Some (v, _) => Some (Codec.enc SUnit S_program_info v) | None => None end
  else None.

(* Advice-stack operations of the interpreter: what is popped, where it lands, and the link
   between an advice pop and a push of the popped value (used by the hint theorems). *)
From Coq Require Import ZArith List Bool Arith Lia.
From MV Require Import Base.Field Core.Op Core.Rpo Vm.Pure Vm.State Vm.Step Vm.MemProps.
Import ListNotations.
Open Scope Z_scope.

(* popping the advice stack is pushing the popped value; the advice stack loses exactly it *)
Lemma advpop_as_push s h r :
  adv s = h :: r -> exec_op AdvPop s = Ok (set_adv (replace_top 0 [h] s) r).
Proof. intros H. cbn [exec_op]. rewrite H. reflexivity. Qed.

Lemma push_stack s v : exists s', exec_op (Push v) s = Ok s' /\ stk s' = v :: stk s /\ adv s' = adv s.
Proof. eexists. split; [reflexivity|]. split; reflexivity. Qed.

Lemma advpop_stack s h r s' :
  adv s = h :: r -> exec_op AdvPop s = Ok s' -> stk s' = h :: stk s /\ adv s' = r.
Proof.
  intros H E. rewrite (advpop_as_push s h r H) in E. inversion E; subst. clear E.
  unfold replace_top. cbn [length Nat.compare skipn app]. split; reflexivity.
Qed.

(* an empty advice stack makes the pop fail: nothing is invented *)
Lemma advpop_empty s : adv s = [] -> exists e, exec_op AdvPop s = Err e s.
Proof. intros H. cbn [exec_op]. rewrite H. eexists. reflexivity. Qed.

(* adv_loadw: the word lands with its first-popped element deepest, exactly as four single pops
   after dropping the top word would leave it *)
Lemma advpopw_stack s t0 t1 t2 t3 r s' :
  adv s = t0 :: t1 :: t2 :: t3 :: r -> exec_op AdvPopW s = Ok s' ->
  stk s' = t3 :: t2 :: t1 :: t0 :: skipn 4 (stk s) /\ adv s' = r.
Proof.
  intros H E. cbn [exec_op] in E. unfold pop_adv_word in E. rewrite H in E. inversion E; subst. clear E.
  unfold replace_top, nthw. cbn [length Nat.compare nth app]. split; reflexivity.
Qed.

(* adv_pipe: two words leave the advice stack in order; the first goes to address a, the second
   to a + 1, and both overwrite the top of the stack with the second word on top *)
Lemma pipe_effect s a0 a1 a2 a3 b0 b1 b2 b3 r s' :
  adv s = a0 :: a1 :: a2 :: a3 :: b0 :: b1 :: b2 :: b3 :: r -> exec_op Pipe s = Ok s' ->
  let a := get s 12%nat in
  adv s' = r /\
  firstn 8 (stk s') = [b3; b2; b1; b0; a3; a2; a1; a0] /\
  mem_read s' (ctx s) a = [a0; a1; a2; a3] /\
  (a + 1 <> a -> mem_read s' (ctx s) (a + 1) = [b0; b1; b2; b3]).
Proof.
  intros H E a. cbn [exec_op] in E. fold a in E.
  destruct (negb (u32max_ok a)); [discriminate|].
  destruct (negb (u32max_ok (a + 1))); [discriminate|].
  unfold pop_adv_word in E. rewrite H in E. cbn [adv set_adv] in E. inversion E; subst. clear E.
  split; [reflexivity|]. split; [reflexivity|].
  rewrite !mem_read_set_adv, !mem_read_replace_top.
  split.
  - rewrite write_other by (intros Q; inversion Q; lia). apply read_after_write.
  - intros _. apply read_after_write.
Qed.

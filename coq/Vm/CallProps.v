(* Execution contexts: what a call/syscall/dyncall leaves behind (the caller's frame), what the
   callee can see, and kernel membership. *)
From Coq Require Import ZArith List Bool Arith Lia.
From MV Require Import Base.Field Core.Op Core.Batch Core.Rpo Core.Mast Gen.ConstGen
  Vm.State Vm.Pure Vm.Step Vm.StepProps Vm.Exec.
Import ListNotations.
Open Scope Z_scope.

Lemma bind_ok {A B} (F : result A) (G : A -> result B) b :
  bind F G = Ok b -> exists a, F = Ok a /\ G a = Ok b.
Proof. unfold bind. destruct F as [a|e s]; [intros H; exists a; auto | discriminate]. Qed.

Definition frame_eq (s s' : state) : Prop :=
  saved s' = saved s /\ ctx s' = ctx s /\ fn_hash s' = fn_hash s.

Ltac fr := unfold frame_eq; cbn; repeat split; reflexivity.
Lemma frame_eq_refl s : frame_eq s s. Proof. fr. Qed.
Lemma frame_eq_trans a b c : frame_eq a b -> frame_eq b c -> frame_eq a c.
Proof. intros [A1 [A2 A3]] [B1 [B2 B3]]. repeat split; congruence. Qed.

Lemma replace_top_frame k new s : frame_eq s (replace_top k new s).
Proof.
  unfold replace_top. destruct (Nat.compare (length new) k); try fr.
  destruct (Nat.eqb (depth s) MIN_DEPTH); fr.
Qed.

Lemma lift_pure_frame s r s' : lift_pure s r = Ok s' -> frame_eq s s'.
Proof. destruct r; cbn; intros H; [apply Ok_inj in H; subst s'; fr | discriminate]. Qed.

Lemma exec_op_frame o s s' : exec_op o s = Ok s' -> frame_eq s s'.
Proof.
  intros H. destruct o; cbn [exec_op] in H; try (exact (lift_pure_frame _ _ _ H));
    repeat (first [ discriminate H | break_if H ]);
    apply Ok_inj in H; subst s';
    repeat first [ apply replace_top_frame
                 | match goal with
                   | |- frame_eq ?s (set_adv (replace_top ?k ?n ?s1) ?a) =>
                       apply frame_eq_trans with s1; [|apply (frame_eq_trans _ (replace_top k n s1)); [apply replace_top_frame | fr]]
                   | |- frame_eq ?s (set_fmp (replace_top ?k ?n ?s1) ?a) =>
                       apply frame_eq_trans with s1; [|apply (frame_eq_trans _ (replace_top k n s1)); [apply replace_top_frame | fr]]
                   | |- frame_eq ?s (replace_top ?k ?n (mem_write ?s1 ?c ?a ?w)) =>
                       apply frame_eq_trans with (mem_write s1 c a w); [fr | apply replace_top_frame]
                   end
                 | apply frame_eq_refl | fr ].
Qed.

Lemma cstep_frame m lab o s s' : cstep m lab o s = Ok s' -> frame_eq s s'.
Proof.
  unfold cstep. intros H. apply bind_ok in H. destruct H as [s1 [H1 H2]].
  apply exec_op_frame in H1. unfold advance_clock in H2.
  destruct (m <? clk (set_clk (log_op lab s1) (clk (log_op lab s1) + 1))); [discriminate|].
  apply Ok_inj in H2; subst s'. destruct H1 as [A [B C]]. unfold frame_eq; cbn; repeat split; assumption.
Qed.

Lemma csteps_frame m ops : forall s s', csteps m ops s = Ok s' -> frame_eq s s'.
Proof.
  induction ops as [|[lab o] ops IH]; intros s s' H; cbn [csteps] in H.
  - apply Ok_inj in H; subst. apply frame_eq_refl.
  - apply bind_ok in H. destruct H as [s1 [H1 H2]].
    eapply frame_eq_trans; [eapply cstep_frame; eauto | eapply IH; eauto].
Qed.

(* what a completed call leaves behind *)
Definition call_frame (s s' : state) : Prop :=
  frame_eq s s' /\ fmp s' = fmp s /\ oaddr s' = oaddr s /\
  skipn 16 (stk s') = skipn 16 (stk s).

Lemma skipn_app_exact {A} (a b : list A) n : length a = n -> skipn n (a ++ b) = b.
Proof. intros <-. rewrite skipn_app, skipn_all, Nat.sub_diag. reflexivity. Qed.

(* depth is at least 16 in every reachable state *)
Definition deep (s : state) : Prop := (16 <= length (stk s))%nat.

Section Frames.
Variable m : Z.
Variable T : list (word * block).
Variable K : list word.
Local Notation EB := (exec_block m T K).
Local Notation EL := (exec_loop m T K).
Local Notation EC := (exec_call m T K).
Local Notation ED := (exec_dyn m T K).

Definition all_frames (fuel : nat) : Prop :=
  (forall b s s', EB fuel b s = Ok s' -> frame_eq s s') /\
  (forall b s s', EL fuel b s = Ok s' -> frame_eq s s') /\
  (forall h sys s s', EC fuel h sys s = Ok s' ->
      saved s' = saved s /\ ctx s' = ctx s /\ fn_hash s' = fn_hash s /\ in_syscall s' = false /\
      fmp s' = fmp s /\
      exists s2, (length (stk s2) <= 16)%nat /\ stk s' = stk s2 ++ skipn 16 (stk s) /\
                 oaddr s' = oaddr s) /\
  (forall s s', ED fuel s = Ok s' -> frame_eq s s').

Lemma exec_all_frames : forall fuel, all_frames fuel.
Proof.
  induction fuel as [|f IH].
  - split; [|split; [|split]]; intros; discriminate.
  - destruct IH as [IHb [IHl [IHc IHd]]].
    assert (Hb : forall b s s', EB (S f) b s = Ok s' -> frame_eq s s').
    { intros b s s' H. destruct b; cbn [exec_block] in H; unfold cst in H.
      + eapply csteps_frame; eauto.
      + apply bind_ok in H; destruct H as [s1 [H1 H]].
        apply bind_ok in H; destruct H as [s2 [H2 H]].
        apply bind_ok in H; destruct H as [s3 [H3 H]].
        eapply frame_eq_trans; [eapply cstep_frame; eauto|].
        eapply frame_eq_trans; [eapply IHb; eauto|].
        eapply frame_eq_trans; [eapply IHb; eauto | eapply cstep_frame; eauto].
      + apply bind_ok in H; destruct H as [s1 [H1 H]].
        destruct (get s 0 =? 1).
        * apply bind_ok in H; destruct H as [s2 [H2 H]].
          eapply frame_eq_trans; [eapply cstep_frame; eauto|].
          eapply frame_eq_trans; [eapply IHb; eauto | eapply cstep_frame; eauto].
        * destruct (get s 0 =? 0); [|discriminate].
          apply bind_ok in H; destruct H as [s2 [H2 H]].
          eapply frame_eq_trans; [eapply cstep_frame; eauto|].
          eapply frame_eq_trans; [eapply IHb; eauto | eapply cstep_frame; eauto].
      + apply bind_ok in H; destruct H as [s1 [H1 H]].
        destruct (get s 0 =? 1).
        * apply bind_ok in H; destruct H as [s2 [H2 H]].
          eapply frame_eq_trans; [eapply cstep_frame; eauto|].
          eapply frame_eq_trans; [eapply IHb; eauto | eapply IHl; eauto].
        * destruct (get s 0 =? 0); [|discriminate].
          eapply frame_eq_trans; [eapply cstep_frame; eauto | eapply cstep_frame; eauto].
      + destruct (IHc _ _ _ _ H) as [A [B [C _]]]. unfold frame_eq; repeat split; assumption.
      + destruct (kernel_has K fn_hash); [|discriminate].
        destruct (IHc _ _ _ _ H) as [A [B [C _]]]. unfold frame_eq; repeat split; assumption.
      + eapply IHd; eauto. }
    assert (Hl : forall b s s', EL (S f) b s = Ok s' -> frame_eq s s').
    { intros b s s' H. cbn [exec_loop] in H. unfold cst in H.
      destruct (get s 0 =? 1).
      - apply bind_ok in H; destruct H as [s1 [H1 H]].
        apply bind_ok in H; destruct H as [s2 [H2 H]].
        eapply frame_eq_trans; [eapply cstep_frame; eauto|].
        eapply frame_eq_trans; [eapply IHb; eauto | eapply IHl; eauto].
      - destruct (get s 0 =? 0); [|discriminate]. eapply cstep_frame; eauto. }
    assert (Hd : forall s s', ED (S f) s = Ok s' -> frame_eq s s').
    { intros s s' H. cbn [exec_dyn] in H. unfold cst in H.
      apply bind_ok in H; destruct H as [s1 [H1 H]].
      destruct (table_get T _); [|discriminate].
      apply bind_ok in H; destruct H as [s2 [H2 H]].
      eapply frame_eq_trans; [eapply cstep_frame; eauto|].
      eapply frame_eq_trans; [eapply IHb; eauto | eapply cstep_frame; eauto]. }
    assert (Hc : forall h sys s s', EC (S f) h sys s = Ok s' ->
      saved s' = saved s /\ ctx s' = ctx s /\ fn_hash s' = fn_hash s /\ in_syscall s' = false /\
      fmp s' = fmp s /\
      exists s2, (length (stk s2) <= 16)%nat /\ stk s' = stk s2 ++ skipn 16 (stk s) /\
                 oaddr s' = oaddr s).
    { intros h sys s s' H. cbn [exec_call] in H. unfold cst in H.
      apply bind_ok in H; destruct H as [s1 [H1 H]].
      apply bind_ok in H; destruct H as [s2 [H2 H]].
      destruct (Nat.ltb 16 (depth s2)) eqn:Ed; [discriminate|].
      apply Nat.ltb_ge in Ed.
      assert (F1 : frame_eq (start_call_ctx s h sys) s1) by (eapply cstep_frame; eauto).
      assert (F2 : frame_eq s1 s2).
      { destruct (word_eqb h DYN_HASH); [eapply IHd; eauto|].
        destruct (table_get T h); [eapply IHb; eauto | discriminate]. }
      pose proof (frame_eq_trans _ _ _ F1 F2) as [S1 _]. cbn [saved start_call_ctx] in S1.
      pose proof (cstep_frame _ _ _ _ _ H) as [A [B C]].
      assert (E : restore_ctx s s2 =
                  mkState (stk s2 ++ skipn 16 (stk s)) (oaddr s) (saved s) (clk s2) (ctx s) (fmp s)
                          false (fn_hash s) (mem s2) (adv s2) (olog s2)).
      { unfold restore_ctx. rewrite S1. reflexivity. }
      rewrite E in A, B, C. cbn in A, B, C.
      (* the END row is a NOOP: stack, overflow addresses and fmp of the restored state survive *)
      unfold cstep in H. rewrite E in H. cbn [exec_op lift_pure pure_op pure_op_gen] in H.
      unfold bind, advance_clock in H. cbn in H.
      match type of H with (if ?c then _ else _) = _ => destruct c; [discriminate|] end.
      apply Ok_inj in H; subst s'. cbn.
      repeat split; try reflexivity.
      exists s2. repeat split; try exact Ed.
      unfold new_oaddr. cbn. rewrite Nat.compare_refl. reflexivity. }
    exact (conj Hb (conj Hl (conj Hc Hd))).
Qed.

(* C07: after a completed call / dyncall / syscall the caller's context id, procedure hash, free
   memory pointer, hidden overflow of outer callers, its own overflow addresses and every stack
   element below the top 16 are exactly as before; the callee returned at most 16 elements. *)
Theorem call_frame_restored fuel h sys s s' :
  EC fuel h sys s = Ok s' ->
  saved s' = saved s /\ ctx s' = ctx s /\ fn_hash s' = fn_hash s /\ in_syscall s' = false /\
  fmp s' = fmp s /\
  exists s2, (length (stk s2) <= 16)%nat /\ stk s' = stk s2 ++ skipn 16 (stk s) /\ oaddr s' = oaddr s.
Proof. destruct (exec_all_frames fuel) as [_ [_ [Hc _]]]. apply Hc. Qed.

(* a callee that ends with more than 16 elements makes the call fail *)
Theorem call_depth_on_return f h (sys : bool) s s1 s2 :
  cstep m (if sys then SysCall else Call) Noop (start_call_ctx s h sys) = Ok s1 ->
  (if word_eqb h DYN_HASH then ED f s1
   else match table_get T h with Some body => EB f body s1 | None => Err CodeBlockNotFound s1 end) = Ok s2 ->
  (16 < depth s2)%nat ->
  EC (S f) h sys s = Err (DepthOnReturn (Z.of_nat (depth s2))) s2.
Proof.
  intros H1 H2 Hd. cbn [exec_call]. unfold cst, bind. rewrite H1.
  match goal with |- match ?X with _ => _ end = _ => replace X with (@Ok state s2) by (symmetry; exact H2) end.
  apply Nat.ltb_lt in Hd. rewrite Hd. reflexivity.
Qed.

End Frames.

(* what the callee starts with: only the top 16 elements, an empty overflow, a fresh context
   id (clk + 1) and fmp = 2^30 for call; context 0 and fmp = 2^31 for syscall *)
Theorem callee_view s h :
  stk (start_call_ctx s h false) = firstn 16 (stk s) /\ oaddr (start_call_ctx s h false) = [] /\
  ctx (start_call_ctx s h false) = clk s + 1 /\ fmp (start_call_ctx s h false) = FMP_MIN /\
  fn_hash (start_call_ctx s h false) = h /\
  ctx (start_call_ctx s h true) = 0 /\ fmp (start_call_ctx s h true) = SYSCALL_FMP_MIN /\
  in_syscall (start_call_ctx s h true) = true /\ fn_hash (start_call_ctx s h true) = fn_hash s /\
  mem (start_call_ctx s h true) = mem s.
Proof. repeat split. Qed.

(* syscall reaches only kernel procedures: otherwise nothing runs *)
Theorem syscall_not_in_kernel m T K f h s :
  kernel_has K h = false -> exec_block m T K (S f) (BSysCall h) s = Err NotInKernel s.
Proof. intros H. cbn [exec_block]. rewrite H. reflexivity. Qed.

(* caller yields the hash of the calling procedure inside a syscall and fails outside *)
Theorem caller_semantics s :
  (in_syscall s = false -> exec_op Caller s = Err CallerNotInSyscall s) /\
  (in_syscall s = true ->
     exists s', exec_op Caller s = Ok s' /\
                firstn 4 (stk s') = [nthw (fn_hash s) 3; nthw (fn_hash s) 2; nthw (fn_hash s) 1; nthw (fn_hash s) 0]).
Proof.
  split; intros H; cbn [exec_op]; rewrite H; [reflexivity|].
  eexists. split; [reflexivity|]. unfold replace_top. cbn [length Nat.compare]. reflexivity.
Qed.

(* Control-flow semantics of the interpreter: SPLIT, LOOP and JOIN. *)
From Coq Require Import ZArith List Bool Arith Lia.
From MV Require Import Base.Field Core.Op Core.Batch Core.Rpo Core.Mast Gen.ConstGen
  Vm.State Vm.Pure Vm.Step Vm.StepProps Vm.Exec.
Import ListNotations.
Open Scope Z_scope.

Section Control.
Variable m : Z.
Variable T : list (word * block).
Variable K : list word.
Local Notation EB := (exec_block m T K).
Local Notation EL := (exec_loop m T K).

(* if/else: the popped value selects the branch; anything but 0/1 fails after the SPLIT row and
   neither branch runs (the error state is the state right after the condition was dropped) *)
Lemma split_true f t e s s1 :
  get s 0 = 1 -> cstep m Split Drop s = Ok s1 ->
  EB (S f) (BSplit t e) s = bind (EB f t s1) (cstep m End Noop).
Proof. intros Hc Hs. cbn [exec_block]. unfold cst. rewrite Hs, Hc. reflexivity. Qed.

Lemma split_false f t e s s1 :
  get s 0 = 0 -> cstep m Split Drop s = Ok s1 ->
  EB (S f) (BSplit t e) s = bind (EB f e s1) (cstep m End Noop).
Proof. intros Hc Hs. cbn [exec_block]. unfold cst. rewrite Hs, Hc. reflexivity. Qed.

Lemma split_nonbinary f t e s s1 :
  get s 0 <> 0 -> get s 0 <> 1 -> cstep m Split Drop s = Ok s1 ->
  EB (S f) (BSplit t e) s = Err (NotBinary (get s 0)) s1.
Proof.
  intros H0 H1 Hs. cbn [exec_block]. unfold cst. rewrite Hs. cbn [bind].
  destruct (get s 0 =? 1) eqn:E1; [apply Z.eqb_eq in E1; congruence|].
  destruct (get s 0 =? 0) eqn:E0; [apply Z.eqb_eq in E0; congruence|]. reflexivity.
Qed.

(* while: entry *)
Lemma loop_enter f body s s1 :
  get s 0 = 1 -> cstep m Loop Drop s = Ok s1 ->
  EB (S f) (BLoop body) s = bind (EB f body s1) (EL f body).
Proof. intros Hc Hs. cbn [exec_block]. unfold cst. rewrite Hs, Hc. reflexivity. Qed.

Lemma loop_skip f body s s1 :
  get s 0 = 0 -> cstep m Loop Drop s = Ok s1 ->
  EB (S f) (BLoop body) s = cstep m End Noop s1.
Proof. intros Hc Hs. cbn [exec_block]. unfold cst. rewrite Hs, Hc. reflexivity. Qed.

Lemma loop_entry_nonbinary f body s s1 :
  get s 0 <> 0 -> get s 0 <> 1 -> cstep m Loop Drop s = Ok s1 ->
  EB (S f) (BLoop body) s = Err (NotBinary (get s 0)) s1.
Proof.
  intros H0 H1 Hs. cbn [exec_block]. unfold cst. rewrite Hs. cbn [bind].
  destruct (get s 0 =? 1) eqn:E1; [apply Z.eqb_eq in E1; congruence|].
  destruct (get s 0 =? 0) eqn:E0; [apply Z.eqb_eq in E0; congruence|]. reflexivity.
Qed.

(* while: after an iteration the value on top decides: 1 repeats, 0 leaves, anything else fails *)
Lemma loop_again f body s :
  get s 0 = 1 ->
  EL (S f) body s = bind (cstep m Repeat Drop s) (fun s1 => bind (EB f body s1) (EL f body)).
Proof. intros Hc. cbn [exec_loop]. unfold cst. rewrite Hc. reflexivity. Qed.

Lemma loop_exit f body s :
  get s 0 = 0 -> EL (S f) body s = cstep m End Drop s.
Proof. intros Hc. cbn [exec_loop]. unfold cst. rewrite Hc. reflexivity. Qed.

Lemma loop_iter_nonbinary f body s :
  get s 0 <> 0 -> get s 0 <> 1 -> EL (S f) body s = Err (NotBinary (get s 0)) s.
Proof.
  intros H0 H1. cbn [exec_loop].
  destruct (get s 0 =? 1) eqn:E1; [apply Z.eqb_eq in E1; congruence|].
  destruct (get s 0 =? 0) eqn:E0; [apply Z.eqb_eq in E0; congruence|]. reflexivity.
Qed.

(* join: first child, then second child, between a JOIN row and an END row *)
Lemma join_seq f x y s :
  EB (S f) (BJoin x y) s =
  bind (cstep m Join Noop s) (fun s1 => bind (EB f x s1) (fun s2 => bind (EB f y s2) (cstep m End Noop))).
Proof. reflexivity. Qed.

End Control.

(* The MAST interpreter (processor/src/lib.rs: execute_code_block and the decoder's
   start_* / end_* functions), with cycle counting.  Control rows are executed as NOOP/DROP on
   the stack, exactly as the processor does. *)
From Coq Require Import ZArith List Bool Arith Lia.
From MV Require Import Base.Field Core.Op Core.Batch Core.Rpo Core.Mast Gen.ConstGen Vm.State Vm.Step.
Import ListNotations.
Open Scope Z_scope.

(* ---- the user-operation stream of one batch (execute_op_batch) ---------------------------- *)

Record bst := mkBst { bs_opidx : nat; bs_gidx : nat; bs_next : nat }.

Fixpoint batch_stream_loop (counts : list nat) (ops : list op) (st : bst) (acc : list op)
  : list op * bst :=
  match ops with
  | [] => (acc, st)
  | o :: rest =>
      let acc1 := acc ++ [o] in
      let imm := has_imm o in
      let next1 := if imm then (bs_next st + 1)%nat else bs_next st in
      if Nat.eqb (S (bs_opidx st)) (nth (bs_gidx st) counts O) then
        let acc2 := if imm then acc1 ++ [Noop] else acc1 in
        batch_stream_loop counts rest (mkBst O next1 (next1 + 1)%nat) acc2
      else
        batch_stream_loop counts rest (mkBst (bs_opidx st + 1)%nat (bs_gidx st) next1) acc1
  end.

Definition batch_stream (b : batch) : list op :=
  let '(acc, st) := batch_stream_loop (b_counts b) (b_ops b) (mkBst O O 1%nat) [] in
  acc ++ repeat Noop (next_pow2 (b_num_groups b) - bs_gidx st).

(* SPAN row, first batch, (RESPAN row, batch)*, END row; control rows act as NOOP.
   Each entry is (operation recorded in the row, operation applied to the stack). *)
Definition user (o : op) : op * op := (o, o).
Definition span_stream (ops : list op) : list (op * op) :=
  match batch_ops ops with
  | [] => [(Span, Noop); (End, Noop)]
  | b0 :: bs => (Span, Noop) :: map user (batch_stream b0) ++
                flat_map (fun b => (Respan, Noop) :: map user (batch_stream b)) bs ++ [(End, Noop)]
  end.

(* ---- context switches --------------------------------------------------------------------- *)

Definition start_call_ctx (s : state) (h : word) (is_sys : bool) : state :=
  mkState (firstn 16 (stk s)) []
          ((skipn 16 (stk s), oaddr s) :: saved s)
          (clk s)
          (if is_sys then 0 else clk s + 1)
          (if is_sys then SYSCALL_FMP_MIN else FMP_MIN)
          (if is_sys then true else in_syscall s)
          (if is_sys then fn_hash s else h)
          (mem s) (adv s) (olog s).

Definition restore_ctx (caller s : state) : state :=
  match saved s with
  | (vals, addrs) :: rest =>
      mkState (stk s ++ vals) addrs rest (clk s) (ctx caller) (fmp caller) false (fn_hash caller)
              (mem s) (adv s) (olog s)
  | [] => s (* unreachable: every return matches a call *)
  end.

Section WithProgram.
Variable maxc : Z.
Variable table : list (word * block).
Variable kernel : list word.

Definition cst := cstep maxc.

Fixpoint exec_block (fuel : nat) (b : block) (s : state) {struct fuel} : result state :=
  match fuel with
  | O => Err OutOfFuel s
  | S f =>
    match b with
    | BSpan ops => csteps maxc (span_stream ops) s
    | BJoin x y =>
        bind (cst Join Noop s) (fun s1 =>
        bind (exec_block f x s1) (fun s2 =>
        bind (exec_block f y s2) (fun s3 => cst End Noop s3)))
    | BSplit t e =>
        let c := get s 0 in
        bind (cst Split Drop s) (fun s1 =>
        if Z.eqb c 1 then bind (exec_block f t s1) (cst End Noop)
        else if Z.eqb c 0 then bind (exec_block f e s1) (cst End Noop)
        else Err (NotBinary c) s1)
    | BLoop body =>
        let c := get s 0 in
        bind (cst Loop Drop s) (fun s1 =>
        if Z.eqb c 1 then bind (exec_block f body s1) (exec_loop f body)
        else if Z.eqb c 0 then cst End Noop s1
        else Err (NotBinary c) s1)
    | BCall h => exec_call f h false s
    | BSysCall h =>
        if kernel_has kernel h then exec_call f h true s else Err NotInKernel s
    | BDyn => exec_dyn f s
    end
  end
with exec_loop (fuel : nat) (body : block) (s : state) {struct fuel} : result state :=
  match fuel with
  | O => Err OutOfFuel s
  | S f =>
      let c := get s 0 in
      if Z.eqb c 1 then
        bind (cst Repeat Drop s) (fun s1 => bind (exec_block f body s1) (exec_loop f body))
      else if Z.eqb c 0 then cst End Drop s
      else Err (NotBinary c) s
  end
with exec_call (fuel : nat) (h : word) (is_sys : bool) (s : state) {struct fuel} : result state :=
  match fuel with
  | O => Err OutOfFuel s
  | S f =>
      bind (cst (if is_sys then SysCall else Call) Noop (start_call_ctx s h is_sys)) (fun s1 =>
      bind (if word_eqb h DYN_HASH then exec_dyn f s1
            else match table_get table h with
                 | Some body => exec_block f body s1
                 | None => Err CodeBlockNotFound s1
                 end) (fun s2 =>
      if Nat.ltb 16 (depth s2) then Err (DepthOnReturn (Z.of_nat (depth s2))) s2
      else cst End Noop (restore_ctx s s2)))
  end
with exec_dyn (fuel : nat) (s : state) {struct fuel} : result state :=
  match fuel with
  | O => Err OutOfFuel s
  | S f =>
      let h := [get s 3; get s 2; get s 1; get s 0] in
      bind (cst Dyn Noop s) (fun s1 =>
      match table_get table h with
      | Some body => bind (exec_block f body s1) (cst End Noop)
      | None => Err DynNotFound s1
      end)
  end.

End WithProgram.

Definition exec_program (fuel : nat) (maxc : Z) (p : program) (inputs advice : list Z)
  : result state :=
  exec_block maxc (p_table p) (p_kernel p) fuel (p_root p) (init_state inputs advice).

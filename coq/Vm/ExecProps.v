(* The cycle limit: behaviour of the interpreter under different limits (C15), clock
   monotonicity, and absence of fuel exhaustion. *)
From Coq Require Import ZArith List Bool Arith Lia.
From MV Require Import Base.Field Core.Op Core.Batch Core.Rpo Core.Mast Gen.ConstGen
  Vm.State Vm.Pure Vm.Step Vm.StepProps Vm.Exec.
Import ListNotations.
Open Scope Z_scope.

(* [lim c0 F]: F is a computation parameterised by the cycle limit that starts at clock c0.
   If it succeeds under some limit with final clock n then it behaves identically under every
   limit >= n, and under a limit m' with c0 <= m' < n it stops with CycleLimit m' after exactly
   m' + 1 clock increments (i.e. no cycle beyond the limit completes). *)
Definition lim (c0 : Z) (F : Z -> result state) : Prop :=
  forall m s', F m = Ok s' ->
    c0 <= clk s' /\
    forall m', (clk s' <= m' -> F m' = Ok s') /\
               (c0 <= m' < clk s' ->
                exists s2, F m' = Err (CycleLimit m') s2 /\ clk s2 = m' + 1).

Lemma lim_err c0 e s : lim c0 (fun _ => Err e s).
Proof. intros m s' H; discriminate. Qed.

Lemma lim_ok s : lim (clk s) (fun _ => Ok s).
Proof.
  intros m s' H. apply Ok_inj in H; subst s'. split; [lia|].
  intros m'; split; [reflexivity | lia].
Qed.

Lemma lim_cstep lab o s : lim (clk s) (fun m => cstep m lab o s).
Proof.
  intros m s' H. pose proof (cstep_ok _ _ _ _ _ H) as [Hc Hm]. split; [lia|].
  intros m'; split; intros Hm'.
  - eapply cstep_limit_ge; eauto.
  - exists s'. split; [eapply cstep_limit_lt; eauto; lia | lia].
Qed.
Lemma lim_step o s : lim (clk s) (fun m => step m o s).
Proof. apply lim_cstep. Qed.

Lemma lim_bind c0 F G :
  lim c0 F ->
  (forall s1, c0 <= clk s1 -> lim (clk s1) (fun m => G m s1)) ->
  lim c0 (fun m => bind (F m) (G m)).
Proof.
  intros HF HG m s' H. unfold bind in H.
  destruct (F m) as [s1|e s1] eqn:E1; [|discriminate].
  destruct (HF m s1 E1) as [Hc1 HF1].
  destruct (HG s1 Hc1 m s' H) as [Hc2 HG1].
  split; [lia|]. intros m'; split; intros Hm'.
  - unfold bind. destruct (HF1 m') as [HFa _]. rewrite HFa by lia.
    destruct (HG1 m') as [HGa _]. apply HGa. exact Hm'.
  - unfold bind. destruct (Z_le_gt_dec (clk s1) m') as [Hge|Hlt].
    + destruct (HF1 m') as [HFa _]. rewrite HFa by lia.
      destruct (HG1 m') as [_ HGb]. apply HGb. lia.
    + destruct (HF1 m') as [_ HFb]. destruct HFb as [s2 [E2 Hs2]]; [lia|].
      rewrite E2. exists s2. split; [reflexivity | exact Hs2].
Qed.

Lemma lim_steps ops : forall s, lim (clk s) (fun m => steps m ops s).
Proof.
  induction ops as [|o ops IH]; intros s; cbn [steps].
  - apply lim_ok.
  - apply lim_bind; [apply lim_step|]. intros s1 _. apply IH.
Qed.

Lemma lim_csteps ops : forall s, lim (clk s) (fun m => csteps m ops s).
Proof.
  induction ops as [|[lab o] ops IH]; intros s; cbn [csteps].
  - apply lim_ok.
  - apply lim_bind; [apply lim_cstep|]. intros s1 _. apply IH.
Qed.

Lemma restore_ctx_clk c s : clk (restore_ctx c s) = clk s.
Proof. unfold restore_ctx. destruct (saved s) as [|[v a] r]; reflexivity. Qed.

Section WithProgram.
Variable table : list (word * block).
Variable kernel : list word.

Local Notation EB m := (exec_block m table kernel).
Local Notation EL m := (exec_loop m table kernel).
Local Notation EC m := (exec_call m table kernel).
Local Notation ED m := (exec_dyn m table kernel).

Definition all_lim (fuel : nat) : Prop :=
  (forall b s, lim (clk s) (fun m => EB m fuel b s)) /\
  (forall body s, lim (clk s) (fun m => EL m fuel body s)) /\
  (forall h sys s, lim (clk s) (fun m => EC m fuel h sys s)) /\
  (forall s, lim (clk s) (fun m => ED m fuel s)).

Lemma exec_all_lim : forall fuel, all_lim fuel.
Proof.
  induction fuel as [|f IH].
  - split; [|split; [|split]]; intros; cbn; apply lim_err.
  - destruct IH as [IHb [IHl [IHc IHd]]].
    assert (Hb : forall b s, lim (clk s) (fun m => EB m (S f) b s)).
    { intros b s. destruct b; cbn [exec_block].
      + apply lim_csteps.
      + unfold cst. apply lim_bind; [apply lim_cstep|]. intros s1 _.
        apply lim_bind; [apply IHb|]. intros s2 _.
        apply lim_bind; [apply IHb|]. intros s3 _. apply lim_cstep.
      + unfold cst. apply lim_bind; [apply lim_cstep|]. intros s1 _.
        destruct (get s 0 =? 1).
        * apply lim_bind; [apply IHb|]. intros s2 _. apply lim_cstep.
        * destruct (get s 0 =? 0); [|apply lim_err].
          apply lim_bind; [apply IHb|]. intros s2 _. apply lim_cstep.
      + unfold cst. apply lim_bind; [apply lim_cstep|]. intros s1 _.
        destruct (get s 0 =? 1).
        * apply lim_bind; [apply IHb|]. intros s2 _. apply IHl.
        * destruct (get s 0 =? 0); [apply lim_cstep | apply lim_err].
      + apply IHc.
      + destruct (kernel_has kernel fn_hash); [apply IHc | apply lim_err].
      + apply IHd. }
    assert (Hl : forall body s, lim (clk s) (fun m => EL m (S f) body s)).
    { intros body s. cbn [exec_loop]. unfold cst.
      destruct (get s 0 =? 1).
      - apply lim_bind; [apply lim_cstep|]. intros s1 _.
        apply lim_bind; [apply IHb|]. intros s2 _. apply IHl.
      - destruct (get s 0 =? 0); [apply lim_cstep | apply lim_err]. }
    assert (Hc : forall h sys s, lim (clk s) (fun m => EC m (S f) h sys s)).
    { intros h sys s. cbn [exec_call]. unfold cst.
      change (clk s) with (clk (start_call_ctx s h sys)).
      apply lim_bind; [apply lim_cstep|]. intros s1 _.
      apply lim_bind.
      - destruct (word_eqb h DYN_HASH); [apply IHd|].
        destruct (table_get table h); [apply IHb | apply lim_err].
      - intros s2 _. destruct (Nat.ltb 16 (depth s2)); [apply lim_err|].
        rewrite <- (restore_ctx_clk s s2). apply lim_cstep. }
    assert (Hd : forall s, lim (clk s) (fun m => ED m (S f) s)).
    { intros s. cbn [exec_dyn]. unfold cst.
      apply lim_bind; [apply lim_cstep|]. intros s1 _.
      destruct (table_get table _); [|apply lim_err].
      apply lim_bind; [apply IHb|]. intros s2 _. apply lim_cstep. }
    exact (conj Hb (conj Hl (conj Hc Hd))).
Qed.

End WithProgram.

(* C15, first half: the cycle limit is exact. *)
Theorem exec_limit_exact fuel p inputs advice M s' :
  exec_program fuel M p inputs advice = Ok s' ->
  forall m, 0 <= m ->
    (clk s' <= m -> exec_program fuel m p inputs advice = Ok s') /\
    (m < clk s' -> exists s2, exec_program fuel m p inputs advice = Err (CycleLimit m) s2
                              /\ clk s2 = m + 1).
Proof.
  unfold exec_program. intros H m Hm.
  destruct (exec_all_lim (p_table p) (p_kernel p) fuel) as [Hb _].
  destruct (Hb (p_root p) (init_state inputs advice) M s' H) as [_ Hl].
  destruct (Hl m) as [H1 H2]. split; [exact H1|].
  intros Hlt. apply H2. cbn. lia.
Qed.

(* every successful run ends within the limit it was given, having executed at least a cycle *)
Lemma steps_clk_le m ops : forall s s', steps m ops s = Ok s' -> clk s <= clk s'.
Proof. intros s s' H. exact (proj1 (lim_steps ops s m s' H)). Qed.

(* ---- fuel is never the reason to stop: every recursive call is preceded by a cycle -------- *)

Definition safe (F : result state) : Prop := forall s1, F <> Err OutOfFuel s1.

Lemma safe_ok s : safe (Ok s). Proof. intros s1 H; discriminate. Qed.
Lemma safe_err e s : e <> OutOfFuel -> safe (Err e s).
Proof. intros He s1 H. inversion H; subst. apply He; reflexivity. Qed.

Lemma safe_bind F G :
  safe F -> (forall s1, F = Ok s1 -> safe (G s1)) -> safe (bind F G).
Proof.
  intros HF HG s1. unfold bind. destruct F as [s2|e s2] eqn:E.
  - apply HG. reflexivity.
  - apply HF.
Qed.

Lemma lift_pure_no_oof s r e s1 : lift_pure s r = Err e s1 -> e <> OutOfFuel.
Proof.
  destruct r as [l|pe]; cbn; intros H; [discriminate|]. inversion H; subst.
  destruct pe; discriminate.
Qed.

Lemma exec_op_no_oof o s e s1 : exec_op o s = Err e s1 -> e <> OutOfFuel.
Proof.
  intros H. destruct o; cbn [exec_op] in H; try (exact (lift_pure_no_oof _ _ _ _ H));
    repeat (first [ discriminate H | break_if H ]);
    inversion H; discriminate.
Qed.

Lemma safe_cstep m lab o s : safe (cstep m lab o s).
Proof.
  intros s1 H. destruct (cstep_err_cases _ _ _ _ _ _ H) as [H1|[H1 _]].
  - apply exec_op_no_oof in H1. apply H1; reflexivity.
  - discriminate.
Qed.

Lemma safe_csteps m ops : forall s, safe (csteps m ops s).
Proof.
  induction ops as [|[lab o] ops IH]; intros s; cbn [csteps]; [apply safe_ok|].
  apply safe_bind; [apply safe_cstep|]. intros s1 _. apply IH.
Qed.

Section NoOutOfFuel.
Variable m : Z.
Variable table : list (word * block).
Variable kernel : list word.

Local Notation EB := (exec_block m table kernel).
Local Notation EL := (exec_loop m table kernel).
Local Notation EC := (exec_call m table kernel).
Local Notation ED := (exec_dyn m table kernel).

Definition budget (s : state) : nat := Z.to_nat (m + 1 - clk s).

(* a call or dyn node spends one unit of fuel before its first cycle, hence the factor 2 *)
Lemma budget_step lab o s s1 (f : nat) :
  cstep m lab o s = Ok s1 -> (2 * budget s < S f)%nat -> (2 * budget s1 + 1 < f)%nat.
Proof. intros H Hb. apply cstep_ok in H. unfold budget in *. lia. Qed.

Lemma budget_mono s s' (f : nat) :
  clk s <= clk s' -> (2 * budget s + 1 < f)%nat -> (2 * budget s' + 1 < f)%nat.
Proof. unfold budget. lia. Qed.

Lemma EB_clk fuel b s s' : EB fuel b s = Ok s' -> clk s <= clk s'.
Proof.
  intros H. destruct (exec_all_lim table kernel fuel) as [Hb _]. exact (proj1 (Hb b s m s' H)).
Qed.
Lemma EL_clk fuel b s s' : EL fuel b s = Ok s' -> clk s <= clk s'.
Proof.
  intros H. destruct (exec_all_lim table kernel fuel) as [_ [Hl _]]. exact (proj1 (Hl b s m s' H)).
Qed.
Lemma ED_clk fuel s s' : ED fuel s = Ok s' -> clk s <= clk s'.
Proof.
  intros H. destruct (exec_all_lim table kernel fuel) as [_ [_ [_ Hd]]]. exact (proj1 (Hd s m s' H)).
Qed.

Definition all_safe (fuel : nat) : Prop :=
  (forall b s, (2 * budget s + 1 < fuel)%nat -> safe (EB fuel b s)) /\
  (forall body s, (2 * budget s + 1 < fuel)%nat -> safe (EL fuel body s)) /\
  (forall h sys s, (2 * budget s < fuel)%nat -> safe (EC fuel h sys s)) /\
  (forall s, (2 * budget s < fuel)%nat -> safe (ED fuel s)).

Lemma exec_all_safe : forall fuel, all_safe fuel.
Proof.
  induction fuel as [|f IH].
  - split; [|split; [|split]]; intros; lia.
  - destruct IH as [IHb [IHl [IHc IHd]]].
    assert (Hb : forall b s, (2 * budget s + 1 < S f)%nat -> safe (EB (S f) b s)).
    { intros b s Hbud. destruct b; cbn [exec_block]; unfold cst.
      + apply safe_csteps.
      + apply safe_bind; [apply safe_cstep|]. intros s1 E1.
        assert (B1 : (2 * budget s1 + 1 < f)%nat) by (apply (budget_step _ _ _ _ _ E1); lia).
        apply safe_bind; [apply IHb; exact B1|]. intros s2 E2.
        pose proof (budget_mono _ _ _ (EB_clk _ _ _ _ E2) B1) as B2.
        apply safe_bind; [apply IHb; exact B2|]. intros s3 _. apply safe_cstep.
      + apply safe_bind; [apply safe_cstep|]. intros s1 E1.
        assert (B1 : (2 * budget s1 + 1 < f)%nat) by (apply (budget_step _ _ _ _ _ E1); lia).
        destruct (get s 0 =? 1).
        * apply safe_bind; [apply IHb; exact B1|]. intros s2 _. apply safe_cstep.
        * destruct (get s 0 =? 0); [|apply safe_err; discriminate].
          apply safe_bind; [apply IHb; exact B1|]. intros s2 _. apply safe_cstep.
      + apply safe_bind; [apply safe_cstep|]. intros s1 E1.
        assert (B1 : (2 * budget s1 + 1 < f)%nat) by (apply (budget_step _ _ _ _ _ E1); lia).
        destruct (get s 0 =? 1).
        * apply safe_bind; [apply IHb; exact B1|]. intros s2 E2.
          apply IHl. exact (budget_mono _ _ _ (EB_clk _ _ _ _ E2) B1).
        * destruct (get s 0 =? 0); [apply safe_cstep | apply safe_err; discriminate].
      + apply IHc. unfold budget in *. lia.
      + destruct (kernel_has kernel fn_hash); [|apply safe_err; discriminate].
        apply IHc. unfold budget in *. lia.
      + apply IHd. unfold budget in *. lia. }
    assert (Hl : forall body s, (2 * budget s + 1 < S f)%nat -> safe (EL (S f) body s)).
    { intros body s Hbud. cbn [exec_loop]. unfold cst.
      destruct (get s 0 =? 1).
      - apply safe_bind; [apply safe_cstep|]. intros s1 E1.
        assert (B1 : (2 * budget s1 + 1 < f)%nat) by (apply (budget_step _ _ _ _ _ E1); lia).
        apply safe_bind; [apply IHb; exact B1|]. intros s2 E2.
        apply IHl. exact (budget_mono _ _ _ (EB_clk _ _ _ _ E2) B1).
      - destruct (get s 0 =? 0); [apply safe_cstep | apply safe_err; discriminate]. }
    assert (Hc : forall h sys s, (2 * budget s < S f)%nat -> safe (EC (S f) h sys s)).
    { intros h sys s Hbud. cbn [exec_call]. unfold cst.
      apply safe_bind; [apply safe_cstep|]. intros s1 E1.
      assert (B1 : (2 * budget s1 + 1 < f)%nat) by (apply (budget_step _ _ _ _ _ E1); exact Hbud).
      apply safe_bind.
      - destruct (word_eqb h DYN_HASH); [apply IHd; lia|].
        destruct (table_get table h); [apply IHb; exact B1 | apply safe_err; discriminate].
      - intros s2 _. destruct (Nat.ltb 16 (depth s2)); [apply safe_err; discriminate|].
        apply safe_cstep. }
    assert (Hd : forall s, (2 * budget s < S f)%nat -> safe (ED (S f) s)).
    { intros s Hbud. cbn [exec_dyn]. unfold cst.
      apply safe_bind; [apply safe_cstep|]. intros s1 E1.
      assert (B1 : (2 * budget s1 + 1 < f)%nat) by (apply (budget_step _ _ _ _ _ E1); lia).
      destruct (table_get table _); [|apply safe_err; discriminate].
      apply safe_bind; [apply IHb; exact B1|]. intros s2 _. apply safe_cstep. }
    exact (conj Hb (conj Hl (conj Hc Hd))).
Qed.

End NoOutOfFuel.

(* C15, second half: with fuel 2m + 4 the interpreter never runs out of fuel, i.e. every program,
   including one that loops forever, stops with a result or an error within the cycle limit. *)
Theorem exec_total p inputs advice m (fuel : nat) :
  0 <= m -> (2 * Z.to_nat (m + 1) + 1 < fuel)%nat ->
  forall s1, exec_program fuel m p inputs advice <> Err OutOfFuel s1.
Proof.
  intros Hm Hf. unfold exec_program.
  destruct (exec_all_safe m (p_table p) (p_kernel p) fuel) as [Hb _].
  apply Hb. unfold budget. cbn. lia.
Qed.

(* Growable trace columns (processor/src/system/mod.rs and stack/trace.rs:
   ensure_trace_capacity): a column is a vector that is doubled when clk + 1 reaches its length,
   and row clk + 1 is written during cycle clk.  What is recorded does not depend on the initial
   capacity (the expected-cycles hint), and no write is ever out of bounds. *)
From Coq Require Import ZArith List Bool Arith Lia.
Import ListNotations.

Fixpoint set_nth (n : nat) (x : nat) (l : list nat) : list nat :=
  match l, n with
  | [], _ => []
  | _ :: t, O => x :: t
  | h :: t, S n' => h :: set_nth n' x t
  end.

Definition ensure (clk : nat) (col : list nat) : list nat :=
  if Nat.leb (length col) (clk + 1) then col ++ repeat 0 (length col) else col.

(* one cycle: make room, then write the value of row clk + 1 *)
Definition cycle (col : list nat) (clk : nat) (v : nat) : list nat :=
  set_nth (clk + 1) v (ensure clk col).

(* run cycles 0 .. n-1 writing vs[0..n-1] into rows 1..n *)
Fixpoint run (col : list nat) (clk : nat) (vs : list nat) : list nat :=
  match vs with
  | [] => col
  | v :: rest => run (cycle col clk v) (clk + 1) rest
  end.

Lemma set_nth_length n x l : length (set_nth n x l) = length l.
Proof. revert n; induction l as [|h t IH]; intros [|n]; cbn; auto. Qed.

Lemma nth_set_nth_same n x l : n < length l -> nth n (set_nth n x l) 0 = x.
Proof. revert n; induction l as [|h t IH]; intros [|n] H; cbn in *; try lia; auto. apply IH; lia. Qed.

Lemma nth_set_nth_other n m x l : n <> m -> nth m (set_nth n x l) 0 = nth m l 0.
Proof.
  revert n m; induction l as [|h t IH]; intros [|n] [|m] H; cbn; auto; try congruence.
Qed.

Lemma ensure_length clk col : 1 <= length col -> clk < length col -> clk + 1 < length (ensure clk col).
Proof.
  intros H1 H2. unfold ensure. destruct (Nat.leb (length col) (clk + 1)) eqn:E.
  - rewrite app_length, repeat_length. apply Nat.leb_le in E. lia.
  - apply Nat.leb_gt in E. lia.
Qed.

Lemma ensure_keeps clk col i : i < length col -> nth i (ensure clk col) 0 = nth i col 0.
Proof.
  intros H. unfold ensure. destruct (Nat.leb (length col) (clk + 1)); [|reflexivity].
  apply app_nth1. exact H.
Qed.

Lemma ensure_length_ge clk col : length col <= length (ensure clk col).
Proof. unfold ensure. destruct (Nat.leb _ _); [rewrite app_length|]; lia. Qed.

(* invariant: clk < length col, i.e. the next write (row clk + 1) is in bounds after ensure *)
Lemma cycle_inv col clk v :
  1 <= length col -> clk < length col ->
  clk + 1 < length (cycle col clk v) /\
  nth (clk + 1) (cycle col clk v) 0 = v /\
  forall i, i <= clk -> nth i (cycle col clk v) 0 = nth i col 0.
Proof.
  intros H1 H2. unfold cycle. pose proof (ensure_length clk col H1 H2) as HL.
  rewrite set_nth_length. split; [exact HL|]. split.
  - apply nth_set_nth_same. exact HL.
  - intros i Hi. rewrite nth_set_nth_other by lia. apply ensure_keeps. lia.
Qed.

(* rows written by a run are exactly the values, whatever the initial capacity *)
Theorem run_rows : forall vs col clk,
  1 <= length col -> clk < length col ->
  (forall k, k < length vs -> nth (clk + 1 + k) (run col clk vs) 0 = nth k vs 0) /\
  (forall i, i <= clk -> nth i (run col clk vs) 0 = nth i col 0).
Proof.
  induction vs as [|v vs IH]; intros col clk H1 H2; cbn [run length].
  - split; [intros k Hk; lia | intros i _; reflexivity].
  - destruct (cycle_inv col clk v H1 H2) as [HL [Hv Hk]].
    assert (H1' : 1 <= length (cycle col clk v)) by lia.
    destruct (IH (cycle col clk v) (clk + 1) H1' HL) as [IH1 IH2].
    split.
    + intros [|k] Hlt.
      * rewrite Nat.add_0_r. rewrite IH2 by lia. exact Hv.
      * replace (clk + 1 + S k) with (clk + 1 + 1 + k) by lia. cbn [nth]. apply IH1. lia.
    + intros i Hi. rewrite IH2 by lia. apply Hk. exact Hi.
Qed.

(* two runs from zero-filled columns of different capacities record the same rows *)
Corollary hint_independent vs c1 c2 k :
  1 <= c1 -> 1 <= c2 -> k < length vs ->
  nth (1 + k) (run (repeat 0 c1) 0 vs) 0 = nth (1 + k) (run (repeat 0 c2) 0 vs) 0.
Proof.
  intros H1 H2 Hk.
  destruct (run_rows vs (repeat 0 c1) 0) as [A _]; rewrite ?repeat_length; try lia.
  destruct (run_rows vs (repeat 0 c2) 0) as [B _]; rewrite ?repeat_length; try lia.
  change (1 + k) with (0 + 1 + k). rewrite (A k Hk), (B k Hk). reflexivity.
Qed.

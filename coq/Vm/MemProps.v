(* Memory is zero-initialised word RAM keyed by (context, address); contexts are isolated. *)
From Coq Require Import ZArith List Bool Arith Lia.
From MV Require Import Base.Field Core.Op Core.Rpo Gen.ConstGen Vm.State Vm.Pure Vm.Step Vm.StepProps.
Import ListNotations.
Open Scope Z_scope.

Lemma key_eqb_refl k : key_eqb k k = true.
Proof. unfold key_eqb. rewrite !Z.eqb_refl. reflexivity. Qed.

Lemma key_eqb_neq c a c' a' : (c, a) <> (c', a') -> key_eqb (c, a) (c', a') = false.
Proof.
  intros H. unfold key_eqb. cbn. destruct (c =? c') eqn:E1; [|reflexivity].
  destruct (a =? a') eqn:E2; [|reflexivity].
  apply Z.eqb_eq in E1, E2. subst. congruence.
Qed.

Lemma read_fresh inputs advice c a : mem_read (init_state inputs advice) c a = ZERO_WORD.
Proof. reflexivity. Qed.

Lemma read_after_write s c a w : mem_read (mem_write s c a w) c a = w.
Proof. unfold mem_read, mem_write. cbn. rewrite key_eqb_refl. reflexivity. Qed.

Lemma write_other s c a w c' a' :
  (c, a) <> (c', a') -> mem_read (mem_write s c a w) c' a' = mem_read s c' a'.
Proof. intros H. unfold mem_read, mem_write. cbn. rewrite key_eqb_neq by exact H. reflexivity. Qed.

(* stack-only updates leave the memory alone *)
Lemma replace_top_mem k new s : mem (replace_top k new s) = mem s.
Proof.
  unfold replace_top. destruct (Nat.compare (length new) k); cbn; try reflexivity.
  destruct (Nat.eqb (depth s) MIN_DEPTH); reflexivity.
Qed.
Lemma mem_read_replace_top k new s c a : mem_read (replace_top k new s) c a = mem_read s c a.
Proof. unfold mem_read. rewrite replace_top_mem. reflexivity. Qed.
Lemma mem_read_set_adv s x c a : mem_read (set_adv s x) c a = mem_read s c a.
Proof. reflexivity. Qed.
Lemma mem_read_set_fmp s x c a : mem_read (set_fmp s x) c a = mem_read s c a.
Proof. reflexivity. Qed.

Lemma lift_pure_mem s r s' : lift_pure s r = Ok s' -> mem s' = mem s.
Proof. destruct r; cbn; intros H; [apply Ok_inj in H; subst s'; reflexivity | discriminate]. Qed.

Ltac mem_simpl :=
  repeat first [ rewrite mem_read_replace_top | rewrite mem_read_set_adv | rewrite mem_read_set_fmp ].

(* an operation only ever writes to the memory of the current context *)
Theorem exec_op_other_ctx o s s' c a :
  exec_op o s = Ok s' -> c <> ctx s -> mem_read s' c a = mem_read s c a.
Proof.
  intros H Hc.
  destruct o; cbn [exec_op] in H;
    try (unfold mem_read; rewrite (lift_pure_mem _ _ _ H); reflexivity);
    repeat (first [ discriminate H | break_if H ]);
    apply Ok_inj in H; subst s'; mem_simpl; try reflexivity;
    repeat (rewrite write_other by congruence); reflexivity.
Qed.

(* element store: only element 0 of the addressed word changes *)
Theorem mstore_element s s' :
  exec_op MStore s = Ok s' ->
  let a := get s 0 in
  let old := mem_read s (ctx s) a in
  mem_read s' (ctx s) a = [get s 1; nthw old 1; nthw old 2; nthw old 3] /\
  forall c' a', (ctx s, a) <> (c', a') -> mem_read s' c' a' = mem_read s c' a'.
Proof.
  cbn [exec_op]. destruct (negb (u32max_ok (get s 0))); [discriminate|].
  intros H. apply Ok_inj in H; subst s'. cbv zeta. split.
  - mem_simpl. apply read_after_write.
  - intros c' a' Hne. mem_simpl. apply write_other. exact Hne.
Qed.

(* word store / load round trip *)
Theorem mstorew_then_read s s' :
  exec_op MStoreW s = Ok s' ->
  mem_read s' (ctx s) (get s 0) = [get s 4; get s 3; get s 2; get s 1] /\
  forall c' a', (ctx s, get s 0) <> (c', a') -> mem_read s' c' a' = mem_read s c' a'.
Proof.
  cbn [exec_op]. destruct (negb (u32max_ok (get s 0))); [discriminate|].
  intros H. apply Ok_inj in H; subst s'. split.
  - mem_simpl. apply read_after_write.
  - intros c' a' Hne. mem_simpl. apply write_other. exact Hne.
Qed.

(* addresses of 2^32 or more fail, and nothing changes *)
Theorem addr_bound_single o s :
  In o [MLoad; MLoadW; MStore; MStoreW] -> U32MAX < get s 0 ->
  exec_op o s = Err (MemAddr (get s 0)) s.
Proof.
  intros Hin Hlt.
  assert (E : negb (u32max_ok (get s 0)) = true).
  { unfold u32max_ok. apply negb_true_iff. apply Z.leb_gt. exact Hlt. }
  cbn in Hin. destruct Hin as [<-|[<-|[<-|[<-|[]]]]]; cbn [exec_op]; rewrite E; reflexivity.
Qed.

Theorem addr_bound_double o s :
  In o [MStream; Pipe] -> U32MAX < get s 12 + 1 ->
  exists a, exec_op o s = Err (MemAddr a) s /\ U32MAX < a.
Proof.
  intros Hin Hlt.
  destruct (negb (u32max_ok (get s 12))) eqn:E1.
  - exists (get s 12). split.
    + cbn in Hin. destruct Hin as [<-|[<-|[]]]; cbn [exec_op]; rewrite E1; reflexivity.
    + unfold u32max_ok in E1. apply negb_true_iff in E1. apply Z.leb_gt in E1. exact E1.
  - assert (E2 : negb (u32max_ok (get s 12 + 1)) = true).
    { unfold u32max_ok. apply negb_true_iff. apply Z.leb_gt. exact Hlt. }
    exists (get s 12 + 1). split; [|exact Hlt].
    cbn in Hin. destruct Hin as [<-|[<-|[]]]; cbn [exec_op]; rewrite E1, E2; reflexivity.
Qed.

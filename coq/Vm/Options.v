(* ExecutionOptions::new (air/src/options.rs) *)
From Coq Require Import ZArith List Bool Lia.
From MV Require Import Gen.ConstGen.
Open Scope Z_scope.

Definition U32_MAX : Z := 4294967295.

(* u32::next_power_of_two for 0 < x <= 2^31 (larger arguments overflow in Rust) *)
Fixpoint npow2_fuel (fuel : nat) (p x : Z) : Z :=
  match fuel with
  | O => p
  | S f => if x <=? p then p else npow2_fuel f (2 * p) x
  end.
Definition next_pow2_z (x : Z) : Z := npow2_fuel 32 1 x.

(* returns Some (max_cycles, expected_cycles) or None for an error *)
Definition exec_options_new (max_cycles : option Z) (expected : Z) : option (Z * Z) :=
  let m := match max_cycles with Some m => m | None => U32_MAX end in
  if m <? MIN_TRACE_LEN then None
  else if m <? expected then None
  else Some (m, Z.max (next_pow2_z expected) MIN_TRACE_LEN).

Lemma exec_options_refused mc e :
  let m := match mc with Some m => m | None => U32_MAX end in
  exec_options_new mc e = None <-> (m < MIN_TRACE_LEN \/ m < e).
Proof.
  cbv zeta. unfold exec_options_new.
  destruct (_ <? MIN_TRACE_LEN) eqn:A; [apply Z.ltb_lt in A; split; [left; exact A | reflexivity]|].
  apply Z.ltb_ge in A.
  destruct (_ <? e) eqn:B; [apply Z.ltb_lt in B; split; [right; exact B | reflexivity]|].
  apply Z.ltb_ge in B. split; [discriminate | lia].
Qed.

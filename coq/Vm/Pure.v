(* Stack-only semantics of the operations whose effect depends on nothing but the operand stack
   (field, u32, stack manipulation, push, sdepth, assert, hperm).  [exec_op] in Step.v is defined
   through [pure_op] for these operations, so theorems about [pure_op] are theorems about the
   interpreter. *)
From Coq Require Import ZArith List Bool Arith Lia.
From MV Require Import Base.Field Core.Op Core.Rpo.
Import ListNotations.
Open Scope Z_scope.

Inductive perr : Type :=
| PDivZero | PNotBinary (v : Z) | PNotU32 (v code : Z) | PAssert (code : Z) | PImpure.

Inductive pres : Type := POk (l : list Z) | PErr (e : perr).

Lemma POk_inj a b : POk a = POk b -> a = b.
Proof. intros H. change (match POk a with POk x => x | PErr _ => a end = b). rewrite H. reflexivity. Qed.

Definition gl (l : list Z) (i : nat) : Z := nth i l 0.
Definition gls (l : list Z) (from n : nat) : list Z := map (gl l) (seq from n).

(* Replace the top k elements by `new` (|new| - k in {-1,0,1}); a ZERO enters at the bottom when
   a left shift happens at depth 16. *)
Definition replace_l (k : nat) (new : list Z) (l : list Z) : list Z :=
  let st1 := new ++ skipn k l in
  match Nat.compare (length new) k with
  | Lt => if Nat.eqb (length l) 16 then st1 ++ [0] else st1
  | _ => st1
  end.

Definition is_bin (v : Z) : bool := Z.eqb v 0 || Z.eqb v 1.
Definition hi32 (x : Z) : Z := Z.shiftr x 32.
Definition lo32 (x : Z) : Z := Z.land x U32MAX.
Definition u32max_ok (a : Z) : bool := Z.leb a U32MAX.

Definition is_pure (o : op) : bool :=
  match o with
  | FmpAdd | FmpUpdate | Caller | Clk
  | Join | Split | Loop | Call | Dyn | SysCall | Span | End | Repeat | Respan | Halt
  | AdvPop | AdvPopW | MLoadW | MStoreW | MLoad | MStore | MStream | Pipe
  | MpVerify | MrUpdate | FriE2F4 | RCombBase => false
  | _ => true
  end.

Definition pure_op_gen (R : nat -> list Z -> list Z -> list Z) (o : op) (l : list Z) : pres :=
  let g := gl l in
  match o with
  | Noop => POk l
  | Assert code => if Z.eqb (g 0%nat) 1 then POk (R 1%nat [] l) else PErr (PAssert code)
  | SDepth => POk (R 0%nat [Z.of_nat (length l)] l)
  | Add => POk (R 2%nat [fadd (g 1%nat) (g 0%nat)] l)
  | Neg => POk (R 1%nat [fneg (g 0%nat)] l)
  | Mul => POk (R 2%nat [fmul (g 1%nat) (g 0%nat)] l)
  | Inv => if Z.eqb (g 0%nat) 0 then PErr PDivZero else POk (R 1%nat [finv (g 0%nat)] l)
  | Incr => POk (R 1%nat [fadd (g 0%nat) 1] l)
  | And =>
      let b := g 0%nat in let a := g 1%nat in
      if negb (is_bin b) then PErr (PNotBinary b)
      else if negb (is_bin a) then PErr (PNotBinary a)
      else POk (R 2%nat [if Z.eqb a 1 && Z.eqb b 1 then 1 else 0] l)
  | Or =>
      let b := g 0%nat in let a := g 1%nat in
      if negb (is_bin b) then PErr (PNotBinary b)
      else if negb (is_bin a) then PErr (PNotBinary a)
      else POk (R 2%nat [if Z.eqb a 1 || Z.eqb b 1 then 1 else 0] l)
  | Not =>
      let a := g 0%nat in
      if negb (is_bin a) then PErr (PNotBinary a) else POk (R 1%nat [fsub 1 a] l)
  | OpEq => POk (R 2%nat [if Z.eqb (g 1%nat) (g 0%nat) then 1 else 0] l)
  | Eqz => POk (R 1%nat [if Z.eqb (g 0%nat) 0 then 1 else 0] l)
  | Expacc =>
      let base := g 1%nat in let acc := g 2%nat in let b := g 3%nat in
      let bit := Z.land b 1 in
      let value := if Z.eqb bit 1 then base else 1 in
      POk (R 4%nat [bit; fmul base base; fmul acc value; Z.shiftr b 1] l)
  | Ext2Mul =>
      let a0 := g 3%nat in let a1 := g 2%nat in let b0 := g 1%nat in let b1 := g 0%nat in
      POk (R 4%nat
            [b1; b0;
             fsub (fmul (fadd b0 b1) (fadd a1 a0)) (fmul b0 a0);
             fsub (fmul b0 a0) (fmul (fmul 2 b1) a1)] l)
  | U32split => let a := g 0%nat in POk (R 1%nat [hi32 a; lo32 a] l)
  | U32assert2 code =>
      let a := g 0%nat in let b := g 1%nat in
      if negb (u32max_ok a) then PErr (PNotU32 a code)
      else if negb (u32max_ok b) then PErr (PNotU32 b code)
      else POk l
  | U32add => let r := fadd (g 1%nat) (g 0%nat) in POk (R 2%nat [hi32 r; lo32 r] l)
  | U32add3 =>
      let r := felt_of_u64 (wrap64 (g 2%nat + g 1%nat + g 0%nat)) in
      POk (R 3%nat [hi32 r; lo32 r] l)
  | U32sub =>
      let r := wrap64 (g 1%nat - g 0%nat) in POk (R 2%nat [Z.shiftr r 63; lo32 r] l)
  | U32mul =>
      let r := felt_of_u64 (wrap64 (g 1%nat * g 0%nat)) in POk (R 2%nat [hi32 r; lo32 r] l)
  | U32madd =>
      let r := felt_of_u64 (wrap64 (g 1%nat * g 0%nat + g 2%nat)) in
      POk (R 3%nat [hi32 r; lo32 r] l)
  | U32div =>
      let b := g 0%nat in let a := g 1%nat in
      if Z.eqb b 0 then PErr PDivZero
      else let q := a / b in POk (R 2%nat [a - q * b; q] l)
  | U32and =>
      let b := g 0%nat in let a := g 1%nat in
      if negb (u32max_ok a) then PErr (PNotU32 a 0)
      else if negb (u32max_ok b) then PErr (PNotU32 b 0)
      else POk (R 2%nat [Z.land a b] l)
  | U32xor =>
      let b := g 0%nat in let a := g 1%nat in
      if negb (u32max_ok a) then PErr (PNotU32 a 0)
      else if negb (u32max_ok b) then PErr (PNotU32 b 0)
      else POk (R 2%nat [Z.lxor a b] l)
  | Pad => POk (R 0%nat [0] l)
  | Drop => POk (R 1%nat [] l)
  | Dup0 => POk (R 0%nat [g 0%nat] l)
  | Dup1 => POk (R 0%nat [g 1%nat] l)
  | Dup2 => POk (R 0%nat [g 2%nat] l)
  | Dup3 => POk (R 0%nat [g 3%nat] l)
  | Dup4 => POk (R 0%nat [g 4%nat] l)
  | Dup5 => POk (R 0%nat [g 5%nat] l)
  | Dup6 => POk (R 0%nat [g 6%nat] l)
  | Dup7 => POk (R 0%nat [g 7%nat] l)
  | Dup9 => POk (R 0%nat [g 9%nat] l)
  | Dup11 => POk (R 0%nat [g 11%nat] l)
  | Dup13 => POk (R 0%nat [g 13%nat] l)
  | Dup15 => POk (R 0%nat [g 15%nat] l)
  | Swap => POk (R 2%nat [g 1%nat; g 0%nat] l)
  | SwapW => POk (R 8%nat (gls l 4 4 ++ gls l 0 4) l)
  | SwapW2 => POk (R 12%nat (gls l 8 4 ++ gls l 4 4 ++ gls l 0 4) l)
  | SwapW3 => POk (R 16%nat (gls l 12 4 ++ gls l 4 4 ++ gls l 8 4 ++ gls l 0 4) l)
  | SwapDW => POk (R 16%nat (gls l 8 8 ++ gls l 0 8) l)
  | MovUp2 => POk (R 3%nat (g 2%nat :: gls l 0 2) l)
  | MovUp3 => POk (R 4%nat (g 3%nat :: gls l 0 3) l)
  | MovUp4 => POk (R 5%nat (g 4%nat :: gls l 0 4) l)
  | MovUp5 => POk (R 6%nat (g 5%nat :: gls l 0 5) l)
  | MovUp6 => POk (R 7%nat (g 6%nat :: gls l 0 6) l)
  | MovUp7 => POk (R 8%nat (g 7%nat :: gls l 0 7) l)
  | MovUp8 => POk (R 9%nat (g 8%nat :: gls l 0 8) l)
  | MovDn2 => POk (R 3%nat (gls l 1 2 ++ [g 0%nat]) l)
  | MovDn3 => POk (R 4%nat (gls l 1 3 ++ [g 0%nat]) l)
  | MovDn4 => POk (R 5%nat (gls l 1 4 ++ [g 0%nat]) l)
  | MovDn5 => POk (R 6%nat (gls l 1 5 ++ [g 0%nat]) l)
  | MovDn6 => POk (R 7%nat (gls l 1 6 ++ [g 0%nat]) l)
  | MovDn7 => POk (R 8%nat (gls l 1 7 ++ [g 0%nat]) l)
  | MovDn8 => POk (R 9%nat (gls l 1 8 ++ [g 0%nat]) l)
  | CSwap =>
      let c := g 0%nat in let b := g 1%nat in let a := g 2%nat in
      if Z.eqb c 0 then POk (R 3%nat [b; a] l)
      else if Z.eqb c 1 then POk (R 3%nat [a; b] l)
      else PErr (PNotBinary c)
  | CSwapW =>
      let c := g 0%nat in
      if Z.eqb c 0 then POk (R 9%nat (gls l 1 4 ++ gls l 5 4) l)
      else if Z.eqb c 1 then POk (R 9%nat (gls l 5 4 ++ gls l 1 4) l)
      else PErr (PNotBinary c)
  | Push v => POk (R 0%nat [v] l)
  | HPerm => POk (R 12%nat (rev (rpo_permute (rev (gls l 0 12)))) l)
  | _ => PErr PImpure
  end.

Definition pure_op : op -> list Z -> pres := pure_op_gen replace_l.

(* the same operations on the zero-extended view of the stack: no padding, no depth test *)
Definition vreplace (k : nat) (new : list Z) (l : list Z) : list Z := new ++ skipn k l.
Definition vpure_op : op -> list Z -> pres := pure_op_gen vreplace.

Fixpoint pure_ops_gen (R : nat -> list Z -> list Z -> list Z) (ops : list op) (l : list Z) : pres :=
  match ops with
  | [] => POk l
  | o :: rest => match pure_op_gen R o l with POk l' => pure_ops_gen R rest l' | PErr e => PErr e end
  end.
Definition pure_ops := pure_ops_gen replace_l.
Definition vpure_ops := pure_ops_gen vreplace.

(* depth never drops below 16 *)
Lemma replace_l_len k new l :
  (16 <= length l)%nat -> (k <= length l)%nat -> (k <= S (length new))%nat ->
  (16 <= length (replace_l k new l))%nat.
Proof.
  intros Hl Hk Hn. unfold replace_l.
  destruct (Nat.compare (length new) k) eqn:C.
  - apply Nat.compare_eq in C. rewrite app_length, skipn_length. lia.
  - apply Nat.compare_lt_iff in C.
    destruct (Nat.eqb (length l) 16) eqn:E.
    + apply Nat.eqb_eq in E. rewrite !app_length, skipn_length. cbn. lia.
    + apply Nat.eqb_neq in E. rewrite app_length, skipn_length. lia.
  - apply Nat.compare_gt_iff in C. rewrite app_length, skipn_length. lia.
Qed.

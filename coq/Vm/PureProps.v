(* The zero-extended view of the stack: [pure_op] (with the 16-element floor) simulates
   [vpure_op] (plain list surgery), and the depth never drops below 16. *)
From Coq Require Import ZArith List Bool Arith Lia.
From MV Require Import Base.Field Core.Op Core.Rpo Vm.Pure.
Import ListNotations.
Open Scope Z_scope.

Definition stack_eq (a b : list Z) : Prop := forall i, nth i a 0 = nth i b 0.

Lemma stack_eq_refl a : stack_eq a a. Proof. intros i; reflexivity. Qed.
Lemma stack_eq_sym a b : stack_eq a b -> stack_eq b a. Proof. intros H i; symmetry; apply H. Qed.
Lemma stack_eq_trans a b c : stack_eq a b -> stack_eq b c -> stack_eq a c.
Proof. intros H1 H2 i; rewrite H1; apply H2. Qed.

Lemma nth_app_zero (x : list Z) i : nth i (x ++ [0]) 0 = nth i x 0.
Proof.
  destruct (Nat.lt_ge_cases i (length x)) as [Hl|Hl].
  - apply app_nth1; exact Hl.
  - rewrite app_nth2 by exact Hl. rewrite (nth_overflow x) by exact Hl.
    destruct (i - length x)%nat as [|[|n]]; reflexivity.
Qed.

Lemma nth_skipn_z k (l : list Z) i : nth i (skipn k l) 0 = nth (k + i) l 0.
Proof.
  revert l; induction k as [|k IH]; intros l; [reflexivity|].
  destruct l as [|x l]; [destruct i; reflexivity|]. cbn. apply IH.
Qed.

Lemma stack_eq_vreplace k new l lv :
  stack_eq l lv -> stack_eq (vreplace k new l) (vreplace k new lv).
Proof.
  intros H i. unfold vreplace.
  destruct (Nat.lt_ge_cases i (length new)) as [Hl|Hl].
  - rewrite !app_nth1 by exact Hl. reflexivity.
  - rewrite !app_nth2 by exact Hl. rewrite !nth_skipn_z. apply H.
Qed.

Lemma stack_eq_replace k new l lv :
  stack_eq l lv -> stack_eq (replace_l k new l) (vreplace k new lv).
Proof.
  intros H. apply stack_eq_trans with (vreplace k new l); [|apply stack_eq_vreplace; exact H].
  intros i. unfold replace_l, vreplace.
  destruct (Nat.compare (length new) k); try reflexivity.
  destruct (Nat.eqb (length l) 16); [apply nth_app_zero | reflexivity].
Qed.

Lemma gl_ext l lv : stack_eq l lv -> forall i, gl l i = gl lv i.
Proof. intros H i. apply H. Qed.

Lemma gls_ext l lv a n : stack_eq l lv -> gls l a n = gls lv a n.
Proof. intros H. unfold gls. apply map_ext. intros i. apply H. Qed.

Definition sim_res (r rv : pres) : Prop :=
  match r, rv with
  | POk a, POk b => stack_eq a b
  | PErr e1, PErr e2 => e1 = e2
  | _, _ => False
  end.

Ltac sim_branches :=
  repeat match goal with
         | |- sim_res (if ?c then _ else _) (if ?c then _ else _) => destruct c
         | |- sim_res (POk _) (POk _) => cbn [sim_res]; apply stack_eq_replace; assumption
         | |- sim_res (PErr _) (PErr _) => reflexivity
         end.

Lemma pure_op_sim o l lv :
  o <> SDepth -> stack_eq l lv -> sim_res (pure_op o l) (vpure_op o lv).
Proof.
  intros Hsd H. pose proof (gl_ext _ _ H) as G.
  destruct o; try congruence;
    cbv beta iota zeta delta [pure_op vpure_op pure_op_gen];
    rewrite ?G, ?(gls_ext l lv _ _ H);
    sim_branches; try (cbn [sim_res]; exact H).
Qed.

Lemma pure_ops_sim ops : forall l lv,
  ~ In SDepth ops -> stack_eq l lv -> sim_res (pure_ops ops l) (vpure_ops ops lv).
Proof.
  induction ops as [|o ops IH]; intros l lv Hn H; cbn [pure_ops vpure_ops pure_ops_gen].
  - exact H.
  - assert (Ho : o <> SDepth) by (intros ->; apply Hn; left; reflexivity).
    pose proof (pure_op_sim o l lv Ho H) as S1. unfold pure_op, vpure_op in S1.
    destruct (pure_op_gen replace_l o l) as [a|e1], (pure_op_gen vreplace o lv) as [b|e2];
      cbn [sim_res] in S1; try contradiction.
    + apply IH; [intros Hi; apply Hn; right; exact Hi | exact S1].
    + subst; reflexivity.
Qed.

(* ---- depth floor ---------------------------------------------------------------------------- *)

Lemma gls_length l a n : length (gls l a n) = n.
Proof. unfold gls. rewrite map_length, seq_length. reflexivity. Qed.

Lemma pure_op_depth o l l' :
  (16 <= length l)%nat -> pure_op o l = POk l' -> (16 <= length l')%nat.
Proof.
  intros Hl. destruct o; cbv beta iota zeta delta [pure_op pure_op_gen]; intros H;
    repeat match type of H with
           | (if ?c then _ else _) = _ => destruct c
           end;
    try discriminate H;
    apply POk_inj in H; subst l'; try exact Hl;
    apply replace_l_len; try exact Hl;
    rewrite ?app_length, ?gls_length; cbn [length]; rewrite ?rev_length, ?rpo_permute_length, ?gls_length; try lia.
Qed.

Lemma pure_ops_depth ops : forall l l',
  (16 <= length l)%nat -> pure_ops ops l = POk l' -> (16 <= length l')%nat.
Proof.
  induction ops as [|o ops IH]; intros l l' Hl; cbn [pure_ops pure_ops_gen]; intros H.
  - apply POk_inj in H; subst l'. exact Hl.
  - fold (pure_op o l) in H. destruct (pure_op o l) as [a|e] eqn:E; [|discriminate].
    apply (IH a l'); [eapply pure_op_depth; eauto | exact H].
Qed.

(* ---- LIFO behaviour of the overflow ------------------------------------------------------------ *)

Lemma pure_ops_app a b l :
  pure_ops (a ++ b) l = match pure_ops a l with POk l' => pure_ops b l' | PErr e => PErr e end.
Proof.
  revert l; induction a as [|o a IH]; intros l; cbn [pure_ops pure_ops_gen app]; [reflexivity|].
  destruct (pure_op_gen replace_l o l); [apply IH | reflexivity].
Qed.

Lemma push_all xs : forall l, pure_ops (map Push xs) l = POk (rev xs ++ l).
Proof.
  induction xs as [|x xs IH]; intros l; cbn [map pure_ops pure_ops_gen]; [reflexivity|].
  change (pure_op_gen replace_l (Push x) l) with (POk (x :: l)).
  change (pure_ops (map Push xs) (x :: l) = POk (rev (x :: xs) ++ l)).
  rewrite IH. cbn [rev]. rewrite <- app_assoc. reflexivity.
Qed.

Lemma drop_all ys : forall l, (16 <= length l)%nat ->
  pure_ops (repeat Drop (length ys)) (ys ++ l) = POk l.
Proof.
  induction ys as [|y ys IH]; intros l Hl; cbn [length repeat app pure_ops pure_ops_gen]; [reflexivity|].
  assert (E : pure_op_gen replace_l Drop (y :: ys ++ l) = POk (ys ++ l)).
  { cbv beta iota zeta delta [pure_op_gen replace_l]. cbn [length app skipn Nat.compare].
    destruct (Nat.eqb (S (length (ys ++ l))) 16) eqn:E; [|reflexivity].
    apply Nat.eqb_eq in E. rewrite app_length in E. lia. }
  rewrite E. apply IH. exact Hl.
Qed.

(* elements pushed beyond position 15 come back in LIFO order, whatever their number *)
Theorem push_then_drop xs l :
  (16 <= length l)%nat ->
  pure_ops (map Push xs ++ repeat Drop (length xs)) l = POk l.
Proof.
  intros Hl. rewrite pure_ops_app, push_all. rewrite <- (rev_length xs). apply drop_all. exact Hl.
Qed.

(* VM state as the processor keeps it, reduced to what later rows depend on. *)
From Coq Require Import ZArith List Bool Arith Lia.
From MV Require Import Base.Field Core.Op Core.Rpo Gen.ConstGen.
Import ListNotations.
Open Scope Z_scope.

Inductive err : Type :=
| DivideByZero (clk : Z)
| NotBinary (v : Z)
| NotU32 (v code : Z)
| AssertFailed (code clk : Z)
| AdviceExhausted (clk : Z)
| MemAddr (a : Z)
| FmpRange (old new : Z)
| CycleLimit (m : Z)
| DepthOnReturn (d : Z)
| NotInKernel
| CallerNotInSyscall
| CodeBlockNotFound
| DynNotFound
| MerkleVerify
| HostError          (* advice map / Merkle store lookups that fail on the host side *)
| OutOfFuel
| Unsupported.

Record state := mkState {
  stk : list Z;                         (* active stack, top first; length = depth >= 16 *)
  oaddr : list Z;                       (* clk addresses of the active overflow rows, top first *)
  saved : list (list Z * list Z);       (* hidden overflow (values, addresses) of calling contexts *)
  clk : Z;
  ctx : Z;
  fmp : Z;
  in_syscall : bool;
  fn_hash : word;
  mem : list ((Z * Z) * word);          (* (ctx, addr) -> word, newest binding first *)
  adv : list Z;                         (* advice stack, top first *)
  olog : list op                        (* operation recorded in each trace row, newest first *)
}.

Inductive result (A : Type) : Type :=
| Ok (a : A)
| Err (e : err) (s : state).
Arguments Ok {A} a.
Arguments Err {A} e s.

Lemma Ok_inj {A} (a b : A) : Ok a = Ok b -> a = b.
Proof. intros H. change (match Ok a with Ok x => x | Err _ _ => a end = b). rewrite H. reflexivity. Qed.

Definition bind {A B} (r : result A) (f : A -> result B) : result B :=
  match r with Ok a => f a | Err e s => Err e s end.

Definition MIN_DEPTH : nat := 16.

Fixpoint pad_to (n : nat) (l : list Z) : list Z :=
  match n with
  | O => l
  | S n' => match l with [] => 0 :: pad_to n' [] | x :: t => x :: pad_to n' t end
  end.

(* initial state for stack inputs given top first *)
Definition init_state (inputs : list Z) (advice : list Z) : state :=
  let n := length inputs in
  let over := (n - 16)%nat in
  mkState (pad_to 16 inputs)
          (map (fun i => P - 1 - Z.of_nat i) (seq 0 over))
          [] 0 0 FMP_MIN false ZERO_WORD [] advice [].

Definition log_op (o : op) (s : state) : state :=
  mkState (stk s) (oaddr s) (saved s) (clk s) (ctx s) (fmp s) (in_syscall s) (fn_hash s) (mem s) (adv s)
          (o :: olog s).
Definition depth (s : state) : nat := length (stk s).
Definition get (s : state) (i : nat) : Z := nth i (stk s) 0.

Definition set_stack (s : state) (st : list Z) (oa : list Z) : state :=
  mkState st oa (saved s) (clk s) (ctx s) (fmp s) (in_syscall s) (fn_hash s) (mem s) (adv s) (olog s).
Definition set_fmp (s : state) (f : Z) : state :=
  mkState (stk s) (oaddr s) (saved s) (clk s) (ctx s) f (in_syscall s) (fn_hash s) (mem s) (adv s) (olog s).
Definition set_mem (s : state) (m : list ((Z * Z) * word)) : state :=
  mkState (stk s) (oaddr s) (saved s) (clk s) (ctx s) (fmp s) (in_syscall s) (fn_hash s) m (adv s) (olog s).
Definition set_adv (s : state) (a : list Z) : state :=
  mkState (stk s) (oaddr s) (saved s) (clk s) (ctx s) (fmp s) (in_syscall s) (fn_hash s) (mem s) a (olog s).
Definition set_clk (s : state) (c : Z) : state :=
  mkState (stk s) (oaddr s) (saved s) c (ctx s) (fmp s) (in_syscall s) (fn_hash s) (mem s) (adv s) (olog s).

(* Replace the top k elements by `new`.  |new| - k is -1, 0 or +1 for every operation:
   -1 is a left shift (a ZERO enters at the bottom when the depth is 16, otherwise the top
      overflow row is removed), +1 a right shift (position 15 goes to the overflow table under
      the current clock). *)
Definition replace_top (k : nat) (new : list Z) (s : state) : state :=
  let st1 := new ++ skipn k (stk s) in
  match Nat.compare (length new) k with
  | Eq => set_stack s st1 (oaddr s)
  | Lt => if Nat.eqb (depth s) MIN_DEPTH then set_stack s (st1 ++ [0]) (oaddr s)
          else set_stack s st1 (tl (oaddr s))
  | Gt => set_stack s st1 (clk s :: oaddr s)
  end.

(* memory *)
Definition key_eqb (a b : Z * Z) : bool := Z.eqb (fst a) (fst b) && Z.eqb (snd a) (snd b).
Fixpoint mem_find (m : list ((Z * Z) * word)) (k : Z * Z) : option word :=
  match m with
  | [] => None
  | (k', w) :: rest => if key_eqb k' k then Some w else mem_find rest k
  end.
Definition mem_read (s : state) (c a : Z) : word :=
  match mem_find (mem s) (c, a) with Some w => w | None => ZERO_WORD end.
Definition mem_write (s : state) (c a : Z) (w : word) : state :=
  set_mem s (((c, a), w) :: mem s).

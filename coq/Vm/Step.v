(* One VM cycle: the effect of every non-control operation (processor/src/operations/*.rs)
   followed by the clock advance with the cycle-limit check (system/mod.rs: advance_clock). *)
From Coq Require Import ZArith List Bool Arith Lia.
From MV Require Import Base.Field Core.Op Core.Rpo Gen.ConstGen Vm.State Vm.Pure.
Import ListNotations.
Open Scope Z_scope.

Definition gets (s : state) (from n : nat) : list Z := map (get s) (seq from n).

Definition nthw (w : word) (i : nat) : Z := nth i w 0.

Definition pop_adv_word (s : state) : option (word * list Z) :=
  match adv s with
  | t0 :: t1 :: t2 :: t3 :: rest => Some ([t0; t1; t2; t3], rest)
  | _ => None
  end.

Definition wrap32 (x : Z) : Z := x mod TWO32.

(* overflow addresses after a pure stack change: a right shift records the current clock, a left
   shift above depth 16 drops the top address (at depth 16 the list is empty) *)
Definition new_oaddr (s : state) (l' : list Z) : list Z :=
  match Nat.compare (length l') (length (stk s)) with
  | Gt => clk s :: oaddr s
  | Lt => tl (oaddr s)
  | Datatypes.Eq => oaddr s
  end.

Definition lift_err (e : perr) (s : state) : err :=
  match e with
  | PDivZero => DivideByZero (clk s)
  | PNotBinary v => NotBinary v
  | PNotU32 v c => NotU32 v c
  | PAssert c => AssertFailed c (clk s)
  | PImpure => Unsupported
  end.

Definition lift_pure (s : state) (r : pres) : result state :=
  match r with
  | POk l' => Ok (set_stack s l' (new_oaddr s l'))
  | PErr e => Err (lift_err e s) s
  end.

Definition exec_op (o : op) (s : state) : result state :=
  let g := get s in
  match o with
  | FmpAdd => Ok (replace_top 1 [fadd (fmp s) (g 0%nat)] s)
  | FmpUpdate =>
      let nf := fadd (fmp s) (g 0%nat) in
      if (nf <? FMP_MIN) || (3 * FMP_MIN - 1 <? nf) then Err (FmpRange (fmp s) nf) s
      else Ok (set_fmp (replace_top 1 [] s) nf)
  | Caller =>
      if in_syscall s then
        let h := fn_hash s in
        Ok (replace_top 4 [nthw h 3; nthw h 2; nthw h 1; nthw h 0] s)
      else Err CallerNotInSyscall s
  | Clk => Ok (replace_top 0 [clk s] s)
  | AdvPop =>
      match adv s with
      | v :: rest => Ok (set_adv (replace_top 0 [v] s) rest)
      | [] => Err (AdviceExhausted (clk s)) s
      end
  | AdvPopW =>
      match pop_adv_word s with
      | Some (w, rest) =>
          Ok (set_adv (replace_top 4 [nthw w 3; nthw w 2; nthw w 1; nthw w 0] s) rest)
      | None => Err (AdviceExhausted (clk s)) s
      end
  | MLoadW =>
      let a := g 0%nat in
      if negb (u32max_ok a) then Err (MemAddr a) s
      else let w := mem_read s (ctx s) a in
           Ok (replace_top 5 [nthw w 3; nthw w 2; nthw w 1; nthw w 0] s)
  | MLoad =>
      let a := g 0%nat in
      if negb (u32max_ok a) then Err (MemAddr a) s
      else let w := mem_read s (ctx s) a in Ok (replace_top 1 [nthw w 0] s)
  | MStoreW =>
      let a := g 0%nat in
      if negb (u32max_ok a) then Err (MemAddr a) s
      else let w := [g 4%nat; g 3%nat; g 2%nat; g 1%nat] in
           Ok (replace_top 1 [] (mem_write s (ctx s) a w))
  | MStore =>
      let a := g 0%nat in
      if negb (u32max_ok a) then Err (MemAddr a) s
      else let old := mem_read s (ctx s) a in
           let w := [g 1%nat; nthw old 1; nthw old 2; nthw old 3] in
           Ok (replace_top 1 [] (mem_write s (ctx s) a w))
  | MStream =>
      let a := g 12%nat in
      if negb (u32max_ok a) then Err (MemAddr a) s
      else if negb (u32max_ok (a + 1)) then Err (MemAddr (a + 1)) s
      else let w0 := mem_read s (ctx s) a in
           let w1 := mem_read s (ctx s) (a + 1) in
           Ok (replace_top 13 (rev w1 ++ rev w0 ++ gets s 8 4 ++ [a + 2]) s)
  | Pipe =>
      let a := g 12%nat in
      if negb (u32max_ok a) then Err (MemAddr a) s
      else if negb (u32max_ok (a + 1)) then Err (MemAddr (a + 1)) s
      else match pop_adv_word s with
           | None => Err (AdviceExhausted (clk s)) s
           | Some (w0, rest0) =>
             match pop_adv_word (set_adv s rest0) with
             | None => Err (AdviceExhausted (clk s)) s
             | Some (w1, rest1) =>
                 let s1 := mem_write (mem_write s (ctx s) a w0) (ctx s) (a + 1) w1 in
                 Ok (set_adv (replace_top 13 (rev w1 ++ rev w0 ++ gets s 8 4 ++ [a + 2]) s1)
                             rest1)
             end
           end
  | Join | Split | Loop | Call | Dyn | SysCall | Span | End | Repeat | Respan | Halt
  | MpVerify | MrUpdate | FriE2F4 | RCombBase => Err Unsupported s
  | _ => lift_pure s (pure_op o (stk s))
  end.

(* advance_clock: the increment happens first, then the limit test *)
Definition advance_clock (maxc : Z) (s : state) : result state :=
  let s' := set_clk s (clk s + 1) in
  if maxc <? clk s' then Err (CycleLimit maxc) s' else Ok s'.

(* one trace row: the row is labelled [lab] (a control operation for decoder rows) while the stack
   executes [o] (NOOP or DROP for control rows, the operation itself otherwise) *)
Definition cstep (maxc : Z) (lab o : op) (s : state) : result state :=
  bind (exec_op o s) (fun s1 => advance_clock maxc (log_op lab s1)).

Definition step (maxc : Z) (o : op) (s : state) : result state := cstep maxc o o s.

Fixpoint csteps (maxc : Z) (ops : list (op * op)) (s : state) : result state :=
  match ops with
  | [] => Ok s
  | (lab, o) :: rest => bind (cstep maxc lab o s) (csteps maxc rest)
  end.

Fixpoint steps (maxc : Z) (ops : list op) (s : state) : result state :=
  match ops with
  | [] => Ok s
  | o :: rest => bind (step maxc o s) (steps maxc rest)
  end.

(* One VM cycle: the effect of every non-control operation (processor/src/operations/*.rs)
   followed by the clock advance with the cycle-limit check (system/mod.rs: advance_clock). *)
From Coq Require Import ZArith List Bool Arith Lia.
From MV Require Import Base.Field Core.Op Core.Rpo Gen.ConstGen Vm.State.
Import ListNotations.
Open Scope Z_scope.

Definition is_bin (v : Z) : bool := Z.eqb v 0 || Z.eqb v 1.
Definition hi32 (x : Z) : Z := Z.shiftr x 32.
Definition lo32 (x : Z) : Z := Z.land x U32MAX.
Definition u32max_ok (a : Z) : bool := Z.leb a U32MAX.

Definition gets (s : state) (from n : nat) : list Z := map (get s) (seq from n).

Definition nthw (w : word) (i : nat) : Z := nth i w 0.

Definition pop_adv_word (s : state) : option (word * list Z) :=
  match adv s with
  | t0 :: t1 :: t2 :: t3 :: rest => Some ([t0; t1; t2; t3], rest)
  | _ => None
  end.

Definition wrap32 (x : Z) : Z := x mod TWO32.

Definition exec_op (o : op) (s : state) : result state :=
  let g := get s in
  match o with
  | Noop => Ok s
  | Assert code =>
      if Z.eqb (g 0%nat) 1 then Ok (replace_top 1 [] s) else Err (AssertFailed code (clk s)) s
  | FmpAdd => Ok (replace_top 1 [fadd (fmp s) (g 0%nat)] s)
  | FmpUpdate =>
      let nf := fadd (fmp s) (g 0%nat) in
      if (nf <? FMP_MIN) || (3 * FMP_MIN - 1 <? nf) then Err (FmpRange (fmp s) nf) s
      else Ok (set_fmp (replace_top 1 [] s) nf)
  | SDepth => Ok (replace_top 0 [Z.of_nat (depth s)] s)
  | Caller =>
      if in_syscall s then
        let h := fn_hash s in
        Ok (replace_top 4 [nthw h 3; nthw h 2; nthw h 1; nthw h 0] s)
      else Err CallerNotInSyscall s
  | Clk => Ok (replace_top 0 [clk s] s)
  | Join | Split | Loop | Call | Dyn | SysCall | Span | End | Repeat | Respan | Halt =>
      Err Unsupported s
  | Add => Ok (replace_top 2 [fadd (g 1%nat) (g 0%nat)] s)
  | Neg => Ok (replace_top 1 [fneg (g 0%nat)] s)
  | Mul => Ok (replace_top 2 [fmul (g 1%nat) (g 0%nat)] s)
  | Inv => if Z.eqb (g 0%nat) 0 then Err (DivideByZero (clk s)) s
           else Ok (replace_top 1 [finv (g 0%nat)] s)
  | Incr => Ok (replace_top 1 [fadd (g 0%nat) 1] s)
  | And =>
      let b := g 0%nat in let a := g 1%nat in
      if negb (is_bin b) then Err (NotBinary b) s
      else if negb (is_bin a) then Err (NotBinary a) s
      else Ok (replace_top 2 [if Z.eqb a 1 && Z.eqb b 1 then 1 else 0] s)
  | Or =>
      let b := g 0%nat in let a := g 1%nat in
      if negb (is_bin b) then Err (NotBinary b) s
      else if negb (is_bin a) then Err (NotBinary a) s
      else Ok (replace_top 2 [if Z.eqb a 1 || Z.eqb b 1 then 1 else 0] s)
  | Not =>
      let a := g 0%nat in
      if negb (is_bin a) then Err (NotBinary a) s
      else Ok (replace_top 1 [fsub 1 a] s)
  | OpEq => Ok (replace_top 2 [if Z.eqb (g 1%nat) (g 0%nat) then 1 else 0] s)
  | Eqz => Ok (replace_top 1 [if Z.eqb (g 0%nat) 0 then 1 else 0] s)
  | Expacc =>
      let base := g 1%nat in let acc := g 2%nat in let b := g 3%nat in
      let bit := Z.land b 1 in
      let value := if Z.eqb bit 1 then base else 1 in
      Ok (replace_top 4 [bit; fmul base base; fmul acc value; Z.shiftr b 1] s)
  | Ext2Mul =>
      let a0 := g 3%nat in let a1 := g 2%nat in let b0 := g 1%nat in let b1 := g 0%nat in
      Ok (replace_top 4
            [b1; b0;
             fsub (fmul (fadd b0 b1) (fadd a1 a0)) (fmul b0 a0);
             fsub (fmul b0 a0) (fmul (fmul 2 b1) a1)] s)
  | U32split => let a := g 0%nat in Ok (replace_top 1 [hi32 a; lo32 a] s)
  | U32assert2 code =>
      let a := g 0%nat in let b := g 1%nat in
      if negb (u32max_ok a) then Err (NotU32 a code) s
      else if negb (u32max_ok b) then Err (NotU32 b code) s
      else Ok s
  | U32add => let r := fadd (g 1%nat) (g 0%nat) in Ok (replace_top 2 [hi32 r; lo32 r] s)
  | U32add3 =>
      let r := felt_of_u64 (wrap64 (g 2%nat + g 1%nat + g 0%nat)) in
      Ok (replace_top 3 [hi32 r; lo32 r] s)
  | U32sub =>
      let r := wrap64 (g 1%nat - g 0%nat) in
      Ok (replace_top 2 [Z.shiftr r 63; lo32 r] s)
  | U32mul =>
      let r := felt_of_u64 (wrap64 (g 1%nat * g 0%nat)) in
      Ok (replace_top 2 [hi32 r; lo32 r] s)
  | U32madd =>
      let r := felt_of_u64 (wrap64 (g 1%nat * g 0%nat + g 2%nat)) in
      Ok (replace_top 3 [hi32 r; lo32 r] s)
  | U32div =>
      let b := g 0%nat in let a := g 1%nat in
      if Z.eqb b 0 then Err (DivideByZero (clk s)) s
      else let q := a / b in Ok (replace_top 2 [a - q * b; q] s)
  | U32and =>
      let b := g 0%nat in let a := g 1%nat in
      if negb (u32max_ok a) then Err (NotU32 a 0) s
      else if negb (u32max_ok b) then Err (NotU32 b 0) s
      else Ok (replace_top 2 [Z.land a b] s)
  | U32xor =>
      let b := g 0%nat in let a := g 1%nat in
      if negb (u32max_ok a) then Err (NotU32 a 0) s
      else if negb (u32max_ok b) then Err (NotU32 b 0) s
      else Ok (replace_top 2 [Z.lxor a b] s)
  | Pad => Ok (replace_top 0 [0] s)
  | Drop => Ok (replace_top 1 [] s)
  | Dup0 => Ok (replace_top 0 [g 0%nat] s)
  | Dup1 => Ok (replace_top 0 [g 1%nat] s)
  | Dup2 => Ok (replace_top 0 [g 2%nat] s)
  | Dup3 => Ok (replace_top 0 [g 3%nat] s)
  | Dup4 => Ok (replace_top 0 [g 4%nat] s)
  | Dup5 => Ok (replace_top 0 [g 5%nat] s)
  | Dup6 => Ok (replace_top 0 [g 6%nat] s)
  | Dup7 => Ok (replace_top 0 [g 7%nat] s)
  | Dup9 => Ok (replace_top 0 [g 9%nat] s)
  | Dup11 => Ok (replace_top 0 [g 11%nat] s)
  | Dup13 => Ok (replace_top 0 [g 13%nat] s)
  | Dup15 => Ok (replace_top 0 [g 15%nat] s)
  | Swap => Ok (replace_top 2 [g 1%nat; g 0%nat] s)
  | SwapW => Ok (replace_top 8 (gets s 4 4 ++ gets s 0 4) s)
  | SwapW2 => Ok (replace_top 12 (gets s 8 4 ++ gets s 4 4 ++ gets s 0 4) s)
  | SwapW3 => Ok (replace_top 16 (gets s 12 4 ++ gets s 4 4 ++ gets s 8 4 ++ gets s 0 4) s)
  | SwapDW => Ok (replace_top 16 (gets s 8 8 ++ gets s 0 8) s)
  | MovUp2 => Ok (replace_top 3 (g 2%nat :: gets s 0 2) s)
  | MovUp3 => Ok (replace_top 4 (g 3%nat :: gets s 0 3) s)
  | MovUp4 => Ok (replace_top 5 (g 4%nat :: gets s 0 4) s)
  | MovUp5 => Ok (replace_top 6 (g 5%nat :: gets s 0 5) s)
  | MovUp6 => Ok (replace_top 7 (g 6%nat :: gets s 0 6) s)
  | MovUp7 => Ok (replace_top 8 (g 7%nat :: gets s 0 7) s)
  | MovUp8 => Ok (replace_top 9 (g 8%nat :: gets s 0 8) s)
  | MovDn2 => Ok (replace_top 3 (gets s 1 2 ++ [g 0%nat]) s)
  | MovDn3 => Ok (replace_top 4 (gets s 1 3 ++ [g 0%nat]) s)
  | MovDn4 => Ok (replace_top 5 (gets s 1 4 ++ [g 0%nat]) s)
  | MovDn5 => Ok (replace_top 6 (gets s 1 5 ++ [g 0%nat]) s)
  | MovDn6 => Ok (replace_top 7 (gets s 1 6 ++ [g 0%nat]) s)
  | MovDn7 => Ok (replace_top 8 (gets s 1 7 ++ [g 0%nat]) s)
  | MovDn8 => Ok (replace_top 9 (gets s 1 8 ++ [g 0%nat]) s)
  | CSwap =>
      let c := g 0%nat in let b := g 1%nat in let a := g 2%nat in
      if Z.eqb c 0 then Ok (replace_top 3 [b; a] s)
      else if Z.eqb c 1 then Ok (replace_top 3 [a; b] s)
      else Err (NotBinary c) s
  | CSwapW =>
      let c := g 0%nat in
      if Z.eqb c 0 then Ok (replace_top 9 (gets s 1 4 ++ gets s 5 4) s)
      else if Z.eqb c 1 then Ok (replace_top 9 (gets s 5 4 ++ gets s 1 4) s)
      else Err (NotBinary c) s
  | Push v => Ok (replace_top 0 [v] s)
  | AdvPop =>
      match adv s with
      | v :: rest => Ok (set_adv (replace_top 0 [v] s) rest)
      | [] => Err (AdviceExhausted (clk s)) s
      end
  | AdvPopW =>
      match pop_adv_word s with
      | Some (w, rest) =>
          Ok (set_adv (replace_top 4 [nthw w 3; nthw w 2; nthw w 1; nthw w 0] s) rest)
      | None => Err (AdviceExhausted (clk s)) s
      end
  | MLoadW =>
      let a := g 0%nat in
      if negb (u32max_ok a) then Err (MemAddr a) s
      else let w := mem_read s (ctx s) a in
           Ok (replace_top 5 [nthw w 3; nthw w 2; nthw w 1; nthw w 0] s)
  | MLoad =>
      let a := g 0%nat in
      if negb (u32max_ok a) then Err (MemAddr a) s
      else let w := mem_read s (ctx s) a in Ok (replace_top 1 [nthw w 0] s)
  | MStoreW =>
      let a := g 0%nat in
      if negb (u32max_ok a) then Err (MemAddr a) s
      else let w := [g 4%nat; g 3%nat; g 2%nat; g 1%nat] in
           Ok (replace_top 1 [] (mem_write s (ctx s) a w))
  | MStore =>
      let a := g 0%nat in
      if negb (u32max_ok a) then Err (MemAddr a) s
      else let old := mem_read s (ctx s) a in
           let w := [g 1%nat; nthw old 1; nthw old 2; nthw old 3] in
           Ok (replace_top 1 [] (mem_write s (ctx s) a w))
  | MStream =>
      let a := g 12%nat in
      if negb (u32max_ok a) then Err (MemAddr a) s
      else let w0 := mem_read s (ctx s) a in
           let w1 := mem_read s (ctx s) (wrap32 (a + 1)) in
           Ok (replace_top 13 (rev w1 ++ rev w0 ++ gets s 8 4 ++ [wrap32 (a + 2)]) s)
  | Pipe =>
      let a := g 12%nat in
      if negb (u32max_ok a) then Err (MemAddr a) s
      else match pop_adv_word s with
           | None => Err (AdviceExhausted (clk s)) s
           | Some (w0, rest0) =>
             match pop_adv_word (set_adv s rest0) with
             | None => Err (AdviceExhausted (clk s)) s
             | Some (w1, rest1) =>
                 let s1 := mem_write (mem_write s (ctx s) a w0) (ctx s) (wrap32 (a + 1)) w1 in
                 Ok (set_adv (replace_top 13 (rev w1 ++ rev w0 ++ gets s 8 4 ++ [wrap32 (a + 2)]) s1)
                             rest1)
             end
           end
  | HPerm =>
      let out := rpo_permute (rev (gets s 0 12)) in
      Ok (replace_top 12 (rev out) s)
  | MpVerify | MrUpdate | FriE2F4 | RCombBase => Err Unsupported s
  end.

(* advance_clock: the increment happens first, then the limit test *)
Definition advance_clock (maxc : Z) (s : state) : result state :=
  let s' := set_clk s (clk s + 1) in
  if maxc <? clk s' then Err (CycleLimit maxc) s' else Ok s'.

Definition step (maxc : Z) (o : op) (s : state) : result state :=
  bind (exec_op o s) (advance_clock maxc).

Fixpoint steps (maxc : Z) (ops : list op) (s : state) : result state :=
  match ops with
  | [] => Ok s
  | o :: rest => bind (step maxc o s) (steps maxc rest)
  end.

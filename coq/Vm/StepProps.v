(* Basic facts about one VM cycle: clock bookkeeping and independence of the cycle limit. *)
From Coq Require Import ZArith List Bool Arith Lia.
From MV Require Import Base.Field Core.Op Core.Rpo Gen.ConstGen Vm.State Vm.Pure Vm.Step.
Import ListNotations.
Open Scope Z_scope.

Lemma replace_top_clk k new s : clk (replace_top k new s) = clk s.
Proof.
  unfold replace_top. destruct (Nat.compare (length new) k); cbn; try reflexivity.
  destruct (Nat.eqb (depth s) MIN_DEPTH); reflexivity.
Qed.

Lemma set_adv_clk s a : clk (set_adv s a) = clk s. Proof. reflexivity. Qed.
Lemma set_fmp_clk s a : clk (set_fmp s a) = clk s. Proof. reflexivity. Qed.
Lemma mem_write_clk s c a w : clk (mem_write s c a w) = clk s. Proof. reflexivity. Qed.

Ltac clk_simpl :=
  repeat first [ rewrite replace_top_clk | rewrite set_adv_clk | rewrite set_fmp_clk
               | rewrite mem_write_clk ].

Ltac break_if H :=
  match type of H with
  | context [if ?c then _ else _] => destruct c eqn:?
  | context [match ?c with _ => _ end] => destruct c eqn:?
  end.

Lemma lift_pure_clk s r s' : lift_pure s r = Ok s' -> clk s' = clk s.
Proof. destruct r; cbn; intros H; [apply Ok_inj in H; subst s'; reflexivity | discriminate]. Qed.

Lemma exec_op_clk o s s' : exec_op o s = Ok s' -> clk s' = clk s.
Proof.
  intros H. destruct o; cbn [exec_op] in H; try (exact (lift_pure_clk _ _ _ H));
    repeat (first [ discriminate H | break_if H ]);
    apply Ok_inj in H; subst s'; clk_simpl; reflexivity.
Qed.

Lemma cstep_ok m lab o s s' :
  cstep m lab o s = Ok s' -> clk s' = clk s + 1 /\ clk s' <= m.
Proof.
  unfold cstep, bind, advance_clock. destruct (exec_op o s) as [s1|e s1] eqn:E; [|discriminate].
  apply exec_op_clk in E. cbn [clk set_clk log_op].
  destruct (m <? clk s1 + 1) eqn:L; [discriminate|]. intros H; apply Ok_inj in H; subst s'; cbn.
  apply Z.ltb_ge in L. lia.
Qed.

(* the outcome of a cycle under another limit *)
Lemma cstep_limit_ge m m' lab o s s' :
  cstep m lab o s = Ok s' -> clk s' <= m' -> cstep m' lab o s = Ok s'.
Proof.
  unfold cstep, bind, advance_clock. destruct (exec_op o s) as [s1|e s1] eqn:E; [|discriminate].
  cbn [clk set_clk log_op]. destruct (m <? clk s1 + 1) eqn:L; [discriminate|].
  intros H; apply Ok_inj in H; subst s'; cbn [clk set_clk log_op]. intros Hle.
  destruct (m' <? clk s1 + 1) eqn:L'; [apply Z.ltb_lt in L'; lia | reflexivity].
Qed.

Lemma cstep_limit_lt m m' lab o s s' :
  cstep m lab o s = Ok s' -> m' < clk s' -> cstep m' lab o s = Err (CycleLimit m') s'.
Proof.
  unfold cstep, bind, advance_clock. destruct (exec_op o s) as [s1|e s1] eqn:E; [|discriminate].
  cbn [clk set_clk log_op]. destruct (m <? clk s1 + 1) eqn:L; [discriminate|].
  intros H; apply Ok_inj in H; subst s'; cbn [clk set_clk log_op]. intros Hlt.
  destruct (m' <? clk s1 + 1) eqn:L'; [reflexivity | apply Z.ltb_ge in L'; lia].
Qed.

(* failures of the operation itself do not depend on the limit *)
Lemma cstep_op_err m lab o s e s1 : exec_op o s = Err e s1 -> cstep m lab o s = Err e s1.
Proof. unfold cstep, bind. intros ->. reflexivity. Qed.

Lemma cstep_err_cases m lab o s e s1 :
  cstep m lab o s = Err e s1 ->
  exec_op o s = Err e s1 \/ (e = CycleLimit m /\ clk s1 = clk s + 1 /\ m < clk s1).
Proof.
  unfold cstep, bind, advance_clock. destruct (exec_op o s) as [s2|e2 s2] eqn:E.
  - apply exec_op_clk in E. cbn [clk set_clk log_op]. destruct (m <? clk s2 + 1) eqn:L; [|discriminate].
    intros H; inversion H; subst; cbn. right. apply Z.ltb_lt in L. repeat split; lia.
  - intros H; inversion H; subst. left; reflexivity.
Qed.

(* the interpreter executes pure operations through [pure_op] *)
Lemma exec_op_pure o s : is_pure o = true -> exec_op o s = lift_pure s (pure_op o (stk s)).
Proof. destruct o; intros H; try discriminate H; reflexivity. Qed.

Lemma step_ok m o s s' : step m o s = Ok s' -> clk s' = clk s + 1 /\ clk s' <= m.
Proof. apply cstep_ok. Qed.

(* The decoded operation stream: batching keeps the operation sequence, a batch is executed as
   its operations plus NOOPs only, and block starts / ends recorded in the trace are properly
   nested. *)
From Coq Require Import ZArith List Bool Arith Lia.
From MV Require Import Base.Field Core.Op Core.Batch Core.Rpo Core.Mast Gen.ConstGen
  Vm.State Vm.Pure Vm.Step Vm.StepProps Vm.Exec Vm.CallProps.
Import ListNotations.
Open Scope Z_scope.

(* ---- batching keeps the sequence ---------------------------------------------------------- *)
Lemma finalize_ops a : a_ops (finalize_group a) = a_ops a. Proof. reflexivity. Qed.

Lemma add_op_ops a o : a_ops (add_op a o) = a_ops a ++ [o].
Proof.
  unfold add_op. destruct (Nat.eqb (a_opidx a) GROUP_SIZE); destruct (imm_value o);
    cbn [a_ops]; repeat match goal with |- context [if ?c then _ else _] => destruct c end;
    reflexivity.
Qed.

Lemma batch_loop_ops : forall ops a done,
  flat_map b_ops (batch_loop ops a done) = flat_map b_ops done ++ a_ops a ++ ops.
Proof.
  induction ops as [|o ops IH]; intros a done; cbn [batch_loop].
  - destruct (a_ops a) eqn:E.
    + rewrite app_nil_r. reflexivity.
    + rewrite flat_map_app. cbn [flat_map into_batch b_ops]. rewrite E, !app_nil_r. reflexivity.
  - destruct (can_accept_op a o).
    + rewrite IH, add_op_ops, <- app_assoc. reflexivity.
    + rewrite IH, add_op_ops, flat_map_app. cbn [flat_map into_batch b_ops acc_new a_ops].
      rewrite app_nil_r, <- !app_assoc. reflexivity.
Qed.

Theorem batch_ops_concat ops : flat_map b_ops (batch_ops ops) = ops.
Proof. unfold batch_ops. rewrite batch_loop_ops. reflexivity. Qed.

(* ---- a batch is executed as its operations plus NOOPs -------------------------------------- *)
Fixpoint erase (l : list op) : list op :=
  match l with
  | [] => []
  | Noop :: r => erase r
  | o :: r => o :: erase r
  end.

Lemma erase_app a b : erase (a ++ b) = erase a ++ erase b.
Proof. induction a as [|o a IH]; [reflexivity|]. destruct o; cbn; rewrite ?IH; reflexivity. Qed.

Lemma erase_repeat_noop n : erase (repeat Noop n) = [].
Proof. induction n; [reflexivity | exact IHn]. Qed.

Lemma batch_stream_loop_erase counts : forall ops st acc,
  erase (fst (batch_stream_loop counts ops st acc)) = erase acc ++ erase ops.
Proof.
  induction ops as [|o ops IH]; intros st acc; cbn [batch_stream_loop fst].
  - rewrite app_nil_r. reflexivity.
  - destruct (Nat.eqb (S (bs_opidx st)) (nth (bs_gidx st) counts 0%nat)).
    + rewrite IH. destruct (has_imm o); rewrite !erase_app; cbn [erase]; rewrite ?app_nil_r, <- ?app_assoc;
        destruct o; reflexivity.
    + rewrite IH, erase_app, <- app_assoc. destruct o; reflexivity.
Qed.

Theorem batch_stream_only_adds_noops b : erase (batch_stream b) = erase (b_ops b).
Proof.
  unfold batch_stream.
  pose proof (batch_stream_loop_erase (b_counts b) (b_ops b) (mkBst 0 0 1) []) as H.
  destruct (batch_stream_loop (b_counts b) (b_ops b) (mkBst 0 0 1) []) as [acc st].
  cbn [fst] in H. rewrite erase_app, erase_repeat_noop, app_nil_r. exact H.
Qed.

(* the user operations recorded for a span are the span's operations, up to NOOPs *)
Definition user_labels (l : list (op * op)) : list op :=
  map fst (filter (fun p => negb (is_control (fst p))) l).

Lemma user_labels_app a b : user_labels (a ++ b) = user_labels a ++ user_labels b.
Proof. unfold user_labels. rewrite filter_app, map_app. reflexivity. Qed.

Lemma user_labels_user l : (forall o, In o l -> is_control o = false) ->
  user_labels (map user l) = l.
Proof.
  induction l as [|o l IH]; intros H; [reflexivity|].
  unfold user_labels in *. cbn [map filter user fst].
  rewrite (H o) by (left; reflexivity). cbn [negb map fst]. f_equal.
  apply IH. intros x Hx. apply H. right. exact Hx.
Qed.

(* ---- nesting -------------------------------------------------------------------------------- *)
Definition opens (o : op) : bool :=
  match o with Join | Split | Loop | Call | SysCall | Dyn | Span => true | _ => false end.
Definition closes (o : op) : bool := match o with End => true | _ => false end.

(* nesting depth after reading a label sequence; None if an END has no matching start *)
Fixpoint nest (d : nat) (l : list op) : option nat :=
  match l with
  | [] => Some d
  | o :: r => if opens o then nest (S d) r
              else if closes o then match d with O => None | S d' => nest d' r end
              else nest d r
  end.

Definition balanced (l : list op) : Prop := forall d, nest d l = Some d.

Lemma nest_app a : forall b d, nest d (a ++ b) = match nest d a with Some d' => nest d' b | None => None end.
Proof.
  induction a as [|o a IH]; intros b d; cbn [app nest]; [reflexivity|].
  destruct (opens o); [apply IH|]. destruct (closes o); [destruct d; [reflexivity | apply IH] | apply IH].
Qed.

Lemma balanced_nil : balanced []. Proof. intros d; reflexivity. Qed.
Lemma balanced_app a b : balanced a -> balanced b -> balanced (a ++ b).
Proof. intros Ha Hb d. rewrite nest_app, Ha. apply Hb. Qed.
Lemma balanced_neutral o : opens o = false -> closes o = false -> balanced [o].
Proof. intros H1 H2 d. cbn. rewrite H1, H2. reflexivity. Qed.
Lemma balanced_wrap o l : opens o = true -> balanced l -> balanced (o :: l ++ [End]).
Proof.
  intros Ho Hl d. cbn [nest]. rewrite Ho, nest_app, Hl. reflexivity.
Qed.

(* [seg s s' l]: going from s to s' appended exactly the labels l (oldest first) to the log *)
Definition seg (s s' : state) (l : list op) : Prop := olog s' = rev l ++ olog s.

Lemma seg_refl s : seg s s []. Proof. reflexivity. Qed.
Lemma seg_trans a b c l1 l2 : seg a b l1 -> seg b c l2 -> seg a c (l1 ++ l2).
Proof. unfold seg. intros H1 H2. rewrite H2, H1, rev_app_distr, app_assoc. reflexivity. Qed.

Lemma replace_top_olog k new s : olog (replace_top k new s) = olog s.
Proof.
  unfold replace_top. destruct (Nat.compare (length new) k); cbn; try reflexivity.
  destruct (Nat.eqb (depth s) MIN_DEPTH); reflexivity.
Qed.
Lemma lift_pure_olog s r s' : lift_pure s r = Ok s' -> olog s' = olog s.
Proof. destruct r; cbn; intros H; [apply Ok_inj in H; subst s'; reflexivity | discriminate]. Qed.

Lemma exec_op_olog o s s' : exec_op o s = Ok s' -> olog s' = olog s.
Proof.
  intros H. destruct o; cbn [exec_op] in H; try (exact (lift_pure_olog _ _ _ H));
    repeat (first [ discriminate H | break_if H ]);
    apply Ok_inj in H; subst s'; cbn [olog set_adv set_fmp]; rewrite ?replace_top_olog; reflexivity.
Qed.

Lemma exec_op_ok_not_control o s s' : exec_op o s = Ok s' -> is_control o = false.
Proof. intros H. destruct o; try reflexivity; cbn [exec_op] in H; discriminate H. Qed.

Lemma cstep_seg m lab o s s' : cstep m lab o s = Ok s' -> seg s s' [lab].
Proof.
  unfold cstep. intros H. apply bind_ok in H. destruct H as [s1 [H1 H2]].
  apply exec_op_olog in H1. unfold advance_clock in H2.
  destruct (m <? clk (set_clk (log_op lab s1) (clk (log_op lab s1) + 1))); [discriminate|].
  apply Ok_inj in H2; subst s'. unfold seg. cbn. rewrite H1. reflexivity.
Qed.

Lemma csteps_seg m ops : forall s s', csteps m ops s = Ok s' -> seg s s' (map fst ops).
Proof.
  induction ops as [|[lab o] ops IH]; intros s s' H; cbn [csteps] in H.
  - apply Ok_inj in H; subst. apply seg_refl.
  - apply bind_ok in H. destruct H as [s1 [H1 H2]]. cbn [map fst].
    change (lab :: map fst ops) with ([lab] ++ map fst ops).
    eapply seg_trans; [eapply cstep_seg; eauto | eapply IH; eauto].
Qed.

(* user operations that executed successfully are never control operations *)
Lemma csteps_user_ok m l : forall s s', csteps m (map user l) s = Ok s' ->
  forall o, In o l -> is_control o = false.
Proof.
  induction l as [|x l IH]; intros s s' H o Hin; [destruct Hin|].
  cbn [map csteps user] in H. apply bind_ok in H. destruct H as [s1 [H1 H2]].
  destruct Hin as [<-|Hin].
  - unfold cstep in H1. apply bind_ok in H1. destruct H1 as [s0 [H0 _]].
    eapply exec_op_ok_not_control; eauto.
  - eapply IH; eauto.
Qed.

Lemma balanced_users l : (forall o, In o l -> is_control o = false) -> balanced l.
Proof.
  induction l as [|o l IH]; intros H; [apply balanced_nil|].
  change (o :: l) with ([o] ++ l). apply balanced_app.
  - assert (Hc : is_control o = false) by (apply H; left; reflexivity).
    apply balanced_neutral; destruct o; try reflexivity; discriminate Hc.
  - apply IH. intros x Hx. apply H. right. exact Hx.
Qed.

(* ---- nesting of the whole interpreter ------------------------------------------------------- *)
Definition neutral (o : op) : Prop := opens o = false /\ closes o = false.

Lemma balanced_neutrals l : Forall neutral l -> balanced l.
Proof.
  induction l as [|o l IH]; intros H; [apply balanced_nil|].
  change (o :: l) with ([o] ++ l). inversion H; subst. apply balanced_app.
  - destruct H2. apply balanced_neutral; assumption.
  - apply IH. assumption.
Qed.

Lemma not_control_neutral o : is_control o = false -> neutral o.
Proof. intros H. destruct o; try (split; reflexivity); discriminate H. Qed.

Lemma csteps_ops_ok m l : forall s s', csteps m l s = Ok s' ->
  Forall (fun p => is_control (snd p) = false) l.
Proof.
  induction l as [|[lab o] l IH]; intros s s' H; [constructor|].
  cbn [csteps] in H. apply bind_ok in H. destruct H as [s1 [H1 H2]]. constructor.
  - unfold cstep in H1. apply bind_ok in H1. destruct H1 as [s0 [H0 _]].
    cbn. eapply exec_op_ok_not_control; eauto.
  - eapply IH; eauto.
Qed.

Definition span_mid (ops : list op) : list (op * op) :=
  match batch_ops ops with
  | [] => []
  | b0 :: bs => map user (batch_stream b0) ++
                flat_map (fun b => (Respan, Noop) :: map user (batch_stream b)) bs
  end.

Lemma span_stream_shape ops :
  span_stream ops = (Span, Noop) :: span_mid ops ++ [(End, Noop)].
Proof.
  unfold span_stream, span_mid. destruct (batch_ops ops); [reflexivity|].
  rewrite <- app_assoc. reflexivity.
Qed.

Lemma span_mid_entries ops :
  Forall (fun p => fst p = snd p \/ fst p = Respan) (span_mid ops).
Proof.
  unfold span_mid. destruct (batch_ops ops) as [|b0 bs]; [constructor|].
  apply Forall_app. split.
  - apply Forall_forall. intros p Hp. apply in_map_iff in Hp. destruct Hp as [o [<- _]]. left; reflexivity.
  - induction bs as [|b bs IH]; cbn [flat_map]; [constructor|].
    constructor; [right; reflexivity|]. apply Forall_app. split; [|exact IH].
    apply Forall_forall. intros p Hp. apply in_map_iff in Hp. destruct Hp as [o [<- _]]. left; reflexivity.
Qed.

Lemma span_labels_balanced m ops s s' :
  csteps m (span_stream ops) s = Ok s' -> balanced (map fst (span_stream ops)).
Proof.
  intros H. pose proof (csteps_ops_ok _ _ _ _ H) as Hok.
  rewrite span_stream_shape in *. cbn [map fst]. rewrite map_app. cbn [map fst].
  apply balanced_wrap; [reflexivity|]. apply balanced_neutrals.
  inversion Hok as [|x l Hx Hl]; subst.
  apply Forall_app in Hl. destruct Hl as [Hmid _].
  pose proof (span_mid_entries ops) as He.
  apply Forall_forall. intros lab Hin. apply in_map_iff in Hin. destruct Hin as [p [<- Hp]].
  rewrite Forall_forall in Hmid, He. specialize (Hmid p Hp). specialize (He p Hp).
  destruct He as [E|E].
  - rewrite E. apply not_control_neutral. exact Hmid.
  - rewrite E. split; reflexivity.
Qed.

Section Nesting.
Variable m : Z.
Variable T : list (word * block).
Variable K : list word.
Local Notation EB := (exec_block m T K).
Local Notation EL := (exec_loop m T K).
Local Notation EC := (exec_call m T K).
Local Notation ED := (exec_dyn m T K).

(* a loop continuation appends REPEAT-separated balanced pieces and the closing END *)
Definition loop_tail (l : list op) : Prop := exists l0, l = l0 ++ [End] /\ balanced l0.

Definition all_nested (fuel : nat) : Prop :=
  (forall b s s', EB fuel b s = Ok s' -> exists l, seg s s' l /\ balanced l) /\
  (forall b s s', EL fuel b s = Ok s' -> exists l, seg s s' l /\ loop_tail l) /\
  (forall h sys s s', EC fuel h sys s = Ok s' ->
     exists l, olog s' = rev l ++ olog s /\ balanced l) /\
  (forall s s', ED fuel s = Ok s' -> exists l, seg s s' l /\ balanced l).

Lemma wrap_balanced o l : opens o = true -> balanced l -> balanced ([o] ++ l ++ [End]).
Proof. intros Ho Hl. apply balanced_wrap; assumption. Qed.

Lemma exec_all_nested : forall fuel, all_nested fuel.
Proof.
  induction fuel as [|f IH].
  - split; [|split; [|split]]; intros; discriminate.
  - destruct IH as [IHb [IHl [IHc IHd]]].
    assert (Hb : forall b s s', EB (S f) b s = Ok s' -> exists l, seg s s' l /\ balanced l).
    { intros b s s' H. destruct b; cbn [exec_block] in H; unfold cst in H.
      + exists (map fst (span_stream ops)). split; [eapply csteps_seg; eauto | eapply span_labels_balanced; eauto].
      + apply bind_ok in H; destruct H as [s1 [H1 H]].
        apply bind_ok in H; destruct H as [s2 [H2 H]].
        apply bind_ok in H; destruct H as [s3 [H3 H]].
        destruct (IHb _ _ _ H2) as [l2 [S2 B2]]. destruct (IHb _ _ _ H3) as [l3 [S3 B3]].
        exists ([Join] ++ (l2 ++ l3) ++ [End]). split.
        * eapply seg_trans; [eapply cstep_seg; eauto|].
          eapply seg_trans; [eapply seg_trans; eauto | eapply cstep_seg; eauto].
        * apply wrap_balanced; [reflexivity | apply balanced_app; assumption].
      + apply bind_ok in H; destruct H as [s1 [H1 H]].
        destruct (get s 0 =? 1).
        * apply bind_ok in H; destruct H as [s2 [H2 H]]. destruct (IHb _ _ _ H2) as [l2 [S2 B2]].
          exists ([Split] ++ l2 ++ [End]). split.
          -- eapply seg_trans; [eapply cstep_seg; eauto|]. eapply seg_trans; [eauto | eapply cstep_seg; eauto].
          -- apply wrap_balanced; [reflexivity | assumption].
        * destruct (get s 0 =? 0); [|discriminate].
          apply bind_ok in H; destruct H as [s2 [H2 H]]. destruct (IHb _ _ _ H2) as [l2 [S2 B2]].
          exists ([Split] ++ l2 ++ [End]). split.
          -- eapply seg_trans; [eapply cstep_seg; eauto|]. eapply seg_trans; [eauto | eapply cstep_seg; eauto].
          -- apply wrap_balanced; [reflexivity | assumption].
      + apply bind_ok in H; destruct H as [s1 [H1 H]].
        destruct (get s 0 =? 1).
        * apply bind_ok in H; destruct H as [s2 [H2 H]]. destruct (IHb _ _ _ H2) as [l2 [S2 B2]].
          destruct (IHl _ _ _ H) as [l3 [S3 [l0 [E0 B0]]]]. subst l3.
          exists ([Loop] ++ (l2 ++ l0) ++ [End]). split.
          -- eapply seg_trans; [eapply cstep_seg; eauto|].
             rewrite <- app_assoc. eapply seg_trans; eauto.
          -- apply wrap_balanced; [reflexivity | apply balanced_app; assumption].
        * destruct (get s 0 =? 0); [|discriminate].
          exists ([Loop] ++ [] ++ [End]). split.
          -- eapply seg_trans; [eapply cstep_seg; eauto | eapply cstep_seg; eauto].
          -- apply wrap_balanced; [reflexivity | apply balanced_nil].
      + destruct (IHc _ _ _ _ H) as [l [E B]]. exists l. split; assumption.
      + destruct (kernel_has K fn_hash); [|discriminate].
        destruct (IHc _ _ _ _ H) as [l [E B]]. exists l. split; assumption.
      + eapply IHd; eauto. }
    assert (Hl : forall b s s', EL (S f) b s = Ok s' -> exists l, seg s s' l /\ loop_tail l).
    { intros b s s' H. cbn [exec_loop] in H. unfold cst in H.
      destruct (get s 0 =? 1).
      - apply bind_ok in H; destruct H as [s1 [H1 H]].
        apply bind_ok in H; destruct H as [s2 [H2 H]].
        destruct (IHb _ _ _ H2) as [l2 [S2 B2]].
        destruct (IHl _ _ _ H) as [l3 [S3 [l0 [E0 B0]]]]. subst l3.
        exists (([Repeat] ++ l2 ++ l0) ++ [End]). split.
        + rewrite <- !app_assoc. eapply seg_trans; [eapply cstep_seg; eauto|].
          eapply seg_trans; eauto.
        + exists ([Repeat] ++ l2 ++ l0). split; [reflexivity|].
          apply balanced_app; [apply balanced_neutral; reflexivity | apply balanced_app; assumption].
      - destruct (get s 0 =? 0); [|discriminate].
        exists ([] ++ [End]). split; [eapply cstep_seg; eauto|].
        exists []. split; [reflexivity | apply balanced_nil]. }
    assert (Hd : forall s s', ED (S f) s = Ok s' -> exists l, seg s s' l /\ balanced l).
    { intros s s' H. cbn [exec_dyn] in H. unfold cst in H.
      apply bind_ok in H; destruct H as [s1 [H1 H]].
      destruct (table_get T _); [|discriminate].
      apply bind_ok in H; destruct H as [s2 [H2 H]]. destruct (IHb _ _ _ H2) as [l2 [S2 B2]].
      exists ([Dyn] ++ l2 ++ [End]). split.
      - eapply seg_trans; [eapply cstep_seg; eauto|]. eapply seg_trans; [eauto | eapply cstep_seg; eauto].
      - apply wrap_balanced; [reflexivity | assumption]. }
    assert (Hc : forall h sys s s', EC (S f) h sys s = Ok s' ->
               exists l, olog s' = rev l ++ olog s /\ balanced l).
    { intros h sys s s' H. cbn [exec_call] in H. unfold cst in H.
      apply bind_ok in H; destruct H as [s1 [H1 H]].
      apply bind_ok in H; destruct H as [s2 [H2 H]].
      destruct (Nat.ltb 16 (depth s2)); [discriminate|].
      assert (B : exists l2, seg s1 s2 l2 /\ balanced l2).
      { destruct (word_eqb h DYN_HASH); [eapply IHd; eauto|].
        destruct (table_get T h); [eapply IHb; eauto | discriminate]. }
      destruct B as [l2 [S2 B2]].
      apply cstep_seg in H1. apply cstep_seg in H.
      assert (Er : olog (restore_ctx s s2) = olog s2).
      { unfold restore_ctx. destruct (saved s2) as [|[v a] r]; reflexivity. }
      exists ([if sys then SysCall else Call] ++ l2 ++ [End]). split.
      - unfold seg in *. rewrite H, Er, S2, H1. cbn [olog start_call_ctx].
        rewrite !rev_app_distr. cbn [rev app]. rewrite <- !app_assoc. reflexivity.
      - apply wrap_balanced; [destruct sys; reflexivity | assumption]. }
    exact (conj Hb (conj Hl (conj Hc Hd))).
Qed.

End Nesting.

(* C13: in every successful execution the recorded block starts and ends are properly nested:
   reading the trace's operation column from the first row, every END matches the latest open
   block and the nesting depth is back to 0 at the end. *)
Theorem stream_nested fuel m p inputs advice s' :
  exec_program fuel m p inputs advice = Ok s' -> nest 0 (rev (olog s')) = Some 0%nat.
Proof.
  unfold exec_program. intros H.
  destruct (exec_all_nested m (p_table p) (p_kernel p) fuel) as [Hb _].
  destruct (Hb _ _ _ H) as [l [S B]]. unfold seg in S. cbn [olog init_state] in S.
  rewrite app_nil_r in S. rewrite S, rev_involutive. apply B.
Qed.

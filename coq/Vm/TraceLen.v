(* Trace length (processor/src/trace/mod.rs: finalize_trace):
   len = next_power_of_two (max (clk + 1, range rows, chiplet rows) + 1): the executed cycles, one
   row for HALT (where the tables and buses updated by the last END reach their final values) and
   the random row; it does not mention the expected-cycles hint at all. *)
From Coq Require Import ZArith List Bool Arith Lia.
From MV Require Import Vm.Options.
Open Scope Z_scope.

Definition trace_len (clk range_rows chiplet_rows : Z) : Z :=
  next_pow2_z (Z.max (Z.max range_rows (clk + 1)) chiplet_rows + 1).

Definition is_pow2 (x : Z) : Prop := exists k, 0 <= k /\ x = 2 ^ k.

Lemma npow2_fuel_spec : forall fuel k x,
  0 <= k -> 2 ^ k < 2 * x \/ k = 0 -> x <= 2 ^ (k + Z.of_nat fuel) ->
  let r := npow2_fuel fuel (2 ^ k) x in
  x <= r /\ is_pow2 r /\ (r < 2 * x \/ r = 1).
Proof.
  induction fuel as [|f IH]; intros k x Hk Hlow Hup; cbn [npow2_fuel].
  - rewrite Z.add_0_r in Hup. split; [exact Hup|]. split; [exists k; auto|].
    destruct Hlow as [H|H]; [left; exact H | right; subst k; reflexivity].
  - destruct (x <=? 2 ^ k) eqn:E.
    + apply Z.leb_le in E. split; [exact E|]. split; [exists k; auto|].
      destruct Hlow as [H|H]; [left; exact H | right; subst k; reflexivity].
    + apply Z.leb_gt in E.
      replace (2 * 2 ^ k) with (2 ^ (k + 1)) by (rewrite Z.pow_add_r by lia; ring).
      apply IH; [lia| |].
      * left. rewrite Z.pow_add_r by lia. lia.
      * replace (k + 1 + Z.of_nat f) with (k + Z.of_nat (S f)) by lia. exact Hup.
Qed.

Theorem next_pow2_z_spec x :
  0 < x <= 4294967296 ->
  x <= next_pow2_z x /\ is_pow2 (next_pow2_z x) /\ (next_pow2_z x < 2 * x \/ next_pow2_z x = 1).
Proof.
  intros Hx. unfold next_pow2_z. change 1 with (2 ^ 0) at 1.
  apply (npow2_fuel_spec 32 0 x); [lia | right; reflexivity | cbn; lia].
Qed.

(* the trace is long enough for the executed cycles and a HALT row, the range table and the
   chiplets, plus the random row; it is a power of two, and is the smallest such power *)
Theorem trace_len_spec clk rng chp :
  0 <= clk -> 0 <= rng -> 0 <= chp -> Z.max (Z.max rng (clk + 1)) chp + 1 <= 4294967296 ->
  let l := trace_len clk rng chp in
  clk + 2 <= l /\ rng + 1 <= l /\ chp + 1 <= l /\ is_pow2 l /\
  l < 2 * (Z.max (Z.max rng (clk + 1)) chp + 1).
Proof.
  intros H1 H2 H3 H4. cbv zeta. unfold trace_len.
  destruct (next_pow2_z_spec (Z.max (Z.max rng (clk + 1)) chp + 1) ltac:(lia)) as [A [B C]].
  split; [lia|]. split; [lia|]. split; [lia|]. split; [exact B|]. destruct C as [C|C]; lia.
Qed.

#!/bin/sh
# builds the model driver from the extracted model (gen/model.ml) and driver.ml
set -e
ulimit -s unlimited 2>/dev/null || ulimit -s 1000000 2>/dev/null || true
cd "$(dirname "$0")"
mkdir -p _build
cp gen/model.ml gen/model.mli driver.ml _build/
cd _build
ocamlfind ocamlopt -O3 -package zarith -linkpkg -w -a model.mli model.ml driver.ml -o mvd 2>/dev/null || \
ocamlfind ocamlopt -package zarith -linkpkg -w -a model.mli model.ml driver.ml -o mvd

(* Line-oriented driver around the extracted Coq model.  No logic of its own: it parses the
   case language (same grammar as harness/src/parse.rs), calls the model and prints results in
   the harness' canonical format. *)
open Model

let z_of_string s = Big_int_Z.big_int_of_string s
let s_of_z z = Big_int_Z.string_of_big_int z
let rec nat_of_int n = if n <= 0 then O else S (nat_of_int (n - 1))
let rec int_of_nat = function O -> 0 | S n -> 1 + int_of_nat n

let split_ws s = List.filter (fun x -> x <> "") (String.split_on_char ' ' (String.trim s))

type toks = { v : string array; mutable i : int }
let next t = let x = t.v.(t.i) in t.i <- t.i + 1; x

let parse_val (hashes : word array) (t : string) : Big_int_Z.big_int =
  if String.length t > 0 && t.[0] = 'h' then begin
    let rest = String.sub t 1 (String.length t - 1) in
    match String.split_on_char '.' rest with
    | [p; j] -> List.nth hashes.(int_of_string p) (int_of_string j)
    | _ -> failwith "bad hash ref"
  end else z_of_string t

let parse_op hashes (t : string) : op =
  let name, arg =
    match String.index_opt t ':' with
    | Some k -> String.sub t 0 k, Some (String.sub t (k + 1) (String.length t - k - 1))
    | None -> t, None in
  let a () = match arg with Some x -> x | None -> failwith "missing arg" in
  match name with
  | "noop" -> Noop | "assert" -> Assert (z_of_string (a ())) | "fmpadd" -> FmpAdd
  | "fmpupdate" -> FmpUpdate | "sdepth" -> SDepth | "caller" -> Caller | "clk" -> Clk
  | "add" -> Add | "neg" -> Neg | "mul" -> Mul | "inv" -> Inv | "incr" -> Incr | "and" -> And
  | "or" -> Or | "not" -> Not | "eq" -> OpEq | "eqz" -> Eqz | "expacc" -> Expacc
  | "ext2mul" -> Ext2Mul | "u32split" -> U32split | "u32add" -> U32add
  | "u32assert2" -> U32assert2 (z_of_string (a ())) | "u32add3" -> U32add3 | "u32sub" -> U32sub
  | "u32mul" -> U32mul | "u32madd" -> U32madd | "u32div" -> U32div | "u32and" -> U32and
  | "u32xor" -> U32xor | "pad" -> Pad | "drop" -> Drop
  | "dup0" -> Dup0 | "dup1" -> Dup1 | "dup2" -> Dup2 | "dup3" -> Dup3 | "dup4" -> Dup4
  | "dup5" -> Dup5 | "dup6" -> Dup6 | "dup7" -> Dup7 | "dup9" -> Dup9 | "dup11" -> Dup11
  | "dup13" -> Dup13 | "dup15" -> Dup15
  | "swap" -> Swap | "swapw" -> SwapW | "swapw2" -> SwapW2 | "swapw3" -> SwapW3 | "swapdw" -> SwapDW
  | "movup2" -> MovUp2 | "movup3" -> MovUp3 | "movup4" -> MovUp4 | "movup5" -> MovUp5
  | "movup6" -> MovUp6 | "movup7" -> MovUp7 | "movup8" -> MovUp8
  | "movdn2" -> MovDn2 | "movdn3" -> MovDn3 | "movdn4" -> MovDn4 | "movdn5" -> MovDn5
  | "movdn6" -> MovDn6 | "movdn7" -> MovDn7 | "movdn8" -> MovDn8
  | "cswap" -> CSwap | "cswapw" -> CSwapW
  | "push" -> Push (parse_val hashes (a ())) | "advpop" -> AdvPop | "advpopw" -> AdvPopW
  | "mloadw" -> MLoadW | "mstorew" -> MStoreW | "mload" -> MLoad | "mstore" -> MStore
  | "mstream" -> MStream | "pipe" -> Pipe | "hperm" -> HPerm | "mpverify" -> MpVerify
  | "mrupdate" -> MrUpdate | "frie2f4" -> FriE2F4 | "rcombbase" -> RCombBase
  | _ -> failwith ("unknown op token " ^ t)

let op_name (o : op) : string =
  match o with
  | Noop -> "noop" | Assert c -> "assert:" ^ s_of_z c | FmpAdd -> "fmpadd" | FmpUpdate -> "fmpupdate"
  | SDepth -> "sdepth" | Caller -> "caller" | Clk -> "clk" | Join -> "join" | Split -> "split"
  | Loop -> "loop" | Call -> "call" | Dyn -> "dyn" | SysCall -> "syscall" | Span -> "span"
  | End -> "end" | Repeat -> "repeat" | Respan -> "respan" | Halt -> "halt"
  | Add -> "add" | Neg -> "neg" | Mul -> "mul" | Inv -> "inv" | Incr -> "incr" | And -> "and"
  | Or -> "or" | Not -> "not" | OpEq -> "eq" | Eqz -> "eqz" | Expacc -> "expacc" | Ext2Mul -> "ext2mul"
  | U32split -> "u32split" | U32add -> "u32add" | U32assert2 c -> "u32assert2:" ^ s_of_z c
  | U32add3 -> "u32add3" | U32sub -> "u32sub" | U32mul -> "u32mul" | U32madd -> "u32madd"
  | U32div -> "u32div" | U32and -> "u32and" | U32xor -> "u32xor" | Pad -> "pad" | Drop -> "drop"
  | Dup0 -> "dup0" | Dup1 -> "dup1" | Dup2 -> "dup2" | Dup3 -> "dup3" | Dup4 -> "dup4"
  | Dup5 -> "dup5" | Dup6 -> "dup6" | Dup7 -> "dup7" | Dup9 -> "dup9" | Dup11 -> "dup11"
  | Dup13 -> "dup13" | Dup15 -> "dup15" | Swap -> "swap" | SwapW -> "swapw" | SwapW2 -> "swapw2"
  | SwapW3 -> "swapw3" | SwapDW -> "swapdw"
  | MovUp2 -> "movup2" | MovUp3 -> "movup3" | MovUp4 -> "movup4" | MovUp5 -> "movup5"
  | MovUp6 -> "movup6" | MovUp7 -> "movup7" | MovUp8 -> "movup8"
  | MovDn2 -> "movdn2" | MovDn3 -> "movdn3" | MovDn4 -> "movdn4" | MovDn5 -> "movdn5"
  | MovDn6 -> "movdn6" | MovDn7 -> "movdn7" | MovDn8 -> "movdn8"
  | CSwap -> "cswap" | CSwapW -> "cswapw" | Push v -> "push:" ^ s_of_z v | AdvPop -> "advpop"
  | AdvPopW -> "advpopw" | MLoadW -> "mloadw" | MStoreW -> "mstorew" | MLoad -> "mload"
  | MStore -> "mstore" | MStream -> "mstream" | Pipe -> "pipe" | HPerm -> "hperm"
  | MpVerify -> "mpverify" | MrUpdate -> "mrupdate" | FriE2F4 -> "frie2f4" | RCombBase -> "rcombbase"

let rec parse_block (t : toks) (hashes : word array) : block =
  match next t with
  | "S" ->
      let n = int_of_string (next t) in
      let ops = List.init n (fun _ -> parse_op hashes (next t)) in
      BSpan ops
  | "J" -> let a = parse_block t hashes in let b = parse_block t hashes in BJoin (a, b)
  | "P" -> let a = parse_block t hashes in let b = parse_block t hashes in BSplit (a, b)
  | "L" -> BLoop (parse_block t hashes)
  | "C" -> BCall hashes.(int_of_string (next t))
  | "Y" -> BSysCall hashes.(int_of_string (next t))
  | "D" -> BDyn
  | "DC" -> BCall dYN_HASH
  | x -> failwith ("unknown block token " ^ x)

let parse_program (t : toks) : program * word array =
  if next t <> "T" then failwith "expected T";
  let k = int_of_string (next t) in
  let hashes = ref [||] in
  let kernel = ref [] in
  let table = ref [] in
  for _ = 1 to k do
    let flag = next t in
    let b = parse_block t !hashes in
    let h = block_hash b in
    hashes := Array.append !hashes [| h |];
    (match flag with
     | "K" -> kernel := !kernel @ [h]; table := !table @ [(h, b)]
     | "U" -> table := !table @ [(h, b)]
     | "X" -> ()
     | _ -> failwith "bad proc flag")
  done;
  let root = parse_block t !hashes in
  ({ p_root = root; p_kernel = !kernel; p_table = !table }, !hashes)

let err_string (e : err) : string =
  match e with
  | DivideByZero c -> "DivideByZero " ^ s_of_z c
  | NotBinary v -> "NotBinary " ^ s_of_z v
  | NotU32 (v, c) -> "NotU32 " ^ s_of_z v ^ " " ^ s_of_z c
  | AssertFailed (c, k) -> "AssertFailed " ^ s_of_z c ^ " " ^ s_of_z k
  | AdviceExhausted c -> "AdviceExhausted " ^ s_of_z c
  | MemAddr a -> "MemAddr " ^ s_of_z a
  | FmpRange (a, b) -> "FmpRange " ^ s_of_z a ^ " " ^ s_of_z b
  | CycleLimit m -> "CycleLimit " ^ s_of_z m
  | DepthOnReturn d -> "DepthOnReturn " ^ s_of_z d
  | NotInKernel -> "NotInKernel"
  | CallerNotInSyscall -> "CallerNotInSyscall"
  | CodeBlockNotFound -> "CodeBlockNotFound"
  | DynNotFound -> "DynNotFound"
  | MerkleVerify -> "MerkleVerify"
  | HostError -> "HostError"
  | OutOfFuel -> "OutOfFuel"
  | Unsupported -> "Unsupported"

let is_zero_word w = List.for_all (fun x -> Big_int_Z.sign_big_int x = 0) w

(* final memory: newest binding per key, zero words dropped, sorted by (ctx, addr) *)
let mem_dump (m : ((Big_int_Z.big_int * Big_int_Z.big_int) * word) list) : string =
  let seen = Hashtbl.create 16 in
  let acc = ref [] in
  List.iter (fun ((c, a), w) ->
    let k = (s_of_z c, s_of_z a) in
    if not (Hashtbl.mem seen k) then begin
      Hashtbl.add seen k ();
      if not (is_zero_word w) then acc := ((c, a), w) :: !acc
    end) m;
  let sorted = List.sort (fun ((c1, a1), _) ((c2, a2), _) ->
    let r = Big_int_Z.compare_big_int c1 c2 in
    if r <> 0 then r else Big_int_Z.compare_big_int a1 a2) !acc in
  String.concat ";" (List.map (fun ((c, a), w) ->
    s_of_z c ^ ":" ^ s_of_z a ^ ":" ^ String.concat "," (List.map s_of_z w)) sorted)

let fuel_cap = 400000

let run_exec (line : string) : string =
  match String.split_on_char '|' line with
  | [maxs; stacks; advs; progs] ->
      let maxc = z_of_string (String.trim (List.hd (String.split_on_char ',' maxs))) in
      let t = { v = Array.of_list (split_ws progs); i = 0 } in
      let prog, hashes = parse_program t in
      let stack = List.map (parse_val hashes) (split_ws stacks) in
      let adv = List.map (parse_val hashes) (split_ws advs) in
      let fuel =
        let m = try Big_int_Z.int_of_big_int maxc with _ -> max_int in
        nat_of_int (min (2 * m + 4) fuel_cap) in
      (match exec_program fuel maxc prog stack adv with
       | Ok s ->
           Printf.sprintf "OK clk=%s fmp=%s ctx=%s stack=%s adv=%d mem=%s"
             (s_of_z s.clk) (s_of_z s.fmp) (s_of_z s.ctx)
             (String.concat "," (List.map s_of_z s.stk))
             (List.length s.adv) (mem_dump s.mem)
       | Err (e, s) -> Printf.sprintf "ERR %s clk=%s" (err_string e) (s_of_z s.clk))
  | _ -> failwith "bad exec case"

let run_options (line : string) : string =
  match split_ws line with
  | [mc; e] ->
      let mco = if mc = "none" then None else Some (z_of_string mc) in
      (match exec_options_new mco (z_of_string e) with
       | Some (m, x) -> Printf.sprintf "OK %s %s" (s_of_z m) (s_of_z x)
       | None -> "ERR")
  | _ -> failwith "bad options case"

let coq_string (s : string) = s

let perr_string (e : perr) : string =
  match e with
  | PDivZero -> "DivideByZero"
  | PNotBinary v -> "NotBinary " ^ s_of_z v
  | PNotU32 (v, c) -> "NotU32 " ^ s_of_z v ^ " " ^ s_of_z c
  | PAssert c -> "AssertFailed " ^ s_of_z c
  | PImpure -> "Impure"

(* case: N <name> | <stack>   or   I <family> <imm> | <stack> *)
let run_spec_case (line : string) : string =
  match String.split_on_char '|' line with
  | [hd; stacks] ->
      let stack = List.map z_of_string (split_ws stacks) in
      let r =
        (match split_ws hd with
         | ["N"; name] -> spec_by_name (coq_string name) stack
         | ["I"; fam; v] -> spec_by_imm (coq_string fam) (z_of_string v) stack
         | _ -> failwith "bad spec case") in
      (match r with
       | SOk l -> "OK stack=" ^ String.concat "," (List.map s_of_z l)
       | SErr e -> "ERR " ^ perr_string e
       | SUndef -> "UNDEF"
       | SNoSpec -> "NOSPEC")
  | _ -> failwith "bad spec case"

(* ---- AST case language:  program := PR k (nlocals body)*k body ; body := B k node*k ;
   node := O n op*n | I body body | R n body | W body | E p | CL p | DX | DCL ---- *)
let rec parse_body (t : toks) : node list =
  if next t <> "B" then failwith "expected B";
  let k = int_of_string (next t) in
  List.init k (fun _ -> parse_node t)
and parse_node (t : toks) : node =
  match next t with
  | "O" -> let n = int_of_string (next t) in NOps (List.init n (fun _ -> parse_op [||] (next t)))
  | "I" -> let a = parse_body t in let b = parse_body t in NIf (a, b)
  | "R" -> let n = int_of_string (next t) in NRepeat (nat_of_int n, parse_body t)
  | "W" -> NWhile (parse_body t)
  | "E" -> NExec (nat_of_int (int_of_string (next t)))
  | "CL" -> NCall (nat_of_int (int_of_string (next t)))
  | "DX" -> NDynExec
  | "DCL" -> NDynCall
  | x -> failwith ("unknown node token " ^ x)

let parse_ast (t : toks) =
  if next t <> "PR" then failwith "expected PR";
  let k = int_of_string (next t) in
  let procs = List.init k (fun _ -> let nl = z_of_string (next t) in let b = parse_body t in (nl, b)) in
  let main = parse_body t in
  (procs, main)

let rec dump_block (b : block) : string =
  match b with
  | BSpan ops -> Printf.sprintf "S %d %s " (List.length ops) (String.concat " " (List.map op_name ops))
  | BJoin (x, y) -> "J " ^ dump_block x ^ dump_block y
  | BSplit (x, y) -> "P " ^ dump_block x ^ dump_block y
  | BLoop x -> "L " ^ dump_block x
  | BCall h ->
      if List.for_all2 Big_int_Z.eq_big_int h dYN_HASH then "DC "
      else "CH " ^ String.concat " " (List.map s_of_z h) ^ " "
  | BSysCall h -> "YH " ^ String.concat " " (List.map s_of_z h) ^ " "
  | BDyn -> "D "

(* case: <ast>  ->  OK <mast> # hash *)
let run_lower (line : string) : string =
  let t = { v = Array.of_list (split_ws line); i = 0 } in
  let procs, main = parse_ast t in
  let root, _ = compile_program procs main in
  "OK " ^ dump_block root ^ "# " ^ String.concat "," (List.map s_of_z (block_hash root))

(* case: <max> | <stack> | <adv> | <ast> *)
let run_astexec (line : string) : string =
  match String.split_on_char '|' line with
  | [maxs; stacks; advs; asts] ->
      let maxc = z_of_string (String.trim (List.hd (String.split_on_char ',' maxs))) in
      let t = { v = Array.of_list (split_ws asts); i = 0 } in
      let procs, main = parse_ast t in
      let root, codes = compile_program procs main in
      let table = List.map (fun b -> (block_hash b, b)) codes in
      let prog = { p_root = root; p_kernel = []; p_table = table } in
      let stack = List.map z_of_string (split_ws stacks) in
      let adv = List.map z_of_string (split_ws advs) in
      let fuel =
        let m = try Big_int_Z.int_of_big_int maxc with _ -> max_int in
        nat_of_int (min (2 * m + 4) fuel_cap) in
      (match exec_program fuel maxc prog stack adv with
       | Ok s ->
           Printf.sprintf "OK clk=%s fmp=%s ctx=%s stack=%s adv=%d mem=%s"
             (s_of_z s.clk) (s_of_z s.fmp) (s_of_z s.ctx)
             (String.concat "," (List.map s_of_z s.stk))
             (List.length s.adv) (mem_dump s.mem)
       | Err (e, s) -> Printf.sprintf "ERR %s clk=%s" (err_string e) (s_of_z s.clk))
  | _ -> failwith "bad astexec case"

(* case: same as exec.  Output: OK rows=<n> ops=<op recorded in each row> *)
let run_stream (line : string) : string =
  match String.split_on_char '|' line with
  | [maxs; stacks; advs; progs] ->
      let maxc = z_of_string (String.trim (List.hd (String.split_on_char ',' maxs))) in
      let t = { v = Array.of_list (split_ws progs); i = 0 } in
      let prog, hashes = parse_program t in
      let stack = List.map (parse_val hashes) (split_ws stacks) in
      let adv = List.map (parse_val hashes) (split_ws advs) in
      let fuel =
        let m = try Big_int_Z.int_of_big_int maxc with _ -> max_int in
        nat_of_int (min (2 * m + 4) fuel_cap) in
      let base n = List.hd (String.split_on_char ':' n) in
      (match exec_program fuel maxc prog stack adv with
       | Ok s ->
           let ops = List.rev_map (fun o -> base (op_name o)) s.olog in
           Printf.sprintf "OK rows=%d ops=%s" (List.length ops) (String.concat "," ops)
       | Err (e, _) -> Printf.sprintf "ERR %s" (err_string e))
  | _ -> failwith "bad stream case"

(* case: same as exec.  Output: the state after t cycles for every t (obtained by running the model
   under the cycle limit t - 1), in the format of the harness' `iter` family *)
let run_states (line : string) : string =
  match String.split_on_char '|' line with
  | maxs :: stacks :: advs :: progs :: _ ->
      let t = { v = Array.of_list (split_ws progs); i = 0 } in
      let prog, hashes = parse_program t in
      let stack = List.map (parse_val hashes) (split_ws stacks) in
      let adv = List.map (parse_val hashes) (split_ws advs) in
      let big = Big_int_Z.big_int_of_int 1000000 in
      let fuel = nat_of_int 20000 in
      let mem_ctx (s : state) =
        let seen = Hashtbl.create 16 in
        let acc = ref [] in
        List.iter (fun ((c, a), w) ->
          if Big_int_Z.eq_big_int c s.ctx then begin
            let k = s_of_z a in
            if not (Hashtbl.mem seen k) then begin
              Hashtbl.add seen k ();
              if not (is_zero_word w) then acc := (a, w) :: !acc
            end end) s.mem;
        let sorted = List.sort (fun (a1, _) (a2, _) -> Big_int_Z.compare_big_int a1 a2) !acc in
        String.concat ";" (List.map (fun (a, w) -> s_of_z a ^ "=" ^ String.concat "," (List.map s_of_z w)) sorted) in
      let st_str (s : state) =
        Printf.sprintf "%s:%s:%s:%s:%s:%s" (s_of_z s.clk) (s_of_z s.ctx) (s_of_z s.fmp)
          (String.concat "," (List.map s_of_z s.stk)) (mem_ctx s)
          (String.concat "," (List.map s_of_z (List.concat (List.map fst s.saved)))) in
      (match exec_program fuel big prog stack adv with
       | Ok fin ->
           let n = Big_int_Z.int_of_big_int fin.clk in
           let states = ref [st_str (init_state stack adv)] in
           for k = 1 to n do
             (match exec_program fuel (Big_int_Z.big_int_of_int (k - 1)) prog stack adv with
              | Err (CycleLimit _, s) -> states := st_str s :: !states
              | _ -> states := "?" :: !states)
           done;
           Printf.sprintf "OK n=%d | %s" (n + 1) (String.concat " | " (List.rev !states))
       | Err (e, _) -> Printf.sprintf "ERR %s" (err_string e))
  | _ -> failwith "bad iter case"

(* case: n op*n.  Output in the harness' `batch` format *)
let run_batch (line : string) : string =
  let t = { v = Array.of_list (split_ws line); i = 0 } in
  let n = int_of_string (next t) in
  let ops = List.init n (fun _ -> parse_op [||] (next t)) in
  let bs = batch_ops ops in
  let part (b : batch) =
    Printf.sprintf "%s;%s;%d;%s"
      (String.concat "," (List.map s_of_z b.b_groups))
      (String.concat "," (List.map (fun c -> string_of_int (int_of_nat c)) b.b_counts))
      (int_of_nat b.b_num_groups)
      (String.concat "," (List.map op_name b.b_ops)) in
  Printf.sprintf "OK nb=%d | %s # %s" (List.length bs) (String.concat " | " (List.map part bs))
    (String.concat "," (List.map s_of_z (block_hash (BSpan ops))))

(* case: cur row | next row | periodic values -> evaluation of every main transition constraint
   of the generated DAG (Gen/AirGen.v) *)
let run_aireval (line : string) : string =
  let vals = Array.of_list (List.map z_of_string (split_ws (String.concat " " (String.split_on_char '|' line)))) in
  let env (v : Big_int_Z.big_int) =
    let i = Big_int_Z.int_of_big_int v in
    if i < Array.length vals then vals.(i) else Big_int_Z.zero_big_int in
  let all = Array.of_list (eval_nodes env air_nodes) in
  "OK " ^ String.concat "," (List.map (fun r -> s_of_z all.(Big_int_Z.int_of_big_int r)) air_main)


(* ---- serde family ------------------------------------------------------------------------------- *)
let bytes_of_hex (h : string) : Big_int_Z.big_int list =
  let n = String.length h / 2 in
  List.init n (fun i -> Big_int_Z.big_int_of_int (int_of_string ("0x" ^ String.sub h (2 * i) 2)))
let hex_of_bytes (b : Big_int_Z.big_int list) : string =
  String.concat "" (List.map (fun x -> Printf.sprintf "%02x" (Big_int_Z.int_of_big_int x)) b)

(* splitmix64, the same generator as lib/common.py *)
type rng = { mutable st : int64 }
let rng_next r =
  r.st <- Int64.add r.st 0x9E3779B97F4A7C15L;
  let z = r.st in
  let z = Int64.mul (Int64.logxor z (Int64.shift_right_logical z 30)) 0xBF58476D1CE4E5B9L in
  let z = Int64.mul (Int64.logxor z (Int64.shift_right_logical z 27)) 0x94D049BB133111EBL in
  Int64.logxor z (Int64.shift_right_logical z 31)
let below r n = if n <= 0 then 0 else Int64.to_int (Int64.unsigned_rem (rng_next r) (Int64.of_int n))
let bi = Big_int_Z.big_int_of_int
let rand_big r (lo : Big_int_Z.big_int) (hi : Big_int_Z.big_int) : Big_int_Z.big_int =
  (* uniform-ish in [lo, hi] with the ends over-represented *)
  let span = Big_int_Z.succ_big_int (Big_int_Z.sub_big_int hi lo) in
  match below r 8 with
  | 0 -> lo
  | 1 -> hi
  | 2 -> Big_int_Z.min_big_int hi (Big_int_Z.add_big_int lo (bi (below r 4)))
  | _ ->
    let a = Big_int_Z.big_int_of_string (Printf.sprintf "%Lu" (rng_next r)) in
    Big_int_Z.add_big_int lo (Big_int_Z.mod_big_int a span)

let rec int_range (s : schema) : Big_int_Z.big_int * Big_int_Z.big_int =
  let p2 k = Big_int_Z.pred_big_int (Big_int_Z.power_int_positive_int 2 k) in
  match s with
  | SU8 -> (bi 0, p2 8) | SU16 -> (bi 0, p2 16) | SU32 -> (bi 0, p2 32) | SU64 -> (bi 0, p2 64)
  | SFelt -> (bi 0, Big_int_Z.pred_big_int p)
  | SRange (lo, hi, s') -> let (a, b) = int_range s' in (Big_int_Z.max_big_int lo a, Big_int_Z.min_big_int hi b)
  | _ -> failwith "int_range: not an integer schema"

let rec gen_schema r (depth : int) (s : schema) : value =
  match s with
  | SU8 | SU16 | SU32 | SU64 | SFelt | SRange _ -> let (lo, hi) = int_range s in VN (rand_big r lo hi)
  | SUnit -> VUnit
  | SSeq (c, e) ->
    let (lo, hi) = int_range c in
    let cap = Big_int_Z.min_big_int hi (Big_int_Z.add_big_int lo (bi (if below r 10 = 0 then 17 else 4))) in
    let n = Big_int_Z.int_of_big_int (rand_big r lo cap) in
    VList (List.init n (fun _ -> gen_schema r (depth - 1) e))
  | SArr (n, e) -> VList (List.init (int_of_nat n) (fun _ -> gen_schema r depth e))
  | SPair (a, b) -> let x = gen_schema r depth a in let y = gen_schema r depth b in VPair (x, y)
  | STag tbl ->
    let rows = if depth <= 0 then List.filter (fun (t, _) -> Big_int_Z.int_of_big_int t < 253) tbl else tbl in
    let ctl = List.filter (fun (t, _) -> Big_int_Z.int_of_big_int t >= 253) rows in
    let (t, s') =
      if ctl <> [] && below r 6 = 0 then List.nth ctl (below r (List.length ctl))
      else List.nth rows (below r (List.length rows)) in
    VTag (t, gen_schema r (depth - 1) s')
  | SVar -> VRec (gen_schema r depth s_node)

let ident r : value =
  let n = 1 + below r 6 in
  VList (List.init n (fun i -> VN (bi (if i = 0 then 97 + below r 26 else (match below r 3 with 0 -> 48 + below r 10 | 1 -> 95 | _ -> 97 + below r 26)))))
let text r : value =
  VList (List.init (below r 12) (fun _ -> VN (bi (32 + below r 95))))
let path r : value =
  (* a::b::c *)
  let comp () = match ident r with VList l -> l | _ -> [] in
  let k = 1 + below r 3 in
  let rec go i = if i = 0 then comp () else comp () @ [VN (bi 58); VN (bi 58)] @ go (i - 1) in
  VList (go (k - 1))
let gen_body r depth : value = VList (List.init (below r 6) (fun _ -> gen_schema r depth SVar))
let gen_proc r depth : value =
  VPair (ident r, VPair ((if below r 2 = 0 then VList [] else text r),
    VPair (VN (bi (below r 2)), VPair (VN (bi (below r 5)), gen_body r depth))))
let gen_imports r : value =
  let procid () = VList (List.init 20 (fun _ -> VN (bi (below r 256)))) in
  VPair (VList (List.init (below r 3) (fun _ -> path r)),
         VList (List.init (below r 3) (fun _ -> VPair (procid (), VPair (ident r, path r)))))
let gen_prog r depth : value =
  let body = VPair (VList (List.init (below r 3) (fun _ -> gen_proc r depth)), gen_body r depth) in
  if below r 3 = 0 then VTag (bi 1, VPair (gen_imports r, body)) else VTag (bi 0, body)
let gen_mod r depth : value =
  let procid () = VList (List.init 20 (fun _ -> VN (bi (below r 256)))) in
  let reexp () = VPair (procid (), VPair (ident r, (if below r 2 = 0 then VList [] else text r))) in
  let body = VPair (VList (List.init (below r 2) (fun _ -> reexp ())), VList (List.init (1 + below r 3) (fun _ -> gen_proc r depth))) in
  let docs = if below r 2 = 0 then VList [] else text r in
  if below r 3 = 0 then VTag (bi 1, VPair (docs, VPair (gen_imports r, body))) else VTag (bi 0, VPair (docs, body))

let run_serde (line : string) : string =
  match split_ws line with
  | "dec" :: kind :: rest ->
    let h = (match rest with [h] -> h | _ -> "") in
    (match model_decode kind (bytes_of_hex h) with
     | Some b -> "OK reenc=" ^ hex_of_bytes b
     | None -> "ERR")
  | ["gen"; kind; seed; depth] ->
    let r = { st = Int64.of_string seed } in
    let d = int_of_string depth in
    let (s, v) = (match kind with
      | "prog" -> (s_program, gen_prog r d)
      | "mod" -> (s_module, gen_mod r d)
      | "node" -> (s_node, gen_schema r d s_node)
      | _ -> failwith "gen: unknown kind") in
    if not (wt s_node s v) then "GEN-ILL-TYPED" else "OK bytes=" ^ hex_of_bytes (ast_encode s v)
  | ["agree"] -> if tables_agree then "OK agree=1" else "OK agree=0"
  | _ -> failwith "bad serde case"

(* ---- link family: the cache-free assembler specification on abstract module graphs ------------- *)
let rec code_eq (a : code) (b : code) : bool =
  match a, b with
  | KOps x, KOps y -> Big_int_Z.eq_big_int x y
  | KSeq l, KSeq m -> List.length l = List.length m && List.for_all2 code_eq l m
  | KCall x, KCall y -> code_eq x y
  | KSys x, KSys y -> code_eq x y
  | _, _ -> false

let parse_item (t : string) : item =
  let num s = z_of_string s in
  let two s = match String.split_on_char '.' s with [a; b] -> (num a, num b) | _ -> failwith "bad target" in
  let rest k = String.sub t k (String.length t - k) in
  if t.[0] = 'o' then IOp (num (rest 1))
  else if t.[0] = 's' then ISys (num (rest 1))
  else match String.sub t 0 2 with
    | "xl" -> IExecL (nat_of_int (int_of_string (rest 2)))
    | "cl" -> ICallL (nat_of_int (int_of_string (rest 2)))
    | "rl" -> IRefL (nat_of_int (int_of_string (rest 2)))
    | "xi" -> let (m, n) = two (rest 2) in IExecI (m, n)
    | "ci" -> let (m, n) = two (rest 2) in ICallI (m, n)
    | "ri" -> let (m, n) = two (rest 2) in IRefI (m, n)
    | _ -> failwith ("bad item " ^ t)

let parse_proc (t : toks) : proc =
  if next t <> "P" then failwith "expected P";
  let name = z_of_string (next t) in
  let ex = next t = "1" in
  let n = int_of_string (next t) in
  let body = List.init n (fun _ -> parse_item (next t)) in
  { p_name = name; p_export = ex; p_body = body }

let run_link (line : string) : string =
  let t = { v = Array.of_list (split_ws line); i = 0 } in
  if next t <> "K" then failwith "expected K";
  let nk = int_of_string (next t) in
  let kprocs = List.init nk (fun _ -> parse_proc t) in
  if next t <> "L" then failwith "expected L";
  let nm = int_of_string (next t) in
  let mods = List.init nm (fun _ ->
    if next t <> "M" then failwith "expected M";
    let path = z_of_string (next t) in
    let nre = int_of_string (next t) in
    let re = List.init nre (fun _ ->
      let a = z_of_string (next t) in let m = z_of_string (next t) in let n = z_of_string (next t) in (a, (m, n))) in
    let np = int_of_string (next t) in
    let ps = List.init np (fun _ -> parse_proc t) in
    (path, { m_reexp = re; m_procs = ps })) in
  let fuel = nat_of_int (nm + 2) in
  (* the kernel is a module without imports; its exported procedures are reachable by syscall *)
  let kernel =
    match lk_procs [] (fun _ _ -> None) kprocs [] with
    | Some cs -> Some (List.map2 (fun p c -> (p.p_name, c)) kprocs cs)
    | None -> None in
  if next t <> "N" then failwith "expected N";
  let np = int_of_string (next t) in
  let outs = List.init np (fun _ ->
    if next t <> "G" then failwith "expected G";
    let nl = int_of_string (next t) in
    let ps = List.init nl (fun _ -> parse_proc t) in
    if next t <> "B" then failwith "expected B";
    let nb = int_of_string (next t) in
    let body = List.init nb (fun _ -> parse_item (next t)) in
    match kernel with
    | None -> "ERR"
    | Some k ->
      (match lk_program mods k fuel ps body with
       | None -> "ERR"
       | Some (c, tbl) ->
         (* distinct call targets reachable from the root through the table *)
         let seen = ref [] in
         let rec walk c =
           List.iter (fun tgt ->
             if not (List.exists (code_eq tgt) !seen) then begin
               seen := tgt :: !seen;
               if List.exists (code_eq tgt) tbl then walk tgt
             end) (calls_of c) in
         walk c;
         let closed = List.for_all (fun tgt -> List.exists (code_eq tgt) tbl) !seen in
         Printf.sprintf "OK cb=%d closed=%d" (List.length !seen) (if closed then 1 else 0))) in
  String.concat " || " outs

(* ---- params family: verifier option logic and security estimate -------------------------------- *)
let run_params (line : string) : string =
  match split_ws line with
  | ["sec"; h; q; b; g; e; f; r; k] ->
    let o = (((((z_of_string q, z_of_string b), z_of_string g), z_of_string e), z_of_string f), z_of_string r) in
    "OK sec=" ^ s_of_z (reported_security (z_of_string h) o (z_of_string k))
  | ["acc"; h; q; b; g; e; f; r] ->
    let o = (((((z_of_string q, z_of_string b), z_of_string g), z_of_string e), z_of_string f), z_of_string r) in
    "OK accepts=" ^ (if accepts (z_of_string h) o then "1" else "0")
  | "pub" :: rest ->
    (* pub <h0..h3> K <k> <4k kernel elements> I <n> <inputs> O <n> <outputs> A <n> <addrs> *)
    let rec take n l acc = if n = 0 then (List.rev acc, l) else (match l with x :: t -> take (n - 1) t (x :: acc) | [] -> failwith "short pub case") in
    let zs = List.map z_of_string in
    let (h, r1) = take 4 rest [] in
    (match r1 with
     | "K" :: k :: r2 ->
       let k = int_of_string k in
       let rec words n l acc = if n = 0 then (List.rev acc, l) else let (w, l') = take 4 l [] in words (n - 1) l' (zs w :: acc) in
       let (kw, r3) = words k r2 [] in
       (match r3 with
        | "I" :: n :: r4 ->
          let (ins, r5) = take (int_of_string n) r4 [] in
          (match r5 with
           | "O" :: n :: r6 ->
             let (outs, r7) = take (int_of_string n) r6 [] in
             (match r7 with
              | "A" :: n :: r8 ->
                let (addrs, _) = take (int_of_string n) r8 [] in
                "OK " ^ String.concat "," (List.map s_of_z (pub_elements (zs h) kw (zs ins) (zs outs) (zs addrs)))
              | _ -> failwith "bad pub case A")
           | _ -> failwith "bad pub case O")
        | _ -> failwith "bad pub case I")
     | _ -> failwith "bad pub case K")
  | ["tlen"; c; r; h] -> "OK len=" ^ s_of_z (trace_len (z_of_string c) (z_of_string r) (z_of_string h))
  | _ -> failwith "bad params case"

(* ---- refhash family: reference hash functions ----------------------------------------------------- *)
let run_refhash (line : string) : string =
  match split_ws line with
  | "sha256" :: ws -> "OK " ^ String.concat "," (List.map s_of_z (sha256 (List.map z_of_string ws)))
  | "blake3" :: ws -> "OK " ^ String.concat "," (List.map s_of_z (blake3 (List.map z_of_string ws)))
  | "keccak" :: ws -> "OK " ^ String.concat "," (List.map s_of_z (keccak256 (List.map z_of_string ws)))
  | "rpo" :: ws -> "OK " ^ String.concat "," (List.map s_of_z (hash_elements (List.map z_of_string ws)))
  | _ -> failwith "bad refhash case"

let () =
  let family = Sys.argv.(1) in
  let ic = open_in Sys.argv.(2) in
  (try
     while true do
       let line = input_line ic in
       if String.trim line <> "" then begin
         let r =
           try
             (match family with
              | "exec" -> run_exec line
              | "options" -> run_options line
              | "spec" -> run_spec_case line
              | "lower" -> run_lower line
              | "stream" -> run_stream line
              | "iter" -> run_states line
              | "batch" -> run_batch line
              | "aireval" -> run_aireval line
              | "astexec" -> run_astexec line
              | "serde" -> run_serde line
              | "link" -> run_link line
              | "params" -> run_params line
              | "refhash" -> run_refhash line
              | _ -> failwith "unknown family")
           with Failure m -> "DRIVER-FAIL " ^ m
              | Stack_overflow -> "DRIVER-FAIL stack overflow" in
         print_endline r
       end
     done
   with End_of_file -> ());
  close_in ic

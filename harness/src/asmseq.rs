//! `asmseq` family: a sequence of compilations on one assembler instance, each compared with the
//! same compilation on fresh instances (libraries in the given and in the reverse order).
//!
//! case: steps separated by ` | `:
//!   kernel <hex source>
//!   lib <namespace> [<name>:]<hex module source> ...   modules are <namespace>::<name> (default m0, m1, ...)
//!   prog <hex source>
//! one result per `prog` step: `<shared> ;; <fresh> ;; <fresh, libraries reversed>` with
//!   OK <root> cb=<n> closed=<0|1> run=<class>  |  ERR <class>  |  PANIC <message>
use crate::exec::{err_string, panic_msg};
use crate::masm::asm_err_string;
use crate::serde::unhex;
use miden_assembly::ast::ModuleAst;
use miden_assembly::{Assembler, LibraryNamespace, LibraryPath, MaslLibrary, Module, Version};
use miden_processor::{DefaultHost, ExecutionOptions, MemAdviceProvider, Process, Program, StackInputs};
use std::panic::{catch_unwind, AssertUnwindSafe};
use vm_core::code_blocks::CodeBlock;

fn text(h: &str) -> String {
    String::from_utf8(unhex(h)).unwrap()
}

struct Setup {
    kernel: Option<String>,
    libs: Vec<MaslLibrary>,
}

fn build(setup: &Setup, reverse: bool) -> Result<Assembler, String> {
    let mut a = Assembler::default();
    let mut libs: Vec<&MaslLibrary> = setup.libs.iter().collect();
    if reverse {
        libs.reverse();
    }
    for l in libs {
        a = a.with_library(l).map_err(|e| format!("ERR lib {}", asm_err_string(&e)))?;
    }
    if let Some(k) = &setup.kernel {
        a = a.with_kernel(k).map_err(|e| format!("ERR kernel {}", asm_err_string(&e)))?;
    }
    Ok(a)
}

/// Every CALL / SYSCALL target that occurs in the program (root or table entries) has its body
/// in the code block table.
fn closed(p: &Program) -> bool {
    fn walk(b: &CodeBlock, p: &Program, seen: &mut Vec<[u64; 4]>, ok: &mut bool) {
        match b {
            CodeBlock::Span(_) | CodeBlock::Dyn(_) | CodeBlock::Proxy(_) => {}
            CodeBlock::Join(j) => {
                walk(j.first(), p, seen, ok);
                walk(j.second(), p, seen, ok);
            }
            CodeBlock::Split(s) => {
                walk(s.on_true(), p, seen, ok);
                walk(s.on_false(), p, seen, ok);
            }
            CodeBlock::Loop(l) => walk(l.body(), p, seen, ok),
            CodeBlock::Call(c) => {
                let h = c.fn_hash();
                if h == vm_core::code_blocks::Dyn::dyn_hash() {
                    return;
                }
                let key: Vec<u64> = h.as_elements().iter().map(|f| f.as_int()).collect();
                let key = [key[0], key[1], key[2], key[3]];
                if seen.contains(&key) {
                    return;
                }
                seen.push(key);
                match p.cb_table().get(h) {
                    Some(t) => walk(t, p, seen, ok),
                    None => *ok = false,
                }
            }
        }
    }
    let mut ok = true;
    let mut seen = Vec::new();
    walk(p.root(), p, &mut seen, &mut ok);
    ok
}

fn cb_len(p: &Program) -> usize {
    // the table has no public length; count reachable distinct call targets instead
    fn walk(b: &CodeBlock, p: &Program, seen: &mut Vec<Vec<u64>>) {
        match b {
            CodeBlock::Span(_) | CodeBlock::Dyn(_) | CodeBlock::Proxy(_) => {}
            CodeBlock::Join(j) => {
                walk(j.first(), p, seen);
                walk(j.second(), p, seen);
            }
            CodeBlock::Split(s) => {
                walk(s.on_true(), p, seen);
                walk(s.on_false(), p, seen);
            }
            CodeBlock::Loop(l) => walk(l.body(), p, seen),
            CodeBlock::Call(c) => {
                let key: Vec<u64> = c.fn_hash().as_elements().iter().map(|f| f.as_int()).collect();
                if !seen.contains(&key) {
                    seen.push(key);
                    if let Some(t) = p.cb_table().get(c.fn_hash()) {
                        walk(t, p, seen);
                    }
                }
            }
        }
    }
    let mut seen = Vec::new();
    walk(p.root(), p, &mut seen);
    seen.len()
}

fn run_class(p: &Program) -> String {
    let host = DefaultHost::new(MemAdviceProvider::default());
    let opts = ExecutionOptions::new(Some(1 << 14), 64, false).unwrap();
    let mut process = Process::new(p.kernel().clone(), StackInputs::default(), host, opts);
    match process.execute(p) {
        Ok(_) => "ok".into(),
        Err(e) => err_string(&e).split(' ').next().unwrap_or("?").to_string(),
    }
}

fn compile(a: &Result<Assembler, String>, src: &str) -> String {
    let a = match a {
        Ok(a) => a,
        Err(e) => return e.clone(),
    };
    match catch_unwind(AssertUnwindSafe(|| a.compile(src))) {
        Ok(Ok(p)) => {
            let h: Vec<String> = p.hash().as_elements().iter().map(|f| f.as_int().to_string()).collect();
            let run = catch_unwind(AssertUnwindSafe(|| run_class(&p))).unwrap_or_else(|e| format!("PANIC({})", panic_msg(e)));
            format!("OK {} cb={} closed={} run={}", h.join("."), cb_len(&p), closed(&p) as u8, run)
        }
        Ok(Err(e)) => format!("ERR {}", asm_err_string(&e).split(' ').next().unwrap_or("?")),
        Err(e) => format!("PANIC {}", panic_msg(e).replace('\n', " ")),
    }
}

pub fn run_asmseq(line: &str) -> String {
    let res = catch_unwind(AssertUnwindSafe(|| {
        let mut setup = Setup { kernel: None, libs: Vec::new() };
        let mut progs: Vec<String> = Vec::new();
        for step in line.split('|') {
            let t: Vec<&str> = step.split_whitespace().collect();
            if t.is_empty() {
                continue;
            }
            match t[0] {
                "kernel" => setup.kernel = Some(text(t[1])),
                "lib" => {
                    let ns = LibraryNamespace::new(t[1]).unwrap();
                    let mut modules = Vec::new();
                    for (i, tok) in t[2..].iter().enumerate() {
                        // `<module name>:<hex source>` or just `<hex source>` (named m<i>)
                        let (name, h) = match tok.split_once(':') {
                            Some((n, h)) => (n.to_string(), h),
                            None => (format!("m{i}"), *tok),
                        };
                        let ast = match ModuleAst::parse(&text(h)) {
                            Ok(a) => a,
                            Err(e) => return format!("SETUP module parse {:?}", e).replace('\n', " "),
                        };
                        modules.push(Module::new(LibraryPath::new(format!("{}::{}", t[1], name)).unwrap(), ast));
                    }
                    match MaslLibrary::new(ns, Version::default(), false, modules, vec![]) {
                        Ok(l) => setup.libs.push(l),
                        Err(e) => return format!("SETUP library {:?}", e),
                    }
                }
                "prog" => progs.push(text(t[1])),
                x => panic!("unknown step {x}"),
            }
        }
        let shared = catch_unwind(AssertUnwindSafe(|| build(&setup, false))).unwrap_or_else(|e| Err(format!("PANIC {}", panic_msg(e))));
        let mut out = Vec::new();
        for p in &progs {
            let s = compile(&shared, p);
            let f = compile(&build(&setup, false), p);
            let r = compile(&build(&setup, true), p);
            out.push(format!("{s} ;; {f} ;; {r}"));
        }
        out.join(" || ")
    }));
    match res {
        Ok(s) => s,
        Err(p) => format!("PANIC {}", panic_msg(p).replace('\n', " ")),
    }
}

//! `smt` and `mmr` families (C18): the collection procedures of the standard library against the
//! native data structures of miden-crypto they mirror.
//!
//! smt case: ops separated by `;` - `s k0 k1 k2 k3 v0 v1 v2 v3` (set) or `g k0 k1 k2 k3` (get).
//!   The native tree is updated after every set; each op runs as its own program whose advice
//!   inputs (Merkle store, leaf pre-images) are built from the native tree before the op.
//!   output, one token per op:  <kind>:<set|get>:<ok|diff(..)|err(..)|panic(..)>
//!   kind = state of the key's leaf before the op: E empty, S= single with this key,
//!          S! single with another key, M several pairs
//! mmr case: <ptr> <ptr2> <n> <seed>
//!   n leaves are added with mmr::add at ptr; every position is read with mmr::get; the
//!   accumulator is hashed with mmr::pack and unpacked at ptr2.
//!   output: OK leaves=<0|1> peaks=<0|1> tail=<0|1> get=<bad positions|-> pack=<0|1> unpack=<0|1> rest=<0|1>
use crate::exec::{err_string, panic_msg};
use miden_assembly::Assembler;
use miden_processor::{
    AdviceInputs, ContextId, DefaultHost, ExecutionOptions, MemAdviceProvider, Process, ProcessState, StackInputs,
};
use std::panic::{catch_unwind, AssertUnwindSafe};
use vm_core::crypto::hash::RpoDigest;
use vm_core::crypto::merkle::{MerkleStore, Mmr, Smt};
use vm_core::{Felt, Kernel, Word, EMPTY_WORD};

const REST: [u64; 3] = [7, 8, 9];

fn assembler() -> Assembler {
    Assembler::default().with_library(&miden_stdlib::StdLibrary::default()).unwrap()
}

fn word(v: &[u64]) -> Word {
    [Felt::new(v[0]), Felt::new(v[1]), Felt::new(v[2]), Felt::new(v[3])]
}

fn ints(w: &Word) -> Vec<u64> {
    w.iter().map(|f| f.as_int()).collect()
}

/// top-first expected stack for two words (each with element 3 on top)
fn two_words(a: Word, b: Word) -> Vec<u64> {
    let mut v = Vec::new();
    for w in [a, b] {
        for i in (0..4).rev() {
            v.push(w[i].as_int());
        }
    }
    v
}

fn advice_of(smt: &Smt) -> AdviceInputs {
    let store = MerkleStore::from(smt);
    let map: Vec<(RpoDigest, Vec<Felt>)> = smt.leaves().map(|(_, leaf)| (leaf.hash(), leaf.to_elements())).collect();
    AdviceInputs::default().with_merkle_store(store).with_map(map)
}

fn leaf_kind(smt: &Smt, key: RpoDigest) -> &'static str {
    let idx = key.as_elements()[3].as_int();
    let mut n = 0;
    let mut same = false;
    for (k, _) in smt.entries() {
        if k.as_elements()[3].as_int() == idx {
            n += 1;
            if *k == key {
                same = true;
            }
        }
    }
    match (n, same) {
        (0, _) => "E",
        (1, true) => "S=",
        (1, false) => "S!",
        _ => "M",
    }
}

fn run_top(src: &str, stack_bottom_first: Vec<u64>, adv: AdviceInputs, depth: usize) -> Result<Vec<u64>, String> {
    let program = assembler().compile(src).map_err(|e| format!("asm({e:?})"))?;
    let host = DefaultHost::new(MemAdviceProvider::from(adv));
    let opts = ExecutionOptions::new(Some(1 << 16), 64, false).unwrap();
    let si = StackInputs::try_from_values(stack_bottom_first).unwrap();
    let mut process = Process::new(Kernel::default(), si, host, opts);
    match process.execute(&program) {
        Ok(out) => Ok(out.stack().iter().take(depth).copied().collect()),
        Err(e) => Err(err_string(&e).split(' ').next().unwrap_or("?").to_string()),
    }
}

pub fn run_smt(line: &str) -> String {
    let mut smt = Smt::new();
    let mut out = Vec::new();
    for op in line.split(';') {
        let t: Vec<&str> = op.split_whitespace().collect();
        if t.is_empty() {
            continue;
        }
        let nums: Vec<u64> = t[1..].iter().map(|x| x.parse().unwrap()).collect();
        let key = RpoDigest::new(word(&nums[0..4]));
        let kind = leaf_kind(&smt, key);
        let root: Word = smt.root().into();
        let adv = advice_of(&smt);
        let res = catch_unwind(AssertUnwindSafe(|| match t[0] {
            "s" => {
                let value = word(&nums[4..8]);
                // bottom-first: rest, R, K, V
                let mut st: Vec<u64> = REST.iter().rev().copied().collect();
                st.extend(ints(&root));
                st.extend(ints(&key.into()));
                st.extend(ints(&value));
                let got = run_top("use.std::collections::smt begin exec.smt::set end", st, adv, 11);
                let old = smt.insert(key, value);
                let mut want = two_words(old, smt.root().into());
                want.extend(REST);
                (got, want)
            }
            _ => {
                let mut st: Vec<u64> = REST.iter().rev().copied().collect();
                st.extend(ints(&root));
                st.extend(ints(&key.into()));
                let got = run_top("use.std::collections::smt begin exec.smt::get end", st, adv, 11);
                let v = smt.get_value(&key);
                let mut want = two_words(v, root);
                want.extend(REST);
                (got, want)
            }
        }));
        let name = if t[0] == "s" { "set" } else { "get" };
        out.push(match res {
            Ok((Ok(got), want)) => {
                if got == want {
                    format!("{kind}:{name}:ok")
                } else {
                    format!("{kind}:{name}:diff(got={got:?},want={want:?})").replace(' ', "")
                }
            }
            Ok((Err(e), _)) => format!("{kind}:{name}:err({e})"),
            Err(p) => format!("{kind}:{name}:panic({})", panic_msg(p).replace([' ', '\n'], "_")),
        });
    }
    out.join(" ")
}

fn mmr_leaf(seed: u64, i: u64) -> Word {
    // distinct, non-zero, not all small
    let b = seed.wrapping_mul(0x9e37_79b9_7f4a_7c15).wrapping_add(i.wrapping_mul(0xbf58_476d_1ce4_e5b9)) % 0xffff_ffff_0000_0001;
    [Felt::new(b), Felt::new(i + 1), Felt::new(seed % 1000 + 1), Felt::new(4 * i + 3)]
}

pub fn run_mmr(line: &str) -> String {
    let t: Vec<u64> = line.split_whitespace().filter(|x| *x != "c").map(|x| x.parse().unwrap()).collect();
    let (ptr, ptr2, n, seed) = (t[0], t[1], t[2], t[3]);
    let in_call = line.split_whitespace().nth(4) == Some("c");
    if t.len() > 4 && !in_call {
        return run_mmr_fake(ptr, ptr2, n, seed);
    }
    let res = catch_unwind(AssertUnwindSafe(|| {
        let mut mmr = Mmr::new();
        let leaves: Vec<Word> = (0..n).map(|i| mmr_leaf(seed, i)).collect();
        let mut src = String::from(if in_call { "use.std::collections::mmr\nproc.body\n" } else { "use.std::collections::mmr\nbegin\n" });
        for l in &leaves {
            mmr.add((*l).into());
            let v = ints(l);
            src.push_str(&format!("push.{ptr} push.{}.{}.{}.{} exec.mmr::add\n", v[0], v[1], v[2], v[3]));
        }
        // read every position; the words are stored at 5000 + pos for inspection
        for pos in 0..n {
            src.push_str(&format!("push.{ptr} push.{pos} exec.mmr::get push.{} mem_storew dropw\n", 500_000 + pos));
        }
        if n > 0 {
            src.push_str(&format!("push.{ptr} exec.mmr::pack\n"));
            // keep a copy of the hash at 400000, then unpack at ptr2
            src.push_str("push.400000 mem_storew\n");
            src.push_str(&format!("push.{ptr2} movdn.4 exec.mmr::unpack\n"));
        }
        src.push_str("end\n");
        if in_call {
            // the whole scenario runs in the fresh context of a called procedure
            src.push_str("begin call.body end\n");
        }
        let program = match assembler().compile(&src) {
            Ok(p) => p,
            Err(e) => return format!("ASMERR {e:?}"),
        };
        let host = DefaultHost::new(MemAdviceProvider::default());
        let opts = ExecutionOptions::new(Some(1 << 22), 64, false).unwrap();
        let st: Vec<u64> = REST.iter().rev().copied().collect();
        let mut process = Process::new(Kernel::default(), StackInputs::try_from_values(st).unwrap(), host, opts);
        let outp = match process.execute(&program) {
            Ok(o) => o,
            Err(e) => return format!("ERR {}", err_string(&e)),
        };
        // the context whose memory holds the scenario: the root, or the callee's (the only other one)
        let ctx = if in_call {
            let clk = process.clk();
            (1..=clk).map(ContextId::from).find(|c| !process.get_mem_state(*c).is_empty()).unwrap_or(ContextId::root())
        } else {
            ContextId::root()
        };
        let mem = |a: u64| -> Word { process.get_mem_value(ctx, a as u32).unwrap_or(EMPTY_WORD) };
        let acc = mmr.peaks(mmr.forest()).unwrap();
        let peaks: Vec<Word> = acc.peaks().iter().map(|d| (*d).into()).collect();
        let check_at = |p: u64| -> (bool, bool, bool) {
            let leaves_ok = mem(p) == [Felt::new(n), Felt::new(0), Felt::new(0), Felt::new(0)];
            let peaks_ok = peaks.iter().enumerate().all(|(i, w)| mem(p + 1 + i as u64) == *w);
            // the words after the peaks (merged peaks are erased) are zero
            let tail_ok = (peaks.len() as u64..peaks.len() as u64 + 4).all(|i| mem(p + 1 + i) == EMPTY_WORD);
            (leaves_ok, peaks_ok, tail_ok)
        };
        let (l1, p1, t1) = check_at(ptr);
        let bad: Vec<String> = (0..n).filter(|pos| mem(500_000 + pos) != leaves[*pos as usize]).map(|p| p.to_string()).collect();
        let (pack_ok, unpack_ok) = if n > 0 {
            let h: Word = acc.hash_peaks().into();
            let (l2, p2, t2) = check_at(ptr2);
            (mem(400_000) == h, l2 && p2 && t2)
        } else {
            (true, true)
        };
        let top: Vec<u64> = outp.stack().iter().take(3).copied().collect();
        format!(
            "OK leaves={} peaks={} tail={} get={} pack={} unpack={} rest={}",
            l1 as u8,
            p1 as u8,
            t1 as u8,
            if bad.is_empty() { "-".to_string() } else { bad.join(",") },
            pack_ok as u8,
            unpack_ok as u8,
            (top == REST.to_vec()) as u8
        )
    }));
    match res {
        Ok(s) => s,
        Err(p) => format!("PANIC {}", panic_msg(p).replace('\n', " ")),
    }
}

/// `mmr` with a fifth token: <ptr> <ptr2> <num_leaves> <seed> 1 - the accumulator with `num_leaves`
/// leaves and made-up peaks is written to memory directly; pack / unpack against MmrPeaks::hash_peaks.
fn run_mmr_fake(ptr: u64, ptr2: u64, num_leaves: u64, seed: u64) -> String {
    use vm_core::crypto::merkle::MmrPeaks;
    let res = catch_unwind(AssertUnwindSafe(|| {
        let np = num_leaves.count_ones() as u64;
        let peaks: Vec<Word> = (0..np).map(|i| mmr_leaf(seed, i)).collect();
        let acc = match MmrPeaks::new(num_leaves as usize, peaks.iter().map(|w| RpoDigest::new(*w)).collect()) {
            Ok(a) => a,
            Err(e) => return format!("SETUP {e:?}"),
        };
        let mut src = String::from("use.std::collections::mmr\nbegin\n");
        src.push_str(&format!("push.{num_leaves} push.{ptr} mem_store\n"));
        for (i, p) in peaks.iter().enumerate() {
            let v = ints(p);
            src.push_str(&format!("push.{}.{}.{}.{} push.{} mem_storew dropw\n", v[0], v[1], v[2], v[3], ptr + 1 + i as u64));
        }
        src.push_str(&format!("push.{ptr} exec.mmr::pack push.400000 mem_storew push.{ptr2} movdn.4 exec.mmr::unpack\nend\n"));
        let program = match assembler().compile(&src) {
            Ok(p) => p,
            Err(e) => return format!("ASMERR {e:?}"),
        };
        let host = DefaultHost::new(MemAdviceProvider::default());
        let opts = ExecutionOptions::new(Some(1 << 22), 64, false).unwrap();
        let st: Vec<u64> = REST.iter().rev().copied().collect();
        let mut process = Process::new(Kernel::default(), StackInputs::try_from_values(st).unwrap(), host, opts);
        let outp = match process.execute(&program) {
            Ok(o) => o,
            Err(e) => return format!("ERR {}", err_string(&e)),
        };
        let mem = |a: u64| -> Word { process.get_mem_value(ContextId::root(), a as u32).unwrap_or(EMPTY_WORD) };
        let h: Word = acc.hash_peaks().into();
        let l2 = mem(ptr2) == [Felt::new(num_leaves), Felt::new(0), Felt::new(0), Felt::new(0)];
        let p2 = peaks.iter().enumerate().all(|(i, w)| mem(ptr2 + 1 + i as u64) == *w);
        let top: Vec<u64> = outp.stack().iter().take(3).copied().collect();
        format!("OK peaks={np} pack={} unpack={} rest={}", (mem(400_000) == h) as u8, (l2 && p2) as u8, (top == REST.to_vec()) as u8)
    }));
    match res {
        Ok(s) => s,
        Err(p) => format!("PANIC {}", panic_msg(p).replace('\n', " ")),
    }
}

//! `exec` family: run a MAST program given in the case language on the real processor.
use crate::parse::*;
use miden_processor::{
    AdviceInputs, ContextId, DefaultHost, ExecutionError, ExecutionOptions, MemAdviceProvider,
    Process, ProcessState, StackInputs,
};
use std::panic::{catch_unwind, AssertUnwindSafe};

pub fn err_string(e: &ExecutionError) -> String {
    use ExecutionError::*;
    match e {
        DivideByZero(clk) => format!("DivideByZero {clk}"),
        NotBinaryValue(v) => format!("NotBinary {}", v.as_int()),
        NotU32Value(v, c) => format!("NotU32 {} {}", v.as_int(), c.as_int()),
        FailedAssertion { clk, err_code, .. } => format!("AssertFailed {err_code} {clk}"),
        AdviceStackReadFailed(clk) => format!("AdviceExhausted {clk}"),
        MemoryAddressOutOfBounds(a) => format!("MemAddr {a}"),
        InvalidFmpValue(a, b) => format!("FmpRange {} {}", a.as_int(), b.as_int()),
        CycleLimitExceeded(m) => format!("CycleLimit {m}"),
        InvalidStackDepthOnReturn(d) => format!("DepthOnReturn {d}"),
        SyscallTargetNotInKernel(_) => "NotInKernel".to_string(),
        CallerNotInSyscall => "CallerNotInSyscall".to_string(),
        CodeBlockNotFound(_) => "CodeBlockNotFound".to_string(),
        DynamicCodeBlockNotFound(_) => "DynNotFound".to_string(),
        MerklePathVerificationFailed { .. } => "MerkleVerify".to_string(),
        MerkleStoreLookupFailed(_) => "MerkleLookup".to_string(),
        MerkleStoreUpdateFailed(_) => "MerkleUpdate".to_string(),
        InvalidTreeDepth { .. } => "MerkleDepth".to_string(),
        InvalidTreeNodeIndex { .. } => "MerkleIndex".to_string(),
        AdviceMapKeyNotFound(_) => "AdviceMapKey".to_string(),
        other => format!("Other {other:?}").replace('\n', " "),
    }
}

pub fn panic_msg(p: Box<dyn std::any::Any + Send>) -> String {
    let s = if let Some(s) = p.downcast_ref::<&str>() {
        s.to_string()
    } else if let Some(s) = p.downcast_ref::<String>() {
        s.clone()
    } else {
        "?".to_string()
    };
    s.replace('\n', " ")
}

/// first field of a case: `<max_cycles>` or `<max_cycles>,<expected_cycles>`
pub fn parse_limits(f: &str) -> (u32, u32) {
    let mut it = f.trim().split(',');
    let m: u32 = it.next().unwrap().trim().parse().unwrap();
    let e: u32 = it.next().map(|x| x.trim().parse().unwrap()).unwrap_or(64);
    (m, e)
}

/// case: <max_cycles>[,<expected_cycles>] | <stack top-first> | <advice stack top-first> | <program>
pub fn run_case(line: &str) -> String {
    let parts: Vec<&str> = line.split('|').collect();
    let (max_cycles, expected) = parse_limits(parts[0]);
    let mut pt = Toks::new(parts[3]);
    let pp = parse_program(&mut pt);
    let mut stack: Vec<u64> = parts[1].split_whitespace().map(|t| parse_val(t, &pp.hashes)).collect();
    stack.reverse();
    let adv: Vec<u64> = parts[2].split_whitespace().map(|t| parse_val(t, &pp.hashes)).collect();
    let res = catch_unwind(AssertUnwindSafe(|| {
        let stack_inputs = StackInputs::try_from_values(stack).unwrap();
        let advice_inputs = AdviceInputs::default().with_stack_values(adv).unwrap();
        let host = DefaultHost::new(MemAdviceProvider::from(advice_inputs));
        let opts = ExecutionOptions::new(Some(max_cycles), expected, false).unwrap();
        let mut process = Process::new(pp.program.kernel().clone(), stack_inputs, host, opts);
        let r = process.execute(&pp.program);
        let clk = process.system.clk();
        let mut out = String::new();
        match &r {
            Ok(_) => out.push_str("OK"),
            Err(e) => {
                out.push_str("ERR ");
                out.push_str(&err_string(e));
            }
        }
        out.push_str(&format!(" clk={clk}"));
        if r.is_ok() {
            out.push_str(&format!(" fmp={} ctx={}", process.system.fmp().as_int(), u32::from(process.system.ctx())));
            let st = process.stack.get_state_at(clk);
            let s: Vec<String> = st.iter().map(|f| f.as_int().to_string()).collect();
            out.push_str(&format!(" stack={}", s.join(",")));
            let advleft = process.host.borrow().advice_provider().stack().len();
            out.push_str(&format!(" adv={advleft}"));
            let mut mem: Vec<String> = Vec::new();
            for ctx in 0..=clk {
                for (addr, w) in process.chiplets.get_mem_state_at(ContextId::from(ctx), clk) {
                    if w.iter().all(|x| x.as_int() == 0) {
                        continue;
                    }
                    mem.push(format!(
                        "{ctx}:{addr}:{},{},{},{}",
                        w[0].as_int(),
                        w[1].as_int(),
                        w[2].as_int(),
                        w[3].as_int()
                    ));
                }
            }
            out.push_str(&format!(" mem={}", mem.join(";")));
        }
        out
    }));
    match res {
        Ok(s) => s,
        Err(p) => format!("PANIC {}", panic_msg(p)),
    }
}

/// case: <max_cycles or "none"> <expected_cycles>
pub fn run_options(line: &str) -> String {
    let t: Vec<&str> = line.split_whitespace().collect();
    let mc: Option<u32> = if t[0] == "none" { None } else { Some(t[0].parse().unwrap()) };
    let e: u32 = t[1].parse().unwrap();
    let res = catch_unwind(AssertUnwindSafe(|| match ExecutionOptions::new(mc, e, false) {
        Ok(o) => {
            // the same limits must come out whichever way tracing is switched on
            let a = o.clone().with_tracing();
            let b = ExecutionOptions::new(mc, e, true);
            let mut extra = String::new();
            if (a.max_cycles(), a.expected_cycles(), a.enable_tracing()) != (o.max_cycles(), o.expected_cycles(), true) {
                extra.push_str(&format!(" with_tracing=({},{},{})", a.max_cycles(), a.expected_cycles(), a.enable_tracing()));
            }
            match b {
                Ok(b) if (b.max_cycles(), b.expected_cycles(), b.enable_tracing()) == (o.max_cycles(), o.expected_cycles(), true) => {}
                Ok(b) => extra.push_str(&format!(" ctor_tracing=({},{},{})", b.max_cycles(), b.expected_cycles(), b.enable_tracing())),
                Err(_) => extra.push_str(" ctor_tracing=ERR"),
            }
            format!("OK {} {}{}", o.max_cycles(), o.expected_cycles(), extra)
        }
        Err(_) => "ERR".to_string(),
    }));
    match res {
        Ok(s) => s,
        Err(p) => format!("PANIC {}", panic_msg(p)),
    }
}

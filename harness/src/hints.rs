//! `mtree` family: Merkle-tree instructions against an honest host and against hosts that lie
//! about the authentication path or about the node value.
//!
//! case: <get|set|verify> <index> <honest|badpath|badnode|badindex> | <new value, 4 felts> | <leaves, 4 felts each>
//! (the number of leaves must be a power of two >= 2)
use crate::exec::{err_string, panic_msg};
use miden_assembly::Assembler;
use miden_processor::crypto::{MerklePath, MerkleStore, MerkleTree};
use miden_processor::{
    AdviceExtractor, AdviceInputs, AdviceProvider, AdviceSource, DefaultHost, ExecutionError, ExecutionOptions, Host,
    HostResponse, MemAdviceProvider, Process, ProcessState, StackInputs,
};
use std::panic::{catch_unwind, AssertUnwindSafe};
use vm_core::{AdviceInjector, Felt, Kernel, Word, ONE};

struct LyingHost {
    inner: DefaultHost<MemAdviceProvider>,
    bad_path: bool,
    bad_node: bool,
    /// answer requests for an index outside the tree with the data of (index mod 2^depth)
    wrap_index: bool,
}

fn wrapped(depth: Felt, index: Felt) -> Felt {
    let d = depth.as_int();
    if d >= 64 {
        index
    } else {
        Felt::new(index.as_int() % (1u64 << d))
    }
}

fn corrupt(path: MerklePath) -> MerklePath {
    let mut nodes: Vec<_> = path.nodes().to_vec();
    if let Some(first) = nodes.first_mut() {
        let mut w: Word = (*first).into();
        w[0] += ONE;
        *first = w.into();
    }
    MerklePath::new(nodes)
}

impl Host for LyingHost {
    fn get_advice<S: ProcessState>(&mut self, process: &S, extractor: AdviceExtractor) -> Result<HostResponse, ExecutionError> {
        let is_path = matches!(extractor, AdviceExtractor::GetMerklePath);
        if is_path && self.wrap_index {
            let depth = process.get_stack_item(4);
            let index = wrapped(depth, process.get_stack_item(5));
            let root = [process.get_stack_item(9), process.get_stack_item(8), process.get_stack_item(7), process.get_stack_item(6)];
            return self.inner.advice_provider_mut().get_merkle_path(root, &depth, &index).map(HostResponse::MerklePath);
        }
        let r = self.inner.get_advice(process, extractor)?;
        match r {
            HostResponse::MerklePath(p) if is_path && self.bad_path => Ok(HostResponse::MerklePath(corrupt(p))),
            other => Ok(other),
        }
    }

    fn set_advice<S: ProcessState>(&mut self, process: &S, injector: AdviceInjector) -> Result<HostResponse, ExecutionError> {
        let is_node = matches!(injector, AdviceInjector::MerkleNodeToStack);
        if self.wrap_index && is_node {
            let depth = process.get_stack_item(0);
            let index = wrapped(depth, process.get_stack_item(1));
            let root = [process.get_stack_item(5), process.get_stack_item(4), process.get_stack_item(3), process.get_stack_item(2)];
            let p = self.inner.advice_provider_mut();
            let node = p.get_tree_node(root, &depth, &index)?;
            for i in (0..4).rev() {
                p.push_stack(AdviceSource::Value(node[i]))?;
            }
            return Ok(HostResponse::None);
        }
        if self.wrap_index && matches!(injector, AdviceInjector::UpdateMerkleNode) {
            let depth = process.get_stack_item(4);
            let index = wrapped(depth, process.get_stack_item(5));
            let root = [process.get_stack_item(9), process.get_stack_item(8), process.get_stack_item(7), process.get_stack_item(6)];
            let new_node = [process.get_stack_item(13), process.get_stack_item(12), process.get_stack_item(11), process.get_stack_item(10)];
            let (path, _) = self.inner.advice_provider_mut().update_merkle_node(root, &depth, &index, new_node)?;
            return Ok(HostResponse::MerklePath(path));
        }
        let r = self.inner.set_advice(process, injector)?;
        if is_node && self.bad_node {
            // the node value was pushed onto the advice stack: replace its first element
            let p = self.inner.advice_provider_mut();
            let top = p.pop_stack(process)?;
            p.push_stack(AdviceSource::Value(top + ONE))?;
        }
        match r {
            HostResponse::MerklePath(p) if self.bad_path => Ok(HostResponse::MerklePath(corrupt(p))),
            other => Ok(other),
        }
    }
}

fn felts(s: &str) -> Vec<u64> {
    s.split_whitespace().map(|t| t.parse().unwrap()).collect()
}

pub fn run_mtree(line: &str) -> String {
    let parts: Vec<&str> = line.split('|').collect();
    let head: Vec<&str> = parts[0].split_whitespace().collect();
    let (op, index, mode) = (head[0], head[1].parse::<u64>().unwrap(), head[2]);
    let newv = felts(parts[1]);
    let lv = felts(parts[2]);
    let res = catch_unwind(AssertUnwindSafe(|| {
        let leaves: Vec<Word> = lv.chunks(4).map(|c| [Felt::new(c[0]), Felt::new(c[1]), Felt::new(c[2]), Felt::new(c[3])]).collect();
        let tree = MerkleTree::new(leaves.clone()).unwrap();
        let store = MerkleStore::from(&tree);
        let root = tree.root();
        let depth = tree.depth() as u64;
        // stack inputs are given bottom-first to `try_from_values`
        let mut st: Vec<u64> = Vec::new();
        let claimed_index = match mode {
            "badindex" => (index + 1) % (1u64 << depth),
            // an index outside the tree: index + k * 2^depth, answered by a host that reduces it
            "wrapindex" => index + (1u64 << depth),
            "wrapindex2" => index + 3 * (1u64 << depth),
            _ => index,
        };
        match op {
            "get" => {
                st.extend(root.iter().map(|f| f.as_int()));
                st.push(claimed_index);
                st.push(depth);
            }
            "verify" => {
                st.extend(root.iter().map(|f| f.as_int()));
                st.push(claimed_index);
                st.push(depth);
                // the value claimed to be at the index
                st.extend(leaves[index as usize].iter().map(|f| f.as_int()));
            }
            "set" => {
                st.extend(newv.iter());
                st.extend(root.iter().map(|f| f.as_int()));
                st.push(claimed_index);
                st.push(depth);
            }
            _ => panic!("unknown op"),
        }
        let src = format!("begin mtree_{op} end");
        let program = Assembler::default().compile(&src).unwrap();
        let adv = AdviceInputs::default().with_merkle_store(store);
        let host = LyingHost {
            inner: DefaultHost::new(MemAdviceProvider::from(adv)),
            bad_path: mode == "badpath",
            bad_node: mode == "badnode",
            wrap_index: mode.starts_with("wrapindex"),
        };
        let opts = ExecutionOptions::new(Some(1 << 14), 64, false).unwrap();
        let mut process = Process::new(Kernel::default(), StackInputs::try_from_values(st).unwrap(), host, opts);
        match process.execute(&program) {
            Ok(out) => {
                let s: Vec<String> = out.stack().iter().map(|v| v.to_string()).collect();
                let r: Vec<String> = root.iter().map(|f| f.as_int().to_string()).collect();
                // the root the native tree has after the same update
                let mut l2 = leaves.clone();
                if newv.len() == 4 {
                    l2[index as usize] = [Felt::new(newv[0]), Felt::new(newv[1]), Felt::new(newv[2]), Felt::new(newv[3])];
                }
                let r2: Vec<String> = MerkleTree::new(l2).unwrap().root().iter().map(|f| f.as_int().to_string()).collect();
                format!("OK stack={} root={} updated_root={}", s.join(","), r.join(","), r2.join(","))
            }
            Err(e) => format!("ERR {}", err_string(&e)),
        }
    }));
    match res {
        Ok(s) => s,
        Err(p) => format!("PANIC {}", panic_msg(p).replace('\n', " ")),
    }
}

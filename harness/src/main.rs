mod air;
mod asmseq;
mod coll;
mod dump;
mod sym;
mod exec;
mod hints;
mod masm;
mod parse;
mod pubin;
mod pv;
mod serde;
mod trace;

use std::io::BufRead;

fn run_family(family: &str, path: &str) {
    let f = std::fs::File::open(path).expect("cases file");
    for line in std::io::BufReader::new(f).lines() {
        let line = line.unwrap();
        if line.trim().is_empty() {
            continue;
        }
        let r = match family {
            "exec" => exec::run_case(&line),
            "options" => exec::run_options(&line),
            "masm" => masm::run_masm(&line),
            "stream" => trace::run_stream(&line),
            "iter" => trace::run_iter(&line),
            "batch" => trace::run_batch(&line),
            "aireval" => air::run_aireval(&line),
            "frames" => air::run_frames(&line),
            "perturb" => air::run_perturb(&line),
            "airfull" => air::run_airfull(&line),
            "tracehash" => trace::run_tracehash(&line),
            "asmdump" => masm::run_asmdump(&line),
            "serde" => serde::run_serde(&line),
            "asmseq" => asmseq::run_asmseq(&line),
            "mtree" => hints::run_mtree(&line),
            "pv" => pv::run_pv(&line),
            "pvweak" => pv::run_pvweak(&line),
            "pubelems" => pubin::run_pubelems(&line),
            "smt" => coll::run_smt(&line),
            "mmr" => coll::run_mmr(&line),
            _ => panic!("unknown family {family}"),
        };
        // result lines carry a marker: the default host prints debug decorators to stdout
        println!("@@ {r}");
    }
}

fn main() {
    if std::env::var("MVH_TRACE").is_err() {
        std::panic::set_hook(Box::new(|_| {}));
    }
    let args: Vec<String> = std::env::args().collect();
    match args[1].as_str() {
        "dump-const" => dump::dump_const(),
        "dump-air" => air::dump_air(),
        "dump-opts" => dump::dump_opts(),
        "run" => run_family(&args[2], &args[3]),
        x => panic!("unknown command {x}"),
    }
}

//! `masm` / `asmdump` families: the real assembler (and processor) on MASM source.
use crate::exec::{err_string, panic_msg};
use crate::parse::op_name;
use miden_assembly::{Assembler, AssemblyError};
use miden_processor::{
    AdviceInputs, ContextId, DefaultHost, ExecutionOptions, MemAdviceProvider, Process, Program,
    StackInputs,
};
use std::panic::{catch_unwind, AssertUnwindSafe};
use vm_core::code_blocks::CodeBlock;

pub fn asm_err_string(e: &AssemblyError) -> String {
    use AssemblyError::*;
    match e {
        CallInKernel(_) => "CallInKernel".into(),
        CallSetProcedureNotFound(_) => "CallSetProcedureNotFound".into(),
        CallerOutOKernel => "CallerOutOfKernel".into(),
        CircularModuleDependency(_) => "CircularModuleDependency".into(),
        ConflictingNumLocals(_) => "ConflictingNumLocals".into(),
        DivisionByZero => "DivisionByZero".into(),
        DuplicateProcId(_) => "DuplicateProcId".into(),
        DuplicateProcName(_, _) => "DuplicateProcName".into(),
        ExportedProcInProgram(_) => "ExportedProcInProgram".into(),
        ImportedProcModuleNotFound(_, _) => "ImportedProcModuleNotFound".into(),
        ImportedProcNotFoundInModule(_, _) => "ImportedProcNotFoundInModule".into(),
        KernelProcNotFound(_) => "KernelProcNotFound".into(),
        LocalProcNotFound(_, _) => "LocalProcNotFound".into(),
        ParamOutOfBounds(v, lo, hi) => format!("ParamOutOfBounds {v} {lo} {hi}"),
        ParsingError(m) => format!("ParsingError {}", m.replace('\n', " ")),
        PhantomCallsNotAllowed(_) => "PhantomCallsNotAllowed".into(),
        SysCallInKernel(_) => "SysCallInKernel".into(),
        other => format!("Other {other:?}").replace('\n', " "),
    }
}

pub fn make_assembler(opts: &str, kernel: &str) -> Result<Assembler, AssemblyError> {
    let mut a = Assembler::default();
    if opts.contains("dbg") {
        a = a.with_debug_mode(true);
    }
    if opts.contains("std") {
        a = a.with_library(&miden_stdlib::StdLibrary::default())?;
    }
    if !kernel.trim().is_empty() {
        a = a.with_kernel(kernel)?;
    }
    Ok(a)
}

pub fn dump_block(b: &CodeBlock, out: &mut String) {
    match b {
        CodeBlock::Span(s) => {
            let ops: Vec<String> =
                s.op_batches().iter().flat_map(|b| b.ops().iter()).map(op_name).collect();
            out.push_str(&format!("S {} {} ", ops.len(), ops.join(" ")));
        }
        CodeBlock::Join(j) => {
            out.push_str("J ");
            dump_block(j.first(), out);
            dump_block(j.second(), out);
        }
        CodeBlock::Split(s) => {
            out.push_str("P ");
            dump_block(s.on_true(), out);
            dump_block(s.on_false(), out);
        }
        CodeBlock::Loop(l) => {
            out.push_str("L ");
            dump_block(l.body(), out);
        }
        CodeBlock::Call(c) => {
            let h: Vec<String> = c.fn_hash().as_elements().iter().map(|f| f.as_int().to_string()).collect();
            if c.fn_hash() == vm_core::code_blocks::Dyn::dyn_hash() {
                out.push_str("DC ");
            } else {
                out.push_str(&format!("{} {} ", if c.is_syscall() { "YH" } else { "CH" }, h.join(" ")));
            }
        }
        CodeBlock::Dyn(_) => out.push_str("D "),
        CodeBlock::Proxy(_) => out.push_str("PROXY "),
    }
}

/// case: <opts> | <kernel source> | <program source>   ->  MAST in the case language
pub fn run_asmdump(line: &str) -> String {
    let parts: Vec<&str> = line.split('|').collect();
    let res = catch_unwind(AssertUnwindSafe(|| {
        let a = match make_assembler(parts[0], parts[1]) {
            Ok(a) => a,
            Err(e) => return format!("ASMERR {}", asm_err_string(&e)),
        };
        match a.compile(parts[2]) {
            Ok(p) => {
                let mut s = String::from("OK ");
                dump_block(p.root(), &mut s);
                let h: Vec<String> = p.hash().as_elements().iter().map(|f| f.as_int().to_string()).collect();
                format!("{}# {}", s, h.join(","))
            }
            Err(e) => format!("ASMERR {}", asm_err_string(&e)),
        }
    }));
    match res {
        Ok(s) => s,
        Err(p) => format!("PANIC {}", panic_msg(p)),
    }
}

pub fn exec_program_report(program: &Program, limits: (u32, u32), stack: Vec<u64>, adv: Vec<u64>, tracing: bool) -> String {
    let (max_cycles, expected) = limits;
    let mut stack = stack;
    stack.reverse();
    let stack_inputs = StackInputs::try_from_values(stack).unwrap();
    let advice_inputs = AdviceInputs::default().with_stack_values(adv).unwrap();
    let host = DefaultHost::new(MemAdviceProvider::from(advice_inputs));
    let opts = ExecutionOptions::new(Some(max_cycles), expected, tracing).unwrap();
    let mut process = Process::new(program.kernel().clone(), stack_inputs, host, opts);
    let r = process.execute(program);
    let clk = process.system.clk();
    let mut out = String::new();
    match &r {
        Ok(_) => out.push_str("OK"),
        Err(e) => {
            out.push_str("ERR ");
            out.push_str(&err_string(e));
        }
    }
    out.push_str(&format!(" clk={clk}"));
    if r.is_ok() {
        out.push_str(&format!(" fmp={} ctx={}", process.system.fmp().as_int(), u32::from(process.system.ctx())));
        let st = process.stack.get_state_at(clk);
        let s: Vec<String> = st.iter().map(|f| f.as_int().to_string()).collect();
        out.push_str(&format!(" stack={}", s.join(",")));
        let advleft = process.host.borrow().advice_provider().stack().len();
        out.push_str(&format!(" adv={advleft}"));
        let mut mem: Vec<String> = Vec::new();
        for ctx in 0..=clk {
            for (addr, w) in process.chiplets.get_mem_state_at(ContextId::from(ctx), clk) {
                if w.iter().all(|x| x.as_int() == 0) {
                    continue;
                }
                mem.push(format!("{ctx}:{addr}:{},{},{},{}", w[0].as_int(), w[1].as_int(), w[2].as_int(), w[3].as_int()));
            }
        }
        out.push_str(&format!(" mem={}", mem.join(";")));
    }
    out
}

/// case: <max> | <stack> | <adv> | <opts> | <kernel source> | <program source>
pub fn run_masm(line: &str) -> String {
    let parts: Vec<&str> = line.split('|').collect();
    let max_cycles = crate::exec::parse_limits(parts[0]);
    let stack: Vec<u64> = parts[1].split_whitespace().map(|t| t.parse().unwrap()).collect();
    let adv: Vec<u64> = parts[2].split_whitespace().map(|t| t.parse().unwrap()).collect();
    let res = catch_unwind(AssertUnwindSafe(|| {
        let a = match make_assembler(parts[3], parts[4]) {
            Ok(a) => a,
            Err(e) => return format!("ASMERR {}", asm_err_string(&e)),
        };
        let program = match a.compile(parts[5]) {
            Ok(p) => p,
            Err(e) => return format!("ASMERR {}", asm_err_string(&e)),
        };
        exec_program_report(&program, max_cycles, stack, adv, parts[3].contains("trc"))
    }));
    match res {
        Ok(s) => s,
        Err(p) => format!("PANIC {}", panic_msg(p)),
    }
}

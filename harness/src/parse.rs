//! Parsing of the line-oriented case language shared with the OCaml model driver.
use miden_processor::{Digest, Kernel, Operation, Program};
use vm_core::{code_blocks::CodeBlock, CodeBlockTable, Felt};

pub struct Toks<'a> {
    pub v: Vec<&'a str>,
    pub i: usize,
}
impl<'a> Toks<'a> {
    pub fn new(s: &'a str) -> Self {
        Toks { v: s.split_whitespace().collect(), i: 0 }
    }
    pub fn next(&mut self) -> &'a str {
        let t = self.v[self.i];
        self.i += 1;
        t
    }
    pub fn done(&self) -> bool {
        self.i >= self.v.len()
    }
}

thread_local! {
    /// Merkle tree of the current case (root, leaves), for the value tokens r.<j> and l<i>.<j>
    pub static MERKLE: std::cell::RefCell<Option<(Vec<u64>, Vec<Vec<u64>>)>> = std::cell::RefCell::new(None);
}

/// value token: decimal integer, h<proc>.<j> (j-th element of the hash of procedure proc),
/// r.<j> (j-th element of the root of the case's Merkle tree) or l<i>.<j> (element of leaf i)
pub fn parse_val(t: &str, hashes: &[Digest]) -> u64 {
    if let Some(rest) = t.strip_prefix("r.") {
        let j: usize = rest.parse().unwrap();
        return MERKLE.with(|m| m.borrow().as_ref().expect("no merkle tree in this case").0[j]);
    }
    if let Some(rest) = t.strip_prefix('l') {
        let mut it = rest.split('.');
        let i: usize = it.next().unwrap().parse().unwrap();
        let j: usize = it.next().unwrap().parse().unwrap();
        return MERKLE.with(|m| m.borrow().as_ref().expect("no merkle tree in this case").1[i][j]);
    }
    if let Some(rest) = t.strip_prefix('h') {
        let mut it = rest.split('.');
        let p: usize = it.next().unwrap().parse().unwrap();
        let j: usize = it.next().unwrap().parse().unwrap();
        hashes[p].as_elements()[j].as_int()
    } else {
        t.parse::<u64>().unwrap()
    }
}

pub fn parse_op(t: &str, hashes: &[Digest]) -> Operation {
    use Operation::*;
    let (name, arg) = match t.find(':') {
        Some(k) => (&t[..k], Some(&t[k + 1..])),
        None => (t, None),
    };
    match name {
        "noop" => Noop,
        "assert" => Assert(arg.unwrap().parse().unwrap()),
        "fmpadd" => FmpAdd,
        "fmpupdate" => FmpUpdate,
        "sdepth" => SDepth,
        "caller" => Caller,
        "clk" => Clk,
        "add" => Add,
        "neg" => Neg,
        "mul" => Mul,
        "inv" => Inv,
        "incr" => Incr,
        "and" => And,
        "or" => Or,
        "not" => Not,
        "eq" => Eq,
        "eqz" => Eqz,
        "expacc" => Expacc,
        "ext2mul" => Ext2Mul,
        "u32split" => U32split,
        "u32add" => U32add,
        "u32assert2" => U32assert2(Felt::new(arg.unwrap().parse().unwrap())),
        "u32add3" => U32add3,
        "u32sub" => U32sub,
        "u32mul" => U32mul,
        "u32madd" => U32madd,
        "u32div" => U32div,
        "u32and" => U32and,
        "u32xor" => U32xor,
        "pad" => Pad,
        "drop" => Drop,
        "dup0" => Dup0,
        "dup1" => Dup1,
        "dup2" => Dup2,
        "dup3" => Dup3,
        "dup4" => Dup4,
        "dup5" => Dup5,
        "dup6" => Dup6,
        "dup7" => Dup7,
        "dup9" => Dup9,
        "dup11" => Dup11,
        "dup13" => Dup13,
        "dup15" => Dup15,
        "swap" => Swap,
        "swapw" => SwapW,
        "swapw2" => SwapW2,
        "swapw3" => SwapW3,
        "swapdw" => SwapDW,
        "movup2" => MovUp2,
        "movup3" => MovUp3,
        "movup4" => MovUp4,
        "movup5" => MovUp5,
        "movup6" => MovUp6,
        "movup7" => MovUp7,
        "movup8" => MovUp8,
        "movdn2" => MovDn2,
        "movdn3" => MovDn3,
        "movdn4" => MovDn4,
        "movdn5" => MovDn5,
        "movdn6" => MovDn6,
        "movdn7" => MovDn7,
        "movdn8" => MovDn8,
        "cswap" => CSwap,
        "cswapw" => CSwapW,
        "push" => Push(Felt::new(parse_val(arg.unwrap(), hashes))),
        "advpop" => AdvPop,
        "advpopw" => AdvPopW,
        "mloadw" => MLoadW,
        "mstorew" => MStoreW,
        "mload" => MLoad,
        "mstore" => MStore,
        "mstream" => MStream,
        "pipe" => Pipe,
        "hperm" => HPerm,
        "mpverify" => MpVerify,
        "mrupdate" => MrUpdate,
        "frie2f4" => FriE2F4,
        "rcombbase" => RCombBase,
        _ => panic!("unknown op token {t}"),
    }
}

pub fn op_name(op: &Operation) -> String {
    use Operation::*;
    match op {
        Assert(c) => format!("assert:{c}"),
        U32assert2(c) => format!("u32assert2:{}", c.as_int()),
        Push(v) => format!("push:{}", v.as_int()),
        Call => "call".into(),
        SysCall => "syscall".into(),
        Dyn => "dyn".into(),
        RCombBase => "rcombbase".into(),
        o => format!("{o}"),
    }
}

/// block := S n op*n | J b b | P b b | L b | C idx | Y idx | D | DC
pub fn parse_block(t: &mut Toks, hashes: &[Digest]) -> CodeBlock {
    match t.next() {
        "S" => {
            let n: usize = t.next().parse().unwrap();
            let mut ops = Vec::with_capacity(n);
            for _ in 0..n {
                ops.push(parse_op(t.next(), hashes));
            }
            CodeBlock::new_span(ops)
        }
        "J" => {
            let a = parse_block(t, hashes);
            let b = parse_block(t, hashes);
            CodeBlock::new_join([a, b])
        }
        "P" => {
            let a = parse_block(t, hashes);
            let b = parse_block(t, hashes);
            CodeBlock::new_split(a, b)
        }
        "L" => {
            let a = parse_block(t, hashes);
            CodeBlock::new_loop(a)
        }
        "C" => {
            let i: usize = t.next().parse().unwrap();
            CodeBlock::new_call(hashes[i])
        }
        "Y" => {
            let i: usize = t.next().parse().unwrap();
            CodeBlock::new_syscall(hashes[i])
        }
        "D" => CodeBlock::new_dyn(),
        "DC" => CodeBlock::new_dyncall(),
        x => panic!("unknown block token {x}"),
    }
}

pub struct ParsedProgram {
    pub program: Program,
    pub hashes: Vec<Digest>,
}

/// program := T k ((K|U|X) block)*k block
///   K: procedure is in the kernel and in the table; U: in the table only;
///   X: hash known but body NOT inserted into the table (phantom)
pub fn parse_program(t: &mut Toks) -> ParsedProgram {
    assert_eq!(t.next(), "T");
    let k: usize = t.next().parse().unwrap();
    let mut hashes: Vec<Digest> = Vec::new();
    let mut kernel: Vec<Digest> = Vec::new();
    let mut table = CodeBlockTable::default();
    for _ in 0..k {
        let flag = t.next();
        let b = parse_block(t, &hashes);
        hashes.push(b.hash());
        match flag {
            "K" => {
                // two generated kernel procedures may be identical: the kernel is a set of hashes
                if !kernel.contains(&b.hash()) {
                    kernel.push(b.hash());
                }
                table.insert(b);
            }
            "U" => table.insert(b),
            "X" => {}
            _ => panic!("bad proc flag"),
        }
    }
    let root = parse_block(t, &hashes);
    let kernel = Kernel::new(&kernel).unwrap();
    ParsedProgram { program: Program::with_kernel(root, kernel, table), hashes }
}

//! `pubelems` family (C02): the element sequence of a public statement, next to its components as the
//! public API exposes them.
//!
//! case: <program hash, 4> | <kernel procedure hashes, 4 each> | <stack inputs, bottom first> | <output stack, top first> | <overflow addresses>
//! output: OK kernel=<stored order, words separated by /> inputs=<values()> outputs=<stack()> addrs=<overflow_addrs()> elements=<to_elements()>
use crate::exec::panic_msg;
use miden_air::PublicInputs;
use miden_processor::{Digest, Kernel, ProgramInfo, StackInputs, StackOutputs};
use std::panic::{catch_unwind, AssertUnwindSafe};
use vm_core::{Felt, ToElements};

fn nums(s: &str) -> Vec<u64> {
    s.split_whitespace().map(|t| t.parse().unwrap()).collect()
}

fn join(v: &[u64]) -> String {
    if v.is_empty() {
        "-".to_string()
    } else {
        v.iter().map(|x| x.to_string()).collect::<Vec<_>>().join(",")
    }
}

pub fn run_pubelems(line: &str) -> String {
    let parts: Vec<&str> = line.split('|').collect();
    let res = catch_unwind(AssertUnwindSafe(|| {
        let h = nums(parts[0]);
        let k = nums(parts[1]);
        let ins = nums(parts[2]);
        let outs = nums(parts[3]);
        let addrs = nums(parts[4]);
        let dig = |c: &[u64]| Digest::new([Felt::new(c[0]), Felt::new(c[1]), Felt::new(c[2]), Felt::new(c[3])]);
        let procs: Vec<Digest> = k.chunks(4).map(dig).collect();
        let kernel = match Kernel::new(&procs) {
            Ok(k) => k,
            Err(e) => return format!("ERR kernel {e:?}"),
        };
        let info = ProgramInfo::new(dig(&h), kernel.clone());
        let si = match StackInputs::try_from_values(ins) {
            Ok(s) => s,
            Err(e) => return format!("ERR inputs {e:?}"),
        };
        let so = match StackOutputs::new(outs, addrs) {
            Ok(s) => s,
            Err(e) => return format!("ERR outputs {e:?}"),
        };
        let pi = PublicInputs::new(info, si.clone(), so.clone());
        let els: Vec<u64> = pi.to_elements().iter().map(|f| f.as_int()).collect();
        let kw: Vec<String> = kernel.proc_hashes().iter().map(|d| join(&d.as_elements().iter().map(|f| f.as_int()).collect::<Vec<_>>())).collect();
        let iv: Vec<u64> = si.values().iter().map(|f| f.as_int()).collect();
        format!(
            "OK kernel={} inputs={} outputs={} addrs={} elements={}",
            if kw.is_empty() { "-".to_string() } else { kw.join("/") },
            join(&iv),
            join(so.stack()),
            join(so.overflow_addrs()),
            join(&els)
        )
    }));
    match res {
        Ok(s) => s,
        Err(p) => format!("PANIC {}", panic_msg(p).replace('\n', " ")),
    }
}

//! `pv` family (C01/C02): execute, prove, verify; then present the verifier with altered
//! statements and altered proofs.
//!
//! case: <option set 0..3> | <stack top-first> | <advice> | <opts> | <kernel source> | <program source>
//! output: OK clk=.. len=.. sec=<reported>/<configured> verify=<ok|err(..)> bytes=<ok|..> deep=<n outputs>
//!            tamper=<tried>/<rejected> accepted=<labels> panics=<labels>
use crate::exec::{err_string, panic_msg};
use crate::masm::{asm_err_string, make_assembler};
use miden_air::{ExecutionProof, HashFunction, ProvingOptions};
use miden_processor::{AdviceInputs, DefaultHost, Digest, Kernel, MemAdviceProvider, ProgramInfo, StackInputs};
use std::panic::{catch_unwind, AssertUnwindSafe};
use vm_core::{Felt, StackOutputs};

fn option_set(i: usize) -> (ProvingOptions, u32) {
    match i {
        0 => (ProvingOptions::with_96_bit_security(false), 96),
        1 => (ProvingOptions::with_128_bit_security(false), 128),
        2 => (ProvingOptions::with_96_bit_security(true), 96),
        _ => (ProvingOptions::with_128_bit_security(true), 128),
    }
}

fn vclass(r: Result<u32, miden_verifier::VerificationError>) -> String {
    match r {
        Ok(_) => "ok".into(),
        Err(e) => format!("err({})", format!("{e:?}").split(|c: char| !c.is_alphanumeric()).next().unwrap_or("")),
    }
}

pub fn run_pv(line: &str) -> String {
    let parts: Vec<&str> = line.split('|').collect();
    let res = catch_unwind(AssertUnwindSafe(|| {
        let set: usize = parts[0].trim().parse().unwrap();
        let mut stack: Vec<u64> = parts[1].split_whitespace().map(|t| t.parse().unwrap()).collect();
        stack.reverse();
        let adv: Vec<u64> = parts[2].split_whitespace().map(|t| t.parse().unwrap()).collect();
        let a = match make_assembler(parts[3], parts[4]) {
            Ok(a) => a,
            Err(e) => return format!("ASMERR {}", asm_err_string(&e)),
        };
        let program = match a.compile(parts[5]) {
            Ok(p) => p,
            Err(e) => return format!("ASMERR {}", asm_err_string(&e)),
        };
        let (opts, configured) = option_set(set);
        let si = StackInputs::try_from_values(stack).unwrap();
        let host = DefaultHost::new(MemAdviceProvider::from(AdviceInputs::default().with_stack_values(adv).unwrap()));
        let (so, proof) = match miden_prover::prove(&program, si.clone(), host, opts) {
            Ok(x) => x,
            Err(e) => return format!("ERR {}", err_string(&e)),
        };
        let pinfo = ProgramInfo::from(program.clone());
        let sec = proof.security_level();
        let v0 = vclass(miden_verifier::verify(pinfo.clone(), si.clone(), so.clone(), proof.clone()));
        let bytes = proof.to_bytes();
        let vb = match ExecutionProof::from_bytes(&bytes) {
            Ok(p) => {
                if p != proof {
                    "different".to_string()
                } else {
                    vclass(miden_verifier::verify(pinfo.clone(), si.clone(), so.clone(), p))
                }
            }
            Err(_) => "undecodable".into(),
        };

        // ---- altered statements and proofs -----------------------------------------------------
        let mut tried = 0;
        let mut rejected = 0;
        let mut accepted: Vec<String> = Vec::new();
        let mut panics: Vec<String> = Vec::new();
        let mut attempt = |label: String, f: &dyn Fn() -> Result<u32, miden_verifier::VerificationError>| {
            tried += 1;
            match catch_unwind(AssertUnwindSafe(f)) {
                Ok(Ok(_)) => accepted.push(label),
                Ok(Err(_)) => rejected += 1,
                Err(_) => panics.push(label),
            }
        };
        let ph: Vec<Felt> = pinfo.program_hash().as_elements().to_vec();
        let kern: Vec<Digest> = pinfo.kernel().proc_hashes().to_vec();
        let mk_info = |h: &[Felt], k: &[Digest]| ProgramInfo::new(Digest::new([h[0], h[1], h[2], h[3]]), Kernel::new(k).unwrap());
        for i in 0..4 {
            let mut h = ph.clone();
            h[i] += Felt::new(1);
            let info = mk_info(&h, &kern);
            attempt(format!("program_hash[{i}]"), &|| miden_verifier::verify(info.clone(), si.clone(), so.clone(), proof.clone()));
        }
        {
            // a kernel procedure more
            let mut k = kern.clone();
            k.push(Digest::new([Felt::new(1), Felt::new(2), Felt::new(3), Felt::new(4)]));
            let info = mk_info(&ph, &k);
            attempt("kernel+1".into(), &|| miden_verifier::verify(info.clone(), si.clone(), so.clone(), proof.clone()));
            if !kern.is_empty() {
                let info = mk_info(&ph, &kern[1..]);
                attempt("kernel-1".into(), &|| miden_verifier::verify(info.clone(), si.clone(), so.clone(), proof.clone()));
                let mut k2 = kern.clone();
                let e = k2[0].as_elements();
                k2[0] = Digest::new([e[0] + Felt::new(1), e[1], e[2], e[3]]);
                let info = mk_info(&ph, &k2);
                attempt("kernel[0]".into(), &|| miden_verifier::verify(info.clone(), si.clone(), so.clone(), proof.clone()));
            }
        }
        let inv: Vec<u64> = si.values().iter().map(|f| f.as_int()).collect();
        for i in 0..inv.len().max(1) {
            // values() is top-first; try_from_values takes bottom-first
            let mut v: Vec<u64> = inv.clone();
            if v.is_empty() {
                v.push(1);
            } else {
                v[i] = (v[i] + 1) % 0xffff_ffff_0000_0001;
            }
            v.reverse();
            if let Ok(s2) = StackInputs::try_from_values(v) {
                attempt(format!("stack_in[{i}]"), &|| miden_verifier::verify(pinfo.clone(), s2.clone(), so.clone(), proof.clone()));
            }
        }
        {
            let mut v = inv.clone();
            v.push(5); // one more element below the given ones
            v.reverse();
            if let Ok(s2) = StackInputs::try_from_values(v) {
                attempt("stack_in+1".into(), &|| miden_verifier::verify(pinfo.clone(), s2.clone(), so.clone(), proof.clone()));
            }
        }
        let ost: Vec<u64> = so.stack().to_vec();
        let oad: Vec<u64> = so.overflow_addrs().to_vec();
        for i in 0..ost.len() {
            let mut v = ost.clone();
            v[i] = (v[i] + 1) % 0xffff_ffff_0000_0001;
            if let Ok(o2) = StackOutputs::new(v, oad.clone()) {
                attempt(format!("stack_out[{i}]"), &|| miden_verifier::verify(pinfo.clone(), si.clone(), o2.clone(), proof.clone()));
            }
        }
        for i in 0..oad.len() {
            let mut v = oad.clone();
            v[i] = (v[i] + 1) % 0xffff_ffff_0000_0001;
            if let Ok(o2) = StackOutputs::new(ost.clone(), v) {
                attempt(format!("overflow_addr[{i}]"), &|| miden_verifier::verify(pinfo.clone(), si.clone(), o2.clone(), proof.clone()));
            }
        }
        // non-canonical aliases (v + p) of outputs, overflow addresses and inputs: either the constructor
        // refuses them or verification fails
        const M: u64 = 0xffff_ffff_0000_0001;
        for i in 0..ost.len() {
            if let Some(a) = ost[i].checked_add(M) {
                let mut v = ost.clone();
                v[i] = a;
                match StackOutputs::new(v, oad.clone()) {
                    Ok(o2) => attempt(format!("stack_out_alias[{i}]"), &|| miden_verifier::verify(pinfo.clone(), si.clone(), o2.clone(), proof.clone())),
                    Err(_) => attempt(format!("stack_out_alias[{i}]"), &|| Err(miden_verifier::VerificationError::InputNotFieldElement(0))),
                }
            }
        }
        for i in 0..oad.len() {
            if let Some(a) = oad[i].checked_add(M) {
                let mut v = oad.clone();
                v[i] = a;
                match StackOutputs::new(ost.clone(), v) {
                    Ok(o2) => attempt(format!("overflow_addr_alias[{i}]"), &|| miden_verifier::verify(pinfo.clone(), si.clone(), o2.clone(), proof.clone())),
                    Err(_) => attempt(format!("overflow_addr_alias[{i}]"), &|| Err(miden_verifier::VerificationError::InputNotFieldElement(0))),
                }
            }
        }
        for i in 0..inv.len() {
            if let Some(a) = inv[i].checked_add(M) {
                let mut v = inv.clone();
                v[i] = a;
                v.reverse();
                match StackInputs::try_from_values(v) {
                    Ok(s2) => attempt(format!("stack_in_alias[{i}]"), &|| miden_verifier::verify(pinfo.clone(), s2.clone(), so.clone(), proof.clone())),
                    Err(_) => attempt(format!("stack_in_alias[{i}]"), &|| Err(miden_verifier::VerificationError::InputNotFieldElement(0))),
                }
            }
        }
        if ost.len() > 16 {
            // drop the deepest output (and its address)
            if let Ok(o2) = StackOutputs::new(ost[..ost.len() - 1].to_vec(), oad[..oad.len() - 1].to_vec()) {
                attempt("stack_out-1".into(), &|| miden_verifier::verify(pinfo.clone(), si.clone(), o2.clone(), proof.clone()));
            }
        }
        // proof bytes: a flip in every region, truncations
        let n = bytes.len();
        let mut positions: Vec<usize> = (1..40.min(n)).collect();
        for k in 1..48 {
            positions.push(n * k / 48);
        }
        positions.push(n - 1);
        for p in positions {
            let mut b = bytes.clone();
            b[p] ^= 1 << (p % 8);
            attempt(format!("flip@{p}"), &|| match ExecutionProof::from_bytes(&b) {
                Ok(pr) => miden_verifier::verify(pinfo.clone(), si.clone(), so.clone(), pr),
                Err(_) => Err(miden_verifier::VerificationError::InputNotFieldElement(0)),
            });
        }
        for cut in [n - 1, n - 8, n / 2, 64, 2] {
            let b = bytes[..cut.min(n)].to_vec();
            attempt(format!("truncate@{cut}"), &|| match ExecutionProof::from_bytes(&b) {
                Ok(pr) => miden_verifier::verify(pinfo.clone(), si.clone(), so.clone(), pr),
                Err(_) => Err(miden_verifier::VerificationError::InputNotFieldElement(0)),
            });
        }
        // the hash function relabelled
        let (_, stark) = proof.clone().into_parts();
        for (hf, name) in [(HashFunction::Blake3_192, "blake192"), (HashFunction::Blake3_256, "blake256"), (HashFunction::Rpo256, "rpo")] {
            if hf == proof.hash_fn() {
                continue;
            }
            let p2 = ExecutionProof::new(stark.clone(), hf);
            attempt(format!("relabel:{name}"), &|| miden_verifier::verify(pinfo.clone(), si.clone(), so.clone(), p2.clone()));
        }
        format!(
            "OK log2len={} sec={}/{} verify={} bytes={} outputs={} tamper={}/{} accepted={} panics={}",
            proof.stark_proof().trace_length().ilog2(),
            sec,
            configured,
            v0,
            vb,
            ost.len(),
            tried,
            rejected,
            if accepted.is_empty() { "-".to_string() } else { accepted.join(",") },
            if panics.is_empty() { "-".to_string() } else { panics.join(",") }
        )
    }));
    match res {
        Ok(s) => s,
        Err(p) => format!("PANIC {}", panic_msg(p).replace('\n', " ")),
    }
}

/// `pvweak`: a proof produced with options weaker than the accepted sets must be rejected.
/// case: <num_queries> <blowup> <grinding> <ext 1|2|3> <folding> <remainder> <hash 0|1|2> | <program source>
pub fn run_pvweak(line: &str) -> String {
    let parts: Vec<&str> = line.split('|').collect();
    let t: Vec<usize> = parts[0].split_whitespace().map(|x| x.parse().unwrap()).collect();
    let res = catch_unwind(AssertUnwindSafe(|| {
        let program = miden_assembly::Assembler::default().compile(parts[1]).unwrap();
        let ext = match t[3] {
            1 => winter_air::FieldExtension::None,
            2 => winter_air::FieldExtension::Quadratic,
            _ => winter_air::FieldExtension::Cubic,
        };
        let hf = match t[6] {
            0 => HashFunction::Blake3_192,
            1 => HashFunction::Blake3_256,
            _ => HashFunction::Rpo256,
        };
        let opts = ProvingOptions::new(t[0], t[1], t[2] as u32, ext, t[4], t[5], hf);
        let si = StackInputs::default();
        let host = DefaultHost::new(MemAdviceProvider::default());
        let (so, proof) = match miden_prover::prove(&program, si.clone(), host, opts) {
            Ok(x) => x,
            Err(e) => return format!("ERR {}", err_string(&e)),
        };
        let sec = proof.security_level();
        let v = vclass(miden_verifier::verify(ProgramInfo::from(program), si, so, proof));
        format!("OK sec={sec} verify={v}")
    }));
    match res {
        Ok(s) => s,
        Err(p) => format!("PANIC {}", panic_msg(p).replace('\n', " ")),
    }
}

//! `serde` family: the real serialisers and deserialisers, with the primitive reads and writes
//! they perform recorded as a token stream (`1:v` u8, `2:v` u16, `4:v` u32, `8:v` u64), so that
//! the model's decoding of the same bytes can be compared field by field.
//!
//! cases:
//!   src <kind> <imports 0|1> <hex of MASM source>     kind = prog | mod | lib
//!   val <kind> <ints...>                              kind = si | adv | so | kern | pinfo
//!   dec <kind> <hex bytes>                            every kind, plus proof
use crate::exec::panic_msg;
use miden_assembly::ast::{AstSerdeOptions, ModuleAst, ProgramAst};
use miden_assembly::{Assembler, LibraryNamespace, LibraryPath, MaslLibrary, Module, Version};
use miden_processor::{AdviceInputs, Digest, Kernel, ProgramInfo, StackInputs};
use std::cell::RefCell;
use std::panic::{catch_unwind, AssertUnwindSafe};
use vm_core::{Felt, StackOutputs};
use winter_utils::{
    ByteReader, ByteWriter, Deserializable, DeserializationError, Serializable, SliceReader,
};

// TRACING WRITER / READER
// ================================================================================================

#[derive(Default)]
pub struct TraceWriter {
    pub bytes: Vec<u8>,
    pub toks: Vec<String>,
}

impl ByteWriter for TraceWriter {
    fn write_u8(&mut self, value: u8) {
        self.toks.push(format!("1:{value}"));
        self.bytes.push(value);
    }
    fn write_bytes(&mut self, values: &[u8]) {
        for v in values {
            self.toks.push(format!("1:{v}"));
        }
        self.bytes.extend_from_slice(values);
    }
    fn write_u16(&mut self, value: u16) {
        self.toks.push(format!("2:{value}"));
        self.bytes.extend_from_slice(&value.to_le_bytes());
    }
    fn write_u32(&mut self, value: u32) {
        self.toks.push(format!("4:{value}"));
        self.bytes.extend_from_slice(&value.to_le_bytes());
    }
    fn write_u64(&mut self, value: u64) {
        self.toks.push(format!("8:{value}"));
        self.bytes.extend_from_slice(&value.to_le_bytes());
    }
}

pub struct TraceReader<'a> {
    inner: SliceReader<'a>,
    toks: RefCell<Vec<String>>,
}

impl<'a> TraceReader<'a> {
    pub fn new(b: &'a [u8]) -> Self {
        Self { inner: SliceReader::new(b), toks: RefCell::new(Vec::new()) }
    }
    pub fn tokens(&self) -> String {
        self.toks.borrow().join(",")
    }
}

impl<'a> ByteReader for TraceReader<'a> {
    fn read_u8(&mut self) -> Result<u8, DeserializationError> {
        let v = self.inner.read_u8()?;
        self.toks.borrow_mut().push(format!("1:{v}"));
        Ok(v)
    }
    fn peek_u8(&self) -> Result<u8, DeserializationError> {
        self.inner.peek_u8()
    }
    fn read_slice(&mut self, len: usize) -> Result<&[u8], DeserializationError> {
        let s = self.inner.read_slice(len)?;
        let mut t = self.toks.borrow_mut();
        for v in s {
            t.push(format!("1:{v}"));
        }
        Ok(s)
    }
    fn read_array<const N: usize>(&mut self) -> Result<[u8; N], DeserializationError> {
        let s = self.inner.read_array::<N>()?;
        let mut t = self.toks.borrow_mut();
        for v in s.iter() {
            t.push(format!("1:{v}"));
        }
        Ok(s)
    }
    fn check_eor(&self, num_bytes: usize) -> Result<(), DeserializationError> {
        self.inner.check_eor(num_bytes)
    }
    fn has_more_bytes(&self) -> bool {
        self.inner.has_more_bytes()
    }
    fn read_u16(&mut self) -> Result<u16, DeserializationError> {
        let v = self.inner.read_u16()?;
        self.toks.borrow_mut().push(format!("2:{v}"));
        Ok(v)
    }
    fn read_u32(&mut self) -> Result<u32, DeserializationError> {
        let v = self.inner.read_u32()?;
        self.toks.borrow_mut().push(format!("4:{v}"));
        Ok(v)
    }
    fn read_u64(&mut self) -> Result<u64, DeserializationError> {
        let v = self.inner.read_u64()?;
        self.toks.borrow_mut().push(format!("8:{v}"));
        Ok(v)
    }
}

// HELPERS
// ================================================================================================

pub fn hex(b: &[u8]) -> String {
    let mut s = String::with_capacity(b.len() * 2);
    for x in b {
        s.push_str(&format!("{x:02x}"));
    }
    s
}

pub fn unhex(s: &str) -> Vec<u8> {
    let s = s.trim();
    (0..s.len() / 2).map(|i| u8::from_str_radix(&s[2 * i..2 * i + 2], 16).unwrap()).collect()
}

fn de_class(e: &DeserializationError) -> String {
    let clean = |m: &str| -> String {
        m.chars().take(70).map(|c| if c.is_ascii_graphic() { c } else { '_' }).collect()
    };
    match e {
        DeserializationError::InvalidValue(m) => format!("InvalidValue {}", clean(m)),
        DeserializationError::UnexpectedEOF => "UnexpectedEOF".into(),
        DeserializationError::UnconsumedBytes => "UnconsumedBytes".into(),
        DeserializationError::UnknownError(m) => format!("UnknownError {}", clean(m)),
    }
}

fn root_of(ast: &ProgramAst) -> String {
    // a fresh assembler per compilation: the procedure cache of an assembler is keyed by
    // procedure id, and local procedures of different programs share names
    thread_local! {
        static STD: miden_stdlib::StdLibrary = miden_stdlib::StdLibrary::default();
    }
    match catch_unwind(AssertUnwindSafe(|| {
        STD.with(|l| Assembler::default().with_library(l)).and_then(|a| a.compile_ast(ast))
    })) {
        Ok(Ok(p)) => {
            let h: Vec<String> = p.hash().as_elements().iter().map(|f| f.as_int().to_string()).collect();
            h.join(".")
        }
        Ok(Err(e)) => format!("ASMERR({})", crate::masm::asm_err_string(&e).split(' ').next().unwrap_or("")),
        Err(_) => "PANIC".into(),
    }
}

// A value of one of the serialisable kinds, with the operations the checks need.
enum Val {
    Prog(ProgramAst, bool),
    Mod(ModuleAst, bool),
    Lib(MaslLibrary, bool),
    Si(StackInputs),
    So(StackOutputs),
    Kern(Kernel),
    Pinfo(ProgramInfo),
}

impl Val {
    fn write<W: ByteWriter>(&self, w: &mut W) {
        match self {
            Val::Prog(a, imp) => a.write_into(w, AstSerdeOptions::new(*imp)),
            Val::Mod(a, imp) => {
                let o = AstSerdeOptions::new(*imp);
                o.write_into(w);
                a.write_into(w, o)
            }
            Val::Lib(l, _) => l.write_into(w),
            Val::Si(x) => x.write_into(w),
            Val::So(x) => x.write_into(w),
            Val::Kern(x) => x.write_into(w),
            Val::Pinfo(x) => x.write_into(w),
        }
    }

    fn api_bytes(&self) -> Vec<u8> {
        match self {
            Val::Prog(a, imp) => a.to_bytes(AstSerdeOptions::new(*imp)),
            Val::Mod(a, imp) => a.to_bytes(AstSerdeOptions::new(*imp)),
            Val::Lib(l, _) => l.to_bytes(),
            Val::Si(x) => x.to_bytes(),
            Val::So(x) => x.to_bytes(),
            Val::Kern(x) => x.to_bytes(),
            Val::Pinfo(x) => x.to_bytes(),
        }
    }

    /// Equality as the implementation defines it; ASTs decoded without imports are compared with
    /// the imports of the original cleared, as the format does not carry them.
    fn same(&self, other: &Val) -> bool {
        match (self, other) {
            (Val::Prog(a, imp), Val::Prog(b, _)) => {
                // the byte format does not carry source locations: compare without them
                let info = a.import_info().clone();
                let (mut procs, nodes) = a.clone().into_parts();
                procs.iter_mut().for_each(|p| p.clear_locations());
                let mut a = ProgramAst::new(nodes, procs).unwrap().with_import_info(info);
                let mut b = b.clone();
                if !*imp {
                    a.clear_imports();
                    b.clear_imports();
                }
                a == b
            }
            (Val::Mod(a, imp), Val::Mod(b, _)) => {
                let mut a = a.clone();
                a.clear_locations();
                let mut b = b.clone();
                b.clear_locations();
                if !*imp {
                    a.clear_imports();
                    b.clear_imports();
                }
                a == b
            }
            (Val::Lib(a, carries), Val::Lib(b, _)) => {
                // the bytes carry source locations only when the library says so
                let mut a = a.clone();
                if !*carries {
                    a.clear_locations();
                }
                if std::env::var("MVH_DBG").is_ok() && a != *b {
                    eprintln!("A = {a:?}\nB = {b:?}");
                }
                a == *b
            }
            (Val::Si(a), Val::Si(b)) => a.values() == b.values(),
            (Val::So(a), Val::So(b)) => a == b,
            (Val::Kern(a), Val::Kern(b)) => a.proc_hashes() == b.proc_hashes(),
            (Val::Pinfo(a), Val::Pinfo(b)) => a == b,
            _ => false,
        }
    }
}

/// Decodes through the tracing reader; the second component is the token stream of the reads.
fn decode_traced(kind: &str, bytes: &[u8]) -> (Result<Val, DeserializationError>, String) {
    let mut r = TraceReader::new(bytes);
    let v = match kind {
        "prog" => {
            // the header flag decides whether imports follow; peek at it for the Val tag
            let imp = bytes.first().map(|b| *b != 0).unwrap_or(false);
            ProgramAst::read_from(&mut r).map(|a| Val::Prog(a, imp))
        }
        "mod" => match AstSerdeOptions::read_from(&mut r) {
            Ok(o) => ModuleAst::read_from(&mut r, o).map(|a| Val::Mod(a, o.serialize_imports)),
            Err(e) => Err(e),
        },
        "lib" => MaslLibrary::read_from(&mut r).map(|l| Val::Lib(l, true)),
        "si" => StackInputs::read_from(&mut r).map(Val::Si),
        "so" => StackOutputs::read_from(&mut r).map(Val::So),
        "kern" => Kernel::read_from(&mut r).map(Val::Kern),
        "pinfo" => ProgramInfo::read_from(&mut r).map(Val::Pinfo),
        k => panic!("unknown kind {k}"),
    };
    let t = r.tokens();
    (v, t)
}

/// The public entry points (`from_bytes` / `read_from_bytes`), which build their own reader.
fn decode_api(kind: &str, bytes: &[u8]) -> Result<Val, DeserializationError> {
    match kind {
        "prog" => {
            let imp = bytes.first().map(|b| *b != 0).unwrap_or(false);
            ProgramAst::from_bytes(bytes).map(|a| Val::Prog(a, imp))
        }
        "mod" => {
            let imp = bytes.first().map(|b| *b != 0).unwrap_or(false);
            ModuleAst::from_bytes(bytes).map(|a| Val::Mod(a, imp))
        }
        "lib" => MaslLibrary::read_from_bytes(bytes).map(|l| Val::Lib(l, true)),
        "si" => StackInputs::read_from_bytes(bytes).map(Val::Si),
        "so" => StackOutputs::read_from_bytes(bytes).map(Val::So),
        "kern" => Kernel::read_from_bytes(bytes).map(Val::Kern),
        "pinfo" => ProgramInfo::read_from_bytes(bytes).map(Val::Pinfo),
        k => panic!("unknown kind {k}"),
    }
}

/// Serialises `v`, decodes the bytes again and reports everything the checks compare.
fn roundtrip_report(kind: &str, v: &Val, want_root: bool) -> String {
    let mut w = TraceWriter::default();
    v.write(&mut w);
    let api = v.api_bytes();
    let mut out = format!("OK bytes={} api={}", hex(&w.bytes), (api == w.bytes) as u8);
    if std::env::var("MVH_TOK").is_ok() {
        out.push_str(&format!(" wtok={}", w.toks.join(",")));
    }
    match decode_api(kind, &api) {
        Ok(d) => {
            out.push_str(&format!(" rt=1 eq={}", v.same(&d) as u8));
            // source locations: written separately, reloaded into the decoded object
            match (v, d) {
                (Val::Prog(a, imp), Val::Prog(mut b, _)) => {
                    let mut loc = Vec::new();
                    a.write_source_locations(&mut loc);
                    let lr = b.load_source_locations(&mut SliceReader::new(&loc));
                    let mut a2 = a.clone();
                    if !*imp {
                        a2.clear_imports();
                        b.clear_imports();
                    }
                    let same_locs = a2.source_locations().eq(b.source_locations())
                        && a2.procedures().iter().zip(b.procedures().iter()).all(|(p, q)| p.source_locations().eq(q.source_locations()));
                    out.push_str(&format!(" loc={}{}{}", lr.is_ok() as u8, (a2 == b) as u8, same_locs as u8));
                    if want_root {
                        out.push_str(&format!(" root={} root2={}", root_of(a), root_of(&b)));
                    }
                }
                (Val::Mod(a, imp), Val::Mod(mut b, _)) => {
                    let mut loc = Vec::new();
                    a.write_source_locations(&mut loc);
                    let lr = b.load_source_locations(&mut SliceReader::new(&loc));
                    let mut a2 = a.clone();
                    if !*imp {
                        a2.clear_imports();
                        b.clear_imports();
                    }
                    let same_locs = a2.procs().iter().zip(b.procs().iter()).all(|(p, q)| p.source_locations().eq(q.source_locations()));
                    out.push_str(&format!(" loc={}{}{}", lr.is_ok() as u8, (a2 == b) as u8, same_locs as u8));
                }
                _ => {}
            }
        }
        Err(e) => out.push_str(&format!(" rt=0 err={}", de_class(&e).replace(' ', "_"))),
    }
    out
}

fn decode_report(kind: &str, bytes: &[u8]) -> String {
    if kind == "proof" {
        return match miden_air::ExecutionProof::from_bytes(bytes) {
            Ok(p) => {
                let b2 = p.to_bytes();
                let again = miden_air::ExecutionProof::from_bytes(&b2).map(|q| q == p).unwrap_or(false);
                format!("OK reenc={} eq2={}", if b2 == bytes { "same".to_string() } else { hex(&b2) }, again as u8)
            }
            Err(e) => format!("ERR {}", de_class(&e)),
        };
    }
    let (tr, toks) = decode_traced(kind, bytes);
    let api = decode_api(kind, bytes);
    match (tr, api) {
        (Ok(v), Ok(v2)) => {
            let b2 = v.api_bytes();
            let again = decode_api(kind, &b2).map(|d| v.same(&d)).unwrap_or(false);
            let t = if std::env::var("MVH_TOK").is_ok() { format!(" rtok={toks}") } else { String::new() };
            format!("OK reenc={} eq2={} api={}{}", hex(&b2), again as u8, v.same(&v2) as u8, t)
        }
        (Err(e), Err(_)) => format!("ERR {}", de_class(&e)),
        (Ok(_), Err(e)) => format!("APIDIFF traced-ok api-{}", de_class(&e)),
        (Err(e), Ok(_)) => format!("APIDIFF traced-{} api-ok", de_class(&e)),
    }
}

fn digest_of(v: &[u64]) -> Digest {
    Digest::new([Felt::new(v[0]), Felt::new(v[1]), Felt::new(v[2]), Felt::new(v[3])])
}

fn build_val(kind: &str, rest: &str) -> Result<Val, String> {
    // integers are separated by blanks; `;` separates groups
    let groups: Vec<Vec<u64>> = rest
        .split(';')
        .map(|g| g.split_whitespace().map(|t| t.parse::<u64>().unwrap()).collect())
        .collect();
    match kind {
        "si" => StackInputs::try_from_values(groups[0].clone()).map(Val::Si).map_err(|e| format!("{e:?}")),
        "adv" => AdviceInputs::default()
            .with_stack_values(groups[0].clone())
            .map(|a| Val::Si(StackInputs::new(a.stack().to_vec())))
            .map_err(|e| format!("{e:?}")),
        "so" => StackOutputs::new(groups[0].clone(), groups.get(1).cloned().unwrap_or_default())
            .map(Val::So)
            .map_err(|e| format!("{e:?}")),
        "kern" => {
            let ds: Vec<Digest> = groups[0].chunks(4).map(digest_of).collect();
            Kernel::new(&ds).map(Val::Kern).map_err(|e| format!("{e:?}"))
        }
        "pinfo" => {
            let ds: Vec<Digest> = groups.get(1).map(|g| g.chunks(4).map(digest_of).collect()).unwrap_or_default();
            let k = Kernel::new(&ds).map_err(|e| format!("{e:?}"))?;
            Ok(Val::Pinfo(ProgramInfo::new(digest_of(&groups[0]), k)))
        }
        k => panic!("unknown kind {k}"),
    }
}

fn parse_src(kind: &str, imports: bool, src: &str) -> Result<Val, String> {
    match kind {
        "prog" => ProgramAst::parse(src).map(|a| Val::Prog(a, imports)).map_err(|e| format!("{e:?}")),
        "mod" => ModuleAst::parse(src).map(|a| Val::Mod(a, imports)).map_err(|e| format!("{e:?}")),
        "lib" => {
            // `imports` doubles as "with source locations" for libraries; modules are separated
            // by a line holding only `----`
            let ns = LibraryNamespace::new("t").unwrap();
            let mut modules = Vec::new();
            for (i, m) in src.split("\n----\n").enumerate() {
                let ast = ModuleAst::parse(m).map_err(|e| format!("{e:?}"))?;
                let path = LibraryPath::new(format!("t::m{i}")).unwrap();
                modules.push(Module::new(path, ast));
            }
            MaslLibrary::new(ns, Version::default(), imports, modules, vec![])
                .map(|l| Val::Lib(l, imports))
                .map_err(|e| format!("{e:?}"))
        }
        k => panic!("unknown kind {k}"),
    }
}

/// `val proof <k>`: proves a small program (k selects it) and prints the proof and the public
/// inputs, all serialised.
fn make_proof(k: u64) -> String {
    use miden_processor::{DefaultHost, MemAdviceProvider};
    let src = format!(
        "begin push.{} push.{} add repeat.{} dup mul end swap drop end",
        k % 1000,
        7 + k % 13,
        1 + k % 5
    );
    let program = Assembler::default().compile(&src).unwrap();
    let si = StackInputs::try_from_values(vec![k % 97, 3]).unwrap();
    let host = DefaultHost::new(MemAdviceProvider::default());
    let hash_fn = match k % 3 {
        0 => miden_air::ProvingOptions::default(),
        1 => miden_air::ProvingOptions::with_96_bit_security(true),
        _ => miden_air::ProvingOptions::with_128_bit_security(false),
    };
    let (so, proof) = miden_prover::prove(&program, si.clone(), host, hash_fn).unwrap();
    let pinfo = ProgramInfo::from(program);
    let b = proof.to_bytes();
    let back = miden_air::ExecutionProof::from_bytes(&b);
    let eq = back.as_ref().map(|p| *p == proof).unwrap_or(false);
    let ver = match back {
        Ok(p) => match miden_verifier::verify(pinfo.clone(), si.clone(), so.clone(), p) {
            Ok(_) => "ok".to_string(),
            Err(e) => format!("err({})", format!("{e:?}").split(|c: char| !c.is_alphanumeric()).next().unwrap_or("")),
        },
        Err(_) => "undecodable".into(),
    };
    format!(
        "OK bytes={} pinfo={} si={} so={} eq={} verify={}",
        hex(&b),
        hex(&pinfo.to_bytes()),
        hex(&si.to_bytes()),
        hex(&so.to_bytes()),
        eq as u8,
        ver
    )
}

/// `dec proofv <proof>:<pinfo>:<si>:<so>`: decodes everything and runs the verifier.
fn verify_report(rest: &str) -> String {
    let parts: Vec<&str> = rest.trim().split(':').collect();
    let proof = match miden_air::ExecutionProof::from_bytes(&unhex(parts[0])) {
        Ok(p) => p,
        Err(e) => return format!("ERR {}", de_class(&e)),
    };
    let pinfo = match ProgramInfo::read_from_bytes(&unhex(parts[1])) {
        Ok(p) => p,
        Err(e) => return format!("ERR pinfo {}", de_class(&e)),
    };
    let si = match StackInputs::read_from_bytes(&unhex(parts[2])) {
        Ok(p) => p,
        Err(e) => return format!("ERR si {}", de_class(&e)),
    };
    let so = match StackOutputs::read_from_bytes(&unhex(parts[3])) {
        Ok(p) => p,
        Err(e) => return format!("ERR so {}", de_class(&e)),
    };
    let b2 = proof.to_bytes();
    let again = miden_air::ExecutionProof::from_bytes(&b2).map(|q| q == proof).unwrap_or(false);
    match miden_verifier::verify(pinfo, si, so, proof) {
        Ok(_) => format!("OK eq2={} verify=ok", again as u8),
        Err(e) => format!(
            "OK eq2={} verify=err({})",
            again as u8,
            format!("{e:?}").split(|c: char| !c.is_alphanumeric()).next().unwrap_or("")
        ),
    }
}

pub fn run_serde(line: &str) -> String {
    let mut it = line.splitn(3, ' ');
    let cmd = it.next().unwrap();
    let kind = it.next().unwrap().to_string();
    let rest = it.next().unwrap_or("").to_string();
    let res = catch_unwind(AssertUnwindSafe(|| match cmd {
        "src" => {
            let mut p = rest.splitn(2, ' ');
            let flags = p.next().unwrap();
            let imports = flags.starts_with('1');
            let want_root = !flags.ends_with('n');
            let src = String::from_utf8(unhex(p.next().unwrap_or(""))).unwrap();
            match parse_src(&kind, imports, &src) {
                Ok(v) => roundtrip_report(&kind, &v, want_root),
                Err(e) => format!("REJECT {}", e.split(|c: char| !c.is_alphanumeric()).next().unwrap_or("")),
            }
        }
        "val" if kind == "proof" => make_proof(rest.trim().parse().unwrap()),
        "dec" if kind == "proofv" => verify_report(&rest),
        "val" => match build_val(&kind, &rest) {
            Ok(v) => {
                let k = if kind == "adv" { "si" } else { kind.as_str() };
                roundtrip_report(k, &v, false)
            }
            Err(e) => format!("REJECT {}", e.split(|c: char| !c.is_alphanumeric()).next().unwrap_or("")),
        },
        "dec" => decode_report(&kind, &unhex(&rest)),
        c => panic!("unknown serde command {c}"),
    }));
    match res {
        Ok(s) => s,
        Err(p) => format!("PANIC {}", panic_msg(p).replace('\n', " ")),
    }
}

//! A symbolic field element: running the AIR's generic constraint code over it yields the
//! constraint system itself as a hash-consed expression DAG (the translator behind AirGen.v).
use std::cell::RefCell;
use std::collections::HashMap;
use std::fmt;
use std::ops::{Add, AddAssign, Div, DivAssign, Mul, MulAssign, Neg, Sub, SubAssign};
use vm_core::{Felt, FieldElement};
use winter_math::{ExtensionOf, StarkField};
use winter_utils::{AsBytes, ByteReader, ByteWriter, Deserializable, DeserializationError, Randomizable, Serializable};

#[derive(Clone, Copy, PartialEq, Eq, Hash, Debug)]
pub enum Node {
    Const(u64),
    Var(u32),
    Add(u32, u32),
    Sub(u32, u32),
    Mul(u32, u32),
    Neg(u32),
}

pub struct Arena {
    pub nodes: Vec<Node>,
    map: HashMap<Node, u32>,
}

impl Arena {
    fn new() -> Self {
        let mut a = Arena { nodes: Vec::new(), map: HashMap::new() };
        a.intern(Node::Const(0));
        a.intern(Node::Const(1));
        a
    }
    fn intern(&mut self, n: Node) -> u32 {
        if let Some(i) = self.map.get(&n) {
            return *i;
        }
        let i = self.nodes.len() as u32;
        self.nodes.push(n);
        self.map.insert(n, i);
        i
    }
}

thread_local! {
    pub static ARENA: RefCell<Arena> = RefCell::new(Arena::new());
}

pub fn reset() {
    ARENA.with(|a| *a.borrow_mut() = Arena::new());
}

#[derive(Clone, Copy, PartialEq, Eq, Debug, Default)]
pub struct Sym(pub u32);

fn node(i: u32) -> Node {
    ARENA.with(|a| a.borrow().nodes[i as usize])
}
fn mk(n: Node) -> Sym {
    Sym(ARENA.with(|a| a.borrow_mut().intern(n)))
}
pub fn var(v: u32) -> Sym {
    mk(Node::Var(v))
}
pub fn konst(c: u64) -> Sym {
    mk(Node::Const(c))
}
fn cval(s: Sym) -> Option<u64> {
    match node(s.0) {
        Node::Const(c) => Some(c),
        _ => None,
    }
}

impl Add for Sym {
    type Output = Sym;
    fn add(self, o: Sym) -> Sym {
        match (cval(self), cval(o)) {
            (Some(a), Some(b)) => konst((Felt::new(a) + Felt::new(b)).as_int()),
            (Some(0), _) => o,
            (_, Some(0)) => self,
            _ => mk(Node::Add(self.0, o.0)),
        }
    }
}
impl Sub for Sym {
    type Output = Sym;
    fn sub(self, o: Sym) -> Sym {
        match (cval(self), cval(o)) {
            (Some(a), Some(b)) => konst((Felt::new(a) - Felt::new(b)).as_int()),
            (_, Some(0)) => self,
            _ => mk(Node::Sub(self.0, o.0)),
        }
    }
}
impl Mul for Sym {
    type Output = Sym;
    fn mul(self, o: Sym) -> Sym {
        match (cval(self), cval(o)) {
            (Some(a), Some(b)) => konst((Felt::new(a) * Felt::new(b)).as_int()),
            (Some(0), _) | (_, Some(0)) => konst(0),
            (Some(1), _) => o,
            (_, Some(1)) => self,
            _ => mk(Node::Mul(self.0, o.0)),
        }
    }
}
impl Neg for Sym {
    type Output = Sym;
    fn neg(self) -> Sym {
        match cval(self) {
            Some(a) => konst((-Felt::new(a)).as_int()),
            None => mk(Node::Neg(self.0)),
        }
    }
}
impl Div for Sym {
    type Output = Sym;
    fn div(self, o: Sym) -> Sym {
        match (cval(self), cval(o)) {
            (Some(a), Some(b)) => konst((Felt::new(a) / Felt::new(b)).as_int()),
            (_, Some(b)) => self * konst(Felt::new(b).inv().as_int()),
            _ => panic!("symbolic division by a non-constant"),
        }
    }
}
impl AddAssign for Sym {
    fn add_assign(&mut self, o: Sym) {
        *self = *self + o
    }
}
impl SubAssign for Sym {
    fn sub_assign(&mut self, o: Sym) {
        *self = *self - o
    }
}
impl MulAssign for Sym {
    fn mul_assign(&mut self, o: Sym) {
        *self = *self * o
    }
}
impl DivAssign for Sym {
    fn div_assign(&mut self, o: Sym) {
        *self = *self / o
    }
}
impl fmt::Display for Sym {
    fn fmt(&self, f: &mut fmt::Formatter<'_>) -> fmt::Result {
        write!(f, "n{}", self.0)
    }
}
impl From<u8> for Sym {
    fn from(v: u8) -> Sym {
        konst(v as u64)
    }
}
impl From<u16> for Sym {
    fn from(v: u16) -> Sym {
        konst(v as u64)
    }
}
impl From<u32> for Sym {
    fn from(v: u32) -> Sym {
        konst(v as u64)
    }
}
impl From<Felt> for Sym {
    fn from(v: Felt) -> Sym {
        konst(v.as_int())
    }
}
impl TryFrom<u64> for Sym {
    type Error = String;
    fn try_from(v: u64) -> Result<Sym, String> {
        Ok(konst(Felt::new(v).as_int()))
    }
}
impl TryFrom<u128> for Sym {
    type Error = String;
    fn try_from(v: u128) -> Result<Sym, String> {
        Ok(konst((v % (Felt::MODULUS as u128)) as u64))
    }
}
impl<'a> TryFrom<&'a [u8]> for Sym {
    type Error = DeserializationError;
    fn try_from(_: &'a [u8]) -> Result<Sym, DeserializationError> {
        Err(DeserializationError::InvalidValue("symbolic".into()))
    }
}
impl ExtensionOf<Felt> for Sym {
    fn mul_base(self, other: Felt) -> Sym {
        self * Sym::from(other)
    }
}
impl AsBytes for Sym {
    fn as_bytes(&self) -> &[u8] {
        &[]
    }
}
impl Randomizable for Sym {
    const VALUE_SIZE: usize = 8;
    fn from_random_bytes(_: &[u8]) -> Option<Self> {
        None
    }
}
impl Serializable for Sym {
    fn write_into<W: ByteWriter>(&self, _: &mut W) {}
}
impl Deserializable for Sym {
    fn read_from<R: ByteReader>(_: &mut R) -> Result<Self, DeserializationError> {
        Err(DeserializationError::InvalidValue("symbolic".into()))
    }
}
impl FieldElement for Sym {
    type PositiveInteger = u64;
    type BaseField = Felt;
    const EXTENSION_DEGREE: usize = 1;
    const ELEMENT_BYTES: usize = 8;
    const IS_CANONICAL: bool = false;
    const ZERO: Self = Sym(0);
    const ONE: Self = Sym(1);
    fn inv(self) -> Self {
        match cval(self) {
            Some(a) => konst(Felt::new(a).inv().as_int()),
            None => panic!("symbolic inverse"),
        }
    }
    fn conjugate(&self) -> Self {
        *self
    }
    fn base_element(&self, _: usize) -> Felt {
        unimplemented!()
    }
    fn slice_as_base_elements(_: &[Self]) -> &[Felt] {
        unimplemented!()
    }
    fn slice_from_base_elements(_: &[Felt]) -> &[Self] {
        unimplemented!()
    }
    fn elements_as_bytes(_: &[Self]) -> &[u8] {
        unimplemented!()
    }
    unsafe fn bytes_as_elements(_: &[u8]) -> Result<&[Self], DeserializationError> {
        unimplemented!()
    }
}

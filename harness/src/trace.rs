//! `stream` family: decoder view of a real execution trace (op per row and span bookkeeping).
use crate::exec::{err_string, panic_msg, parse_limits};
use crate::parse::*;
use miden_air::trace::{
    decoder::{ADDR_COL_IDX, GROUP_COUNT_COL_IDX, HASHER_STATE_OFFSET, IN_SPAN_COL_IDX, OP_BITS_OFFSET, OP_INDEX_COL_IDX},
    DECODER_TRACE_OFFSET,
};
use miden_processor::{AdviceInputs, DefaultHost, ExecutionOptions, ExecutionTrace, MemAdviceProvider, Operation, StackInputs};
use std::panic::{catch_unwind, AssertUnwindSafe};
use vm_core::Felt;
use winter_prover::Trace;

pub fn all_ops() -> Vec<Operation> {
    use Operation::*;
    vec![
        Noop, Assert(0), FmpAdd, FmpUpdate, SDepth, Caller, Clk, Join, Split, Loop, Call, Dyn, SysCall, Span, End,
        Repeat, Respan, Halt, Add, Neg, Mul, Inv, Incr, And, Or, Not, Eq, Eqz, Expacc, Ext2Mul, U32split, U32add,
        U32assert2(Felt::new(0)), U32add3, U32sub, U32mul, U32madd, U32div, U32and, U32xor, Pad, Drop, Dup0, Dup1,
        Dup2, Dup3, Dup4, Dup5, Dup6, Dup7, Dup9, Dup11, Dup13, Dup15, Swap, SwapW, SwapW2, SwapW3, SwapDW, MovUp2,
        MovUp3, MovUp4, MovUp5, MovUp6, MovUp7, MovUp8, MovDn2, MovDn3, MovDn4, MovDn5, MovDn6, MovDn7, MovDn8,
        CSwap, CSwapW, Push(Felt::new(0)), AdvPop, AdvPopW, MLoadW, MStoreW, MLoad, MStore, MStream, Pipe, HPerm,
        MpVerify, MrUpdate, FriE2F4, RCombBase,
    ]
}

pub fn opcode_name(code: u8) -> String {
    for op in all_ops() {
        if op.op_code() == code {
            let n = op_name(&op);
            return n.split(':').next().unwrap().to_string();
        }
    }
    format!("?{code}")
}

pub fn execute_case(line: &str) -> Result<(ExecutionTrace, ParsedProgram), String> {
    let parts: Vec<&str> = line.split('|').collect();
    let (max_cycles, expected) = parse_limits(parts[0]);
    // optional sixth part: `M <leaf elements, 4 per leaf>`: a Merkle tree the host knows
    let mut store = None;
    crate::parse::MERKLE.with(|m| *m.borrow_mut() = None);
    if let Some(p5) = parts.get(5) {
        let t: Vec<&str> = p5.split_whitespace().collect();
        if t.first() == Some(&"M") {
            use miden_processor::crypto::{MerkleStore, MerkleTree};
            let vals: Vec<u64> = t[1..].iter().map(|x| x.parse().unwrap()).collect();
            let leaves: Vec<vm_core::Word> = vals
                .chunks(4)
                .map(|c| [vm_core::Felt::new(c[0]), vm_core::Felt::new(c[1]), vm_core::Felt::new(c[2]), vm_core::Felt::new(c[3])])
                .collect();
            let tree = MerkleTree::new(leaves).unwrap();
            let root: Vec<u64> = tree.root().iter().map(|f| f.as_int()).collect();
            crate::parse::MERKLE.with(|m| *m.borrow_mut() = Some((root, vals.chunks(4).map(|c| c.to_vec()).collect())));
            store = Some(MerkleStore::from(&tree));
        }
    }
    let mut pt = Toks::new(parts[3]);
    let pp = parse_program(&mut pt);
    let mut stack: Vec<u64> = parts[1].split_whitespace().map(|t| parse_val(t, &pp.hashes)).collect();
    stack.reverse();
    let adv: Vec<u64> = parts[2].split_whitespace().map(|t| parse_val(t, &pp.hashes)).collect();
    let stack_inputs = StackInputs::try_from_values(stack).unwrap();
    let mut advice_inputs = AdviceInputs::default().with_stack_values(adv).unwrap();
    if let Some(st) = store {
        advice_inputs = advice_inputs.with_merkle_store(st);
    }
    let host = DefaultHost::new(MemAdviceProvider::from(advice_inputs));
    let opts = ExecutionOptions::new(Some(max_cycles), expected, false).unwrap();
    match miden_processor::execute(&pp.program, stack_inputs, host, opts) {
        Ok(t) => Ok((t, pp)),
        Err(e) => Err(format!("ERR {}", err_string(&e))),
    }
}

fn col(trace: &ExecutionTrace, c: usize) -> Vec<u64> {
    trace.main_segment().get_column(c).iter().map(|f| f.as_int()).collect()
}

/// case: same as `exec`.  Output: OK len=.. rows=.. ops=.. gc=.. insp=.. opidx=.. addr=.. lasthash=.. proghash=..
/// where rows is the number of rows before the HALT padding.
pub fn run_stream(line: &str) -> String {
    let res = catch_unwind(AssertUnwindSafe(|| {
        let (trace, pp) = match execute_case(line) {
            Ok(x) => x,
            Err(e) => return e,
        };
        let len = trace.get_trace_len();
        let bits: Vec<Vec<u64>> = (0..7).map(|i| col(&trace, DECODER_TRACE_OFFSET + OP_BITS_OFFSET + i)).collect();
        let codes: Vec<u8> = (0..len - 1).map(|r| (0..7).map(|i| (bits[i][r] as u8) << i).sum()).collect();
        let halt = Operation::Halt.op_code();
        let mut rows = codes.len();
        while rows > 0 && codes[rows - 1] == halt {
            rows -= 1;
        }
        let names: Vec<String> = codes[..rows].iter().map(|c| opcode_name(*c)).collect();
        let f = |c: usize| -> String {
            col(&trace, DECODER_TRACE_OFFSET + c)[..rows + 1].iter().map(|v| v.to_string()).collect::<Vec<_>>().join(",")
        };
        let lasthash: Vec<String> =
            (0..4).map(|i| col(&trace, DECODER_TRACE_OFFSET + HASHER_STATE_OFFSET + i)[len - 2].to_string()).collect();
        let ph: Vec<String> = pp.program.hash().as_elements().iter().map(|x| x.as_int().to_string()).collect();
        let halts_ok = codes[rows..].iter().all(|c| *c == halt);
        format!(
            "OK len={} rows={} halts={} ops={} gc={} insp={} opidx={} addr={} lasthash={} proghash={}",
            len, rows, halts_ok, names.join(","), f(GROUP_COUNT_COL_IDX), f(IN_SPAN_COL_IDX), f(OP_INDEX_COL_IDX),
            f(ADDR_COL_IDX), lasthash.join(","), ph.join(",")
        )
    }));
    match res {
        Ok(s) => s,
        Err(p) => format!("PANIC {}", panic_msg(p)),
    }
}

fn state_str(st: &miden_processor::VmState) -> String {
    let stack: Vec<String> = st.stack.iter().map(|f| f.as_int().to_string()).collect();
    let mem: Vec<String> = st
        .memory
        .iter()
        .filter(|(_, w)| w.iter().any(|x| x.as_int() != 0))
        .map(|(a, w)| format!("{a}={},{},{},{}", w[0].as_int(), w[1].as_int(), w[2].as_int(), w[3].as_int()))
        .collect();
    format!("{}:{}:{}:{}:{}", st.clk, u32::from(st.ctx), st.fmp.as_int(), stack.join(","), mem.join(";"))
}

/// `iter` family: step-through with VmStateIterator.  Case: same as `exec` (+ optional 5th field: walk seed).
/// Output: OK n=<number of states> walk=<ok|MISMATCH..> err=<final error or none> | state | state ...
pub fn run_iter(line: &str) -> String {
    let res = catch_unwind(AssertUnwindSafe(|| {
        let parts: Vec<&str> = line.split('|').collect();
        let mut pt = Toks::new(parts[3]);
        let pp = parse_program(&mut pt);
        let mut stack: Vec<u64> = parts[1].split_whitespace().map(|t| parse_val(t, &pp.hashes)).collect();
        stack.reverse();
        let adv: Vec<u64> = parts[2].split_whitespace().map(|t| parse_val(t, &pp.hashes)).collect();
        let stack_inputs = StackInputs::try_from_values(stack).unwrap();
        let advice_inputs = AdviceInputs::default().with_stack_values(adv).unwrap();
        let host = DefaultHost::new(MemAdviceProvider::from(advice_inputs));
        let mut it = miden_processor::execute_iter(&pp.program, stack_inputs, host);
        let mut states: Vec<String> = Vec::new();
        let mut err = "none".to_string();
        loop {
            match it.next() {
                Some(Ok(st)) => states.push(state_str(&st)),
                Some(Err(e)) => {
                    err = err_string(&e).replace(' ', "_");
                    break;
                }
                None => break,
            }
        }
        // pseudo-random walk back and forth; every revisited clock must give the first-visit state
        let mut seed: u64 = parts.get(4).and_then(|s| s.trim().parse().ok()).unwrap_or(12345);
        let mut walk = "ok".to_string();
        let mut steps = 0;
        while steps < 300 && walk == "ok" {
            seed = seed.wrapping_mul(6364136223846793005).wrapping_add(1442695040888963407);
            let back = (seed >> 33) % 3 != 0;
            let r = if back { it.back() } else { it.next().and_then(|x| x.ok()) };
            if let Some(st) = r {
                let s = state_str(&st);
                let k = st.clk as usize;
                if k >= states.len() || states[k] != s {
                    walk = format!("MISMATCH_at_clk_{}_{}", k, if back { "back" } else { "next" });
                }
            }
            steps += 1;
        }
        format!("OK n={} walk={} err={} | {}", states.len(), walk, err, states.join(" | "))
    }));
    match res {
        Ok(s) => s,
        Err(p) => format!("PANIC {}", panic_msg(p)),
    }
}

/// `tracehash` family: a fingerprint of the whole main trace (all columns, all rows but the last,
/// which is random).  Case: same as `exec`.
pub fn run_tracehash(line: &str) -> String {
    let res = catch_unwind(AssertUnwindSafe(|| {
        let (trace, _pp) = match execute_case(line) {
            Ok(x) => x,
            Err(e) => return e,
        };
        let len = trace.get_trace_len();
        let width = trace.main_segment().num_cols();
        let mut h: u64 = 0xcbf29ce484222325;
        for c in 0..width {
            for v in trace.main_segment().get_column(c)[..len - 1].iter() {
                for b in v.as_int().to_le_bytes() {
                    h ^= b as u64;
                    h = h.wrapping_mul(0x100000001b3);
                }
            }
        }
        let so: Vec<String> = trace.stack_outputs().stack().iter().map(|x| x.to_string()).collect();
        format!("OK len={} width={} h={} out={}", len, width, h, so.join(","))
    }));
    match res {
        Ok(s) => s,
        Err(p) => format!("PANIC {}", panic_msg(p)),
    }
}

/// `batch` family: operation batching and span hash.  Case: `n op*n` (op tokens).
/// Output: OK nb=<batches> | groups;counts;num_groups | ... # hash
pub fn run_batch(line: &str) -> String {
    let res = catch_unwind(AssertUnwindSafe(|| {
        let mut t = Toks::new(line);
        let n: usize = t.next().parse().unwrap();
        let ops: Vec<Operation> = (0..n).map(|_| parse_op(t.next(), &[])).collect();
        let block = vm_core::code_blocks::CodeBlock::new_span(ops);
        let span = match &block {
            vm_core::code_blocks::CodeBlock::Span(s) => s,
            _ => unreachable!(),
        };
        let mut parts: Vec<String> = Vec::new();
        for b in span.op_batches() {
            let g: Vec<String> = b.groups().iter().map(|x| x.as_int().to_string()).collect();
            let c: Vec<String> = b.op_counts().iter().map(|x| x.to_string()).collect();
            let o: Vec<String> = b.ops().iter().map(op_name).collect();
            parts.push(format!("{};{};{};{}", g.join(","), c.join(","), b.num_groups(), o.join(",")));
        }
        let h: Vec<String> = block.hash().as_elements().iter().map(|x| x.as_int().to_string()).collect();
        format!("OK nb={} | {} # {}", span.op_batches().len(), parts.join(" | "), h.join(","))
    }));
    match res {
        Ok(s) => s,
        Err(p) => format!("PANIC {}", panic_msg(p)),
    }
}

"""Shared machinery of the /verif checks: paths, PRNG, builds, model/implementation runs,
evidence and violation reporting."""
import fcntl, hashlib, json, os, re, subprocess, sys, time

VERIF = os.path.dirname(os.path.dirname(os.path.abspath(__file__)))
REPO = "/repo"
COQ = os.path.join(VERIF, "coq")
HARNESS = os.path.join(VERIF, "harness")
DRIVER = os.path.join(VERIF, "driver")
TARGET = os.path.join(VERIF, "target")
WORK = os.path.join(VERIF, ".work")
EVID = os.path.join(VERIF, "evidence")
REPLAYS = os.path.join(VERIF, "replays")
MVH = os.path.join(TARGET, "release", "mvh")
MVH_DEV = os.path.join(TARGET, "debug", "mvh")
MVD = os.path.join(DRIVER, "_build", "mvd")
P = 2**64 - 2**32 + 1
ENV = dict(os.environ, CARGO_NET_OFFLINE="true", CARGO_TERM_COLOR="never")
ENV["RUSTFLAGS"] = (ENV.get("RUSTFLAGS", "") + " --cfg cf_miden_vm_verif").strip()


class Rng:
    """splitmix64; every random choice of a check derives from one instance."""

    def __init__(self, seed):
        self.s = seed & (2**64 - 1)

    def next(self):
        self.s = (self.s + 0x9E3779B97F4A7C15) & (2**64 - 1)
        z = self.s
        z = ((z ^ (z >> 30)) * 0xBF58476D1CE4E5B9) & (2**64 - 1)
        z = ((z ^ (z >> 27)) * 0x94D049BB133111EB) & (2**64 - 1)
        return z ^ (z >> 31)

    def below(self, n):
        return self.next() % n

    def chance(self, num, den):
        return self.below(den) < num

    def choice(self, xs):
        return xs[self.below(len(xs))]

    def weighted(self, pairs):
        tot = sum(w for _, w in pairs)
        r = self.below(tot)
        for x, w in pairs:
            if r < w:
                return x
            r -= w
        return pairs[-1][0]

    def fork(self, tag):
        h = hashlib.sha256(("%d/%s" % (self.s, tag)).encode()).digest()
        return Rng(int.from_bytes(h[:8], "little"))


def sh(cmd, cwd=None, timeout=None, env=None, check=True):
    p = subprocess.run(cmd, cwd=cwd, timeout=timeout, env=env or ENV, stdout=subprocess.PIPE,
                       stderr=subprocess.STDOUT, text=True, shell=isinstance(cmd, str))
    if check and p.returncode != 0:
        raise BuildError("command failed (%d): %s\n%s" % (p.returncode, cmd, p.stdout[-4000:]))
    return p


class BuildError(Exception):
    pass


class Lock:
    def __init__(self, name="build"):
        os.makedirs(WORK, exist_ok=True)
        self.f = open(os.path.join(WORK, name + ".lock"), "w")

    def __enter__(self):
        fcntl.flock(self.f, fcntl.LOCK_EX)
        return self

    def __exit__(self, *a):
        fcntl.flock(self.f, fcntl.LOCK_UN)
        self.f.close()


def write_if_changed(path, text):
    try:
        if open(path).read() == text:
            return False
    except FileNotFoundError:
        pass
    os.makedirs(os.path.dirname(path), exist_ok=True)
    with open(path, "w") as f:
        f.write(text)
    return True


# ------------------------------------------------------------------------------------ builds

def build_harness(dev=False):
    """(Re)build the Rust harness against /repo's current working tree."""
    lock_src = os.path.join(REPO, "Cargo.lock")
    lock_dst = os.path.join(HARNESS, "Cargo.lock")
    if not os.path.exists(lock_dst):
        sh(["cp", lock_src, lock_dst])
    cmd = ["cargo", "build", "--offline"] + ([] if dev else ["--release"])
    p = sh(cmd, cwd=HARNESS, timeout=3000, check=False)
    if p.returncode != 0:
        lines = p.stdout.split("\n")
        errs = [i for i, l in enumerate(lines) if l.startswith("error")]
        msg = "\n".join(lines[errs[0]:errs[0] + 40]) if errs else p.stdout[-3000:]
        raise BuildError("harness build failed:\n" + msg)


def regen():
    """Translator step: regenerate coq/Gen/*.v from /repo through the harness."""
    changed = []
    for sub, fn in GEN_FILES:
        p = sh([MVH, sub], timeout=600, check=False)
        if p.returncode != 0:
            raise BuildError("translator %s failed:\n%s" % (sub, p.stdout[-3000:]))
        if write_if_changed(os.path.join(COQ, "Gen", fn), p.stdout):
            changed.append(fn)
    import serde_gen
    if write_if_changed(os.path.join(COQ, "Gen", "SerdeGen.v"), serde_gen.gen_v()):
        changed.append("SerdeGen.v")
    import instrs
    if write_if_changed(os.path.join(COQ, "Gen", "StdGen.v"), instrs.gen_std_v()):
        changed.append("StdGen.v")
    if write_if_changed(os.path.join(COQ, "Gen", "AsmGen.v"), instrs.gen_asm_v()):
        changed.append("AsmGen.v")
    return changed


GEN_FILES = [("dump-const", "ConstGen.v"), ("dump-air", "AirGen.v"), ("dump-opts", "OptGen.v")]


def coq_makefile():
    mk = os.path.join(COQ, "Makefile")
    proj = os.path.join(COQ, "_CoqProject")
    if not os.path.exists(mk) or os.path.getmtime(mk) < os.path.getmtime(proj):
        sh("coq_makefile -f _CoqProject -o Makefile", cwd=COQ, timeout=120)


def coq_make(targets, timeout=3000):
    """make the given .vo targets; returns (ok, log)."""
    coq_makefile()
    p = sh(["make", "-j16"] + targets, cwd=COQ, timeout=timeout, check=False)
    return p.returncode == 0, p.stdout


def coq_compile_props(pid, timeout=1800):
    """Compile Props/<pid>.v on its own so that its Print Assumptions output is captured."""
    vfile = "Props/%s.v" % pid
    vo = os.path.join(COQ, "Props", pid + ".vo")
    if os.path.exists(vo):
        os.remove(vo)
    p = sh(["coqc", "-Q", ".", "MV", vfile], cwd=COQ, timeout=timeout, check=False)
    return p.returncode == 0, p.stdout


BAD_WORDS = re.compile(r"\b(Admitted|admit|Axiom|Axioms|Parameter|Parameters|Conjecture|Hypothesis|Variable|"
                       r"bypass_check|Unset\s+Guard|Unset\s+Positivity|Unset\s+Universe|type-in-type)\b")


def strip_comments(src):
    out, depth, i = [], 0, 0
    while i < len(src):
        if src.startswith("(*", i):
            depth += 1
            i += 2
        elif src.startswith("*)", i) and depth > 0:
            depth -= 1
            i += 2
        else:
            if depth == 0:
                out.append(src[i])
            i += 1
    return "".join(out)


def hygiene():
    """No Admitted / admit / Axiom / Parameter ... anywhere in the hand-written or generated
    development (Variable/Hypothesis are allowed only inside Sections)."""
    problems = []
    for root, _, files in os.walk(COQ):
        for fn in files:
            if not fn.endswith(".v"):
                continue
            path = os.path.join(root, fn)
            src = strip_comments(open(path).read())
            in_section = 0
            for ln, line in enumerate(src.split("\n"), 1):
                if re.match(r"\s*Section\b", line):
                    in_section += 1
                if re.match(r"\s*End\b", line) and in_section:
                    in_section -= 1
                for m in BAD_WORDS.finditer(line):
                    w = m.group(1)
                    if w in ("Variable", "Hypothesis") and in_section:
                        continue
                    problems.append("%s:%d: %s" % (os.path.relpath(path, VERIF), ln, w))
    return problems


ALLOWED_AXIOMS = set()  # no axioms are used by this development


def parse_assumptions(log):
    """Returns (n_closed, list_of_axiom_blocks) from the output of Print Assumptions commands."""
    closed = len(re.findall(r"Closed under the global context", log))
    axioms = []
    for m in re.finditer(r"Axioms:\n((?:.+\n?)+?)(?:\n|$)", log):
        for line in m.group(1).split("\n"):
            mm = re.match(r"^(\S+)\s*:", line)
            if mm:
                axioms.append(mm.group(1))
    return closed, axioms


def extract_and_build_driver():
    ok, log = coq_make(["Extract/Extract.vo"])
    if not ok:
        raise BuildError("extraction failed:\n" + log[-4000:])
    for f in ("model.ml", "model.mli"):
        if os.path.exists(os.path.join(COQ, f)):
            os.remove(os.path.join(COQ, f))
    gen = os.path.join(DRIVER, "gen", "model.ml")
    stamp = os.path.join(DRIVER, "_build", "stamp")
    h = hashlib.sha256(open(gen, "rb").read() + open(os.path.join(DRIVER, "driver.ml"), "rb").read()).hexdigest()
    if os.path.exists(MVD) and os.path.exists(stamp) and open(stamp).read() == h:
        return
    p = sh(["sh", os.path.join(DRIVER, "build.sh")], timeout=1200, check=False)
    if p.returncode != 0:
        raise BuildError("driver build failed:\n" + p.stdout[-4000:])
    open(stamp, "w").write(h)


def prepare(need_dev=False):
    """Everything a check needs, rebuilt from /repo's current working tree."""
    with Lock():
        os.makedirs(WORK, exist_ok=True)
        build_harness(dev=False)
        if need_dev:
            build_harness(dev=True)
        regen()
        extract_and_build_driver()


# ------------------------------------------------------------------------- running the two sides

def run_impl(family, cases, dev=False, tag="c", timeout=3000):
    path = os.path.join(WORK, "%s.%s.cases" % (tag, family))
    with open(path, "w") as f:
        f.write("\n".join(cases) + "\n")
    p = subprocess.run([MVH_DEV if dev else MVH, "run", family, path], stdout=subprocess.PIPE,
                       stderr=subprocess.PIPE, text=True, timeout=timeout)
    out = [l[3:] for l in p.stdout.split("\n") if l.startswith("@@ ")]
    if len(out) != len(cases):
        raise BuildError("harness returned %d lines for %d cases (rc=%d)\n%s" %
                         (len(out), len(cases), p.returncode, p.stderr[-2000:]))
    return out


def run_model(family, cases, tag="c", timeout=3000, shards=16):
    n = len(cases)
    if n == 0:
        return []
    shards = max(1, min(shards, n // 50 + 1))
    procs = []
    per = (n + shards - 1) // shards
    for k in range(shards):
        chunk = cases[k * per:(k + 1) * per]
        if not chunk:
            continue
        path = os.path.join(WORK, "%s.%s.m%d.cases" % (tag, family, k))
        with open(path, "w") as f:
            f.write("\n".join(chunk) + "\n")
        procs.append((len(chunk), subprocess.Popen(
            "ulimit -s unlimited 2>/dev/null; exec %s %s %s" % (MVD, family, path), shell=True,
            stdout=subprocess.PIPE, stderr=subprocess.PIPE, text=True)))
    out = []
    for cnt, pr in procs:
        o, e = pr.communicate(timeout=timeout)
        lines = o.split("\n")
        if lines and lines[-1] == "":
            lines.pop()
        if len(lines) != cnt:
            raise BuildError("model driver returned %d lines for %d cases\n%s" % (len(lines), cnt, e[-2000:]))
        out.extend(lines)
    return out


# ------------------------------------------------------------------------------- reporting

class Report:
    def __init__(self, pid, tier, seed, level):
        self.pid, self.tier, self.seed, self.level = pid, tier, seed, level
        self.t0 = time.time()
        self.violations = []      # (what, replay dict)
        self.known = []
        self.coverage = {}
        self.assumptions = []
        self.known_findings = load_known(pid)

    def violation(self, what, replay, no_input=False):
        """Register a violation unless it matches a listed known finding."""
        for kf in self.known_findings:
            if kf.get("status") == "open" and kf_matches(kf, replay):
                if kf["id"] not in [k["id"] for k in self.known]:
                    self.known.append(kf)
                return
        self.violations.append((what, replay, no_input))

    def finish(self):
        os.makedirs(EVID, exist_ok=True)
        os.makedirs(REPLAYS, exist_ok=True)
        for kf in self.known:
            print("KNOWN-FINDING: property=%s %s" % (self.pid, kf["what"]))
        lines = []
        for what, replay, no_input in self.violations[:5]:
            h = hashlib.sha256(json.dumps(replay, sort_keys=True).encode()).hexdigest()[:12]
            path = os.path.join(REPLAYS, "%s-%s.json" % (self.pid, h))
            with open(path, "w") as f:
                json.dump(dict(replay, property=self.pid, what=what, seed=self.seed), f, indent=1)
            l = "VIOLATION property=%s replay=%s%s" % (self.pid, path, " no-failing-input-found" if no_input else "")
            if l not in lines:
                lines.append(l)
        ev = {
            "property_id": self.pid, "tier": self.tier, "seed": self.seed, "level": self.level,
            "coverage": self.coverage, "assumptions": self.assumptions,
            "wall_s": round(time.time() - self.t0, 2), "violations": len(self.violations),
        }
        with open(os.path.join(EVID, self.pid + ".json"), "w") as f:
            json.dump(ev, f, indent=1)
        for l in lines:
            print(l)
        sys.stdout.flush()
        return 1 if self.violations else 0


def load_known(pid):
    path = os.path.join(VERIF, "known_findings.json")
    try:
        data = json.load(open(path))
    except FileNotFoundError:
        return []
    return [k for k in data.get("findings", []) if k.get("property") == pid]


def kf_matches(kf, replay):
    """A known finding matches a replay when every key of its `match` dict equals the replay's
    value (strings may be given as regular expressions with prefix 're:')."""
    for k, v in kf.get("match", {}).items():
        r = replay.get(k)
        if isinstance(v, str) and v.startswith("re:"):
            if r is None or not re.search(v[3:], str(r)):
                return False
        elif r != v:
            return False
    return True


# ------------------------------------------------------------------------------- proof leg

def props_deps(pid):
    """.vo targets Props/<pid>.v depends on, from coqdep."""
    p = sh(["coqdep", "-Q", ".", "MV", "Props/%s.v" % pid], cwd=COQ, timeout=120, check=False)
    deps = []
    for tok in p.stdout.replace("\\\n", " ").split():
        if tok.endswith(".vo") and not tok.endswith("Props/%s.vo" % pid):
            deps.append(tok.lstrip("./"))
    return sorted(set(deps))


def locate_failure(log):
    """(file, line, nearest theorem name, message) of the first Coq error in a build log."""
    m = re.search(r'File "\./?([^"]+)", line (\d+), characters [\d-]+:\s*\n(Error:(?:.|\n)*?)(?:\n\n|\nmake|\Z)', log)
    if not m:
        return None
    fn, ln, msg = m.group(1), int(m.group(2)), m.group(3).strip()
    name = None
    try:
        lines = open(os.path.join(COQ, fn)).read().split("\n")
        for i in range(min(ln, len(lines)) - 1, -1, -1):
            mm = re.match(r"\s*(?:Theorem|Lemma|Corollary|Example|Definition|Fixpoint|Check)\s+(\w+)", lines[i])
            if mm:
                name = mm.group(1)
                break
    except OSError:
        pass
    return {"file": fn, "line": ln, "theorem": name, "message": msg[:600]}


def proof_leg(pid, timeout=3000):
    """Build the theorems of property pid against the regenerated model.  Returns a dict:
       ok, obligations (theorem names of Props/<pid>.v), discharged, failure, axioms, hygiene."""
    res = {"ok": False, "obligations": [], "discharged": 0, "failure": None, "axioms": [], "hygiene": []}
    src = strip_comments(open(os.path.join(COQ, "Props", pid + ".v")).read())
    names = re.findall(r"^\s*Theorem\s+(\w+)", src, re.M)
    res["obligations"] = names
    res["hygiene"] = hygiene()
    with Lock():
        deps = props_deps(pid)
        ok, log = coq_make(deps, timeout=timeout)
        if not ok:
            res["failure"] = locate_failure(log) or {"file": "?", "line": 0, "theorem": None, "message": log[-800:]}
            return res
        ok, log = coq_compile_props(pid, timeout=timeout)
    if not ok:
        res["failure"] = locate_failure(log) or {"file": "Props/%s.v" % pid, "line": 0, "theorem": None,
                                                 "message": log[-800:]}
        # theorems before the failing line are discharged
        if res["failure"].get("file", "").endswith("Props/%s.v" % pid):
            res["discharged"] = sum(1 for n in names if _line_of(pid, n) < res["failure"]["line"])
        return res
    closed, axioms = parse_assumptions(log)
    res["axioms"] = axioms
    res["discharged"] = len(names)
    res["print_assumptions_closed"] = closed
    bad_ax = [a for a in axioms if a not in ALLOWED_AXIOMS]
    if res["hygiene"]:
        res["failure"] = {"file": res["hygiene"][0], "line": 0, "theorem": None,
                          "message": "forbidden vernacular: " + "; ".join(res["hygiene"][:5])}
        return res
    if bad_ax:
        res["failure"] = {"file": "Props/%s.v" % pid, "line": 0, "theorem": None,
                          "message": "axioms outside the allow-list: " + ", ".join(bad_ax)}
        return res
    if closed < len(names):
        res["failure"] = {"file": "Props/%s.v" % pid, "line": 0, "theorem": None,
                          "message": "Print Assumptions missing for some theorems (%d < %d)" % (closed, len(names))}
        return res
    res["ok"] = True
    return res


def _line_of(pid, name):
    for i, l in enumerate(open(os.path.join(COQ, "Props", pid + ".v")).read().split("\n"), 1):
        if re.match(r"\s*Theorem\s+%s\b" % re.escape(name), l):
            return i
    return 10**9


TRUSTED_BASE = [
    "Coq 8.16.1 kernel (coqc), vm_compute; no native_compute",
    "axioms: none (every Print Assumptions under Props/ must say 'Closed under the global context')",
    "translator: harness `mvh dump-*` printing coq/Gen/*.v from /repo through its public Rust API",
    "extraction: ExtrOcamlBasic + ExtrOcamlZBigInt (positive/N/Z -> zarith big_int and their Extract Constant arithmetic) + ExtrOcamlNativeString (ascii -> char, string -> OCaml string), OCaml 4.13.1, zarith 1.12, driver/driver.ml",
    "correspondence: lib/*.py generators and canonicalisation, harness/src/*.rs entry points, rustc/cargo, feature `internals` of miden-processor",
]

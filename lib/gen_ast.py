"""Random Miden assembly ASTs rendered both as MASM source (for the real assembler) and in the
model's AST case language (instructions already expanded to op lists obtained from the real
assembler)."""
import re
import common, instrs
from common import P

POOL = ["add", "mul", "neg", "incr?", "eq", "eqz?", "not", "dup.0", "dup.1", "dup.3", "dup.8", "dup.15", "swap",
        "swap.5", "swap.12", "movup.2", "movup.9", "movdn.3", "movdn.11", "drop", "pad?", "padw", "dropw",
        "push.0", "push.1", "push.2", "push.7", "push.4294967296", "push.18446744069414584320", "add.1", "add.5",
        "sub.3", "mul.2", "eq.0", "eq.7", "neq.0", "u32split", "u32cast", "u32wrapping_add", "u32wrapping_add.1",
        "u32overflowing_add", "u32wrapping_sub", "u32overflowing_mul", "u32and", "u32xor", "u32not", "u32lt",
        "u32max", "lt", "gte", "is_odd", "swapw", "swapdw", "movupw.2", "cswap", "cdrop", "sdepth", "clk",
        "mem_store.5", "mem_load.5", "mem_storew.7", "mem_loadw.7", "mem_store", "mem_load", "assert",
        "assertz", "u32assert", "exp.3", "exp.u5", "pow2", "ext2mul", "ext2add", "adv_push.1", "adv_loadw"]
POOL = [p for p in POOL if not p.endswith("?")]
SAFE = ["add", "mul", "neg", "eq", "dup.0", "dup.1", "dup.3", "dup.8", "dup.15", "swap", "swap.5", "swap.12",
        "movup.2", "movup.9", "movdn.3", "movdn.11", "drop", "padw", "dropw", "push.0", "push.1", "push.2",
        "push.7", "push.4294967296", "add.1", "add.5", "sub.3", "mul.2", "eq.0", "eq.7", "neq.0", "u32split",
        "u32cast", "swapw", "swapdw", "movupw.2", "sdepth", "clk", "mem_store.5", "mem_load.5", "mem_storew.7",
        "mem_loadw.7", "ext2mul", "ext2add"]


class OpsTable:
    """instruction text -> op token list, from the real assembler (cached per run)"""

    def __init__(self):
        self.t = {}

    def ensure(self, names):
        need = [n for n in names if n not in self.t]
        if need:
            for n, (ops, raw) in zip(need, instrs.assemble_ops(need, tag="astops")):
                if ops is None:
                    raise common.BuildError("instruction %s not assembled: %s" % (n, raw[:200]))
                self.t[n] = ops

    def loc(self, kind, idx, nlocals):
        """loc_load/loc_store... inside a procedure with nlocals locals"""
        key = "%s.%d@%d" % (kind, idx, nlocals)
        if key not in self.t:
            src = "proc.f.%d %s.%d end begin exec.f end" % (nlocals, kind, idx)
            out = common.run_impl("asmdump", [" | | " + src], tag="astloc")[0]
            m = re.match(r"OK S (\d+) (.*?) # ", out)
            if not m:
                raise common.BuildError("loc instruction: " + out[:200])
            ops = m.group(2).split()
            self.t[key] = ops[2:-2]  # strip push.n fmpupdate ... push.-n fmpupdate
        return self.t[key]


class AstGen:
    def __init__(self, r, table, allow_fail=False, conds=(0, 1)):
        self.r, self.table, self.allow_fail, self.conds = r, table, allow_fail, conds
        self.pool = POOL if allow_fail else SAFE
        table.ensure(POOL)

    def instrs(self, n, nlocals=0):
        """(masm text, model node text) for n straight-line instructions"""
        r = self.r
        names, ops = [], []
        for _ in range(n):
            if nlocals and r.chance(1, 3):
                kind = r.choice(["loc_load", "loc_store", "loc_loadw", "loc_storew"])
                idx = r.below(nlocals)
                names.append("%s.%d" % (kind, idx))
                ops += self.table.loc(kind, idx, nlocals)
            else:
                nm = r.choice(self.pool)
                names.append(nm)
                ops += self.table.t[nm]
        return " ".join(names), "O %d %s" % (len(ops), " ".join(ops))

    def cond_push(self):
        v = self.r.choice(self.conds)
        nm = "push.%d" % v
        self.table.ensure([nm])
        return nm, "O %d %s" % (len(self.table.t[nm]), " ".join(self.table.t[nm]))

    def body(self, depth, nprocs, nlocals=0, maxn=4):
        """returns (masm, model) of a body with 1..maxn nodes"""
        r = self.r
        ms, ns = [], []
        for _ in range(1 + r.below(maxn)):
            k = r.below(12) if depth > 0 else 0
            if k <= 4:
                m, n = self.instrs(1 + r.below(5), nlocals)
            elif k <= 6:
                cm, cn = self.cond_push()
                # the parser accepts empty bodies: an empty true branch (with or without else) and an empty else
                tm, tn = ("", "B 0") if r.chance(1, 6) else self.body(depth - 1, nprocs, nlocals, 3)
                if r.chance(1, 3):
                    m = "%s if.true %s end" % (cm, tm)
                    n = "I %s B 0" % tn
                else:
                    fm, fn = ("", "B 0") if r.chance(1, 8) else self.body(depth - 1, nprocs, nlocals, 3)
                    m = "%s if.true %s else %s end" % (cm, tm, fm)
                    n = "I %s %s" % (tn, fn)
                ms.append(cm)
                ns.append(cn)
                m = m[len(cm) + 1:]
            elif k == 7:
                cnt = r.choice([0, 1, 2, 3, 5])
                bm, bn = ("", "B 0") if r.chance(1, 8) else self.body(depth - 1, nprocs, nlocals, 2)
                # repeat.0 is accepted by the parser and contributes no copy of its body
                m, n = "repeat.%d %s end" % (cnt, bm), "R %d %s" % (cnt, bn)
            elif k == 8:
                # while loop driven by precomputed conditions: push last, then `it` ones
                it = r.below(4)
                last = r.choice(self.conds) if self.allow_fail else 0
                if last == 1:
                    last = 0
                pushes = ["push.%d" % last] + ["push.1"] * it
                self.table.ensure(pushes)
                pops = sum((self.table.t[p] for p in pushes), [])
                ms.append(" ".join(pushes))
                ns.append("O %d %s" % (len(pops), " ".join(pops)))
                neutral = r.choice(["push.3 drop", "dup.0 drop", "padw dropw", "swap swap", ""])
                self.table.ensure(neutral.split())
                nops = sum((self.table.t[x] for x in neutral.split()), [])
                if neutral:
                    m, n = "while.true %s end" % neutral, "W B 1 O %d %s" % (len(nops), " ".join(nops))
                else:
                    m, n = "while.true end", "W B 0"
            elif k <= 10 and nprocs > 0:
                p = r.below(nprocs)
                if r.chance(3, 4):
                    m, n = "exec.p%d" % p, "E %d" % p
                else:
                    m, n = "call.p%d" % p, "CL %d" % p
            else:
                m, n = self.instrs(1 + r.below(3), nlocals)
            ms.append(m)
            ns.append(n)
        if not ns:
            m, n = self.instrs(1, nlocals)
            ms.append(m)
            ns.append(n)
        return " ".join(ms), "B %d %s" % (len(ns), " ".join(ns))

    def program(self, depth=3):
        r = self.r
        nprocs = r.below(4)
        procs_m, procs_n = [], []
        for i in range(nprocs):
            nl = r.choice([0, 0, 1, 2, 4])
            bm, bn = self.body(min(depth - 1, 2), i, nl, 3)
            procs_m.append("proc.p%d.%d %s end" % (i, nl, bm) if nl else "proc.p%d %s end" % (i, bm))
            procs_n.append("%d %s" % (nl, bn))
        mm, mn = self.body(depth, nprocs, 0, 4)
        masm = " ".join(procs_m) + " begin %s end" % mm
        model = "PR %d %s %s" % (nprocs, " ".join(procs_n), mn)
        return masm, model

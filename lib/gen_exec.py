"""Generators for the `exec` case family (MAST programs in the case language)."""
from common import P

U32 = 2**32
POOL = [0, 1, 2, 3, 2**16, 2**31, U32 - 1, U32, U32 + 1, P - 1, P - 2, 2**63, 7, 255, 65535]
ADDRS = [0, 1, 2, 3, 2**30, 2**31, U32 - 1, U32 - 2, 5, 1000]


def val(r):
    k = r.below(10)
    if k < 4:
        return r.choice(POOL)
    if k < 7:
        return r.below(U32)
    if k < 8:
        return r.below(16)
    return r.below(P)


def u32v(r):
    k = r.below(6)
    if k < 2:
        return r.choice([0, 1, 2, 2**16, 2**31, U32 - 1, U32 - 2, 65535, 65536])
    return r.below(U32)


def bit(r):
    return r.below(2)


PLAIN = ["noop", "add", "neg", "mul", "incr", "eq", "eqz", "expacc", "ext2mul", "u32split", "u32add", "u32add3",
         "u32sub", "u32mul", "u32madd", "pad", "drop", "dup0", "dup1", "dup2", "dup3", "dup4", "dup5", "dup6",
         "dup7", "dup9", "dup11", "dup13", "dup15", "swap", "swapw", "swapw2", "swapw3", "swapdw", "movup2",
         "movup3", "movup4", "movup5", "movup6", "movup7", "movup8", "movdn2", "movdn3", "movdn4", "movdn5",
         "movdn6", "movdn7", "movdn8", "sdepth", "clk", "fmpadd"]
RAW_EXTRA = ["inv", "and", "or", "not", "u32div", "u32and", "u32xor", "cswap", "cswapw", "assert:7",
             "u32assert2:9", "fmpupdate", "advpop", "advpopw", "mloadw", "mstorew", "mload", "mstore", "mstream",
             "pipe", "hperm", "caller"]


def gadget(r, allow_fail=True):
    """A short op list that is mostly valid (operands set up), from every op class."""
    k = r.below(30)
    if k < 6:
        return [r.choice(PLAIN)]
    if k < 8:
        return ["push:%d" % val(r)]
    if k == 8:
        return ["push:%d" % val(r), r.choice(["add", "mul", "eq"])]
    if k == 9:
        return ["push:%d" % bit(r), "push:%d" % bit(r), r.choice(["and", "or"])]
    if k == 10:
        return ["push:%d" % bit(r), "not"]
    if k == 11:
        return ["push:%d" % (val(r) or 1), "inv"]
    if k == 12:
        return ["push:%d" % u32v(r), "push:%d" % u32v(r),
                r.choice(["u32add", "u32sub", "u32mul", "u32and", "u32xor", "u32assert2:3"])]
    if k == 13:
        return ["push:%d" % u32v(r), "push:%d" % (u32v(r) or 1), "u32div"]
    if k == 14:
        return ["push:%d" % u32v(r), "push:%d" % u32v(r), "push:%d" % u32v(r), r.choice(["u32add3", "u32madd"])]
    if k == 15:
        return ["push:%d" % bit(r), r.choice(["cswap", "cswapw"])]
    if k == 16:
        return ["push:1", "assert:%d" % r.below(5)]
    if k == 17:
        return ["push:%d" % r.choice(ADDRS), r.choice(["mstorew", "mstore", "mloadw", "mload"])]
    if k == 18:
        a = r.choice(ADDRS)
        return ["push:%d" % val(r), "push:%d" % a, "mstore", "push:%d" % a, "mload"]
    if k == 19:
        return ["push:%d" % r.choice(ADDRS[:6]), "movdn8", "movdn4"] + ["movup4"] * 0 + \
               ["pad"] * 0 + ["mstream"] if False else ["mstream"]
    if k == 20:
        return [r.choice(["advpop", "advpopw", "pipe"])]
    if k == 21:
        return ["hperm"]
    if k == 22:
        d = r.choice([1, 2, 5, 100])
        return ["push:%d" % d, "fmpupdate", "push:%d" % (P - d), "fmpupdate"]
    if k == 23:
        return ["push:%d" % r.below(8), "fmpadd"]
    if k == 24:
        return ["push:%d" % val(r), "push:%d" % val(r), "push:%d" % val(r), "push:%d" % val(r), "ext2mul"]
    if k == 25:
        return ["push:%d" % r.below(2**10), "push:1", "push:%d" % val(r), "push:0", "expacc", "expacc"]
    if k == 26:
        return ["push:%d" % val(r), "u32split"]
    if allow_fail:
        return [r.choice(RAW_EXTRA)]
    return [r.choice(PLAIN)]


def gen_ops(r, n, allow_fail=True):
    ops = []
    while len(ops) < n:
        ops.extend(gadget(r, allow_fail))
    return ops


def span(ops):
    return "S %d %s" % (len(ops), " ".join(ops))


def gen_stack(r):
    d = r.choice([0, 1, 4, 15, 16, 17, 18, 20, 24, 33, 40, r.below(41)])
    return [val(r) for _ in range(d)]


def gen_adv(r):
    n = r.choice([0, 0, 3, 4, 8, 16, 40])
    return [val(r) for _ in range(n)]


def case_line(maxc, stack, adv, prog):
    return "%d | %s | %s | %s" % (maxc, " ".join(map(str, stack)), " ".join(map(str, adv)), prog)


def gen_ops_case(r, maxlen=60):
    n = r.choice([1, 2, 5, 9, 10, 20, 40, maxlen, 1 + r.below(maxlen)])
    ops = gen_ops(r, n, allow_fail=r.chance(1, 3))
    return case_line(2**32 - 1, gen_stack(r), gen_adv(r), "T 0 " + span(ops))


# ---- structured programs ------------------------------------------------------------------

class ProgGen:
    """Random MAST with join / split / loop / call / syscall / dyn / dyncall over a procedure table."""

    def __init__(self, r, nprocs=None, allow_fail=False, mem=False):
        self.r = r
        self.allow_fail = allow_fail
        self.nprocs = r.below(4) if nprocs is None else nprocs
        self.flags = []

    def small_span(self, maxn=8):
        r = self.r
        ops = gen_ops(r, 1 + r.below(maxn), self.allow_fail and r.chance(1, 4))
        return span(ops)

    def cond(self):
        """ops that leave a condition value on the stack"""
        r = self.r
        k = r.below(20)
        if k < 9:
            return "push:1"
        if k < 18:
            return "push:0"
        return "push:%d" % r.choice([2, P - 1, 2**32])

    def block(self, depth, avail, in_call=False):
        r = self.r
        if depth <= 0:
            return self.small_span()
        k = r.below(20)
        if k < 5:
            return self.small_span(12)
        if k < 9:
            return "J %s %s" % (self.block(depth - 1, avail, in_call), self.block(depth - 1, avail, in_call))
        if k < 12:
            return "J %s P %s %s" % (span([self.cond()]), self.block(depth - 1, avail, in_call),
                                     self.block(depth - 1, avail, in_call))
        if k < 15:
            # counter loop: body leaves the next condition on top
            n = r.below(4)
            body_ops = gen_ops(r, 1 + r.below(4), False) + ["push:CNT"]
            return self.counter_loop(n, depth, avail, in_call)
        if k < 17 and avail > 0:
            i = r.below(avail)
            return "C %d" % i
        if k < 18 and avail > 0:
            i = r.below(avail)
            return "Y %d" % i
        if k < 19 and avail > 0:
            i = r.below(avail)
            w = ["push:h%d.%d" % (i, j) for j in range(4)]
            tail = "D" if r.chance(1, 2) else "DC"
            return "J %s J %s %s" % (span(w), tail, span(["drop", "drop", "drop", "drop"]))
        return self.small_span()

    def counter_loop(self, n, depth, avail, in_call):
        """while loop running exactly n times driven by the advice-free trick: conditions are
        pushed by unrolled spans: push c0; loop( body; push c1 ) needs data-dependent values, so we
        precompute the sequence on the stack: push 0, then n ones (last pushed is consumed first)."""
        r = self.r
        last = 0 if not (self.allow_fail and r.chance(1, 6)) else r.choice([2, P - 1])
        pushes = ["push:%d" % last] + ["push:1"] * n
        body = self.block(depth - 1, 0, in_call) if r.chance(1, 3) else span(["noop"] + gen_ops(r, r.below(3), False)[:0])
        # body must be stack-neutral for the precomputed conditions to be seen: use neutral ops
        body = span(r.choice([["noop"], ["clk", "drop"], ["pad", "incr", "drop"], ["dup0", "drop", "noop"]]))
        return "J %s L %s" % (span(pushes), body)

    def program(self):
        r = self.r
        parts = []
        for i in range(self.nprocs):
            flag = r.weighted([("U", 5), ("K", 4), ("X", 1 if self.allow_fail else 0)])
            body = self.block(r.below(3), i, in_call=True)
            parts.append("%s %s" % (flag, body))
        root = self.block(2 + r.below(3), self.nprocs)
        return "T %d %s %s" % (self.nprocs, " ".join(parts), root)


def gen_prog_case(r, allow_fail=False):
    g = ProgGen(r, allow_fail=allow_fail)
    return case_line(2**32 - 1, gen_stack(r), gen_adv(r), g.program())

"""Module dependency graphs for C11, rendered as MASM (for the real assembler) and in the abstract
case language of the model's `link` family."""
import common


class Graph:
    def __init__(self):
        self.kernel = []      # procs (all exported)
        self.modules = []     # {"reexp": [(alias, (m, n))], "procs": [proc]}
        self.programs = []    # {"procs": [proc], "body": [item]}
        self.uid = 100


def new_op(g):
    g.uid += 1
    return ("op", g.uid)


def exported(g, j):
    """(name) of everything module j exports, including re-export aliases"""
    m = g.modules[j]
    return [p["name"] for p in m["procs"] if p["export"]] + [a for a, _ in m["reexp"]]


def gen_body(g, r, nlocals, lower_mods, n, in_kernel=False, kernel_names=(), bad=False):
    items = [new_op(g)]
    for _ in range(n):
        c = r.below(10)
        if c < 3 or (in_kernel and c >= 5):
            items.append(new_op(g))
        elif c < 5 and nlocals:
            i = r.below(nlocals)
            kind = "xl" if in_kernel else r.choice(["xl", "cl", "rl"])
            items.append((kind, i))
        elif c < 8 and lower_mods:
            j = r.choice(lower_mods)
            names = exported(g, j)
            if names:
                items.append((r.choice(["xi", "ci", "ri"]), j, r.choice(names)))
        elif c == 8 and kernel_names:
            items.append(("s", r.choice(list(kernel_names))))
        else:
            items.append(new_op(g))
    if bad:
        k = r.below(4)
        private = [(j, p["name"]) for j in lower_mods for p in g.modules[j]["procs"] if not p["export"]]
        if k == 3 and private:
            j, nm = r.choice(private)
            items.append((r.choice(["xi", "ci", "ri"]), j, nm))                           # exists, but is not exported
        elif k == 0 and lower_mods:
            items.append((r.choice(["xi", "ci", "ri"]), r.choice(lower_mods), 999))     # no such procedure
        elif k == 1:
            items.append(("xi", 77, 1))                                                  # no such module
        else:
            items.append(("s", 998))                                                     # no such kernel procedure
    return items


def gen_graph(r, with_errors=True):
    g = Graph()
    if r.chance(1, 3):
        for i in range(1 + r.below(3)):
            g.kernel.append({"name": 500 + i, "export": True,
                             "body": gen_body(g, r, i, [], r.below(3), in_kernel=True)})
    knames = [p["name"] for p in g.kernel]
    nm = 1 + r.below(4)
    bad_module = r.below(nm) if with_errors and r.chance(1, 5) else None
    cyc = with_errors and nm >= 2 and r.chance(1, 12)
    for j in range(nm):
        m = {"reexp": [], "procs": []}
        g.modules.append(m)
        lower = list(range(j))
        if cyc and j == 0:
            lower = [nm - 1]          # module 0 uses the last module, which uses module 0 again
        for i in range(1 + r.below(4)):
            if cyc and j == 0:
                body = [new_op(g), ("xi", nm - 1, 1)]
            else:
                body = gen_body(g, r, i, lower if not (cyc and j == 0) else [], r.below(4), kernel_names=knames,
                                bad=(bad_module == j and i == 0))
            m["procs"].append({"name": i + 1, "export": i == 0 or r.chance(1, 2), "body": body})
        if lower and not cyc and r.chance(1, 2):
            t = r.choice(lower)
            names = exported(g, t)
            if names:
                n = r.choice(names)
                m["reexp"].append((50 + j, (t, n)))
    if cyc:
        # make sure the last module reaches module 0
        g.modules[nm - 1]["procs"][0]["body"].append(("xi", 0, 1))
        g.modules[nm - 1]["procs"][0]["export"] = True
    for _ in range(2 + r.below(3)):
        procs = []
        for i in range(r.below(3)):
            procs.append({"name": i + 1, "export": False,
                          "body": gen_body(g, r, i, list(range(nm)), r.below(4), kernel_names=knames)})
        body = gen_body(g, r, len(procs), list(range(nm)), 1 + r.below(5), kernel_names=knames,
                        bad=with_errors and r.chance(1, 8))
        g.programs.append({"procs": procs, "body": body})
    # history: repeat an earlier program at the end
    if r.chance(1, 2):
        g.programs.append(g.programs[r.below(len(g.programs))])
    return g


# ---- rendering -------------------------------------------------------------------------------------
def masm_items(items, local_names):
    out = []
    for it in items:
        k = it[0]
        if k == "op":
            out.append("push.%d drop" % it[1])
        elif k in ("xl", "cl", "rl"):
            kw = {"xl": "exec", "cl": "call", "rl": "procref"}[k]
            out.append("%s.p%d%s" % (kw, local_names[it[1]], " dropw" if k == "rl" else ""))
        elif k in ("xi", "ci", "ri"):
            kw = {"xi": "exec", "ci": "call", "ri": "procref"}[k]
            out.append("%s.m%d::p%d%s" % (kw, it[1], it[2], " dropw" if k == "ri" else ""))
        elif k == "s":
            out.append("syscall.p%d" % it[1])
    return "\n".join(out)


def used_modules(procs, body):
    ms = set()
    for b in [p["body"] for p in procs] + [body]:
        for it in b:
            if it[0] in ("xi", "ci", "ri"):
                ms.add(it[1])
    return sorted(ms)


def masm_procs(procs):
    names = [p["name"] for p in procs]
    out = []
    for i, p in enumerate(procs):
        out.append("%s.p%d\n%s\nend\n" % ("export" if p["export"] else "proc", p["name"], masm_items(p["body"], names[:i])))
    return "".join(out)


def ns(j):
    """modules alternate between two libraries"""
    return "a" if j % 2 == 0 else "b"


def masm_module(m):
    uses = set(used_modules(m["procs"], []))
    for _, (t, _) in m["reexp"]:
        uses.add(t)
    src = "".join("use.%s::m%d\n" % (ns(j), j) for j in sorted(uses))
    for a, (t, n) in m["reexp"]:
        src += "export.m%d::p%d->p%d\n" % (t, n, a)
    return src + masm_procs(m["procs"])


def masm_program(p):
    src = "".join("use.%s::m%d\n" % (ns(j), j) for j in used_modules(p["procs"], p["body"]))
    names = [q["name"] for q in p["procs"]]
    return src + masm_procs(p["procs"]) + "begin\n" + masm_items(p["body"], names) + "\nend\n"


def impl_case(g):
    hx = lambda s: s.encode().hex()
    steps = []
    if g.kernel:
        steps.append("kernel " + hx(masm_procs(g.kernel)))
    for lib in ("a", "b"):
        mods = ["m%d:%s" % (j, hx(masm_module(m))) for j, m in enumerate(g.modules) if ns(j) == lib]
        if mods:
            steps.append("lib %s %s" % (lib, " ".join(mods)))
    for p in g.programs:
        steps.append("prog " + hx(masm_program(p)))
    return " | ".join(steps)


def tok_item(it):
    if it[0] == "op":
        return "o%d" % it[1]
    if it[0] == "s":
        return "s%d" % it[1]
    if it[0] in ("xl", "cl", "rl"):
        return "%s%d" % (it[0], it[1])
    return "%s%d.%d" % (it[0], it[1], it[2])


def tok_proc(p):
    return "P %d %d %d %s" % (p["name"], 1 if p["export"] else 0, len(p["body"]), " ".join(tok_item(i) for i in p["body"]))


def model_case(g):
    t = ["K %d" % len(g.kernel)] + [tok_proc(p) for p in g.kernel]
    t.append("L %d" % len(g.modules))
    for j, m in enumerate(g.modules):
        t.append("M %d %d %s %d" % (j, len(m["reexp"]), " ".join("%d %d %d" % (a, mm, n) for a, (mm, n) in m["reexp"]), len(m["procs"])))
        t += [tok_proc(p) for p in m["procs"]]
    t.append("N %d" % len(g.programs))
    for p in g.programs:
        t.append("G %d" % len(p["procs"]))
        t += [tok_proc(q) for q in p["procs"]]
        t.append("B %d %s" % (len(p["body"]), " ".join(tok_item(i) for i in p["body"])))
    return " ".join(t)

"""MASM sources that exercise every instruction form the parser accepts (for C10/C19), and byte
mutators for the decoders."""
import common, instrs
from common import P

U32 = 2**32

# immediate-free forms beyond instrs.SIMPLE
EXTRA_SIMPLE = ["caller", "dynexec", "dyncall", "fri_ext2fold4", "rcomb_base", "breakpoint", "u32popcnt",
                "adv.push_u64div", "adv.push_ext2intt", "adv.push_smtget", "adv.push_smtset", "adv.push_smtpeek",
                "adv.push_mapval", "adv.push_mapvaln", "adv.push_mtnode", "adv.insert_mem", "adv.insert_hdword",
                "adv.insert_hperm", "adv.push_sig.rpo_falcon512", "debug.stack", "debug.mem", "swap", "dup", "dupw",
                "movup.2", "ext2add", "ext2sub", "ext2mul", "ext2div", "ext2neg", "ext2inv", "neg", "inv"]

# templates with typed holes
TEMPLATES = ["add.{f}", "sub.{f}", "mul.{f}", "div.{fnz}", "exp.{f}", "exp.u{bits}", "eq.{f}", "neq.{f}",
             "assert.err={u32}", "assertz.err={u32}", "assert_eq.err={u32}", "assert_eqw.err={u32}",
             "u32assert.err={u32}", "u32assert2.err={u32}", "u32assertw.err={u32}",
             "u32wrapping_add.{u32}", "u32overflowing_add.{u32}", "u32wrapping_sub.{u32}", "u32overflowing_sub.{u32}",
             "u32wrapping_mul.{u32}", "u32overflowing_mul.{u32}", "u32div.{u32nz}", "u32mod.{u32nz}", "u32divmod.{u32nz}",
             "u32shr.{sh}", "u32shl.{sh}", "u32rotr.{sh}", "u32rotl.{sh}",
             "push.{f}", "push.{u8}", "push.{u16}", "push.{u32}", "push.{list}", "push.{hexword}", "push.{hexfelt}",
             "mem_load.{u32}", "mem_loadw.{u32}", "mem_store.{u32}", "mem_storew.{u32}", "adv_push.{advn}",
             "adv.push_mapval.{woff}", "adv.push_mapvaln.{woff}", "adv.insert_hdword.{u8}",
             "debug.stack.{u16nz}", "debug.mem.{u32nz}", "debug.mem.{memiv}", "emit.{u32}", "trace.{u32}",
             "exec.p0", "call.p0", "procref.p0", "syscall.p0", "call.{hexword}",
             "exec.u64::add", "call.u64::add", "procref.u64::add"]
# forms only valid inside a procedure with locals
LOCAL_TEMPLATES = ["loc_load.{loc}", "loc_loadw.{loc}", "loc_store.{loc}", "loc_storew.{loc}", "locaddr.{loc}",
                   "debug.local", "debug.local.{loc}", "debug.local.{lociv}"]
NLOCALS = 8

EDGE = {
    "f": [0, 1, 255, 256, 65535, 65536, U32 - 1, U32, P - 1, P - 2, 1234567891011],
    "fnz": [1, 2, 255, U32, P - 1],
    "u32": [0, 1, 255, 256, 65535, 65536, U32 - 1],
    "u32nz": [1, 2, 65536, U32 - 1],
    "u16": [256, 65535, 1000],
    "u16nz": [1, 2, 16, 65535],
    "u8": [0, 1, 255],
    "sh": [0, 1, 31],
    "bits": [0, 1, 63, 64],
    "advn": [1, 2, 16],
    "woff": [0, 1, 12],
    "loc": [0, 1, NLOCALS - 1],
}


def hole(kind, r, edge_i=None):
    if kind == "list":
        n = r.choice([2, 3, 16, 2 + r.below(15)])
        top = r.choice([256, 65536, U32, P])
        return ".".join(str(r.below(top)) for _ in range(n))
    if kind in ("memiv", "lociv"):
        lim = U32 if kind == "memiv" else NLOCALS
        a, b = sorted([r.choice([1, lim - 1, 1 + r.below(lim - 1)]), r.choice([1, lim - 1, 1 + r.below(lim - 1)])])
        return "%d.%d" % (a, b)
    if kind == "hexword":
        vals = [r.choice([0, 1, P - 1, r.below(P)]) for _ in range(4)]
        return "0x" + "".join(v.to_bytes(8, "little").hex() for v in vals)
    if kind == "hexfelt":
        v = r.choice([0, 255, U32, P - 1, r.below(P)])
        return "0x%016x" % v
    e = EDGE[kind]
    if edge_i is not None:
        return str(e[edge_i % len(e)])
    if r.chance(1, 2):
        return str(r.choice(e))
    lim = {"f": P, "fnz": P, "u32": U32, "u32nz": U32, "u16": 65536, "u16nz": 65536, "u8": 256, "sh": 32,
           "bits": 65, "advn": 17, "woff": 13, "loc": NLOCALS}[kind]
    v = r.below(lim)
    if kind in ("fnz", "u32nz", "u16nz", "advn") and v == 0:
        v = 1
    return str(v)


def fill(t, r, edge_i=None):
    import re
    return re.sub(r"\{(\w+)\}", lambda m: hole(m.group(1), r, edge_i), t)


def simple_forms():
    out = list(dict.fromkeys(instrs.SIMPLE + EXTRA_SIMPLE + instrs.finite_families()))
    return out


def catalogue(r):
    """All forms, every template at each of its edge values: (global forms, local-only forms)."""
    g = simple_forms()
    for t in TEMPLATES:
        n = 1
        import re
        kinds = re.findall(r"\{(\w+)\}", t)
        for k in kinds:
            n = max(n, len(EDGE.get(k, [0, 1, 2])))
        for i in range(n):
            g.append(fill(t, r, i))
    l = []
    for t in LOCAL_TEMPLATES:
        for i in range(3):
            l.append(fill(t, r, i))
    return g, l


def random_form(r, local=False):
    if local and r.chance(1, 3):
        return fill(r.choice(LOCAL_TEMPLATES), r)
    if r.chance(1, 2):
        return r.choice(simple_forms())
    return fill(r.choice(TEMPLATES), r)


PRELUDE = "use.std::math::u64\n"


def body(r, depth, n, local=False):
    out = []
    for _ in range(n):
        c = r.below(12) if depth > 0 else 99
        if c == 0:
            out.append("if.true\n%s\nelse\n%s\nend" % (body(r, depth - 1, 1 + r.below(3), local), body(r, depth - 1, 1 + r.below(3), local)))
        elif c == 1:
            out.append("if.true\n%s\nend" % body(r, depth - 1, 1 + r.below(3), local))
        elif c == 2:
            out.append("while.true\n%s\nend" % body(r, depth - 1, 1 + r.below(3), local))
        elif c == 3:
            out.append("repeat.%d\n%s\nend" % (r.choice([1, 2, 5, 1000, U32 - 1]), body(r, depth - 1, 1 + r.below(3), local)))
        else:
            out.append(random_form(r, local))
    return "\n".join(out)


def docs(r):
    if r.chance(1, 2):
        return ""
    n = 1 + r.below(3)
    return "".join("#! %s\n" % r.choice(["doc line", "x", "returns a + b", "ünïcode ok", "  spaced  "]) for _ in range(n))


def procs(r, nproc, export_ok, depth):
    out = []
    for i in range(nproc):
        kw = "export" if export_ok and r.chance(1, 2) else "proc"
        nl = r.choice([0, NLOCALS])
        loc = ".%d" % nl if nl else ""
        # p0 never calls itself; later procedures may call p0
        b = body(r, depth, 1 + r.below(5), local=nl > 0) if i > 0 else "add\nmul"
        out.append("%s%s.p%d%s\n%s\nend\n" % (docs(r), kw, i, loc, b))
    return "".join(out)


def program(r, depth=2):
    return PRELUDE + procs(r, 1 + r.below(3), False, depth) + "begin\n" + body(r, depth, 1 + r.below(8)) + "\nend\n"


def module(r, depth=2):
    head = ""
    if r.chance(1, 2):
        head = "#! module docs\n#! second line\n\n"
    reexp = "export.u64::add\n" if r.chance(1, 3) else ""
    reexp += "export.u64::mul->mymul\n" if r.chance(1, 4) else ""
    src = head + PRELUDE + reexp + procs(r, 1 + r.below(4), True, depth)
    return src


def catalogue_sources(r, chunk=60):
    g, l = catalogue(r)
    srcs = []
    for i in range(0, len(g), chunk):
        loc = l if i == 0 else l[:2]
        srcs.append(PRELUDE + "proc.p0\nadd\nend\nproc.lp.%d\n%s\nend\nbegin\n%s\nend\n" % (NLOCALS, "\n".join(loc), "\n".join(g[i:i + chunk])))
    return srcs


# ---- byte mutators -------------------------------------------------------------------------------
def mutate(b, r):
    """One mutation of a valid encoding: bit flip, byte set, truncation, insertion, length-field
    change (small integers in the stream are the length fields), splice."""
    b = bytearray(b)
    if not b:
        return bytes([r.below(256)])
    k = r.below(8)
    if k == 0:
        i = r.below(len(b))
        b[i] ^= 1 << r.below(8)
    elif k == 1:
        i = r.below(len(b))
        b[i] = r.choice([0, 1, 0xff, 0xfe, 0xfd, 0x7f, r.below(256)])
    elif k == 2:
        b = b[:r.below(len(b))]
    elif k == 3:
        i = r.below(len(b) + 1)
        b[i:i] = bytes(r.below(256) for _ in range(1 + r.below(4)))
    elif k == 4:
        # length-like bytes: small values followed by a zero byte (u16/u32 counts)
        idx = [i for i in range(len(b) - 1) if b[i] < 20 and b[i + 1] == 0]
        if idx:
            i = r.choice(idx)
            b[i] = r.choice([b[i] + 1, max(0, b[i] - 1), 0, 0xff, r.below(256)]) & 0xff
            if r.chance(1, 4):
                b[i + 1] = r.choice([1, 0xff])
        else:
            b[r.below(len(b))] ^= 0xff
    elif k == 5:
        i = r.below(len(b))
        del b[i:i + 1 + r.below(3)]
    elif k == 6:
        i = r.below(len(b))
        j = r.below(len(b))
        b[i:i + 4] = b[j:j + 4]
    else:
        b += bytes(r.below(256) for _ in range(1 + r.below(8)))
    return bytes(b)


# ---- structured mutations --------------------------------------------------------------------------
DICT = ["#sys", "#exec", "#anon", "#main", "#sysx", "#exec1::a", "#sys::a", "a", "a::", "::a", "a::b", "a::b::c", "1a", "a-b",
        "\u00e9", "A" * 255, "a" * 256, "_a", "a_", "main", "a" * 1023, "a" * 1024]


def string_sites(b):
    """(offset, width of the length field, length) of length-prefixed printable runs in b"""
    out = []
    for i in range(len(b) - 1):
        n = b[i]
        if 1 <= n <= 64 and i + 1 + n <= len(b) and all(32 <= c < 127 for c in b[i + 1:i + 1 + n]):
            out.append((i, 1, n))
        if i + 2 <= len(b):
            n = b[i] | (b[i + 1] << 8)
            if 1 <= n <= 64 and i + 2 + n <= len(b) and all(32 <= c < 127 for c in b[i + 2:i + 2 + n]):
                out.append((i, 2, n))
    return out


def mutate_string(b, r):
    """Replace one length-prefixed string by a dictionary word, keeping the length field right."""
    sites = string_sites(b)
    if not sites:
        return mutate(b, r)
    i, w, n = r.choice(sites)
    word = r.choice(DICT).encode()
    if w == 1 and len(word) > 255:
        word = word[:255]
    return bytes(b[:i]) + len(word).to_bytes(w, "little") + word + bytes(b[i + w + n:])


def boundary_encodings():
    """Valid encodings in which a length field takes its largest value: (kind, bytes)."""
    out = []
    add = bytes([8])
    big = add * 65535
    body = b"\xff\xff" + big
    out.append(("prog", b"\x00" + b"\x00\x00" + body))                                     # program body
    out.append(("prog", b"\x00" + b"\x01\x00" + b"\x01a" + b"\x00\x00" + b"\x00" + b"\x00\x00" + body + b"\x01\x00" + add))   # procedure body
    out.append(("prog", b"\x00\x00\x00\x01\x00" + b"\xfd" + body + b"\x00\x00"))          # if branch
    out.append(("prog", b"\x00\x00\x00\x01\x00" + b"\xfd" + b"\x01\x00" + add + body))      # else branch
    out.append(("prog", b"\x00\x00\x00\x01\x00" + b"\xff" + body))                          # while body
    out.append(("prog", b"\x00\x00\x00\x01\x00" + b"\xfe\xff\xff\xff\xff" + body))          # repeat body, max count
    out.append(("mod", b"\x00" + b"\xff\xff" + b"d" * 65535 + b"\x00\x00" + b"\x01\x00" + b"\x01a\x00\x00\x01\x00\x00" + b"\x01\x00" + add))  # module docs
    out.append(("mod", b"\x00\x00\x00\x00\x00\x01\x00" + b"\xff" + b"a" * 255 + b"\x00\x00\x01\x00\x00\x01\x00" + add))   # procedure name
    out.append(("mod", b"\x00\x00\x00\x00\x00\x01\x00" + b"\x01a" + b"\xff\xff" + b"d" * 65535 + b"\x01\x00\x00\x01\x00" + add))  # procedure docs
    out.append(("mod", b"\x00\x00\x00\x00\x00\x01\x00" + b"\x01a\x00\x00\x01" + b"\xff\xff" + b"\x01\x00" + add))            # num_locals
    out.append(("kern", b"\xff\xff" + (b"\x01" + b"\x00" * 7) * 4 * 65535))                # kernel with 65535 procedures
    out.append(("kern", b"\x00\x01" + (b"\x01" + b"\x00" * 7) * 4 * 256))                  # 256 procedures
    out.append(("si", b"\x00\x00\x01\x00" + b"\x00" * 8 * 65536))
    out.append(("so", b"\xff\xff\x00\x00" + (b"\x01" + b"\x00" * 7) * 65535 + (65535 - 15).to_bytes(4, "little") + (b"\x02" + b"\x00" * 7) * (65535 - 15)))
    out.append(("so", b"\x00\x00\x01\x00" + (b"\x01" + b"\x00" * 7) * 65536 + (65536 - 15).to_bytes(4, "little") + (b"\x02" + b"\x00" * 7) * (65536 - 15)))
    return out

"""Pieces shared by the property modules."""
import json, os
import common
from common import Rng


def proof_and_report(rep, pid):
    """Run the proof leg; fill proof coverage; return the proof result dict."""
    pr = common.proof_leg(pid)
    rep.coverage.update({
        "obligations": len(pr["obligations"]),
        "discharged": pr["discharged"],
        "theorems": pr["obligations"],
        "checker_cmd": "make (coqc 8.16.1) over coq/_CoqProject deps of Props/%s.v, then coqc Props/%s.v; "
                       "Print Assumptions of every theorem must be 'Closed under the global context'" % (pid, pid),
        "trusted_base": common.TRUSTED_BASE,
        "axioms_reported": pr["axioms"],
    })
    return pr


def diff_pairs(cases, impl, model):
    return [(c, a, b) for c, a, b in zip(cases, impl, model) if a != b]


def shrink_ops_case(case, still_fails):
    """Delta-debug the op list of a single-span `T 0 S n ...` case."""
    parts = case.split("|")
    toks = parts[3].split()
    if toks[:3] != ["T", "0", "S"]:
        return case
    ops = toks[4:]
    changed = True
    while changed and len(ops) > 1:
        changed = False
        n = len(ops)
        chunk = max(1, n // 2)
        while chunk >= 1:
            i = 0
            while i < len(ops) and len(ops) > 1:
                cand = ops[:i] + ops[i + chunk:]
                if cand:
                    c2 = "|".join(parts[:3] + [" T 0 S %d %s" % (len(cand), " ".join(cand))])
                    if still_fails(c2):
                        ops = cand
                        changed = True
                        continue
                i += chunk
            chunk //= 2
    return "|".join(parts[:3] + [" T 0 S %d %s" % (len(ops), " ".join(ops))])


def corpus(pid):
    """Minimised failing cases kept from earlier sessions run first."""
    path = os.path.join(common.VERIF, "corpus", pid + ".cases")
    try:
        return [l.rstrip("\n") for l in open(path) if l.strip() and not l.startswith("#")]
    except FileNotFoundError:
        return []


def report_proof_failure(rep, pid, pr, found_input):
    """A broken proof obligation is itself a violation (the property is no longer shown to hold);
    `found_input` says whether the search already produced a concrete failing input."""
    if pr["ok"]:
        return
    f = pr["failure"]
    rep.violation("proof obligation no longer checks: %s (%s:%s) %s" %
                  (f.get("theorem"), f.get("file"), f.get("line"), f.get("message", "")[:300]),
                  {"kind": "proof", "theorem": f.get("theorem"), "file": f.get("file"), "line": f.get("line"),
                   "message": f.get("message")}, no_input=not found_input)

"""C01 - every successful execution is provable and its proof verifies."""
import collections, json, re
import common, gen_ast, gen_exec
from common import P
from props import base

LEVEL = "proof"
U32 = 2**32
# hash function id and option tuple of the four standard configurations, as in Gen/OptGen.v
SETS = {0: (0, (27, 8, 16, 2, 8, 255)), 1: (1, (27, 16, 21, 3, 8, 255)), 2: (2, (27, 8, 16, 2, 4, 7)), 3: (2, (27, 16, 21, 3, 4, 7))}


def kv(line):
    return dict(t.split("=", 1) for t in line.split()[1:] if "=" in t)


def programs(r, n, table):
    """(stack, advice, opts, kernel, source): every instruction class, control-flow shape,
    call/syscall/dyn structure, kernels, and the three padding regimes of the trace length"""
    out = []
    for i in range(n):
        rr = r.fork("p%d" % i)
        k = i % 8
        stack = [gen_exec.val(rr) % U32 for _ in range(rr.choice([0, 3, 16, 20]))]
        adv = [gen_exec.val(rr) for _ in range(8)]
        if k <= 2:
            g = gen_ast.AstGen(rr, table, allow_fail=False, conds=(0, 1))
            src, _ = g.program(depth=1 + rr.below(3))
            out.append((stack, adv, "", "", src))
        elif k == 3:
            # main-trace dominated: a counted loop
            out.append((stack, adv, "", "", "begin push.%d dup neq.0 while.true push.1 sub dup neq.0 end drop end" % rr.choice([20, 150, 700])))
        elif k == 4:
            # range-checker dominated: many 32-bit operations with varied limbs
            body = " ".join("push.%d push.%d u32overflowing_mul drop drop" % (rr.below(U32), rr.below(U32)) for _ in range(rr.choice([10, 60])))
            out.append((stack, adv, "", "", "begin %s end" % body))
        elif k == 5:
            # chiplet dominated: hashing and memory
            body = " ".join(rr.choice(["hperm", "push.%d mem_storew.%d" % (rr.below(100), rr.below(50)), "padw mem_loadw.%d dropw" % rr.below(50),
                                       "push.%d push.%d u32xor drop" % (rr.below(U32), rr.below(U32)), "hmerge padw"]) for _ in range(rr.choice([8, 40])))
            out.append((stack, adv, "", "", "begin %s end" % body))
        elif k == 6:
            # kernel, syscall, call, dynexec, outputs deeper than 16
            kernel = "export.k1 push.3 add end export.k2 caller dropw end"
            src = ("proc.f push.7 mul end proc.g.2 loc_store.0 loc_load.0 end "
                   "begin call.f syscall.k1 exec.g syscall.k2 procref.f dynexec %s end" % " ".join("push.%d" % rr.below(1000) for _ in range(rr.choice([0, 2, 5]))))
            out.append((stack, adv, "", kernel, src))
        else:
            # standard library
            a, b = rr.below(2**64), rr.below(2**64) or 1
            out.append(([b >> 32, b % U32, a >> 32, a % U32] + stack[:4], [], "std", "",
                        "use.std::math::u64 begin exec.u64::divmod exec.u64::wrapping_mul %s end" % rr.choice(["", "push.1 push.2", "exec.u64::clz"])))
    return out


def boundary_programs():
    """programs whose cycle count is exactly 2^k - 1 (no room for a HALT row before the random row)
    and one more / one less"""
    cands = ["begin %s end" % " ".join(["add"] * k) for k in range(56, 64)] + ["begin %s end" % " ".join(["add"] * k) for k in range(118, 126)]
    outs = common.run_impl("masm", ["4000 | 1 2 3 | | | | " + s for s in cands], tag="c01b")
    keep = []
    for s, x in zip(cands, outs):
        m = re.search(r"clk=(\d+)", x)
        if m and int(m.group(1)) in (62, 63, 64, 126, 127, 128):
            keep.append(([1, 2, 3], [], "", "", s))
    return keep


def run(rep, tier, rng):
    n = 32 if tier == "quick" else 150
    common.prepare()
    pr = base.proof_and_report(rep, "C01")
    r = rng.fork("c01")
    dist = collections.Counter()
    found = False
    table = gen_ast.OpsTable()
    progs = boundary_programs() + programs(r, n, table)
    cases = []
    for i, (stack, adv, opts, kernel, src) in enumerate(progs):
        cases.append("%d | %s | %s | %s | %s | %s" % (i % 4, " ".join(map(str, stack)), " ".join(map(str, adv)), opts, kernel, src))
    outs = common.run_impl("pv", base.corpus("C01") + cases, tag="c01")[len(base.corpus("C01")):]
    secq = []
    for c, x in zip(cases, outs):
        dist[x.split()[0] + (":" + x.split()[1] if x.startswith("ERR") else "")] += 1
        if x.startswith("PANIC"):
            rep.violation("panic while proving or verifying: " + x[:160], {"kind": "search", "family": "pv", "case": c, "impl": x[:400]})
            found = True
            continue
        if not x.startswith("OK"):
            continue   # the program does not execute successfully: outside the property
        d = kv(x)
        setid = int(c.split("|")[0])
        rep_sec, conf = map(int, d["sec"].split("/"))
        dist["log2len=%s" % d["log2len"]] += 1
        dist["outputs>16" if int(d["outputs"]) > 16 else "outputs=16"] += 1
        if d["verify"] != "ok":
            rep.violation("the verifier rejects the proof of a successful execution (%s)" % d["verify"], {"kind": "search", "family": "pv", "case": c, "impl": x[:400]})
            found = True
        if d["bytes"] != "ok":
            rep.violation("the proof does not verify after to_bytes/from_bytes (%s)" % d["bytes"], {"kind": "search", "family": "pv", "case": c, "impl": x[:400]})
            found = True
        if rep_sec < conf:
            rep.violation("reported security level %d is below the configured %d" % (rep_sec, conf), {"kind": "search", "family": "pv", "case": c, "impl": x[:400]})
            found = True
        h, o = SETS[setid]
        secq.append((c, x, rep_sec, "sec %d %s %s" % (h, " ".join(map(str, o)), d["log2len"])))
    if dist["OK"] < 0.7 * len(cases):
        raise common.BuildError("C01 generator: fewer than 70%% of the programs execute (%s)" % dict(dist))
    # the reported level is the one the model of the estimate gives
    ms = common.run_model("params", [q for _, _, _, q in secq], tag="c01m")
    for (c, x, rep_sec, q), y in zip(secq, ms):
        if y != "OK sec=%d" % rep_sec:
            rep.violation("reported security level differs from the model of the estimate (%d vs %s)" % (rep_sec, y),
                          {"kind": "correspondence", "family": "pv", "case": c, "impl": x[:400], "model": y, "model_case": q})
            found = True
    rep.coverage["cases"] = len(cases)
    rep.coverage["distribution"] = dict(dist)
    base.report_proof_failure(rep, "C01", pr, found)


def replay(rep, path):
    d = json.load(open(path))
    if d.get("case"):
        print("impl:", common.run_impl("pv", [d["case"]], tag="c01r")[0][:800])
    if d.get("model_case"):
        print("model:", common.run_model("params", [d["model_case"]], tag="c01r")[0])

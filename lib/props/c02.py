"""C02 - a proof binds to its statement; altered statements or proofs are rejected."""
import collections, json, re
import common
import gen_ast, gen_exec
from common import P
from props import base, c01

LEVEL = "proof"
# serialised proof: byte 0 is the hash function, then the proof context (trace layout, field
# modulus, proof options); a corrupted option byte makes winterfell's ProofOptions::new assert
HEADER = range(1, 40)


def run(rep, tier, rng):
    n = 16 if tier == "quick" else 300
    common.prepare()
    pr = base.proof_and_report(rep, "C02")
    r = rng.fork("c02")
    dist = collections.Counter()
    found = False
    table = gen_ast.OpsTable()
    progs = c01.programs(r, n, table)
    cases = ["%d | %s | %s | %s | %s | %s" % (i % 4, " ".join(map(str, st)), " ".join(map(str, adv)), o, k, s)
             for i, (st, adv, o, k, s) in enumerate(progs)]
    outs = common.run_impl("pv", base.corpus("C02") + cases, tag="c02")[len(base.corpus("C02")):]
    for c, x in zip(cases, outs):
        dist[x.split()[0]] += 1
        if not x.startswith("OK"):
            if x.startswith("PANIC"):
                rep.violation("panic while proving or verifying: " + x[:160], {"kind": "search", "family": "pv", "case": c, "impl": x[:400]})
                found = True
            continue
        d = c01.kv(x)
        tried, rejected = map(int, d["tamper"].split("/"))
        dist["alterations"] += tried
        dist["rejected"] += rejected
        if d["accepted"] != "-":
            rep.violation("the verifier accepts an altered statement or proof: %s" % d["accepted"],
                          {"kind": "search", "family": "pv", "case": c, "impl": x[:600], "accepted": d["accepted"]})
            found = True
        if d["panics"] != "-":
            labels = d["panics"].split(",")
            hdr = [l for l in labels if l.startswith("flip@") and int(l[5:]) in HEADER]
            other = [l for l in labels if l not in hdr]
            if hdr:
                rep.violation("verification panics on a corrupted proof header: %s" % ",".join(hdr),
                              {"kind": "search", "family": "pv", "case": c, "impl": x[:600], "class": "proof-header-panic"})
                found = True
            if other:
                rep.violation("verification panics on an altered statement or proof: %s" % ",".join(other),
                              {"kind": "search", "family": "pv", "case": c, "impl": x[:600], "panics": other})
                found = True
    if dist["OK"] < 0.7 * len(cases):
        raise common.BuildError("C02 generator: fewer than 70%% of the programs execute (%s)" % dict(dist))

    # ---- the element sequence of the statement (Fiat-Shamir seed): layout against Air/PubInputs.pub_elements -----
    pe, found_pe = [], False
    rp = r.fork("pub")
    for i in range(12 if tier == "quick" else 400):
        v = lambda: rp.choice([0, 1, P - 1, rp.below(P)])
        nk = rp.choice([0, 0, 1, 2, 3])
        ni = rp.choice([0, 1, 4, 15, 16])
        no = rp.choice([16, 16, 17, 20])
        pe.append("%s | %s | %s | %s | %s" % (" ".join(str(v()) for _ in range(4)), " ".join(str(rp.below(P)) for _ in range(4 * nk)),
                                            " ".join(str(v()) for _ in range(ni)), " ".join(str(v()) for _ in range(no)),
                                            " ".join(str(rp.below(2**32)) for _ in range(no - 15 if no > 16 else 0))))
    po = common.run_impl("pubelems", pe, tag="c02e")
    mq, keep = [], []
    for c, x in zip(pe, po):
        dist["pubelems:" + x.split()[0]] += 1
        if not x.startswith("OK"):
            if x.startswith("PANIC"):
                rep.violation("building the public inputs panics", {"kind": "search", "family": "pubelems", "case": c, "impl": x[:300]})
                found = True
            continue
        d = dict(kv.split("=", 1) for kv in x.split()[1:])
        lst = lambda t: [] if t == "-" else t.split(",")
        kw = [] if d["kernel"] == "-" else [w.split(",") for w in d["kernel"].split("/")]
        h = c.split("|")[0].split()
        mq.append("pub %s K %d %s I %d %s O %d %s A %d %s" % (" ".join(h), len(kw), " ".join(sum(kw, [])), len(lst(d["inputs"])), " ".join(lst(d["inputs"])),
                                                              len(lst(d["outputs"])), " ".join(lst(d["outputs"])), len(lst(d["addrs"])), " ".join(lst(d["addrs"]))))
        keep.append((c, x, d["elements"]))
    for (c, x, els), y in zip(keep, common.run_model("params", mq, tag="c02e")):
        if y != "OK " + els:
            rep.violation("PublicInputs::to_elements is not hash ++ kernel ++ inputs ++ outputs ++ overflow addresses",
                          {"kind": "correspondence", "family": "pubelems", "case": c, "impl": x[:500], "model": y[:300]})
            found = True

    # ---- proof parameters outside the accepted sets ------------------------------------------------------
    weak = []
    for hf in (0, 1, 2):
        for (q, b, g, e, f, rm) in [(27, 8, 16, 2, 8, 255), (27, 16, 21, 3, 8, 255), (27, 8, 16, 2, 4, 7), (27, 16, 21, 3, 4, 7),
                                   (26, 8, 16, 2, 8, 255), (27, 8, 15, 2, 8, 255), (27, 8, 16, 3, 8, 255), (27, 8, 16, 2, 8, 127),
                                   (1, 8, 0, 2, 8, 255), (27, 8, 16, 1, 8, 255), (28, 8, 16, 2, 4, 7), (27, 16, 21, 3, 4, 15),
                                   (54, 8, 16, 2, 8, 255), (27, 32, 21, 3, 8, 255)]:
            weak.append((hf, (q, b, g, e, f, rm)))
    wc = ["%d %d %d %d %d %d %d | begin push.1 push.2 add end" % (o + (hf,)) for hf, o in weak]
    wo = common.run_impl("pvweak", wc, tag="c02w")
    mo = common.run_model("params", ["acc %d %s" % (hf, " ".join(map(str, o))) for hf, o in weak], tag="c02m")
    for (hf, o), c, x, y in zip(weak, wc, wo, mo):
        if not x.startswith("OK"):
            dist["weak:" + x.split()[0]] += 1     # the prover itself refuses these parameters
            continue
        ok = "verify=ok" in x
        dist["weak:accepted" if ok else "weak:rejected"] += 1
        if ok != (y == "OK accepts=1"):
            rep.violation("the verifier %s proof parameters %s under hash function %d, the model of verify() says %s" %
                          ("accepts" if ok else "rejects", o, hf, y),
                          {"kind": "correspondence", "family": "pvweak", "case": c, "impl": x[:300], "model": y})
            found = True
    rep.coverage["cases"] = len(cases) + len(wc)
    rep.coverage["distribution"] = dict(dist)
    base.report_proof_failure(rep, "C02", pr, found)


def replay(rep, path):
    d = json.load(open(path))
    fam = d.get("family")
    if fam and d.get("case"):
        print("impl:", common.run_impl(fam, [d["case"]], tag="c02r")[0][:800])

"""C03 - honest execution traces satisfy the entire AIR."""
import collections, re
import common, gen_exec
from common import P
from props import base

LEVEL = "proof"
U32 = 2**32


def in_domain_ops(r, n):
    """op sequences that keep every operation inside its documented operand domain (u32 operations
    get u32 operands, expacc is used as the assembler uses it)"""
    ops = []
    while len(ops) < n:
        k = r.below(24)
        v = gen_exec.val(r)
        u = lambda: gen_exec.u32v(r)
        if k < 6:
            ops.append(r.choice(["noop", "add", "neg", "mul", "incr", "eq", "eqz", "pad", "drop", "dup0", "dup3", "dup7",
                                 "dup15", "swap", "swapw", "swapw2", "swapw3", "swapdw", "movup2", "movup5", "movup8",
                                 "movdn3", "movdn8", "sdepth", "clk", "ext2mul", "u32split"]))
        elif k == 6:
            ops += ["push:%d" % v]
        elif k == 7:
            ops += ["push:%d" % r.below(2), "push:%d" % r.below(2), r.choice(["and", "or"])]
        elif k == 8:
            ops += ["push:%d" % r.below(2), r.choice(["not", "cswap", "cswapw"])]
        elif k == 9:
            ops += ["push:%d" % (v or 1), "inv"]
        elif k == 10:
            ops += ["push:%d" % u(), "push:%d" % u(), r.choice(["u32add", "u32sub", "u32mul", "u32and", "u32xor", "u32assert2:1"])]
        elif k == 11:
            ops += ["push:%d" % u(), "push:%d" % (u() or 1), "u32div"]
        elif k == 12:
            ops += ["push:%d" % u(), "push:%d" % u(), "push:%d" % u(), r.choice(["u32add3", "u32madd"])]
        elif k == 13:
            ops += ["push:1", "assert:2"]
        elif k == 14:
            a = r.choice([0, 1, 5, 2**30, U32 - 2])
            ops += ["push:%d" % v, "push:%d" % a, "mstore", "push:%d" % a, "mload"]
        elif k == 15:
            a = r.choice([0, 1, 5, 77])
            ops += ["push:%d" % gen_exec.val(r) for _ in range(4)] + ["push:%d" % a, "mstorew", "push:%d" % a, "mloadw"]
        elif k == 16:
            ops += ["push:%d" % r.choice([0, 4, 77]), "movdn8", "pad", "pad", "pad", "pad", "mstream"] + ["drop"] * 5
        elif k == 17:
            ops += ["hperm"]
        elif k == 18:
            d = r.choice([1, 2, 9])
            ops += ["push:%d" % d, "fmpupdate", "pad", "fmpadd", "push:%d" % (P - d), "fmpupdate"]
        elif k == 19:
            ops += ["push:%d" % r.below(2**12), "push:1", "push:%d" % v, "pad", "expacc", "expacc", "expacc"]
        elif k == 20:
            ops += [r.choice(["advpop", "advpopw"])]
        elif k == 21:
            ops += ["push:%d" % r.choice([0, 4, 77]), "movdn8", "pad", "pad", "pad", "pad", "pipe"] + ["drop"] * 5
        else:
            ops += ["push:%d" % v, "u32split", "push:%d" % v, "eqz"]
    return ops


def ctx_mem_ops(r, n):
    """memory traffic that always succeeds, over addresses that differ between contexts"""
    ops = []
    addrs = [0, 1, 2, 5, 77, 1000, 2**16, 2**30, 2**31 + 1, U32 - 3]
    for _ in range(n):
        a = r.choice(addrs)
        k = r.below(8)
        if k == 0:
            ops += ["push:%d" % gen_exec.val(r), "push:%d" % a, "mstore", "drop"]
        elif k == 1:
            ops += ["push:%d" % a, "mload", "drop"]
        elif k == 2:
            ops += ["push:%d" % gen_exec.val(r) for _ in range(4)] + ["push:%d" % a, "mstorew", "drop", "drop", "drop", "drop"]
        elif k == 3:
            ops += ["pad", "pad", "pad", "pad", "push:%d" % a, "mloadw", "drop", "drop", "drop", "drop"]
        elif k == 4:
            # the address has to sit at position 12
            ops += ["push:%d" % a, "movdn8", "pad", "pad", "pad", "pad", "mstream", "drop", "drop", "drop", "drop", "drop"]
        elif k == 5:
            d = r.choice([1, 2, 3])
            ops += ["push:%d" % d, "fmpupdate", "push:%d" % gen_exec.val(r), "pad", "fmpadd", "mstore", "drop",
                    "push:%d" % (P - d), "fmpupdate"]
        else:
            ops += [r.choice(["pad", "dup3", "swap", "add", "clk", "sdepth"])]
    return ops


def join_tree(blocks):
    """right-nested JOIN of a list of blocks in the case language"""
    if len(blocks) == 1:
        return blocks[0]
    return "J %s %s" % (blocks[0], join_tree(blocks[1:]))


def chiplet_boundary_programs():
    """Programs whose chiplet rows sweep through 2^k - 1 while the chiplets dominate the trace length:
    the last chiplet row is then followed directly by the padding row / the random row.
    (a) memory rows last: one span of n loads;  (b) a kernel and no memory access: 7 syscalls (7 kernel ROM
    rows) and h permutations;  (c) memory and kernel"""
    cases = []
    # MLOAD alone reads the address it finds on top of the stack (0 after the first read): one cycle, one memory row
    for n in list(range(96, 116)) + list(range(212, 236)):
        cases.append(gen_exec.case_line(2**32 - 1, [], [], "T 0 " + gen_exec.span(["mload"] * n)))
    # MSTREAM: one cycle, two memory rows; a trailing MLOAD makes the count odd
    for n in list(range(44, 62)):
        for tail in ([], ["mload"]):
            cases.append(gen_exec.case_line(2**32 - 1, [0] * 12 + [8], [], "T 0 " + gen_exec.span(["mstream"] * n + tail)))
    kproc = "K " + gen_exec.span(["pad", "drop"])
    for sc in (7, 15):
        for h in range(0, 28):
            root = join_tree(["Y 0"] * sc + [gen_exec.span(["hperm"] * h if h else ["noop"])])
            cases.append(gen_exec.case_line(2**32 - 1, [1, 2, 3], [], "T 1 %s %s" % (kproc, root)))
    for h in range(0, 12):
        root = join_tree(["Y 0"] * 6 + [gen_exec.span(["pad", "mload", "drop"] + ["hperm"] * h)])
        cases.append(gen_exec.case_line(2**32 - 1, [1, 2, 3], [], "T 1 %s %s" % (kproc, root)))
    return cases


class DomainProg(gen_exec.ProgGen):
    def small_span(self, maxn=8):
        return gen_exec.span(in_domain_ops(self.r, 1 + self.r.below(maxn)))


def run(rep, tier, rng):
    n = 150 if tier == "quick" else 6000
    common.prepare()
    pr = base.proof_and_report(rep, "C03")
    r = rng.fork("c03")
    found = False
    dist = collections.Counter()
    cases = list(base.corpus("C03"))
    for i in range(n):
        rr = r.fork("o%d" % i)
        k = rr.choice([5, 30, 80, 200, 400])
        adv = [gen_exec.val(rr) for _ in range(64)]
        cases.append(gen_exec.case_line(2**32 - 1, gen_exec.gen_stack(rr), adv, "T 0 " + gen_exec.span(in_domain_ops(rr, k))))
    for i in range(n // 2):
        rr = r.fork("p%d" % i)
        g = DomainProg(rr, allow_fail=False)
        adv = [gen_exec.val(rr) for _ in range(64)]
        cases.append(gen_exec.case_line(2**32 - 1, gen_exec.gen_stack(rr), adv, g.program()))
    # memory traffic in several execution contexts (call, syscall, dyncall) over differing addresses
    from props import c07
    for i in range(n // 2):
        rr = r.fork("m%d" % i)
        g = c07.CtxGen(rr, ops=ctx_mem_ops, always_return_clean=True)
        adv = [gen_exec.val(rr) for _ in range(64)]
        cases.append(gen_exec.case_line(2**32 - 1, gen_exec.gen_stack(rr), adv, g.program()))
    # spans whose cycle count is around 2^k - 1: no room for a HALT row before the random row
    for k in list(range(56, 64)) + list(range(118, 126)):
        cases.append(gen_exec.case_line(2**32 - 1, [1, 2, 3], [], "T 0 " + gen_exec.span(["noop"] * k)))
    nb0 = len(cases)
    cases += chiplet_boundary_programs()
    # expected-cycles hints and challenge seeds
    full = []
    for i, c in enumerate(cases):
        hint = [64, 64, 128, 1024, 4096][i % 5]
        head, rest = c.split("|", 1)
        full.append("%s,%d |%s | %d" % (head.strip(), hint, rest, 1000 + i))
    out = common.run_impl("airfull", full, tag="c03")
    base_len = common.run_impl("airfull", ["%s |%s | 7" % (c.split("|", 1)[0].strip(), c.split("|", 1)[1]) for c in cases[:40]], tag="c03b")
    lens = []
    for c, x in zip(full, out):
        if not x.startswith("OK"):
            dist["exec:" + " ".join(x.split()[:2])] += 1
            if x.startswith("PANIC"):
                rep.violation("panic while building or checking the trace", {"kind": "search", "family": "airfull", "case": c, "impl": x[:300]})
                found = True
            continue
        f = dict(kv.split("=", 1) for kv in x.split()[1:])
        dist["traces"] += 1
        dist["len=%s" % f["len"]] += 1
        L, clk, rg, ch = int(f["len"]), int(f["clk"]), int(f["range"]), int(f["chiplets"])
        lens.append((c, x, L, clk, rg, ch))
        if ch - 1 > max(clk + 1, rg) and (ch & (ch - 1)) == 0:
            dist["chiplet-rows-exactly-2^k-1"] += 1
        for key, what in (("main_bad", "a main transition constraint"), ("assert_bad", "a boundary assertion"),
                          ("aux_bad", "the auxiliary transition constraint"), ("auxassert_bad", "an auxiliary boundary assertion")):
            if f[key] != "0":
                rep.violation("honest trace violates %s (first: %s)" % (what, f["first"]),
                              {"kind": "search", "family": "airfull", "case": c, "impl": x, "which": key, "first": f["first"]})
                found = True
    # the trace length does not depend on the hint
    # the length against the Coq definition Vm/TraceLen.trace_len (extracted), also for sizes no program here reaches
    want = common.run_model("params", ["tlen %d %d %d" % (clk, rg, ch) for _, _, _, clk, rg, ch in lens], tag="c03l")
    for (c, x, L, clk, rg, ch), y in zip(lens, want):
        if y != "OK len=%d" % L:
            rep.violation("trace length %d of the implementation, model: %s (clk=%d, range=%d, chiplets=%d)" % (L, y, clk, rg, ch),
                          {"kind": "correspondence", "family": "airfull", "case": c, "impl": x, "model": y})
            found = True
    for c, x, y in zip(full[:40], out[:40], base_len):
        if x.startswith("OK") and y.startswith("OK") and x.split()[1:5] != y.split()[1:5]:
            rep.violation("trace length depends on the expected-cycles hint", {"kind": "search", "family": "airfull", "case": c, "impl": x, "baseline": y})
            found = True
    # ---- documented-undefined operands: the processor succeeds but the trace is not provable -----
    undefined = ["1000 | 4294967296 1 1 | | T 0 S 1 u32add3", "1000 | 4294967296 5 | | T 0 S 1 u32div",
                 "1000 | 7 3 2 1 | | T 0 S 1 expacc"]
    uo = common.run_impl("airfull", undefined, tag="c03u")
    for c, x in zip(undefined, uo):
        if x.startswith("OK") and " main_bad=0 " not in x:
            rep.violation("the processor accepts an operand outside the documented domain and produces a trace that violates the AIR",
                          {"kind": "search", "family": "airfull", "case": c, "impl": x, "class": "undefined-operand-trace"})
    if dist["chiplet-rows-exactly-2^k-1"] < 3:
        raise common.BuildError("C03 generator: the chiplet boundary programs no longer reach 2^k - 1 chiplet rows (%d hits)" % dist["chiplet-rows-exactly-2^k-1"])
    base.report_proof_failure(rep, "C03", pr, found)
    rep.coverage.update({
        "evaluations": len(full) + 40 + len(undefined), "distinct_nontrivial": len(set(full)),
        "rule": "generated programs that keep every operation inside its documented operand domain (all op classes, memory, hperm, advice, fmp, calls/syscalls/dyn, loops), expected-cycle hints 2^6..2^12: EVERY main transition constraint on EVERY row pair below the random row, every boundary assertion with the execution's own public inputs, the auxiliary segment for pseudo-random base-field and quadratic-extension challenges (transition + assertions), trace length formula; real constraint code (ProcessorAir) on real traces",
        "samples": [full[0][:300], out[0]], "distribution": dict(dist),
    })
    rep.assumptions = ["operands outside the documented domain of unchecked operations are a listed known finding (the trace is not provable)",
                       "per-row satisfaction is decided by evaluating the real AIR on real traces; a Coq completeness theorem per operation is not included"]


def replay(rep, path):
    import json
    d = json.load(open(path))
    common.prepare()
    a = common.run_impl("airfull", [d["case"]], tag="replay")[0]
    print("impl : " + a[:600])
    if not a.startswith("OK") or any(k in a for k in (" main_bad=0 ",)) is False or " assert_bad=0 " not in a or " aux_bad=0 " not in a:
        rep.violation("replayed case still fails", d)
    rep.coverage.update({"evaluations": 1, "distinct_nontrivial": 2, "obligations": 1, "discharged": 1,
                         "checker_cmd": "replay", "trusted_base": []})

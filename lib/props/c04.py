"""C04 - the AIR rejects any deviation from an operation's defined effect."""
import collections, re
import common, gen_exec
from common import P
from props import base

LEVEL = "proof"

# operations whose outputs are provided by a bus / advice / decoder and not by transition constraints
BUS_OUT = {"advpop": [0], "advpopw": [0, 1, 2, 3], "mload": [0], "mloadw": [0, 1, 2, 3], "push": [0],
           "u32and": [0], "u32xor": [0], "hperm": list(range(12)), "mpverify": [], "mrupdate": [0, 1, 2, 3],
           "mstream": list(range(8)), "pipe": list(range(8)), "caller": [0, 1, 2, 3], "frie2f4": list(range(16)),
           "rcombbase": list(range(16)), "eq": [], "eqz": [], "inv": [], "expacc": []}
LEFT = {"assert", "eq", "add", "mul", "and", "or", "u32and", "u32xor", "drop", "cswap", "cswapw", "mloadw", "mstore",
        "mstorew", "fmpupdate", "u32add3", "u32madd", "split", "loop", "repeat", "frie2f4"}
LIMB_OPS = {"u32split": 4, "u32add": 4, "u32add3": 4, "u32sub": 2, "u32mul": 4, "u32madd": 4, "u32div": 4, "u32assert2": 4}


def expected_enforced(op, cell, depth16):
    """Is a change of this cell of an honest row pair of `op` documented to be caught by a transition
    constraint?  (cells provided by a lookup bus, the advice provider or the decoder are not)"""
    if cell == "clk'":
        return True
    if cell == "b0'":
        return True
    if cell == "b1'":
        return True          # overflow bookkeeping (see known findings)
    if cell == "fmp'":
        return True          # free-memory pointer (see known findings)
    m = re.match(r"s(\d+)'", cell)
    if m:
        i = int(m.group(1))
        if op in ("halt",):
            return True
        if i in BUS_OUT.get(op, []):
            return False
        if (op in LEFT or op == "end") and i == 15:
            return depth16
        if op in ("dyn", "call", "syscall", "end", "span", "join", "respan", "split", "loop", "repeat", "halt", "noop"):
            return True      # stack copies / shifts of control-flow operations
        return True
    m = re.match(r"h(\d)", cell)
    if m:
        return int(m.group(1)) < LIMB_OPS.get(op, 0)
    return cell == "alias"


def classify(op, cell):
    """known-finding class of an undetected (op, cell), or None"""
    if cell == "fmp'" and op not in ("fmpupdate",):
        return "air-fmp-unconstrained"
    if cell == "b1'":
        return "air-b1-unconstrained"
    if op == "dyn" and cell.startswith("s"):
        return "air-repeat-dyn-stack-unconstrained"
    if op in ("mstream", "pipe") and re.match(r"s(8|9|1\d)'", cell):
        return "air-mstream-pipe-copy-unconstrained"
    if op == "end" and cell == "b0'":
        return "air-end-depth-unconstrained"
    if op == "u32sub" and cell in ("h2", "h3"):
        return None
    return None


def run(rep, tier, rng):
    n = 120 if tier == "quick" else 4000
    common.prepare()
    pr = base.proof_and_report(rep, "C04")
    r = rng.fork("c04")
    found = False
    dist = collections.Counter()
    # ---- translator validation: the generated DAG vs the real evaluate_transition on random frames
    frames = []
    for i in range(40 if tier == "quick" else 400):
        rr = r.fork("f%d" % i)
        def row():
            return [rr.choice([0, 1, rr.below(P), rr.below(2**32), rr.below(2)]) for _ in range(70)]
        per = [rr.below(P) for _ in range(29)]
        frames.append("%s | %s | %s" % (" ".join(map(str, row())), " ".join(map(str, row())), " ".join(map(str, per))))
    a = common.run_impl("aireval", frames, tag="c04p")
    b = common.run_model("aireval", frames, tag="c04p")
    for c, x, y in zip(frames, a, b):
        dist["pit"] += 1
        if x != y:
            rep.violation("generated constraint DAG (Gen/AirGen.v) and evaluate_transition disagree on a frame",
                          {"kind": "correspondence", "family": "aireval", "case": c, "impl": x[:400], "model": y[:400]})
            found = True
            break
    # ---- fault enumeration on honest frames of real traces ---------------------------------------
    progs = [gen_exec.gen_ops_case(r.fork("o%d" % i), 60, ) for i in range(n)] + \
            [gen_exec.gen_prog_case(r.fork("p%d" % i), False) for i in range(n // 2)]
    progs = [c.replace(" | T 0 ", " | T 0 ") for c in progs]
    # memory traffic in several execution contexts, bitwise and hasher work: rows for the chiplet faults
    from props import c03, c07
    for i in range(max(6, n // 8)):
        rr = r.fork("m%d" % i)
        g = c07.CtxGen(rr, ops=c03.ctx_mem_ops, always_return_clean=True)
        progs.append(gen_exec.case_line(2**32 - 1, gen_exec.gen_stack(rr), [gen_exec.val(rr) for _ in range(64)], g.program()))
    for i in range(max(4, n // 16)):
        rr = r.fork("b%d" % i)
        ops = []
        for _ in range(3 + rr.below(6)):
            k = rr.below(3)
            if k == 0:
                ops += ["push:%d" % rr.below(2**32), "push:%d" % rr.below(2**32), rr.choice(["u32and", "u32xor"]), "drop"]
            elif k == 1:
                ops += ["hperm"]
            else:
                ops += ["push:%d" % gen_exec.val(rr), "push:%d" % rr.choice([0, 3, 2**31]), "mstore", "drop", "push:%d" % rr.choice([0, 3, 7]), "mload", "drop"]
        progs.append(gen_exec.case_line(2**32 - 1, gen_exec.gen_stack(rr), [], "T 0 " + gen_exec.span(ops)))
    out = common.run_impl("perturb", progs, tag="c04f")
    streams = common.run_impl("stream", progs, tag="c04s")
    evals = 0
    seen = collections.Counter()
    for c, x, st in zip(progs, out, streams):
        if not x.startswith("OK"):
            dist["exec:" + " ".join(x.split()[:2])] += 1
            continue
        f = dict(kv.split("=", 1) for kv in x.split()[1:])
        evals += int(f["evals"])
        b0 = None
        for u in f["undetected"].split(";"):
            if not u:
                continue
            row, op, cell, v, b0v = u.split(":")
            depth16 = b0v == "16"
            if not expected_enforced(op, cell, depth16):
                continue
            cls = classify(op, cell)
            seen[(op, cell, cls)] += 1
            rep.violation("an altered cell is accepted by every transition constraint: op=%s cell=%s value=%s (row %s)" % (op, cell, v, row),
                          {"kind": "search", "family": "perturb", "case": c, "op": op, "cell": cell, "value": v, "row": int(row),
                           "class": cls or "air-undetected-%s-%s" % (op, cell)})
            if cls is None:
                found = True
        # faults inside the chiplets (memory: stale / foreign / re-initialised reads, invalid selectors, ordering
        # columns; bitwise: every column; hasher: state inside a permutation)
        dist["chiplet-faults"] += int(f.get("chip_tried", 0))
        for u in f.get("chip_undetected", "").split(";"):
            if not u:
                continue
            row, chip, what = u.split(":", 2)
            dist["chip-undetected:%s:%s" % (chip, what.split("[")[0])] += 1
            rep.violation("a fault inside the %s chiplet is accepted by every transition constraint: %s (row %s)" % (chip, what, row),
                          {"kind": "search", "family": "perturb", "case": c, "chiplet": chip, "fault": what, "row": int(row),
                           "class": "air-chiplet-%s-%s" % (chip, what.split("[")[0])})
            found = True
    for (op, cell, cls), v in seen.items():
        dist["undetected:" + (cls or "NEW:%s:%s" % (op, cell))] += v
    base.report_proof_failure(rep, "C04", pr, found)
    rep.coverage.update({
        "evaluations": evals + len(frames), "distinct_nontrivial": len(set(progs)) + len(frames),
        "rule": "translator validation: 40+ random frames, generated DAG vs real evaluate_transition (all constraints); fault enumeration: every row pair of real traces of generated programs, every next-row stack cell, b0', b1', clk', fmp' and every helper cell replaced by {0,1,2,2^16,2^32-1,2^32,p-1,random,+1,-1}, plus the non-canonical encoding result+p of u32 results with matching limbs; the real ProcessorAir::evaluate_transition must be non-zero somewhere. Cells provided by buses/advice/decoder are not expected to be caught",
        "samples": [progs[0][:300], out[0][:400]],
        "distribution": dict(dist), "programs": len(progs),
    })
    rep.assumptions = ["range-check of helper limbs (LogUp bus) is a hypothesis of the u32 theorems",
                       "buses have no transition constraints in this version of the AIR: outputs provided through them are outside this check",
                       "s15' on left shifts at depth 16 is covered by the Coq theorem c04_depth, not by the enumeration"]


def replay(rep, path):
    import json
    d = json.load(open(path))
    common.prepare()
    fam = d.get("family")
    a = common.run_impl(fam, [d["case"]], tag="replay")[0]
    print("impl : " + a[:1500])
    bad = False
    if fam == "perturb" and "chiplet" in d:
        bad = ("%d:%s:%s" % (d["row"], d["chiplet"], d["fault"])) in a
    elif fam == "perturb":
        bad = ("%d:%s:%s:" % (d["row"], d["op"], d["cell"])) in a
    else:
        b = common.run_model(fam, [d["case"]], tag="replay")[0]
        bad = a != b
    if bad:
        rep.violation("replayed case still fails", d)
    rep.coverage.update({"evaluations": 1, "distinct_nontrivial": 2, "obligations": 1, "discharged": 1,
                         "checker_cmd": "replay", "trusted_base": []})

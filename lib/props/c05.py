"""C05 - instruction semantics match the instruction reference on every stack state."""
import collections, itertools, re
import common, gen_exec, instrs
from common import P
from props import base

LEVEL = "proof"
U32 = 2**32
BOUND = [0, 1, 2**16, 2**31, U32 - 1, U32, P - 1]

SPEC_NAMES = (["dup.%d" % n for n in range(16)] + ["swap.%d" % n for n in range(1, 16)] +
              ["movup.%d" % n for n in range(2, 16)] + ["movdn.%d" % n for n in range(2, 16)] +
              ["dupw.%d" % n for n in range(4)] + ["swapw.%d" % n for n in range(1, 4)] +
              ["movupw.2", "movupw.3", "movdnw.2", "movdnw.3", "drop", "dropw", "padw", "swapdw", "add", "sub", "mul",
               "div", "neg", "inv", "not", "and", "or", "eq", "assert", "assertz", "assert_eq", "cswap", "cdrop",
               "cswapw", "cdropw", "u32split", "u32cast", "u32assert2", "u32assert", "u32overflowing_add",
               "u32wrapping_add", "u32overflowing_add3", "u32overflowing_mul", "u32wrapping_mul",
               "u32overflowing_madd", "u32divmod", "u32div", "u32mod", "u32and", "u32xor"])
NOPS = {"add": 2, "sub": 2, "mul": 2, "div": 2, "neg": 1, "inv": 1, "not": 1, "and": 2, "or": 2, "eq": 2, "assert": 1,
        "assertz": 1, "assert_eq": 2, "cswap": 3, "cdrop": 3, "cswapw": 1, "cdropw": 1, "u32split": 1, "u32cast": 1,
        "u32assert2": 2, "u32assert": 1, "u32overflowing_add": 2, "u32wrapping_add": 2, "u32overflowing_add3": 3,
        "u32overflowing_mul": 2, "u32wrapping_mul": 2, "u32overflowing_madd": 3, "u32divmod": 2, "u32div": 2,
        "u32mod": 2, "u32and": 2, "u32xor": 2}
IMM_FAMS = ["push", "add", "sub", "mul", "div", "eq", "exp"]


def stacks_for(r, name, per):
    """Stacks (top first) with boundary values in every operand position and depths 0..40."""
    k = NOPS.get(name.split(".")[0] if "." in name and name.split(".")[0] in NOPS else name, 0)
    out = []
    combos = list(itertools.product(BOUND, repeat=min(k, 2))) if k else [()]
    r2 = r.fork(name)
    picks = combos if len(combos) <= per else [r2.choice(combos) for _ in range(per)]
    for c in picks:
        d = r2.choice([0, 1, 3, 15, 16, 17, 18, 20, 33, 40])
        st = list(c)
        if k == 3:
            st.append(r2.choice(BOUND))
        if name in ("and", "or", "not", "cswap", "cdrop", "cswapw", "cdropw") and r2.chance(2, 3):
            st = [r2.below(2) if i < (1 if name.startswith("c") else 2) else v for i, v in enumerate(st)]
        while len(st) < d:
            st.append(gen_exec.val(r2))
        out.append(st)
    for _ in range(max(2, per // 8)):
        out.append([gen_exec.val(r2) for _ in range(r2.below(41))])
    return out


def canon_stack(s):
    xs = s.split(",")
    # zero-extended view: trailing zeros are not part of the comparison (stack_eq in Coq)
    while xs and xs[-1] == "0":
        xs.pop()
    return ",".join(xs)


def norm_impl(o):
    """harness output -> the spec driver's vocabulary"""
    if o.startswith("OK "):
        m = re.search(r"stack=(\S*)", o)
        return "OK stack=" + canon_stack(m.group(1))
    if o.startswith("ERR "):
        t = o.split()
        cls = t[1]
        if cls == "DivideByZero":
            return "ERR DivideByZero"
        if cls == "AssertFailed":
            return "ERR AssertFailed " + t[2]
        if cls in ("NotBinary", "NotU32"):
            return "ERR " + " ".join(t[1:-1])
        return "ERR " + cls
    return o.split()[0] + (" " + o.split()[1] if o.startswith("ASMERR") else "")


def norm_spec(o):
    if o.startswith("OK stack="):
        return "OK stack=" + canon_stack(o[len("OK stack="):])
    return o


def run(rep, tier, rng):
    per = 12 if tier == "quick" else 120
    n_ops = 1500 if tier == "quick" else 60000
    common.prepare()
    pr = base.proof_and_report(rep, "C05")
    r = rng.fork("c05")
    found = False
    dist = collections.Counter()
    # ---- correspondence: random op sequences, real processor vs model ----
    ops_cases = base.corpus("C05") + [gen_exec.gen_ops_case(r.fork("o%d" % i)) for i in range(n_ops)]
    a = common.run_impl("exec", ops_cases, tag="c05e")
    b = common.run_model("exec", ops_cases, tag="c05e")
    for c, x, y in base.diff_pairs(ops_cases, a, b)[:3]:
        def still(c2):
            return common.run_impl("exec", [c2], tag="shr")[0] != common.run_model("exec", [c2], tag="shr", shards=1)[0]
        c = base.shrink_ops_case(c, still)
        rep.violation("model and implementation disagree on an op sequence",
                      {"kind": "correspondence", "family": "exec", "case": c, "impl": x, "model": y})
        found = True
    for x in a:
        dist["ops:" + (x.split()[0] if x.startswith("OK") else " ".join(x.split()[:2]))] += 1
    # ---- search: real assembler + processor vs the Coq spec functions ----
    masm, spec, meta = [], [], []
    for name in SPEC_NAMES:
        for st in stacks_for(r, name, per):
            padded = st + [0] * (16 - len(st))
            masm.append("100000 | %s | | | | begin %s end" % (" ".join(map(str, st)), name))
            spec.append("N %s | %s" % (name, " ".join(map(str, padded))))
            meta.append(name)
    for fam in IMM_FAMS:
        vals = BOUND + [2, 3, P - 2] + [r.below(P) for _ in range(per // 2)]
        if fam == "exp":
            vals += [4, 7, 8, 9, 15, 16, 2**20, 2**40 + 1, 2**63, 2**63 + 5]
        for v in vals:
            for st in stacks_for(r, fam, 2):
                padded = st + [0] * (16 - len(st))
                masm.append("100000 | %s | | | | begin %s.%d end" % (" ".join(map(str, st)), fam, v))
                spec.append("I %s %d | %s" % (fam, v, " ".join(map(str, padded))))
                meta.append("%s.%d" % (fam, v))
    ri = common.run_impl("masm", masm, tag="c05m")
    rs = common.run_model("spec", spec, tag="c05s")
    undefs = 0
    for m, sp, x, y, nm in zip(masm, spec, ri, rs, meta):
        if y == "UNDEF":
            undefs += 1
            if x.startswith("PANIC"):
                rep.violation("panic on %s" % nm, {"kind": "search", "family": "masm", "case": m, "impl": x})
                found = True
            continue
        if y == "NOSPEC":
            raise common.BuildError("no spec for " + nm)
        if nm == "div.0":
            ok = x.startswith("ASMERR")
        else:
            ok = norm_impl(x) == norm_spec(y)
        dist["instr:" + y.split()[0]] += 1
        if not ok:
            rep.violation("instruction %s: documented '%s' but implementation gives '%s'" % (nm, norm_spec(y)[:80], norm_impl(x)[:80]),
                          {"kind": "search", "family": "masm", "case": m, "spec_case": sp, "impl": x, "spec": y, "instr": nm})
            found = True
    # ---- documented semantics (instruction reference) of the forms that have neither a theorem nor a Coq
    #      spec function: immediate shifts/rotations, popcnt, exp forms, word comparison on structured operands ----
    ocases, owant, onames = [], [], []
    rot = lambda a, n: ((a << n) | (a >> (32 - n))) % U32 if n else a
    DOC = {"u32shl": lambda a, n: (a << n) % U32, "u32shr": lambda a, n: a >> n,
           "u32rotl": rot, "u32rotr": lambda a, n: rot(a, (32 - n) % 32)}
    ro = r.fork("doc")
    u32vals = [0, 1, 2, 3, 0x80000000, 0xffffffff, 0x7fffffff, 0xaaaaaaaa, 0x55555555, 0x00010000, 0x0000ffff]
    for nm, f in DOC.items():
        for n_ in range(32):
            for a_ in [ro.choice(u32vals), ro.below(U32)]:
                for form in ("%s.%d" % (nm, n_), None):
                    st = ([a_] if form else [n_, a_]) + [7, 8, 9]
                    ocases.append("100000 | %s | | | | begin %s end" % (" ".join(map(str, st)), form or nm))
                    owant.append([f(a_, n_), 7, 8, 9])
                    onames.append(form or nm)
    for a_ in u32vals + [ro.below(U32) for _ in range(per)]:
        ocases.append("100000 | %d 7 8 9 | | | | begin u32popcnt end" % a_)
        owant.append([bin(a_).count("1"), 7, 8, 9])
        onames.append("u32popcnt")
    for _ in range(per * 3):
        a_ = ro.choice([0, 1, 2, 3, P - 1, P - 2, ro.below(P)])
        b_ = ro.choice([0, 1, 2, 3, 7, 8, 63, 64, 2**16, 2**32 - 1, 2**32, 2**63, P - 1, ro.below(P), ro.below(2**20)])
        bits = max(1, b_.bit_length())
        forms = ["exp", "exp.%d" % b_] + ["exp.u%d" % k for k in sorted({bits, min(63, bits + 1), 63}) if bits <= k <= 63]
        for form in forms:
            st = ([a_] if form.startswith("exp.") and not form.startswith("exp.u") else [b_, a_]) + [7, 8, 9]
            ocases.append("100000 | %s | | | | begin %s end" % (" ".join(map(str, st)), form))
            owant.append([pow(a_, b_, P), 7, 8, 9])
            onames.append(form.split(".")[0] + ("." + form.split(".")[1][0] if "." in form else ""))
    for _ in range(per * 2):
        w = [ro.choice([0, 1, P - 1, ro.below(P)]) for _ in range(4)]
        for pos in [None, 0, 1, 2, 3]:
            w2 = list(w)
            if pos is not None:
                w2[pos] = (w2[pos] + ro.choice([1, P - 1, 2**32])) % P
            for nm in ("eqw", "assert_eqw"):
                ocases.append("100000 | %s 7 8 9 | | | | begin %s end" % (" ".join(map(str, w2 + w)), nm))
                owant.append(([int(w2 == w)] + w2 + w + [7, 8, 9]) if nm == "eqw" else ([7, 8, 9] if w2 == w else None))
                onames.append(nm)
    # multi-value push (decimal and hexadecimal lists): every width boundary as the largest and as a smaller element
    PB = [0, 1, 255, 256, 65535, 65536, 65537, 2**32 - 1, 2**32, 2**32 + 1, P - 1]
    plists = [[a, b] for a in PB for b in PB] + [[ro.choice(PB) for _ in range(ro.choice([3, 4, 5, 8, 16]))] for _ in range(per * 4)]
    for vals in plists:
        for form in ("dec", "hex"):
            if form == "hex" and len(vals) > 16:
                continue
            hx = lambda v: (lambda h: "0x" + ("0" + h if len(h) % 2 else h))("%x" % v)
            toks = [str(v) if form == "dec" else hx(v) for v in vals]
            ocases.append("1000 | 7 8 9 | | | | begin push.%s end" % ".".join(toks))
            owant.append((list(reversed(vals)) + [7, 8, 9])[:16])
            onames.append("push-list-" + form)
    # assertions with an error code: the code of the failing assertion is the one reported
    ecases = []
    for code in (None, 0, 1, 77, 2**31, 2**32 - 1):
        sfx = "" if code is None else ".err=%d" % code
        cv = 0 if code is None else code
        big = ro.choice([2**32, P - 1, 2**32 + ro.below(2**31)])
        ecases += [("assert" + sfx, [0, 7, 8], "ERR AssertFailed %d " % cv), ("assert" + sfx, [1, 7, 8], None),
                   ("assertz" + sfx, [1, 7, 8], "ERR AssertFailed %d " % cv), ("assertz" + sfx, [0, 7, 8], None),
                   ("assert_eq" + sfx, [3, 4, 8], "ERR AssertFailed %d " % cv), ("assert_eq" + sfx, [4, 4, 8], None),
                   ("assert_eqw" + sfx, [1, 2, 3, 4, 1, 2, 3, 5, 8], "ERR AssertFailed %d " % cv), ("assert_eqw" + sfx, [1, 2, 3, 4, 1, 2, 3, 4, 8], None),
                   ("u32assert" + sfx, [big, 7, 8], "ERR NotU32 %d %d " % (big, cv)), ("u32assert" + sfx, [5, 7, 8], None),
                   ("u32assert2" + sfx, [1, big, 8], "ERR NotU32 %d %d " % (big, cv)), ("u32assert2" + sfx, [1, 2, 8], None),
                   ("u32assertw" + sfx, [1, 2, 3, big, 8], "ERR NotU32 %d %d " % (big, cv)), ("u32assertw" + sfx, [1, 2, 3, 4, 8], None)]
    eouts = common.run_impl("masm", ["1000 | %s | | | | begin %s end" % (" ".join(map(str, st)), ins) for ins, st, _ in ecases], tag="c05x")
    for (ins, st, want_err), x in zip(ecases, eouts):
        dist["doc:errcode:%s" % x.split()[0]] += 1
        bad = (not x.startswith(want_err)) if want_err else (not x.startswith("OK"))
        if bad:
            rep.violation("instruction %s on %s: expected %s, the implementation gives %s" % (ins, st, want_err or "success", x[:80]),
                          {"kind": "search", "family": "masm", "case": "1000 | %s | | | | begin %s end" % (" ".join(map(str, st)), ins), "impl": x[:300], "instr": ins})
            found = True
    for c, w, nm, x in zip(ocases, owant, onames, common.run_impl("masm", ocases, tag="c05d")):
        dist["doc:%s:%s" % (nm.split(".")[0], x.split()[0])] += 1
        got = None
        if x.startswith("OK"):
            mm = re.search(r"stack=([\d,]+)", x)
            got = [int(v) for v in mm.group(1).split(",")][:len(w)] if (mm and w is not None) else "completed"
        if nm == "push-list-hex" and x.startswith("ASMERR"):
            continue        # not every hexadecimal spelling is an accepted form; the accepted ones must push the values
        if x.startswith("PANIC") or (w is None and x.startswith("OK")) or (w is not None and got != w):
            rep.violation("instruction %s: the instruction reference gives %s, the implementation %s" % (nm, w, x[:120]),
                          {"kind": "search", "family": "masm", "case": c, "impl": x[:400], "want": w, "instr": nm})
            found = True
    base.report_proof_failure(rep, "C05", pr, found)
    rep.coverage.update({
        "evaluations": len(ops_cases) + len(masm),
        "distinct_nontrivial": len(set(ops_cases)) + len(set(masm)),
        "rule": "(a) random single-span op sequences (all op classes, gadget-based mostly-valid plus raw failing ops, stack depth 0..40, boundary values) on the real processor vs the extracted model; (b) every instruction form with a Coq spec (%d forms + %d immediate families) through the real assembler and processor vs the Coq spec function, boundary values {0,1,2^16,2^31,2^32-1,2^32,p-1} in every operand position, depths 0..40. distinct = distinct case lines; undefined-by-documentation cases (%d) only checked for panics" % (len(SPEC_NAMES), len(IMM_FAMS), undefs),
        "samples": [ops_cases[-1][:300], masm[0], masm[len(masm) // 2], spec[len(spec) // 2]],
        "distribution": dict(dist),
        "instruction_forms_with_theorem": len(SPEC_NAMES),
    })
    rep.assumptions = ["instruction forms without a theorem (immediate shifts/rotations, u32popcnt, exp and its immediate forms) are covered by the op-level correspondence and by a documented-semantics oracle only",
                       "documented-undefined cases (unchecked u32 ops on operands >= 2^32) are excluded by the theorems' guards",
                       "debug-build arithmetic overflow checks are not exercised (release harness)"]


def replay(rep, path):
    import json
    d = json.load(open(path))
    common.prepare()
    fam = d.get("family", "exec")
    a = common.run_impl(fam, [d["case"]], tag="replay")[0]
    print("impl : " + a)
    if fam == "masm" and "spec_case" in d:
        y = common.run_model("spec", [d["spec_case"]], tag="replay")[0]
        print("spec : " + y)
        if norm_impl(a) != norm_spec(y):
            rep.violation("replayed case still fails", d)
    else:
        b = common.run_model(fam, [d["case"]], tag="replay")[0]
        print("model: " + b)
        if a != b:
            rep.violation("replayed case still fails", d)
    rep.coverage.update({"evaluations": 1, "distinct_nontrivial": 2, "obligations": 1, "discharged": 1,
                         "checker_cmd": "replay", "trusted_base": []})

"""C06 - control flow and procedure inlining follow the documented semantics."""
import collections, re
import common, gen_exec, gen_ast
from common import P
from props import base

LEVEL = "proof"


def strip_clk(o):
    return re.sub(r" clk=\d+", "", o)


def run(rep, tier, rng):
    n = 400 if tier == "quick" else 20000
    common.prepare()
    pr = base.proof_and_report(rep, "C06")
    r = rng.fork("c06")
    table = gen_ast.OpsTable()
    found = False
    dist = collections.Counter()
    # ---- AST -> MAST lowering: model vs real assembler (structure and root hash) ----
    ms, ns, mc, nc = [], [], [], []
    for i in range(n):
        rr = r.fork("a%d" % i)
        fail = i % 3 == 0
        g = gen_ast.AstGen(rr, table, allow_fail=fail, conds=(0, 1, 2, P - 1) if fail else (0, 1))
        m, nn = g.program(depth=2 + rr.below(3))
        ms.append(m)
        ns.append(nn)
        st = " ".join(map(str, gen_exec.gen_stack(rr)))
        adv = " ".join(map(str, gen_exec.gen_adv(rr)))
        mc.append("100000 | %s | %s | | | %s" % (st, adv, m))
        nc.append("100000 | %s | %s | %s" % (st, adv, nn))
    a = common.run_impl("asmdump", [" | | " + m for m in ms], tag="c06l")
    b = common.run_model("lower", ns, tag="c06l")
    for m, nn, x, y in zip(ms, ns, a, b):
        if x != y:
            rep.violation("lowering differs between the assembler and the model",
                          {"kind": "correspondence", "family": "asmdump", "case": " | | " + m, "model_case": nn, "impl": x[:2000], "model": y[:2000]})
            found = True
            break
    # ---- execution with every condition value at every decision point ----
    a = common.run_impl("masm", mc, tag="c06x")
    b = common.run_model("astexec", nc, tag="c06x")
    for m, nn, x, y in zip(mc, nc, a, b):
        dist["prog:" + ("OK" if x.startswith("OK") else " ".join(x.split()[:2]))] += 1
        if x != y:
            rep.violation("execution differs between the processor and the model",
                          {"kind": "correspondence", "family": "masm", "case": m, "model_case": nn, "impl": x[:600], "model": y[:600]})
            found = True
    # ---- the documented decision rule, checked directly on the implementation ----
    dec, exp = [], []
    for c in (0, 1, 2, 3, 2**32, P - 1):
        # if/else
        dec.append("1000 | | | | | begin push.%d if.true push.11 else push.22 end end" % c)
        exp.append("OK 11" if c == 1 else "OK 22" if c == 0 else "ERR NotBinary %d" % c)
        # loop entry
        dec.append("1000 | | | | | begin push.7 push.%d while.true push.0 end end" % c)
        exp.append("OK 7" if c in (0, 1) else "ERR NotBinary %d" % c)
        # loop entry with a zero (and with nothing) below the condition
        dec.append("1000 | | | | | begin push.0 push.%d while.true push.0 end end" % c)
        exp.append("OK 0" if c in (0, 1) else "ERR NotBinary %d" % c)
        dec.append("1000 | | | | | begin push.%d while.true push.0 end end" % c)
        exp.append("OK 0" if c in (0, 1) else "ERR NotBinary %d" % c)
        # after an iteration
        dec.append("1000 | | | | | begin push.9 push.1 while.true push.%d end end" % c)
        exp.append("OK 9" if c == 0 else "ERR CycleLimit 1000" if c == 1 else "ERR NotBinary %d" % c)
        # nested: loop inside if inside repeat, procedure with locals via exec
        dec.append("4000 | | | | | proc.f.2 push.%d loc_store.1 loc_load.1 end begin push.5 repeat.2 push.1 if.true push.1 while.true exec.f end end end end" % c)
        exp.append("OK 5" if c == 0 else "ERR CycleLimit 4000" if c == 1 else "ERR NotBinary %d" % c)
    out = common.run_impl("masm", dec, tag="c06d")
    for c, e, o in zip(dec, exp, out):
        if e.startswith("OK"):
            ok = o.startswith("OK") and re.search(r"stack=(\d+),", o).group(1) == e.split()[1]
        else:
            ok = o.startswith(e)
        dist["decision"] += 1
        if not ok:
            rep.violation("decision rule violated: expected %s got %s" % (e, o[:80]),
                          {"kind": "search", "family": "masm", "case": c, "impl": o, "expected": e})
            found = True
    # ---- metamorphic, implementation against itself: repeat.n = n copies; exec = inlined body ----
    mm1, mm2, kinds = [], [], []
    for i in range(n // 4):
        rr = r.fork("m%d" % i)
        g = gen_ast.AstGen(rr, table, allow_fail=False)
        g.pool = [x for x in gen_ast.SAFE if x != "clk"]
        body, _ = g.body(1, 0, 0, 3)
        pre, _ = g.instrs(1 + rr.below(3))
        post, _ = g.instrs(1 + rr.below(3))
        st = " ".join(map(str, gen_exec.gen_stack(rr)))
        k = rr.choice([1, 2, 3, 5])
        if "while" in body or "if.true" in body:
            pass
        if i % 2 == 0:
            mm1.append("100000 | %s | | | | begin %s repeat.%d %s end %s end" % (st, pre, k, body, post))
            mm2.append("100000 | %s | | | | begin %s %s %s end" % (st, pre, " ".join([body] * k), post))
            kinds.append("repeat")
        else:
            mm1.append("100000 | %s | | | | proc.f %s end begin %s exec.f %s end" % (st, body, pre, post))
            mm2.append("100000 | %s | | | | begin %s %s %s end" % (st, pre, body, post))
            kinds.append("exec")
    o1 = common.run_impl("masm", mm1, tag="c06m1")
    o2 = common.run_impl("masm", mm2, tag="c06m2")
    for c1, c2, x, y, kd in zip(mm1, mm2, o1, o2, kinds):
        dist["metamorphic:" + kd] += 1
        if strip_clk(x) != strip_clk(y):
            rep.violation("%s is not equivalent to its textual expansion" % kd,
                          {"kind": "search", "family": "masm", "case": c1, "expanded_case": c2, "impl": x[:600], "expanded": y[:600]})
            found = True
    # ---- exec of an IMPORTED procedure behaves like its body pasted at the call site, also when the body
    #      contains calls (their targets must come along): both forms assemble, are self-contained and run ----
    hx = lambda t: t.encode().hex()
    ri = r.fork("imp")
    lib_g = "export.g\n push.3 add\nend\nexport.h\n push.5 mul\nend\n"
    bodies = ["push.1 call.g drop", "push.2 push.1 if.true call.g else call.h end drop", "push.1 repeat.2 call.h end drop",
              "push.0 push.1 while.true push.8 call.g drop end", "push.7 exec.g drop", "push.1 if.true push.2 call.h drop end"]
    icases = []
    for body in bodies:
        in_lib = body.replace("call.g", "call.g").replace("call.h", "call.h")
        lib_src = lib_g + "export.f\n %s\nend\n" % in_lib
        pasted = body.replace("call.g", "call.m0::g").replace("call.h", "call.m0::h").replace("exec.g", "exec.m0::g")
        pre, post = ri.choice(["push.9", "push.4 push.6 add"]), ri.choice(["drop", "push.1 add drop"])
        p_exec = "use.a::m0\nbegin %s exec.m0::f %s end" % (pre, post)
        p_paste = "use.a::m0\nbegin %s %s %s end" % (pre, pasted, post)
        icases.append("lib a %s | prog %s | prog %s" % (hx(lib_src), hx(p_exec), hx(p_paste)))
    for c, x in zip(icases, common.run_impl("asmseq", icases, tag="c06i")):
        parts = x.split(" || ")
        dist["imported-exec:%s" % parts[0].split()[0]] += 1
        if len(parts) != 2 or "PANIC" in x:
            rep.violation("assembling an imported exec panics or fails: " + x[:120], {"kind": "search", "family": "asmseq", "case": c, "impl": x[:400]})
            found = True
            continue
        e_sh, p_sh = parts[0].split(" ;; ")[0], parts[1].split(" ;; ")[0]
        outs6 = parts[0].split(" ;; ") + parts[1].split(" ;; ")
        runs = {o.split("run=")[-1] for o in outs6 if o.startswith("OK")}
        bad = [o for o in outs6 if not (o.startswith("OK") and "closed=1" in o)] or (["run classes differ: %s" % sorted(runs)] if len(runs) != 1 or "CodeBlockNotFound" in runs else [])
        # (the two forms need not have the same MAST root: pasted operations merge with the neighbouring spans)
        if bad:
            rep.violation("exec of an imported procedure does not behave like its body pasted at the call site (%s vs %s)" % (e_sh[:70], p_sh[:70]),
                          {"kind": "search", "family": "asmseq", "case": c, "impl": x[:500]})
            found = True
    base.report_proof_failure(rep, "C06", pr, found)
    rep.coverage.update({
        "evaluations": 2 * len(ms) + len(dec) + len(mm1),
        "distinct_nontrivial": len(set(ms)) + len(set(mc)) + len(set(dec)) + len(set(mm1)),
        "rule": "random ASTs (if/else with and without else, while with 0..3 iterations, repeat 1..5, exec/call of local procedures with 0..4 locals, nesting depth 2..4; conditions 0/1 and, in a third of the programs, 2 and p-1 at every decision point): (a) MAST structure+root hash assembler vs model lowering, (b) execution processor vs model, (c) fixed decision-rule programs for each condition value, (d) Rust-vs-Rust metamorphic repeat/exec expansion. distinct = distinct sources",
        "samples": [ms[0][:400], ns[0][:400], dec[3]],
        "distribution": dict(dist),
    })
    rep.assumptions = ["semantic equivalence of repeat/exec with their textual expansion is proved structurally (copies in order, join tree order, span merging keeps the op sequence) and observed metamorphically; a Coq proof of state equality modulo clock is not included",
                       "imported (library) exec is exercised in C11/C16, not here"]


def replay(rep, path):
    import json
    d = json.load(open(path))
    common.prepare()
    fam = d.get("family", "masm")
    a = common.run_impl(fam, [d["case"]], tag="replay")[0]
    print("impl : " + a[:1000])
    bad = False
    if "expected" in d:
        bad = not a.startswith(d["expected"].split()[0])
    if "model_case" in d:
        b = common.run_model("lower" if fam == "asmdump" else "astexec", [d["model_case"]], tag="replay")[0]
        print("model: " + b[:1000])
        bad = bad or a != b
    if "expanded_case" in d:
        b = common.run_impl(fam, [d["expanded_case"]], tag="replay")[0]
        bad = bad or strip_clk(a) != strip_clk(b)
    if bad:
        rep.violation("replayed case still fails", d)
    rep.coverage.update({"evaluations": 1, "distinct_nontrivial": 2, "obligations": 1, "discharged": 1,
                         "checker_cmd": "replay", "trusted_base": []})

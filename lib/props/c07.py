"""C07 - contexts isolate memory and stack; memory is zero-initialised word RAM."""
import collections, re
import common, gen_exec
from common import P
from props import base

LEVEL = "proof"
U32 = 2**32
ADDRS = [0, 1, 2, 2**30, 2**30 + 1, 2**31, 2**31 + 1, U32 - 1, U32 - 2, 77]


def mem_ops(r, n):
    """memory traffic over a small pool of colliding addresses, stack-neutral-ish"""
    ops = []
    for _ in range(n):
        a = r.choice(ADDRS)
        k = r.below(12)
        if k == 8 and not r.chance(1, 8):
            k = 10
        if k in (4, 5) and a >= U32 - 1 and not r.chance(1, 6):
            a = 77
        if k == 0:
            ops += ["push:%d" % gen_exec.val(r), "push:%d" % a, "mstore"]
        elif k == 1:
            ops += ["push:%d" % a, "mload"]
        elif k == 2:
            ops += ["push:%d" % gen_exec.val(r)] * 0 + ["push:%d" % gen_exec.val(r) for _ in range(4)] + ["push:%d" % a, "mstorew"]
        elif k == 3:
            ops += ["pad", "pad", "pad", "pad", "push:%d" % a, "mloadw"]
        elif k == 4:
            # mstream: address must sit at position 12
            ops += ["push:%d" % a] + ["movdn8", "movdn5"] + ["mstream"]
        elif k == 5:
            ops += ["push:%d" % a] + ["movdn8", "movdn5"] + ["pipe"]
        elif k == 6:
            d = r.choice([1, 2, 3])
            ops += ["push:%d" % d, "fmpupdate", "push:%d" % gen_exec.val(r), "pad", "fmpadd", "mstore",
                    "push:%d" % (P - d), "fmpupdate"]
        elif k == 7:
            ops += ["pad", "fmpadd", "mload"]
        elif k == 8:
            ops += ["push:%d" % r.choice([U32, U32 + 5, P - 1]), r.choice(["mload", "mstore", "mloadw", "mstorew"])]
        elif k == 9:
            ops += ["sdepth", "clk"]
        else:
            ops += [r.choice(["drop", "dup3", "swap", "add", "pad", "movup3"])]
    return ops


class CtxGen:
    def __init__(self, r, ops=None, always_return_clean=False):
        self.r = r
        self.ops = ops or mem_ops
        self.clean = always_return_clean

    def proc_body(self, avail, depth):
        r = self.r
        parts = [gen_exec.span(self.ops(r, 1 + r.below(5)))]
        if depth > 0 and avail > 0 and r.chance(1, 2):
            i = r.below(avail)
            k = r.below(4)
            if k == 1 and self.clean and self.flags[i] != "K":
                k = 0
            if k == 0:
                parts.append("C %d" % i)
            elif k == 1:
                parts.append("Y %d" % i)
            elif k == 2:
                w = ["push:h%d.%d" % (i, j) for j in range(4)]
                parts.append("J %s J %s %s" % (gen_exec.span(w), r.choice(["D", "DC"]), gen_exec.span(["drop"] * 4)))
            else:
                parts.append("C %d" % i)
            parts.append(gen_exec.span(self.ops(r, 1 + r.below(3))))
        # return with depth 16 most of the time
        if self.clean:
            parts.append(gen_exec.span(["drop"] * 24))
        elif r.chance(4, 5):
            parts.append(gen_exec.span(["drop"] * r.choice([8, 16, 24])))
        b = parts[0]
        for p in parts[1:]:
            b = "J %s %s" % (b, p)
        return b

    def program(self):
        r = self.r
        k = 1 + r.below(4)
        procs = []
        self.flags = []
        for i in range(k):
            flag = r.weighted([("U", 3), ("K", 3)])
            procs.append("%s %s" % (flag, self.proc_body(i, 2)))
            self.flags.append(flag)
        root_parts = [gen_exec.span(self.ops(r, 2 + r.below(5)))]
        for _ in range(1 + r.below(3)):
            i = r.below(k)
            kind = r.below(5)
            if kind == 2 and self.clean and self.flags[i] != "K":
                kind = 1
            if kind <= 1:
                root_parts.append("C %d" % i)
            elif kind == 2:
                root_parts.append("Y %d" % i)
            else:
                w = ["push:h%d.%d" % (i, j) for j in range(4)]
                root_parts.append("J %s J %s %s" % (gen_exec.span(w), "DC" if kind == 3 else "D", gen_exec.span(["drop"] * 4)))
            root_parts.append(gen_exec.span(self.ops(r, 1 + r.below(4))))
        b = root_parts[0]
        for p in root_parts[1:]:
            b = "J %s %s" % (b, p)
        return "T %d %s %s" % (k, " ".join(procs), b)


def run(rep, tier, rng):
    n = 700 if tier == "quick" else 40000
    common.prepare()
    pr = base.proof_and_report(rep, "C07")
    r = rng.fork("c07")
    found = False
    dist = collections.Counter()
    cases = list(base.corpus("C07"))
    for i in range(n):
        rr = r.fork("p%d" % i)
        depth = rr.choice([0, 16, 17, 20, 33, 40])
        st = [gen_exec.val(rr) for _ in range(depth)]
        adv = [gen_exec.val(rr) for _ in range(rr.choice([0, 8, 16, 32]))]
        cases.append(gen_exec.case_line(100000, st, adv, CtxGen(rr).program()))
    a = common.run_impl("exec", cases, tag="c07")
    b = common.run_model("exec", cases, tag="c07")
    for c, x, y in zip(cases, a, b):
        dist["prog:" + ("OK" if x.startswith("OK") else " ".join(x.split()[:2]))] += 1
        if x.startswith("OK"):
            dist["ctxs:%d" % len(set(m.split(":")[0] for m in re.search(r"mem=(\S*)", x).group(1).split(";") if m))] += 1
        if x != y:
            rep.violation("processor and model disagree (final stack / memory of every context / error)",
                          {"kind": "correspondence", "family": "exec", "case": c, "impl": x[:800], "model": y[:800]})
            found = True
    # ---- the documented rules checked directly on the implementation ----
    direct = [
        # never-written address reads zero; element store changes element 0 only
        ("1000 | | | T 0 S 9 push:1 push:2 push:3 push:4 push:9 mstorew push:7 push:9 mstore", "mem=0:9:7,2,3,4"),
        ("1000 | 5 | | T 0 S 1 mload", "stack=0,"),
        # addresses >= 2^32 fail
        ("1000 | 4294967296 | | T 0 S 1 mload", "ERR MemAddr 4294967296"),
        ("1000 | 4294967296 1 2 3 4 | | T 0 S 1 mstorew", "ERR MemAddr 4294967296"),
        ("1000 | 0 0 0 0 0 0 0 0 0 0 0 0 4294967295 | | T 0 S 1 mstream", "ERR MemAddr 4294967296"),
        ("1000 | 0 0 0 0 0 0 0 0 0 0 0 0 4294967295 | 1 2 3 4 5 6 7 8 | T 0 S 1 pipe", "ERR MemAddr 4294967296"),
        ("1000 | 0 0 0 0 0 0 0 0 0 0 0 0 4294967294 | 1 2 3 4 5 6 7 8 | T 0 S 1 pipe", "mem=0:4294967294:1,2,3,4;0:4294967295:5,6,7,8"),
        # callee sees only 16 elements and must return with depth 16
        ("1000 | 1 2 3 4 5 6 7 8 9 10 11 12 13 14 15 16 17 18 | | T 1 U S 3 sdepth swap drop C 0", "stack=16,2,3,4,5,6,7,8,9,10,11,12,13,14,15,16,17,18"),
        ("1000 | | | T 1 U S 1 pad C 0", "ERR DepthOnReturn 17"),
        # memory written in a callee is invisible to the caller; syscall writes root memory
        ("1000 | | | T 1 U S 4 push:5 push:3 mstore drop J C 0 S 2 push:3 mload", "stack=0,"),
        ("1000 | | | T 1 K S 4 push:5 push:3 mstore drop J Y 0 S 2 push:3 mload", "stack=5,"),
        ("1000 | | | T 1 U S 1 noop Y 0", "ERR NotInKernel"),
        # an element store as the first access of a fresh context sees zeros, whatever the caller
        # or an earlier callee stored at the same address
        ("1000 | | | T 1 U S 4 push:9 push:3 mstore drop J S 10 push:1 push:2 push:3 push:4 push:3 mstorew drop drop drop drop C 0", ":3:9,0,0,0"),
        ("1000 | | | T 2 U S 10 push:1 push:2 push:3 push:4 push:3 mstorew drop drop drop drop U S 4 push:9 push:3 mstore drop J C 0 C 1", ":3:9,0,0,0"),
        ("1000 | | | T 0 S 1 caller", "ERR CallerNotInSyscall"),
    ]
    out = common.run_impl("exec", [c for c, _ in direct], tag="c07d")
    for (c, e), o in zip(direct, out):
        dist["direct"] += 1
        if e not in o:
            rep.violation("documented memory/context rule violated: expected '%s' in '%s'" % (e, o[:120]),
                          {"kind": "search", "family": "exec", "case": c, "impl": o, "expected_substring": e})
            found = True
    base.report_proof_failure(rep, "C07", pr, found)
    rep.coverage.update({
        "evaluations": len(cases) + len(direct),
        "distinct_nontrivial": len(set(cases)) + len(direct),
        "rule": "generated MAST programs with 1-4 procedures (kernel and non-kernel), nests of call/syscall/dyn/dyncall, memory traffic of all kinds (mload, mloadw, mstore, mstorew, mstream, pipe, fmp-relative locals) over 10 colliding addresses incl. 2^30, 2^31, 2^32-1 and out-of-range ones, caller depths 0..40; compared: final stack, error, memory of every context. Plus fixed programs for each documented rule. distinct = distinct case lines",
        "samples": [cases[0][:500], direct[7][0]],
        "distribution": dict(dist),
    })
    rep.assumptions = ["disjointness of the locals of simultaneously live frames is exercised by the generated programs but has no Coq theorem yet",
                       "a call made while in_syscall is set (forbidden by the assembler, possible in hand-built MAST) clears the flag on return in release builds and trips a debug_assert in debug builds; the model follows the release behaviour"]


def replay(rep, path):
    import json
    d = json.load(open(path))
    common.prepare()
    a = common.run_impl("exec", [d["case"]], tag="replay")[0]
    b = common.run_model("exec", [d["case"]], tag="replay")[0]
    print("impl : " + a[:1000])
    print("model: " + b[:1000])
    bad = a != b
    if "expected_substring" in d:
        bad = bad or d["expected_substring"] not in a
    if bad:
        rep.violation("replayed case still fails", d)
    rep.coverage.update({"evaluations": 1, "distinct_nontrivial": 2, "obligations": 1, "discharged": 1,
                         "checker_cmd": "replay", "trusted_base": []})

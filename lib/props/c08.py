"""C08 - the program commitment is the specified MAST hash of the executable code."""
import collections, itertools, re
import common, gen_exec, gen_ast
from common import P
from props import base

LEVEL = "proof"
OPCODES = None


def decode_check(line, ops):
    """The documented batching rules, checked on the implementation's output alone: <= 8 groups per
    batch, <= 9 ops per group, group value < 2^63, immediates in the following groups in order, no
    immediate-carrying op in the last slot, and the groups decode back to the op sequence up to
    NOOP padding."""
    problems = []
    body = line.split("#")[0]
    decoded = []
    for part in body.split("|")[1:]:
        g, c, ng, o = part.strip().split(";")
        groups = list(map(int, g.split(",")))
        counts = list(map(int, c.split(",")))
        ng = int(ng)
        if len(groups) != 8 or ng > 8:
            problems.append("more than 8 groups")
        if any(x > 9 for x in counts):
            problems.append("more than 9 operations in a group")
        # decode: walk groups; opcode groups are those with count > 0 or not used as immediates
        gi = 0
        nexti = 1
        while gi < ng:
            v = groups[gi]
            if v >= 2**63:
                problems.append("group value >= 2^63")
            cnt = counts[gi]
            codes = [(v >> (7 * k)) & 0x7f for k in range(9)]
            if (v >> 63) != 0:
                problems.append("bits above 63 set")
            for k in range(cnt):
                code = codes[k]
                if code == 100:  # PUSH
                    if k == 8:
                        problems.append("push in the last slot of a group")
                    if nexti >= 8:
                        problems.append("immediate beyond the batch")
                        break
                    decoded.append("push:%d" % groups[nexti])
                    nexti += 1
                else:
                    decoded.append(code)
            if any(codes[k] != 0 for k in range(cnt, 9)):
                problems.append("non-NOOP opcode beyond the op count of a group")
            gi = nexti
            nexti = gi + 1
    want = []
    for t in ops:
        if t.startswith("push:"):
            want.append(t)
        else:
            want.append(gen_opcode(t))
    strip = lambda l: [x for x in l if x != 0]
    if strip(decoded) != strip(want):
        problems.append("groups do not decode back to the operation sequence")
    return problems


def gen_opcode(tok):
    return OPC[tok.split(":")[0]]


OPC = {"noop": 0, "eqz": 1, "neg": 2, "inv": 3, "incr": 4, "not": 5, "fmpadd": 6, "mload": 7, "swap": 8, "caller": 9,
       "movup2": 10, "movdn2": 11, "movup3": 12, "movdn3": 13, "advpopw": 14, "expacc": 15, "movup4": 16, "movdn4": 17,
       "movup5": 18, "movdn5": 19, "movup6": 20, "movdn6": 21, "movup7": 22, "movdn7": 23, "swapw": 24, "ext2mul": 25,
       "movup8": 26, "movdn8": 27, "swapw2": 28, "swapw3": 29, "swapdw": 30, "assert": 32, "eq": 33, "add": 34, "mul": 35,
       "and": 36, "or": 37, "u32and": 38, "u32xor": 39, "frie2f4": 40, "drop": 41, "cswap": 42, "cswapw": 43, "mloadw": 44,
       "mstore": 45, "mstorew": 46, "fmpupdate": 47, "pad": 48, "dup0": 49, "dup1": 50, "dup2": 51, "dup3": 52, "dup4": 53,
       "dup5": 54, "dup6": 55, "dup7": 56, "dup9": 57, "dup11": 58, "dup13": 59, "dup15": 60, "advpop": 61, "sdepth": 62,
       "clk": 63, "u32add": 64, "u32sub": 66, "u32mul": 68, "u32div": 70, "u32split": 72, "u32assert2": 74, "u32add3": 76,
       "u32madd": 78, "hperm": 80, "mpverify": 81, "pipe": 82, "mstream": 83, "rcombbase": 89, "mrupdate": 96, "push": 100}


def run(rep, tier, rng):
    plen = 12 if tier == "quick" else 17
    nrand = 400 if tier == "quick" else 20000
    common.prepare()
    pr = base.proof_and_report(rep, "C08")
    r = rng.fork("c08")
    found = False
    dist = collections.Counter()
    # ---- batching + span hash: exhaustive over push / non-push patterns, random beyond -----------
    seqs = []
    nonpush = ["add", "swap", "noop"]
    for n in range(1, plen + 1):
        for pat in itertools.product((0, 1), repeat=n):
            seqs.append(["push:%d" % (k + 2) if b else nonpush[(k + n) % 3] for k, b in enumerate(pat)])
    names = sorted(k for k in OPC if k not in ("push", "assert", "u32assert2"))
    for i in range(nrand):
        rr = r.fork("s%d" % i)
        n = rr.choice([20, 72, 73, 80, 150, 300, 600, 1 + rr.below(100)])
        den = rr.choice([0, 1, 3, 5, 9])
        seqs.append(["push:%d" % rr.below(P) if rr.below(10) < den else rr.choice(names) for _ in range(n)])
    cases = ["%d %s" % (len(s), " ".join(s)) for s in seqs]
    a = common.run_impl("batch", cases, tag="c08b")
    b = common.run_model("batch", cases, tag="c08b")
    for s, c, x, y in zip(seqs, cases, a, b):
        dist["batch:nb=%s" % (re.search(r"nb=(\d+)", x).group(1) if x.startswith("OK") else "ERR")] += 1
        if x != y:
            rep.violation("batching or span hash differs between core and the model",
                          {"kind": "correspondence", "family": "batch", "case": c, "impl": x[:1500], "model": y[:1500]})
            found = True
            continue
        for pb in decode_check(x, s):
            rep.violation("batching rule violated: " + pb, {"kind": "search", "family": "batch", "case": c, "impl": x[:1500], "rule": pb})
            found = True
    # ---- MAST shapes: root hash of assembled programs, assembler vs model lowering ---------------
    table = gen_ast.OpsTable()
    ms, ns = [], []
    for i in range(nrand // 2):
        rr = r.fork("a%d" % i)
        g = gen_ast.AstGen(rr, table, allow_fail=True, conds=(0, 1))
        m, nn = g.program(depth=2 + rr.below(3))
        ms.append(m)
        ns.append(nn)
    a = common.run_impl("asmdump", [" | | " + m for m in ms], tag="c08l")
    b = common.run_model("lower", ns, tag="c08l")
    for m, nn, x, y in zip(ms, ns, a, b):
        dist["mast"] += 1
        if x.split("#")[-1] != y.split("#")[-1]:
            rep.violation("program hash differs between the assembler and the specified MAST hash",
                          {"kind": "correspondence", "family": "asmdump", "case": " | | " + m, "model_case": nn, "impl": x[-300:], "model": y[-300:]})
            found = True
    # ---- the hash ignores comments, whitespace, names, debug mode and decorators; it changes with ops
    variants = []
    for i in range(nrand // 4):
        rr = r.fork("v%d" % i)
        g = gen_ast.AstGen(rr, table, allow_fail=False)
        src, _ = g.program(depth=2)
        toks = src.split(" ")
        deco = []
        for tk in toks:
            deco.append(tk)
            nxt_ok = tk and not tk.startswith(("proc.", "begin", "end", "else", "if.", "while.", "repeat.", "exec.", "call."))
            if nxt_ok and rr.chance(1, 5):
                deco.append(rr.choice(["debug.stack", "emit.9", "trace.2"]))
        renamed = re.sub(r"\bp(\d)\b", r"renamed_proc_\1", src)
        spaced = src.replace(" ", "   ")
        # change one push immediate (if any) -> hash must change
        # only the program body is necessarily part of the MAST (procedures may be unused)
        bi = src.index("begin")
        changed = src[:bi] + re.sub(r"push\.7\b", "push.8", src[bi:], count=1)
        variants.append((src, " ".join(deco), renamed, spaced, changed))
    flat = []
    for v in variants:
        flat += [" | | " + v[0], " | | " + v[1], "dbg | | " + v[1], " | | " + v[2], " | | " + v[3], " | | " + v[4]]
    out = common.run_impl("asmdump", flat, tag="c08v")
    for k, v in enumerate(variants):
        o = out[6 * k:6 * k + 6]
        if any("decorators in an empty SPAN block" in x for x in o):
            dist["variants:asm-empty-span-panic"] += 1
            continue
        hs = [x.split("#")[-1].strip() if x.startswith("OK") else x for x in o]
        dist["variants"] += 1
        for j, what in ((1, "decorators"), (2, "debug mode"), (3, "procedure names"), (4, "whitespace")):
            if hs[j] != hs[0]:
                rep.violation("program hash depends on %s" % what, {"kind": "search", "family": "asmdump", "case": flat[6 * k + j], "plain_case": flat[6 * k], "impl": hs[j][:200], "plain": hs[0][:200]})
                found = True
        # (a body under repeat.0 contributes no operation: an immediate changed there cannot show in the hash)
        if v[4] != v[0] and hs[5] == hs[0] and "repeat.0" not in v[0]:
            rep.violation("program hash unchanged although an immediate changed", {"kind": "search", "family": "asmdump", "case": flat[6 * k + 5], "plain_case": flat[6 * k], "impl": hs[5][:200], "plain": hs[0][:200], "expect_different": True})
            found = True
    base.report_proof_failure(rep, "C08", pr, found)
    rep.coverage.update({
        "evaluations": len(cases) + len(ms) + len(flat),
        "distinct_nontrivial": len(set(cases)) + len(set(ms)) + len(set(flat)),
        "rule": "op sequences for EVERY push/non-push pattern up to length %d (exhaustive, 3 non-push opcodes) plus random sequences up to 600 ops over all opcodes: groups, op counts, group count, ops and span hash core vs model, and the documented batching rules decoded from the implementation's groups; root hashes of assembled random ASTs vs the model's MAST hash; hash invariance under decorators, debug mode, renaming, whitespace and sensitivity to an immediate" % plen,
        "samples": [cases[300][:200], a[0][-120:] if a else "", flat[1][:300]],
        "distribution": dict(dist), "exhaustive_pattern_length": plen,
    })
    rep.assumptions = ["collision resistance of RPO is an assumption of the property (hash sensitivity is observed, not proved)",
                       "decoding of groups back to ops is checked on the implementation's output by rule; the Coq theorems cover shape, order preservation and opcode injectivity"]


def replay(rep, path):
    import json
    d = json.load(open(path))
    common.prepare()
    fam = d.get("family")
    a = common.run_impl(fam, [d["case"]], tag="replay")[0]
    print("impl : " + a[:1500])
    bad = False
    if fam == "batch":
        b = common.run_model("batch", [d["case"]], tag="replay")[0]
        print("model: " + b[:1500])
        bad = a != b or bool(decode_check(a, d["case"].split()[1:]))
    elif "model_case" in d:
        b = common.run_model("lower", [d["model_case"]], tag="replay")[0]
        bad = a.split("#")[-1] != b.split("#")[-1]
    else:
        p0 = common.run_impl(fam, [d["plain_case"]], tag="replay")[0]
        same = a.split("#")[-1] == p0.split("#")[-1]
        bad = same if d.get("expect_different") else not same
    if bad:
        rep.violation("replayed case still fails", d)
    rep.coverage.update({"evaluations": 1, "distinct_nontrivial": 2, "obligations": 1, "discharged": 1,
                         "checker_cmd": "replay", "trusted_base": []})

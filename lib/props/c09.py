"""C09 - prover-supplied hints cannot change results."""
import collections, json, re
import common, gen_exec
from common import P
from props import base

LEVEL = "proof"
U32 = 2**32


def clz(a):
    return 32 - a.bit_length()


def ctz(a):
    return 32 if a == 0 else (a & -a).bit_length() - 1


ORACLE = {
    "u32clz": lambda a: clz(a),
    "u32clo": lambda a: clz(U32 - 1 - a),
    "u32ctz": lambda a: ctz(a),
    "u32cto": lambda a: ctz(U32 - 1 - a),
}


def inv(x):
    return pow(x, P - 2, P)


def ext_inv(a0, a1):
    det = (a0 * (a0 + a1) + 2 * a1 * a1) % P
    d = inv(det)
    return ((a0 + a1) * d % P, (-a1) * d % P)


def ext_mul(a, b):
    a0, a1 = a
    b0, b1 = b
    return ((a0 * b0 - 2 * a1 * b1) % P, (a0 * b1 + a1 * b0 + a1 * b1) % P)


def u32_operands(r, n):
    vals = [0, 1, 2, 3, 5, U32 - 1, U32 - 2, 2**31, 2**31 - 1, 2**31 + 1, 2**16, 0xffff0000, 0x0000ffff, 0xfffffffe]
    vals += [1 << k for k in range(32)] + [(1 << k) - 1 for k in range(1, 33)] + [U32 - (1 << k) for k in range(32)]
    vals += [r.below(U32) for _ in range(n)]
    return sorted(set(vals))


def hint_values(r):
    return list(range(0, 70)) + [P - k for k in range(1, 40)] + [2**32, 2**32 - 1, 2**63, 2**32 + 5, P // 2] + [r.below(P) for _ in range(6)]


def op_lists(names, std=False):
    """Operation tokens of `begin <instr> end` as the real assembler emits them."""
    cases = [("std | | use.std::math::u64 begin %s end" if std else " | | begin %s end") % n for n in names]
    out = {}
    for n, o in zip(names, common.run_impl("asmdump", cases, tag="c09ops")):
        m = re.match(r"OK S (\d+) (.*?) # ", o)
        if not m:
            raise common.BuildError("C09: cannot get the operations of %s: %s" % (n, o[:200]))
        out[n] = m.group(2).split()
    return out


def exec_case(ops, stack, adv):
    return gen_exec.case_line(2**20, stack, adv, "T 0 " + gen_exec.span(ops))


def top_of(line, k):
    m = re.search(r"stack=([\d,]+)", line)
    return [int(x) for x in m.group(1).split(",")][:k] if m else None


def run(rep, tier, rng):
    nrand = 6 if tier == "quick" else 120
    common.prepare()
    pr = base.proof_and_report(rep, "C09")
    r = rng.fork("c09")
    dist = collections.Counter()
    found = False
    names = ["u32clz", "u32clo", "u32ctz", "u32cto", "ilog2", "ext2inv", "ext2div"]
    ops = op_lists(names)
    u64ops = op_lists(["exec.u64::div", "exec.u64::mod", "exec.u64::divmod"], std=True)

    def both(cases, tag):
        return common.run_impl("exec", cases, tag=tag), common.run_model("exec", cases, tag=tag)

    def report(what, case, x, y, extra=None):
        d = {"kind": "search", "family": "exec", "case": case, "impl": x[:400], "model": y[:400]}
        d.update(extra or {})
        rep.violation(what, d)

    # ---- 1. bit counts: every hint in the small ranges, every operand class -------------------------
    rest = [7, 8, 9]
    cases, meta = [], []
    operands = u32_operands(r, nrand)
    hints = hint_values(r)
    for nm in ("u32clz", "u32clo", "u32ctz", "u32cto"):
        for a in operands:
            for h in hints:
                cases.append(exec_case(ops[nm], [a] + rest, [h]))
                meta.append((nm, a, h))
    xs, ys = both(cases, "c09a")
    for (nm, a, h), c, x, y in zip(meta, cases, xs, ys):
        want = ORACLE[nm](a)
        dist["%s:%s" % (nm, x.split()[0])] += 1
        if x != y:
            report("%s with a forced hint: implementation and model disagree" % nm, c, x, y, {"kind": "correspondence"})
            found = True
        if x.startswith("OK"):
            got = top_of(x, 4)
            if got != [want] + rest:
                report("%s completes with a wrong result under a dishonest hint (operand %d, hint %d): %s" % (nm, a, h, got), c, x, y)
                found = True
        elif h == want and not x.startswith("OK"):
            report("%s fails with the honest hint (operand %d)" % (nm, a), c, x, y)
            found = True

    # ---- 2. ilog2 --------------------------------------------------------------------------------------
    cases, meta = [], []
    vals = [1, 2, 3, 4, 7, 8, 2**31, 2**32 - 1, 2**32, 2**32 + 1, 2**33 - 1, 2**63, 2**63 + 1, P - 1, P - 2, 2**62 + 12345] + [r.below(P - 1) + 1 for _ in range(nrand)]
    for a in vals + [0]:
        for h in list(range(0, 70)) + [P - 1, P - 2, 2**32]:
            cases.append(exec_case(ops["ilog2"], [a] + rest, [h]))
            meta.append((a, h))
    xs, ys = both(cases, "c09b")
    for (a, h), c, x, y in zip(meta, cases, xs, ys):
        dist["ilog2:%s" % x.split()[0]] += 1
        if x != y:
            report("ilog2 with a forced hint: implementation and model disagree", c, x, y, {"kind": "correspondence"})
            found = True
        if x.startswith("OK"):
            if a == 0 or top_of(x, 4) != [a.bit_length() - 1] + rest:
                report("ilog2 completes with a wrong result under a dishonest hint (operand %d, hint %d)" % (a, h), c, x, y)
                found = True
        elif a != 0 and h == a.bit_length() - 1:
            report("ilog2 fails with the honest hint (operand %d)" % a, c, x, y)
            found = True

    # ---- 3. extension-field inverse and division --------------------------------------------------------
    cases, meta = [], []
    for i in range(40 * nrand):
        rr = r.fork("e%d" % i)
        a = (rr.choice([0, 1, P - 1, rr.below(P)]), rr.choice([0, 1, P - 1, rr.below(P)]))
        if a == (0, 0):
            a = (0, 1)
        b = (rr.below(P), rr.below(P))
        good = ext_inv(*a)
        k = rr.below(5)
        h = good if k == 0 else (good[0], (good[1] + 1) % P) if k == 1 else ((good[0] + 1) % P, good[1]) if k == 2 else (good[1], good[0]) if k == 3 else (rr.below(P), rr.below(P))
        # advice: first popped ends deeper: b0 is popped first
        cases.append(exec_case(ops["ext2inv"], [a[1], a[0]] + rest, [h[0], h[1]]))
        meta.append(("ext2inv", a, None, h, good))
        cases.append(exec_case(ops["ext2div"], [a[1], a[0], b[1], b[0]] + rest, [h[0], h[1]]))
        meta.append(("ext2div", a, b, h, good))
    xs, ys = both(cases, "c09c")
    for (nm, a, b, h, good), c, x, y in zip(meta, cases, xs, ys):
        dist["%s:%s" % (nm, x.split()[0])] += 1
        if x != y:
            report("%s with a forced hint: implementation and model disagree" % nm, c, x, y, {"kind": "correspondence"})
            found = True
        if x.startswith("OK"):
            want = [good[1], good[0]] if nm == "ext2inv" else list(reversed(ext_mul(b, good)))
            if top_of(x, 5) != want + rest:
                report("%s completes with a wrong result under a dishonest hint" % nm, c, x, y)
                found = True
        elif h == good:
            report("%s fails with the honest hint" % nm, c, x, y)
            found = True

    # ---- 4. 64-bit division of the standard library ------------------------------------------------------
    cases, meta = [], []
    lim = [0, 1, 2, U32 - 1, U32, U32 + 1, 2**63, 2**64 - 1, 2**64 - 2]
    for i in range(60 * nrand):
        rr = r.fork("d%d" % i)
        a = rr.choice(lim + [rr.below(2**64)])
        b = rr.choice(lim[1:] + [rr.below(2**64) or 1, rr.below(2**32) or 1])
        if rr.chance(1, 15):
            b = 0
        q, rem = (a // b, a % b) if b else (0, 0)
        k = rr.below(7)
        hq, hr = q, rem
        if k == 1:
            hq = (q + 1) % 2**64
        elif k == 2:
            hr = (rem + b) % 2**64
            hq = (q - 1) % 2**64
        elif k == 3:
            hr = (rem + 1) % 2**64
        elif k == 4:
            hq, hr = rr.below(2**64), rr.below(2**64)
        elif k == 5:
            hq = q + 2**64 if False else q
            hr = rem
        nm = rr.choice(["exec.u64::div", "exec.u64::mod", "exec.u64::divmod"])
        adv = [hq % U32, hq >> 32, hr % U32, hr >> 32]
        if k == 6:
            adv[rr.below(4)] = rr.choice([U32, P - 1, U32 + 7])       # a limb that is not 32-bit
        stack = [b >> 32, b % U32, a >> 32, a % U32] + rest
        cases.append(exec_case(u64ops[nm], stack, adv))
        meta.append((nm, a, b, k))
    xs, ys = both(cases, "c09d")
    for (nm, a, b, k), c, x, y in zip(meta, cases, xs, ys):
        dist["%s:%s" % (nm, x.split()[0])] += 1
        if x != y:
            report("%s with forced hints: implementation and model disagree" % nm, c, x, y, {"kind": "correspondence"})
            found = True
        if x.startswith("OK"):
            if b == 0:
                report("%s completes on a zero divisor" % nm, c, x, y)
                found = True
                continue
            q, rem = a // b, a % b
            want = {"exec.u64::div": [q >> 32, q % U32], "exec.u64::mod": [rem >> 32, rem % U32],
                    "exec.u64::divmod": [rem >> 32, rem % U32, q >> 32, q % U32]}[nm]
            if top_of(x, len(want) + 3) != want + rest:
                report("%s completes with a wrong result under dishonest hints (%d / %d)" % (nm, a, b), c, x, y)
                found = True
        elif k in (0, 5) and b != 0:
            report("%s fails with honest hints (%d / %d)" % (nm, a, b), c, x, y)
            found = True

    # ---- 5. the honest host (real injectors): always succeeds with the right result --------------------
    hc, hm = [], []
    for nm in ("u32clz", "u32clo", "u32ctz", "u32cto"):
        for a in operands[:: max(1, len(operands) // 60)]:
            hc.append("1000 | %d 7 8 9 | | | | begin %s end" % (a, nm))
            hm.append((nm, [ORACLE[nm](a), 7, 8, 9]))
    for a in vals:
        hc.append("1000 | %d 7 8 9 | | | | begin ilog2 end" % a)
        hm.append(("ilog2", [a.bit_length() - 1, 7, 8, 9]))
    for i in range(20 * nrand):
        rr = r.fork("h%d" % i)
        a, b = rr.below(2**64), rr.choice([rr.below(2**64) or 1, rr.below(2**32) or 1, 1])
        hc.append("4000 | %d %d %d %d 7 8 9 | | std | | use.std::math::u64 begin exec.u64::divmod end" % (b >> 32, b % U32, a >> 32, a % U32))
        hm.append(("u64::divmod", [(a % b) >> 32, (a % b) % U32, (a // b) >> 32, (a // b) % U32, 7, 8, 9]))
    for (nm, want), c, x in zip(hm, hc, common.run_impl("masm", hc, tag="c09h")):
        dist["honest:%s:%s" % (nm, x.split()[0])] += 1
        if not x.startswith("OK") or top_of(x, len(want)) != want:
            rep.violation("%s with the honest host does not give the correct result" % nm,
                          {"kind": "search", "family": "masm", "case": c, "impl": x[:400], "want": want})
            found = True

    # ---- 6. Merkle instructions: honest store, lying path, lying node --------------------------------------
    mc, mm = [], []
    for i in range(10 * nrand):
        rr = r.fork("m%d" % i)
        depth = 1 + rr.below(4)
        nl = 1 << depth
        leaves = [rr.below(P) for _ in range(4 * nl)]
        idx = rr.below(nl)
        newv = [rr.below(P) for _ in range(4)]
        for op in ("get", "verify", "set"):
            for mode in ("honest", "badpath", "badnode", "wrapindex", "wrapindex2"):
                if op == "verify" and mode == "badnode":
                    mode = "badindex"
                ix = 0 if (mode == "wrapindex" and rr.chance(1, 2)) else idx     # 0: the boundary value 2^depth itself
                mc.append("%s %d %s | %s | %s" % (op, ix, mode, " ".join(map(str, newv)), " ".join(map(str, leaves))))
                mm.append((op, mode, ix, leaves, newv))
    for (op, mode, idx, leaves, newv), c, x in zip(mm, mc, common.run_impl("mtree", mc, tag="c09m")):
        dist["mtree:%s:%s:%s" % (op, mode, x.split()[0])] += 1
        leaf = list(reversed(leaves[4 * idx:4 * idx + 4]))
        if mode == "honest":
            ok = x.startswith("OK")
            if ok:
                st = top_of(x, 16)
                root = [int(v) for v in re.search(r" root=([\d,]+)", x).group(1).split(",")]
                upd = [int(v) for v in re.search(r"updated_root=([\d,]+)", x).group(1).split(",")]
                if op == "get":
                    ok = st[:8] == leaf + list(reversed(root))
                elif op == "verify":
                    ok = st[:4] == leaf
                else:
                    ok = st[:8] == leaf + list(reversed(upd))
            if not ok:
                rep.violation("mtree_%s with an honest host gives a wrong result" % op, {"kind": "search", "family": "mtree", "case": c, "impl": x[:500]})
                found = True
        elif x.startswith("OK"):
            rep.violation("mtree_%s completes although the host lied (%s)" % (op, mode), {"kind": "search", "family": "mtree", "case": c, "impl": x[:500]})
            found = True

    # ---- 7. order in which advice arrives -------------------------------------------------------------------
    oc = []
    for n in (1, 2, 5, 16):
        oc.append(("1000 | 7 8 9 | %s | | | begin adv_push.%d end" % (" ".join(str(100 + k) for k in range(20)), n),
                   list(reversed([100 + k for k in range(n)])) + [7, 8, 9]))
    oc.append(("1000 | 1 2 3 4 7 8 9 | 100 101 102 103 104 | | | begin adv_loadw end", [103, 102, 101, 100, 7, 8, 9]))
    oc.append(("1000 | 1 2 3 4 5 6 7 8 9 10 11 12 40 | %s | | | begin adv_pipe end" % " ".join(str(100 + k) for k in range(9)),
               [107, 106, 105, 104, 103, 102, 101, 100, 9, 10, 11, 12, 42]))
    for (c, want), x in zip(oc, common.run_impl("masm", [c for c, _ in oc], tag="c09o")):
        dist["order:%s" % x.split()[0]] += 1
        if not x.startswith("OK") or top_of(x, len(want)) != want:
            rep.violation("advice values do not arrive in the documented order", {"kind": "search", "family": "masm", "case": c, "impl": x[:400], "want": want})
            found = True
        if "adv_pipe" in c and x.startswith("OK") and "0:40:100,101,102,103;0:41:104,105,106,107" not in x:
            rep.violation("adv_pipe does not write the two words to the addresses in order", {"kind": "search", "family": "masm", "case": c, "impl": x[:400]})
            found = True

    rep.coverage["cases"] = sum(v for k, v in dist.items())
    rep.coverage["distribution"] = dict(dist)
    base.report_proof_failure(rep, "C09", pr, found)


def replay(rep, path):
    d = json.load(open(path))
    fam = d.get("family")
    if fam and d.get("case"):
        print("impl:", common.run_impl(fam, [d["case"]], tag="c09r")[0][:800])
        if fam == "exec":
            print("model:", common.run_model("exec", [d["case"]], tag="c09r")[0][:800])

"""C10 - serialised code and data round-trip and recompile to the same program."""
import collections, json, os, re, subprocess
import common, gen_serde
from common import P
from props import base

LEVEL = "proof"
U64 = 2**64


def kv(line):
    return dict(t.split("=", 1) for t in line.split()[1:] if "=" in t)


def check_roundtrip(kind, line):
    """Problems in one `src`/`val` report of the harness (implementation alone)."""
    if line.startswith("PANIC"):
        return ["panic while serialising or deserialising: " + line[:200]]
    if not line.startswith("OK"):
        return []
    d = kv(line)
    pb = []
    if d.get("api") != "1":
        pb.append("to_bytes() differs from write_into()")
    if d.get("rt") != "1":
        pb.append("bytes produced by the serialiser are rejected by the deserialiser (%s)" % d.get("err"))
        return pb
    if d.get("eq") != "1":
        pb.append("deserialised object differs from the original")
    if "loc" in d and d["loc"] != "111":
        pb.append("source locations do not survive write/load (load ok, equal object, equal locations = %s)" % d["loc"])
    if "root" in d and d["root"] != d.get("root2"):
        pb.append("round-tripped AST compiles to a different program: %s vs %s" % (d["root"], d.get("root2")))
    return pb


def model_check(rep, items, tag, dist):
    """items: [(kind, hex bytes, provenance)] of encodings the implementation produced.  The model
    must accept each and re-encode it to the same bytes."""
    found = False
    cases = ["dec %s %s" % (k, h) for k, h, _ in items]
    outs = common.run_model("serde", cases, tag=tag)
    for (k, h, prov), o in zip(items, outs):
        dist["model:" + k] += 1
        if o != "OK reenc=" + h:
            rep.violation("the model's codec disagrees with the implementation's serialiser on a %s" % k,
                          {"kind": "correspondence", "family": "serde", "case": "dec %s %s" % (k, h), "from": prov,
                           "model": o[:600], "impl_bytes": h[:600]})
            found = True
    return found


def data_cases(r, n):
    out = []
    edge = [0, 1, 2, P - 1, 2**32, 2**32 - 1, P - 2**32]
    bad = [P, P + 1, U64 - 1, 2**63]

    state = {"bad": False}

    def val(bad_ok):
        # at most one in five cases carries values that are not canonical field elements
        if bad_ok and state["bad"] and r.chance(1, 6):
            return r.choice(bad)
        return r.choice(edge) if r.chance(1, 3) else r.below(P)

    for i in range(n):
        k = r.below(5)
        state["bad"] = r.chance(1, 5)
        if k == 0:
            out.append("val si " + " ".join(str(val(True)) for _ in range(r.choice([0, 1, 5, 16, 17, 40]))))
        elif k == 1:
            out.append("val adv " + " ".join(str(val(True)) for _ in range(r.choice([0, 1, 5, 40]))))
        elif k == 2:
            depth = r.choice([0, 1, 15, 16, 17, 18, 20, 33])
            naddr = max(0, depth - 15) if depth > 16 else 0
            if r.chance(1, 8):
                naddr = r.choice([0, naddr + 1, max(0, naddr - 1)])
            out.append("val so %s ; %s" % (" ".join(str(val(True)) for _ in range(depth)),
                                           " ".join(str(val(True)) for _ in range(naddr))))
        elif k == 3:
            out.append("val kern " + " ".join(str(val(False)) for _ in range(4 * r.choice([0, 1, 2, 5]))))
        else:
            out.append("val pinfo %s ; %s" % (" ".join(str(val(False)) for _ in range(4)),
                                              " ".join(str(val(False)) for _ in range(4 * r.choice([0, 1, 3])))))
    return out


def expected_reject(case):
    """Whether a `val` case holds a value that is not a canonical field element (si/adv/so)."""
    toks = case.split()
    if toks[1] in ("si", "adv", "so"):
        return any(t.isdigit() and int(t) >= P for t in toks[2:])
    return False


def run(rep, tier, rng):
    nsrc = 150 if tier == "quick" else 3000
    ngen = 300 if tier == "quick" else 6000
    ndata = 300 if tier == "quick" else 5000
    common.prepare()
    pr = base.proof_and_report(rep, "C10")
    r = rng.fork("c10")
    dist = collections.Counter()
    found = False
    items = []

    # ---- 1. sources: every instruction form at its edge immediates, then random nested ASTs ------
    srcs = [("prog", 0, s) for s in gen_serde.catalogue_sources(r.fork("cat"))]
    srcs += [("prog", 1, s) for s in gen_serde.catalogue_sources(r.fork("cat"))[:3]]
    for i in range(nsrc):
        rr = r.fork("s%d" % i)
        kind = rr.choice(["prog", "prog", "mod", "mod", "lib"])
        imp = rr.below(2)
        if kind == "prog":
            s = gen_serde.program(rr, depth=1 + rr.below(3))
        elif kind == "mod":
            s = gen_serde.module(rr, depth=1 + rr.below(3))
        else:
            s = "\n----\n".join(gen_serde.module(rr, depth=1 + rr.below(2)) for _ in range(1 + rr.below(3)))
        srcs.append((kind, imp, s))
    # programs that repeat a body millions of times serialise fine but are not compiled
    big = lambda s: any(int(m) > 5000 for m in re.findall(r"repeat\.(\d+)", s))
    cases = ["src %s %d%s %s" % (k, imp, "n" if big(s) else "", s.encode().hex()) for k, imp, s in srcs]
    outs = common.run_impl("serde", base.corpus("C10") + cases, tag="c10s")
    outs = outs[len(base.corpus("C10")):]
    for (k, imp, s), c, o in zip(srcs, cases, outs):
        dist["src:%s:%s" % (k, o.split()[0])] += 1
        for pb in check_roundtrip(k, o):
            rep.violation("%s AST: %s" % (k, pb), {"kind": "search", "family": "serde", "case": c, "source": s, "impl": o[:1500]})
            found = True
        if o.startswith("OK"):
            items.append((k, kv(o)["bytes"], "src"))
    if sum(1 for o in outs if o.startswith("OK")) < len(outs) * 0.8:
        raise common.BuildError("C10 generator: fewer than 80%% of the sources parse (%s)" % dict(dist))

    # ---- 2. values of the data types ---------------------------------------------------------------
    dcases = data_cases(r.fork("data"), ndata)
    douts = common.run_impl("serde", dcases, tag="c10d")
    for c, o in zip(dcases, douts):
        k = c.split()[1]
        dist["val:%s:%s" % (k, o.split()[0])] += 1
        for pb in check_roundtrip(k, o):
            rep.violation("%s: %s" % (k, pb), {"kind": "search", "family": "serde", "case": c, "impl": o[:1500]})
            found = True
        if o.startswith("OK") and expected_reject(c):
            rep.violation("%s built from a value that is not a canonical field element" % k,
                          {"kind": "search", "family": "serde", "case": c, "impl": o[:600]})
            found = True
        if o.startswith("OK"):
            items.append(("si" if k == "adv" else k, kv(o)["bytes"], "val"))

    # ---- 3. the model reads what the implementation wrote -------------------------------------------
    found |= model_check(rep, items, "c10m", dist)

    # ---- 4. the implementation reads what the model wrote: well-typed values of the AST schemas ----
    gcases = ["gen %s %d %d" % (r.choice(["prog", "mod"]), r.fork("g%d" % i).below(2**62), 1 + i % 4) for i in range(ngen)]
    gouts = common.run_model("serde", gcases, tag="c10g")
    dcs = []
    for c, o in zip(gcases, gouts):
        if not o.startswith("OK bytes="):
            raise common.BuildError("model generator failed on %s: %s" % (c, o[:200]))
        dcs.append("dec %s %s" % (c.split()[1], o[len("OK bytes="):]))
    iouts = common.run_impl("serde", dcs, tag="c10i")
    second = []
    for c, o in zip(dcs, iouts):
        k, h = c.split()[1], c.split()[2]
        dist["gen:%s:%s" % (k, o.split()[0])] += 1
        if o.startswith("OK"):
            d = kv(o)
            if d.get("reenc") != h and h.startswith("01") and d.get("eq2") == "1" and d.get("api") == "1":
                # imports are kept in maps: the implementation re-encodes them in key order; the
                # canonical form must then be a fixed point of the model's codec
                second.append((k, d["reenc"], "gen-reencoded"))
                dist["gen:%s:reordered-imports" % k] += 1
            elif d.get("reenc") != h or d.get("eq2") != "1" or d.get("api") != "1":
                rep.violation("a well-formed %s encoding does not survive decode/re-encode" % k,
                              {"kind": "correspondence", "family": "serde", "case": c, "impl": o[:1500]})
                found = True
        else:
            rep.violation("the deserialiser rejects a well-formed %s encoding the model's codec produced" % k,
                          {"kind": "correspondence", "family": "serde", "case": c, "impl": o[:600]})
            found = True

    found |= model_check(rep, second, "c10m2", dist)
    rep.coverage["cases"] = len(cases) + len(dcases) + len(items) + len(dcs)
    rep.coverage["distribution"] = dict(dist)
    # opcodes seen in implementation-produced program bytes (coverage of the instruction table)
    base.report_proof_failure(rep, "C10", pr, found)


def replay(rep, path):
    d = json.load(open(path))
    case = d.get("case")
    if not case:
        return
    if d.get("kind") == "correspondence" and case.startswith("dec") and "impl_bytes" in d:
        o = common.run_model("serde", [case], tag="c10r")[0]
        print("model:", o[:300])
    else:
        o = common.run_impl("serde", [case], tag="c10r")[0]
        print("impl:", o[:600])

"""C11 - assembly is deterministic, history-independent and self-contained; invalid programs are
rejected with an error."""
import collections, json, re
import common, gen_link
from common import P
from props import base

LEVEL = "proof"
U32 = 2**32

MISSING_AT_RUNTIME = ("CodeBlockNotFound", "SyscallTargetNotInKernel")

# sources that must be rejected (with an error: neither accepted nor a panic), by what is wrong
INVALID = [
    ("undefined local procedure", ["begin exec.nope end", "begin call.nope end", "begin procref.nope end",
                                   "proc.f add end begin exec.g end"]),
    ("undefined imported procedure or module", ["use.std::math::u64 begin exec.u64::nope end",
                                                "use.x::y begin exec.y::f end", "begin exec.a::b::c end"]),
    ("stack index out of range", ["begin dup.16 end", "begin swap.16 end", "begin swap.0 end", "begin movup.16 end",
                                  "begin movup.1 end", "begin movdn.1 end", "begin movdn.16 end", "begin swapw.4 end",
                                  "begin swapw.0 end", "begin dupw.4 end", "begin movupw.4 end", "begin movupw.1 end",
                                  "begin movdnw.4 end", "begin movdnw.1 end"]),
    ("shift, exponent or count out of range", ["begin u32shl.32 end", "begin u32shr.32 end", "begin u32rotr.32 end",
                                               "begin u32rotl.32 end", "begin exp.u65 end", "begin adv_push.0 end",
                                               "begin adv_push.17 end", "begin adv.push_mapval.13 end",
                                               "begin adv.push_mapvaln.13 end", "begin debug.stack.0 end",
                                               "begin push." + ".".join(["1"] * 17) + " end"]),
    ("immediate out of range", ["begin push.%d end" % P, "begin push.%d end" % 2**64, "begin add.%d end" % P,
                                "begin mem_load.%d end" % U32, "begin mem_storew.%d end" % U32,
                                "begin assert.err=%d end" % U32, "begin emit.%d end" % U32, "begin trace.%d end" % U32,
                                "begin u32wrapping_add.%d end" % U32, "begin u32overflowing_mul.%d end" % U32,
                                "begin u32div.%d end" % U32, "begin repeat.%d add end end" % U32]),
    ("local index out of range", ["proc.f.2 loc_load.2 end begin exec.f end", "proc.f.2 loc_store.2 end begin exec.f end",
                                  "proc.f.2 loc_loadw.2 end begin exec.f end", "proc.f.2 loc_storew.2 end begin exec.f end",
                                  "proc.f.2 locaddr.2 end begin exec.f end", "proc.f loc_load.0 end begin exec.f end",
                                  "proc.f loc_store.0 end begin exec.f end", "proc.f loc_loadw.0 end begin exec.f end",
                                  "proc.f loc_storew.0 end begin exec.f end", "proc.f locaddr.0 end begin exec.f end",
                                  "begin loc_load.0 end", "begin loc_store.3 end", "begin locaddr.0 end",
                                  "proc.f.1 loc_load.65535 end begin exec.f end", "proc.f.65536 add end begin exec.f end"]),
    ("division by a zero immediate", ["begin div.0 end", "begin u32div.0 end", "begin u32mod.0 end", "begin u32divmod.0 end"]),
    ("export in an executable", ["export.f add end begin exec.f end"]),
    ("caller / syscall where forbidden", ["begin caller end", "begin syscall.foo end", "proc.f caller end begin exec.f end"]),
    ("malformed structure", ["proc.f add end proc.f mul end begin exec.f end", "begin add end proc.f add end", "begin add",
                             "begin else add end end", "begin if add end end", "begin while add end end",
                             "proc.f proc.g add end end begin add end", "begin add.0x end", "begin push.0xZZ end",
                             "begin push. end", "begin push.1. end", "begin add.1.2 end", "begin dup.x end", "begin exec end",
                             "begin call. end", "begin repeat.x add end end", "begin adv.bogus end", "begin debug.mem.5.3 end",
                             "const.x=1 begin push.x end", "const.X=%d begin push.X end" % P,
                             "const.X=1 const.X=2 begin push.X end", "begin call.0x00 end", "proc.f.x add end begin exec.f end",
                             "proc.1f add end begin exec.1f end", "begin bogus end", "add"]),
]
# (kernel, program): calls are forbidden inside a kernel
INVALID_KERNEL = [
    ("call in a kernel", "proc.h add end export.k call.h end", "begin add end"),
    ("syscall in a kernel", "export.k add end export.j syscall.k end", "begin add end"),
    ("syscall to a procedure the kernel does not export", "proc.h add end export.k exec.h end", "begin syscall.h end"),
]
# valid sources in which a decorator is the last thing before a block boundary
DECORATED = ["proc.f add end begin exec.f emit.1 exec.f end", "proc.f add end begin exec.f emit.1 end",
             "proc.f add end begin if.true add end trace.1 end", "proc.f add end begin call.f emit.7 end",
             "begin while.true add end emit.3 end", "begin repeat.2 add emit.1 end end",
             "proc.f add emit.1 end begin exec.f end", "begin add emit.1 end", "begin emit.1 add end"]


def check_program(rep, g, src_case, model_case, idx, line, model, dist):
    """One program of a sequence: shared instance vs fresh instance vs fresh with libraries
    reversed vs the model."""
    sh, fr, rv = line.split(" ;; ")
    cls = sh.split()[0]
    found = False

    def viol(what, extra=None, klass=None):
        d = {"kind": "search", "family": "asmseq", "case": src_case, "program_index": idx, "shared": sh[:300],
             "fresh": fr[:300], "fresh_reversed": rv[:300], "model": model, "model_case": model_case}
        if klass:
            d["class"] = klass
        if extra:
            d.update(extra)
        rep.violation(what, d)

    if "PANIC" in line:
        viol("the assembler panicked: " + line[:160])
        return True
    both_rejected = sh.startswith("ERR") and fr.startswith("ERR")
    if both_rejected and sh != fr:
        dist["rejected-with-different-error-kinds"] += 1      # both instances reject: the kind of error is not part of the property
    if sh != fr and not both_rejected:
        viol("a program compiles differently on an assembler instance that compiled other programs before (%s vs %s)"
             % (sh[:60], fr[:60]))
        found = True
    if fr != rv:
        viol("a program compiles differently when the libraries are added in the reverse order")
        found = True
    if cls == "OK":
        cb = re.search(r"cb=(\d+)", sh).group(1)
        closed = re.search(r"closed=(\d)", sh).group(1)
        run = re.search(r"run=(\S+)", sh).group(1)
        dist["run:" + run] += 1
        if closed != "1" or run in MISSING_AT_RUNTIME:
            viol("a statically referenced procedure is missing from the assembled program (closed=%s, run=%s)" % (closed, run))
            found = True
        if model != "OK cb=%s closed=1" % cb:
            viol("the assembler and the cache-free specification disagree (%s vs %s)" % (sh[:80], model),
                 {"kind": "correspondence"})
            found = True
    elif cls == "ERR":
        dist["err:" + sh.split()[1]] += 1
        if model != "ERR":
            viol("the assembler rejects a program the specification assembles (%s vs %s)" % (sh[:80], model),
                 {"kind": "correspondence"})
            found = True
    else:
        viol("unexpected harness output " + sh[:100])
        found = True
    return found


def run(rep, tier, rng):
    ngraphs = 250 if tier == "quick" else 6000
    common.prepare()
    pr = base.proof_and_report(rep, "C11")
    r = rng.fork("c11")
    dist = collections.Counter()
    found = False

    # ---- module graphs: sequences of compilations on one instance ---------------------------------
    gs = [gen_link.gen_graph(r.fork("g%d" % i)) for i in range(ngraphs)]
    ic = [gen_link.impl_case(g) for g in gs]
    mc = [gen_link.model_case(g) for g in gs]
    a = common.run_impl("asmseq", base.corpus("C11") + ic, tag="c11a")[len(base.corpus("C11")):]
    b = common.run_model("link", mc, tag="c11m")
    for g, c, m, x, y in zip(gs, ic, mc, a, b):
        if x.startswith(("SETUP", "PANIC")):
            rep.violation("library setup failed or panicked: " + x[:200], {"kind": "search", "family": "asmseq", "case": c, "impl": x[:400]})
            found = True
            continue
        xs, ys = x.split(" || "), y.split(" || ")
        if len(xs) != len(ys):
            raise common.BuildError("asmseq/link output shapes differ: %s / %s" % (x[:200], y[:200]))
        for i, (xi, yi) in enumerate(zip(xs, ys)):
            dist["programs"] += 1
            found |= check_program(rep, g, c, m, i, xi, yi, dist)

    # ---- history through call by MAST root ------------------------------------------------------------
    hx = lambda s: s.encode().hex()
    probe = common.run_impl("asmseq", ["lib a %s | prog %s" % (hx("export.f\n push.77 drop\nend\n"), hx("use.a::m0\nbegin call.m0::f end"))], tag="c11h0")[0]
    m = re.search(r"OK (\S+) cb=1", probe)
    if m:
        # the callee's root is what the CALL block carries; recover it from a program that is just the callee
        root = common.run_impl("asmdump", [" | | begin push.77 drop end"], tag="c11h1")[0].split("#")[-1].strip()
        hexroot = "0x" + "".join(int(v).to_bytes(8, "little").hex() for v in root.split(","))
        case = "lib a %s | prog %s | prog %s | prog %s" % (hx("export.f\n push.77 drop\nend\n"), hx("begin call.%s end" % hexroot),
                                                            hx("use.a::m0\nbegin call.m0::f end"), hx("begin call.%s end" % hexroot))
        out = common.run_impl("asmseq", [case], tag="c11h2")[0].split(" || ")
        dist["call-by-root"] += 1
        sh, fr, rv = out[2].split(" ;; ")
        if sh != fr:
            rep.violation("`call.<mast root>` compiles only on an instance that has compiled the callee before (%s vs %s)" % (sh[:40], fr[:60]),
                          {"kind": "search", "family": "asmseq", "case": case, "program_index": 2, "shared": sh[:300], "fresh": fr[:300],
                           "class": "history-call-by-root", "fresh_class": fr.split()[1] if fr.startswith("ERR") else fr.split()[0]})
            found = True
        # whatever instance accepts a call by root, the program it assembles must be self-contained
        same = "lib a %s | prog %s | prog %s" % (hx("export.f\n push.77 drop\nend\nexport.g\n push.5 drop exec.f\nend\n"),
                                                 hx("use.a::m0\nbegin exec.m0::f call.%s end" % hexroot),
                                                 hx("use.a::m0\nbegin procref.m0::f dropw call.%s call.m0::g end" % hexroot))
        outs_r = out + common.run_impl("asmseq", [same], tag="c11h3")[0].split(" || ")
        for k, o3 in enumerate(outs_r):
            for which, o in zip(("shared", "fresh", "fresh-reversed"), o3.split(" ;; ")):
                dist["call-by-root:%s" % o.split()[0]] += 1
                if o.startswith("OK") and ("closed=1" not in o or "run=ok" not in o):
                    rep.violation("a program with `call.<mast root>` assembles (%s instance) but is not self-contained: %s" % (which, o[:120]),
                                  {"kind": "search", "family": "asmseq", "case": case if k < 3 else same, "program_index": k % 3, "instance": which, "impl": o[:300]})
                    found = True
                if o.startswith("PANIC"):
                    rep.violation("assembling a program with `call.<mast root>` panics", {"kind": "search", "family": "asmseq", "case": case if k < 3 else same, "impl": o[:300]})
                    found = True

    # ---- invalid programs are rejected with an error --------------------------------------------------
    inv = [(why, s) for why, l in INVALID for s in l]
    outs = common.run_impl("asmdump", [" | | " + s for _, s in inv], tag="c11i")
    outs_dbg = common.run_impl("asmdump", ["dbg | | " + s for _, s in inv], tag="c11id")
    for (why, s), o, od in zip(inv, outs, outs_dbg):
        for mode, x in (("", o), ("dbg", od)):
            dist["invalid:" + x.split()[0]] += 1
            if not x.startswith("ASMERR"):
                rep.violation("invalid program (%s) is %s: `%s`" % (why, "accepted" if x.startswith("OK") else "answered with a panic", s),
                              {"kind": "search", "family": "asmdump", "case": "%s | | %s" % (mode, s), "impl": x[:300], "why": why})
                found = True
    ko = common.run_impl("asmdump", [" | %s | %s" % (k, p) for _, k, p in INVALID_KERNEL], tag="c11k")
    for (why, k, p), x in zip(INVALID_KERNEL, ko):
        dist["invalid-kernel:" + x.split()[0]] += 1
        if not x.startswith("ASMERR"):
            rep.violation("invalid program (%s) is %s" % (why, "accepted" if x.startswith("OK") else "answered with a panic"),
                          {"kind": "search", "family": "asmdump", "case": " | %s | %s" % (k, p), "impl": x[:300], "why": why})
            found = True

    # ---- valid programs with decorators at block boundaries assemble -----------------------------------
    do = common.run_impl("asmdump", [" | | " + s for s in DECORATED], tag="c11d")
    for s, x in zip(DECORATED, do):
        dist["decorated:" + x.split()[0]] += 1
        if x.startswith("PANIC"):
            rep.violation("the assembler panics on a valid program: `%s` (%s)" % (s, x[:100]),
                          {"kind": "search", "family": "asmdump", "case": " | | " + s, "impl": x[:300],
                           "class": "decorator-empty-span-panic" if "decorators in an empty SPAN block" in x else "assembler-panic"})
            found = True
        elif not x.startswith("OK"):
            rep.violation("a valid program with a decorator is rejected: `%s` (%s)" % (s, x[:100]),
                          {"kind": "search", "family": "asmdump", "case": " | | " + s, "impl": x[:300]})
            found = True

    rep.coverage["cases"] = dist["programs"] + 2 * len(inv) + len(INVALID_KERNEL) + len(DECORATED) + 1
    rep.coverage["distribution"] = dict(dist)
    base.report_proof_failure(rep, "C11", pr, found)


def replay(rep, path):
    d = json.load(open(path))
    fam = d.get("family")
    if fam and d.get("case") is not None:
        print("impl:", common.run_impl(fam, [d["case"]], tag="c11r")[0][:1500])
    if d.get("model_case"):
        print("model:", common.run_model("link", [d["model_case"]], tag="c11r")[0][:600])

"""C12 - all lookups between trace components balance."""
import collections, json, re
import common, gen_exec
from common import P
from props import base, c03, c07

LEVEL = "proof"
U32 = 2**32


def merkle_case(r):
    """A span with MPVERIFY / MRUPDATE on a tree the host knows, plus other chiplet traffic."""
    depth = 1 + r.below(3)
    nl = 1 << depth
    leaves = [r.below(P) for _ in range(4 * nl)]
    ops = []
    for _ in range(1 + r.below(3)):
        i = r.below(nl)
        k = r.below(3)
        root = ["push:r.%d" % j for j in range(4)]
        leaf = ["push:l%d.%d" % (i, j) for j in range(4)]
        if k == 0:
            ops += root + ["push:%d" % i, "push:%d" % depth] + leaf + ["mpverify"] + ["drop"] * 10
        elif k == 1:
            new = ["push:%d" % r.below(P) for _ in range(4)]
            ops += new + root + ["push:%d" % i, "push:%d" % depth] + leaf + ["mrupdate"] + ["drop"] * 14
            break   # the tree changed: r.* and l*.* no longer describe it
        else:
            ops += c03.in_domain_ops(r, 3)
    ops += ["hperm"] + ["push:%d" % r.below(U32), "push:%d" % r.below(U32), r.choice(["u32and", "u32xor"]), "drop"]
    return ops, leaves


def run(rep, tier, rng):
    n = 120 if tier == "quick" else 4000
    common.prepare()
    pr = base.proof_and_report(rep, "C12")
    r = rng.fork("c12")
    found = False
    dist = collections.Counter()
    cases = list(base.corpus("C12"))
    # every operation class that talks to a chiplet or a virtual table
    for i in range(n):
        rr = r.fork("o%d" % i)
        k = rr.choice([20, 80, 200, 500])
        adv = [gen_exec.val(rr) for _ in range(64)]
        cases.append(gen_exec.case_line(2**32 - 1, gen_exec.gen_stack(rr), adv, "T 0 " + gen_exec.span(c03.in_domain_ops(rr, k))) + " | 7")
    for i in range(n):
        rr = r.fork("p%d" % i)
        g = c03.DomainProg(rr, allow_fail=False)
        adv = [gen_exec.val(rr) for _ in range(64)]
        cases.append(gen_exec.case_line(2**32 - 1, gen_exec.gen_stack(rr), adv, g.program()) + " | 8")
    for i in range(n):
        rr = r.fork("m%d" % i)
        g = c07.CtxGen(rr, ops=c03.ctx_mem_ops, always_return_clean=True)
        adv = [gen_exec.val(rr) for _ in range(64)]
        cases.append(gen_exec.case_line(2**32 - 1, gen_exec.gen_stack(rr), adv, g.program()) + " | 9")
    # short spans (a single operation batch) so that every other lookup is checked without a RESPAN
    for i in range(2 * n):
        rr = r.fork("s%d" % i)
        adv = [gen_exec.val(rr) for _ in range(64)]
        ops = [o for o in c03.in_domain_ops(rr, 6 + rr.below(14))][:30]
        cases.append(gen_exec.case_line(2**32 - 1, gen_exec.gen_stack(rr), adv, "T 0 " + gen_exec.span(ops)) + " | 6")
    for i in range(n):
        rr = r.fork("t%d" % i)
        ops, leaves = merkle_case(rr)
        cases.append(gen_exec.case_line(2**32 - 1, gen_exec.gen_stack(rr), [], "T 0 " + gen_exec.span(ops)) + " | %d | M %s" % (100 + i, " ".join(map(str, leaves))))
    # spans whose cycle count is around 2^k - 1: no room for a HALT row before the random row
    for k in list(range(56, 64)) + list(range(118, 126)):
        cases.append(gen_exec.case_line(2**32 - 1, [1, 2, 3], [], "T 0 " + gen_exec.span(["noop"] * k)) + " | 5")
    # chiplet rows sweeping through 2^k - 1 with the chiplets dominating the trace length
    cases += [c + " | 5" for c in c03.chiplet_boundary_programs()]
    out = common.run_impl("airfull", cases, tag="c12")
    for c, x in zip(cases, out):
        if not x.startswith("OK"):
            dist["exec:" + " ".join(x.split()[:2])] += 1
            if x.startswith("PANIC"):
                rep.violation("panic while building the trace or its auxiliary columns", {"kind": "search", "family": "airfull", "case": c, "impl": x[:300]})
                found = True
            continue
        f = dict(kv.split("=", 1) for kv in x.split()[1:])
        dist["traces"] += 1
        respan = int(f.get("respan", "0"))
        dist["respan-free" if respan == 0 else "with-respan"] += 1
        if f["bus_bad"] != "0":
            cols = set(f["bus"].split("+"))
            prog = c.split("|")[3]
            # shapes for which the aux-column builders of this version are known not to balance
            feats = {}
            if respan > 0:
                feats["respan"] = {"block_stack_table:last", "chiplets_bus:last"}
            if re.search(r"\bDC?\b", prog):
                feats["dyn"] = {"chiplets_bus:last"}
            nk = len(re.findall(r"\bK\b", prog))
            if nk == 1:
                # with a single kernel procedure only the virtual table is known not to end at its value
                feats["kernel"] = {"chiplets_virtual_table:last"}
            elif nk > 1:
                feats["kernel"] = {"chiplets_virtual_table:last", "chiplets_bus:last"}
            covered = set().union(*feats.values()) if feats else set()
            base_d = {"kind": "search", "family": "airfull", "case": c, "impl": x, "which": "bus_bad", "columns": sorted(cols), "respan": respan}
            if not cols <= covered:
                rep.violation("lookups do not balance: running-product column(s) %s do not start or end at the specified value" % ", ".join(sorted(cols - covered)), base_d)
                found = True
            for ft, allowed in feats.items():
                if cols & allowed:
                    rep.violation("lookups do not balance in a trace with %s: column(s) %s" % (ft, ", ".join(sorted(cols & allowed))),
                                  dict(base_d, **{"class": "aux-imbalance-" + ft}))
                    found = True
        for key, what in (("auxassert_bad", "the stack overflow table or the range-check sum does not start or end at its specified value"),
                          ("aux_bad", "the range-check running sum violates its transition constraint")):
            if f[key] != "0":
                rep.violation("lookups do not balance: %s (first: %s)" % (what, f["first"]),
                              {"kind": "search", "family": "airfull", "case": c, "impl": x, "which": key, "first": f["first"]})
                found = True
    if dist["traces"] < 0.8 * len(cases):
        raise common.BuildError("C12 generator: fewer than 80%% of the programs execute (%s)" % dict(dist))
    ops_seen = collections.Counter()
    for c in cases:
        for t in ("mpverify", "mrupdate", "hperm", "u32and", "u32xor", "mstream", "pipe", "mloadw", "mstorew", "mload", "mstore", " C ", " Y ", " DC", " D ", " L ", " P "):
            if t in c:
                ops_seen[t.strip()] += 1
    rep.coverage["cases"] = len(cases)
    rep.coverage["distribution"] = dict(dist)
    rep.coverage["programs_containing"] = dict(ops_seen)
    base.report_proof_failure(rep, "C12", pr, found)


def replay(rep, path):
    d = json.load(open(path))
    if d.get("case"):
        print("impl:", common.run_impl("airfull", [d["case"]], tag="c12r")[0][:800])

"""C13 - the decoded operation stream is exactly the program."""
import collections, itertools, re
import common, gen_exec
from props import base

LEVEL = "proof"
OPEN = {"join", "split", "loop", "call", "syscall", "dyn", "span"}


def field(o, name):
    m = re.search(r" %s=(\S*)" % name, o)
    return m.group(1) if m else None


def check_trace_rules(o):
    """The documented decoder invariants, read off the real trace alone."""
    ops = field(o, "ops").split(",")
    gc = list(map(int, field(o, "gc").split(",")))
    insp = list(map(int, field(o, "insp").split(",")))
    addr = list(map(int, field(o, "addr").split(",")))
    problems = []
    # block address inside a span: constant within a batch, +8 (one hasher cycle) at every RESPAN,
    # and the END row still carries the address of the last batch
    for i, op in enumerate(ops):
        if i + 1 >= len(addr):
            break
        if op == "respan":
            if addr[i + 1] != addr[i] + 8:
                problems.append("RESPAN at row %d does not advance the block address by 8 (%d -> %d)" % (i, addr[i], addr[i + 1]))
                break
        elif insp[i] == 1 and addr[i + 1] != addr[i]:
            problems.append("block address changes inside a batch at row %d (%d -> %d)" % (i, addr[i], addr[i + 1]))
            break
    if field(o, "halts") != "true":
        problems.append("non-HALT row after the first HALT")
    if field(o, "lasthash") != field(o, "proghash"):
        problems.append("last decoder row does not carry the program hash")
    depth = 0
    stack = []
    for i, op in enumerate(ops):
        if op in OPEN:
            stack.append(op)
        elif op == "end":
            if not stack:
                problems.append("END without a matching start at row %d" % i)
                break
            kind = stack.pop()
            if kind == "span" and gc[i] != 0:
                problems.append("group counter is %d at the END of a span (row %d)" % (gc[i], i))
        if insp[i] == 1 and i + 1 < len(gc) and gc[i + 1] > gc[i]:
            problems.append("group counter increases inside a span at row %d" % i)
    if stack:
        problems.append("unclosed blocks at the end: %s" % stack)
    return problems


def pattern_spans(maxlen):
    """every push / non-push pattern up to maxlen as a span (non-push = incr, neutral on depth)"""
    for n in range(1, maxlen + 1):
        for pat in itertools.product((0, 1), repeat=n):
            yield gen_exec.span(["push:3" if b else "incr" for b in pat])


def run(rep, tier, rng):
    n = 400 if tier == "quick" else 20000
    plen = 9 if tier == "quick" else 14
    common.prepare()
    pr = base.proof_and_report(rep, "C13")
    r = rng.fork("c13")
    found = False
    dist = collections.Counter()
    cases = list(base.corpus("C13"))
    for sp in pattern_spans(plen):
        cases.append("100000 | | | T 0 " + sp)
    # long spans (several batches, RESPAN) with random push density
    for i in range(n // 4):
        rr = r.fork("l%d" % i)
        k = 60 + rr.below(200)
        den = rr.choice([1, 3, 8])
        ops = ["push:%d" % rr.below(100) if rr.below(10) < den else rr.choice(["incr", "neg", "swap", "dup0", "drop", "noop"]) for _ in range(k)]
        cases.append("100000 | | | T 0 " + gen_exec.span(ops))
    for i in range(n):
        cases.append(gen_exec.gen_prog_case(r.fork("p%d" % i), False))
    a = common.run_impl("stream", cases, tag="c13")
    b = common.run_model("stream", cases, tag="c13")
    for c, x, y in zip(cases, a, b):
        if x.startswith("OK"):
            dist["ok"] += 1
            ox = field(x, "ops")
            oy = field(y, "ops") if y.startswith("OK") else y
            if ox != oy:
                rep.violation("recorded operation stream differs from the depth-first execution of the MAST",
                              {"kind": "correspondence", "family": "stream", "case": c, "impl": ox[:1500], "model": str(oy)[:1500]})
                found = True
                continue
            dist["respan" if "respan" in ox else "single-batch"] += 1
            for pb in check_trace_rules(x):
                rep.violation(pb, {"kind": "search", "family": "stream", "case": c, "impl": x[:1500], "rule": pb})
                found = True
        else:
            dist[" ".join(x.split()[:2])] += 1
            if x.split()[:2] != y.split()[:2]:
                rep.violation("model and implementation disagree on the outcome",
                              {"kind": "correspondence", "family": "stream", "case": c, "impl": x[:300], "model": y[:300]})
                found = True
    base.report_proof_failure(rep, "C13", pr, found)
    rep.coverage.update({
        "evaluations": len(cases), "distinct_nontrivial": len(set(cases)),
        "rule": "spans for EVERY push/non-push pattern up to length %d (exhaustive), long multi-batch spans with RESPAN, generated MAST programs (join/split/loop 0..3 iterations/call/syscall/dyn); op per row read from the op-bit columns of the real trace vs the model's recorded stream; plus on the real trace alone: nesting, group counter 0 at span END and non-increasing, last row hash = program hash, HALT only as padding" % plen,
        "samples": [cases[len(cases) // 3][:300], a[len(cases) // 3][:400]],
        "distribution": dict(dist), "exhaustive_pattern_length": plen,
    })
    rep.assumptions = ["group counter / op index / block address columns are checked on the real trace by rule, not predicted by the Coq model",
                       "decisions taken (branch, iterations) are those of the model execution, tied by the C05-C07 correspondences"]


def replay(rep, path):
    import json
    d = json.load(open(path))
    common.prepare()
    a = common.run_impl("stream", [d["case"]], tag="replay")[0]
    b = common.run_model("stream", [d["case"]], tag="replay")[0]
    print("impl : " + a[:1500])
    print("model: " + b[:1500])
    bad = False
    if a.startswith("OK"):
        bad = field(a, "ops") != (field(b, "ops") if b.startswith("OK") else None) or bool(check_trace_rules(a))
    else:
        bad = a.split()[:2] != b.split()[:2]
    if bad:
        rep.violation("replayed case still fails", d)
    rep.coverage.update({"evaluations": 1, "distinct_nontrivial": 2, "obligations": 1, "discharged": 1,
                         "checker_cmd": "replay", "trusted_base": []})

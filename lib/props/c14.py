"""C14 - execution is deterministic and step-through agrees with the trace."""
import collections, re
import common, gen_exec, gen_ast
from common import P
from props import base

LEVEL = "proof"


def parse_states(line):
    """'OK n=.. ... | st | st' -> list of state tuples (clk, ctx, fmp, stack list, mem, hidden list)"""
    out = []
    for t in line.split("|")[1:]:
        f = t.strip().split(":")
        if len(f) < 5:
            out.append(None)
            continue
        stack = f[3].split(",") if f[3] else []
        hidden = f[5].split(",") if len(f) > 5 and f[5] else []
        out.append((f[0], f[1], f[2], stack, f[4], hidden))
    return out


def buggy_overflow(ms, t):
    """What the unfixed overflow history of processor/src/stack/overflow.rs reports at clock t, as a
    function of the model states ms: the table is recorded under the clock of the operation that
    pushed or popped (so it is looked up one row early), the initial rows are recorded under keys
    that are never found, and rows hidden by a call are included."""
    def full(k):
        return ms[k][3][16:] + ms[k][5]
    best = None
    for c in range(0, t + 1):
        if c + 1 < len(ms) and len(full(c + 1)) != len(full(c)):
            best = c
    return [] if best is None else full(best + 1)


def run(rep, tier, rng):
    n = 250 if tier == "quick" else 12000
    common.prepare()
    pr = base.proof_and_report(rep, "C14")
    r = rng.fork("c14")
    found = False
    dist = collections.Counter()
    # ---- (a) same inputs, any expected-cycles hint: same trace, same outputs --------------------
    progs = [gen_exec.gen_prog_case(r.fork("p%d" % i), False) for i in range(n)] + \
            [gen_exec.gen_ops_case(r.fork("o%d" % i), 120) for i in range(n // 2)]
    base_out = common.run_impl("tracehash", progs, tag="c14h0")
    for hint in ([64, 128, 1024, 4096] if tier == "quick" else [64, 128, 256, 512, 1024, 2048, 4096, 2**14, 2**16]):
        cs = ["%s,%d |%s" % (c.split("|", 1)[0].strip(), hint, c.split("|", 1)[1]) for c in progs]
        out = common.run_impl("tracehash", cs, tag="c14h")
        for c, x, y in zip(cs, base_out, out):
            dist["hint"] += 1
            if x != y:
                rep.violation("trace or outputs depend on the expected-cycles hint (%d): %s vs %s" % (hint, x[:80], y[:80]),
                              {"kind": "search", "family": "tracehash", "case": c, "impl": y, "baseline": x})
                found = True
    # ---- (b) step-through: iterator states vs the model's state after t cycles -------------------
    small = [gen_exec.gen_prog_case(r.fork("s%d" % i), i % 4 == 0) for i in range(n)] + \
            [gen_exec.gen_ops_case(r.fork("t%d" % i), 25) for i in range(n // 2)]
    small = [c + " | %d" % r.below(10**9) for c in small]
    a = common.run_impl("iter", small, tag="c14i")
    b = common.run_model("iter", small, tag="c14i")
    for c, x, y in zip(small, a, b):
        if x.startswith("PANIC"):
            rep.violation("step-through panics", {"kind": "search", "family": "iter", "case": c, "impl": x[:300]})
            found = True
            continue
        if "walk=ok" not in x:
            rep.violation("stepping back and forth changes what a clock reports: " + x.split("|")[0],
                          {"kind": "search", "family": "iter", "case": c, "impl": x.split("|")[0], "class": "iter-walk"})
            found = True
        if not y.startswith("OK"):
            dist["iter:model-" + y.split()[1]] += 1
            continue
        rs, ms = parse_states(x), parse_states(y)
        for t, st in enumerate(rs):
            if t >= len(ms) or st is None:
                break
            m = ms[t]
            dist["iter:states"] += 1
            if st[:3] != m[:3] or st[3][:16] != m[3][:16] or st[4] != m[4]:
                rep.violation("iterator state at clk %d differs from the execution state (clk/ctx/fmp/top 16/memory)" % t,
                              {"kind": "search", "family": "iter", "case": c, "clk": t, "impl": ":".join(map(str, st))[:400],
                               "model": ":".join(map(str, m))[:400], "class": "iter-state"})
                found = True
                break
            if st[3][16:] != m[3][16:]:
                cls = "iter-overflow-history" if st[3][16:] == buggy_overflow(ms, t) else "iter-overflow-other"
                dist["iter:" + cls] += 1
                rep.violation("iterator reports %d stack elements at clk %d where the trace holds depth %d (overflow history)" %
                              (len(st[3]), t, len(m[3])),
                              {"kind": "search", "family": "iter", "case": c, "clk": t, "impl": ",".join(st[3])[:300],
                               "model": ",".join(m[3])[:300], "class": cls})
                if cls != "iter-overflow-history":
                    found = True
                    break
    # ---- (c) decorators, debug-mode assembly and tracing never change results or cycle counts ----
    table = gen_ast.OpsTable()
    decos = ["debug.stack", "debug.stack.4", "emit.7", "trace.3", "debug.mem"]
    plain, decorated, dbg = [], [], []
    for i in range(n // 2):
        rr = r.fork("d%d" % i)
        g = gen_ast.AstGen(rr, table, allow_fail=False)
        src, _ = g.program(depth=2)
        st = " ".join(map(str, gen_exec.gen_stack(rr)))
        toks = src.split(" ")
        # insert decorators at instruction boundaries inside bodies (not before `begin`/`proc`)
        outt = []
        for tk in toks:
            outt.append(tk)
            if tk and rr.chance(1, 6) and not tk.startswith(("proc.", "begin", "end", "else", "if.", "while.", "repeat.")):
                outt.append(rr.choice(decos))
        plain.append("100000 | %s | | | | %s" % (st, src))
        decorated.append("100000 | %s | | trc | | %s" % (st, " ".join(outt)))
        dbg.append("100000 | %s | | dbg | | %s" % (st, " ".join(outt)))
    # advice injectors must survive debug-mode assembly
    for (aa, bb) in [(1000, 7), (2**40 + 5, 3), (5, 2**33)]:
        src = "begin push.%d.%d push.%d.%d adv.push_u64div adv_push.4 end" % (bb >> 32, bb & 0xffffffff, aa >> 32, aa & 0xffffffff)
        plain.append("100000 | | | | | " + src)
        decorated.append("100000 | | | trc | | " + src)
        dbg.append("100000 | | | dbg | | " + src)
    o0 = common.run_impl("masm", plain, tag="c14d0")
    o1 = common.run_impl("masm", decorated, tag="c14d1")
    o2 = common.run_impl("masm", dbg, tag="c14d2")
    for c0, c1, c2, x, y, z in zip(plain, decorated, dbg, o0, o1, o2):
        dist["decorators"] += 1
        if "decorators in an empty SPAN block" in y or "decorators in an empty SPAN block" in z:
            # assembler panic on a decorator that is not followed by an operation of the same span:
            # recorded under C11 (the program cannot be assembled at all), not comparable here
            dist["decorators:asm-empty-span-panic"] += 1
            continue
        if x != y:
            rep.violation("decorators / tracing change the result or the cycle count", {"kind": "search", "family": "masm", "case": c1, "plain_case": c0, "impl": y[:300], "plain": x[:300]})
            found = True
        if x != z:
            rep.violation("debug-mode assembly changes the result or the cycle count", {"kind": "search", "family": "masm", "case": c2, "plain_case": c0, "impl": z[:300], "plain": x[:300]})
            found = True
    base.report_proof_failure(rep, "C14", pr, found)
    rep.coverage.update({
        "evaluations": dist["hint"] + len(small) + 3 * len(plain),
        "distinct_nontrivial": len(set(progs)) + len(set(small)) + len(set(plain)),
        "rule": "(a) generated programs re-run with expected-cycle hints 2^6..2^12 (2^16 thorough): FNV fingerprint of the whole main trace (all columns, all rows but the random one) and outputs must be identical; (b) execute_iter on generated programs: every reported state vs the model state after t cycles (clk, ctx, fmp, top 16, memory of the context, and the elements beyond 16), plus a pseudo-random walk of next()/back(); (c) MASM programs with debug/emit/trace decorators inserted, with tracing, and assembled in debug mode vs plain; advice injectors under debug mode",
        "samples": [progs[0][:300], small[0][:300], decorated[0][:300]],
        "distribution": dict(dist),
    })
    rep.assumptions = ["decorators are not part of the Coq model (observed Rust-vs-Rust)",
                       "the iterator's overflow history defect is a listed known finding; its exact shape is recomputed from the model so that any other deviation is still reported"]


def replay(rep, path):
    import json
    d = json.load(open(path))
    common.prepare()
    fam = d.get("family")
    a = common.run_impl(fam, [d["case"]], tag="replay")[0]
    print("impl : " + a[:1500])
    bad = False
    if fam == "iter":
        b = common.run_model("iter", [d["case"]], tag="replay")[0]
        print("model: " + b[:1500])
        rs, ms = parse_states(a), parse_states(b) if b.startswith("OK") else []
        for t, st in enumerate(rs):
            if t < len(ms) and st is not None and (st[:5] != ms[t][:5]):
                bad = True
    elif fam == "tracehash":
        bad = a != d.get("baseline")
    else:
        p0 = common.run_impl(fam, [d["plain_case"]], tag="replay")[0]
        bad = a != p0
    if bad:
        rep.violation("replayed case still fails", d)
    rep.coverage.update({"evaluations": 1, "distinct_nontrivial": 2, "obligations": 1, "discharged": 1,
                         "checker_cmd": "replay", "trusted_base": []})

"""C15 - the cycle limit is enforced exactly."""
import collections
import common, gen_exec
from common import Rng
from props import base

LEVEL = "proof"


def long_program(r):
    """A terminating program with at least ~70 cycles: long spans, joins and counted loops."""
    g = gen_exec.ProgGen(r, nprocs=r.below(3), allow_fail=False)
    parts = []
    for i in range(2 + r.below(4)):
        k = r.below(4)
        if k == 0:
            parts.append(gen_exec.span(gen_exec.gen_ops(r, 20 + r.below(60), False)))
        elif k == 1:
            n = 1 + r.below(12)
            parts.append("J %s L %s" % (gen_exec.span(["push:0"] + ["push:1"] * n),
                                        gen_exec.span(r.choice([["noop"], ["clk", "drop"], ["pad", "drop", "noop"]]))))
        else:
            parts.append(g.block(3, 0))
    prog = parts[0]
    for p in parts[1:]:
        prog = "J %s %s" % (prog, p)
    return "T 0 " + prog


def with_limit(case, m, e=None):
    return "%s |%s" % (("%d" % m) if e is None else "%d,%d" % (m, e), case.split("|", 1)[1])


def run(rep, tier, rng):
    n_prog = 150 if tier == "quick" else 4000
    common.prepare()
    pr = base.proof_and_report(rep, "C15")
    r = rng.fork("c15")
    # 1. unlimited runs (Rust and model) give the exact cycle count N
    progs = base.corpus("C15") + [gen_exec.case_line(2**32 - 1, gen_exec.gen_stack(r), gen_exec.gen_adv(r) + [1] * 40,
                                                     long_program(r.fork("p%d" % i))) for i in range(n_prog)]
    impl0 = common.run_impl("exec", progs, tag="c15a")
    model0 = common.run_model("exec", progs, tag="c15a")
    found = False
    for c, a, b in base.diff_pairs(progs, impl0, model0):
        rep.violation("model and implementation disagree on an unlimited run", {"kind": "correspondence", "family": "exec", "case": c, "impl": a, "model": b})
        found = True
    # 2. limits around N
    cases, expect = [], []
    dist = collections.Counter()
    for c, a in zip(progs, impl0):
        if not a.startswith("OK "):
            dist["unlimited:" + a.split()[1]] += 1
            continue
        n = int(a.split()[1].split("=")[1])
        dist["ok"] += 1
        inner = [64 + r.below(n - 64) for _ in range(4)] if n > 66 else []     # limits crossed anywhere inside the run
        for m in sorted(set([64, n - 2, n - 1, n, n + 1, n + 2, 2 * n] + inner)):
            if m < 64:
                continue
            # the expected-cycles hint (any value <= m) must not move the limit
            hint = r.choice([None, None, m, 65 + r.below(max(1, m - 64)) if m > 65 else None])
            cases.append(with_limit(c, m, hint))
            if n <= m:
                expect.append(a)
                dist["limit>=N"] += 1
            else:
                expect.append("ERR CycleLimit %d clk=%d" % (m, m + 1))
                dist["limit<N"] += 1
    # 3. unbounded loops must stop
    for m in (64, 65, 1000, 4097):
        for body in ("S 1 push:1", "S 3 push:1 push:1 drop", "J S 1 pad S 1 push:1"):
            cases.append("%d,%d | | | T 0 J S 1 push:1 L %s" % (m, r.choice([64, m, (m + 64) // 2]), body))
            expect.append("ERR CycleLimit %d clk=%d" % (m, m + 1))
            dist["unbounded"] += 1
    impl = common.run_impl("exec", cases, tag="c15b")
    model = common.run_model("exec", cases, tag="c15b")
    for c, a, b, e in zip(cases, impl, model, expect):
        if a != e:
            rep.violation("cycle limit not exact: expected '%s' got '%s'" % (e[:60], a[:60]),
                          {"kind": "search", "family": "exec", "case": c, "impl": a, "expected": e})
            found = True
        elif b != a:
            rep.violation("model and implementation disagree", {"kind": "correspondence", "family": "exec", "case": c, "impl": a, "model": b})
            found = True
    # 3b. unbounded loops inside a called procedure and inside a kernel procedure (syscall): each in its own
    #     harness process under a resource limit, so that a run that ignores the limit is reported, not awaited
    import subprocess, resource
    loop = "J S 1 push:1 L S 3 push:1 push:1 drop"
    ctx_cases = []
    for m in (64, 100, 4097):
        for hdr, root in (("T 1 U %s" % loop, "C 0"), ("T 1 K %s" % loop, "Y 0"), ("T 1 K %s" % loop, "J S 2 pad drop Y 0"),
                          ("T 2 U %s K J S 2 pad drop C 0" % loop, "Y 1")):
            ctx_cases.append(("%d | | | %s %s" % (m, hdr, root), "ERR CycleLimit %d clk=%d" % (m, m + 1)))
    for c, e in ctx_cases:
        dist["unbounded-in-context"] += 1
        path = common.os.path.join(common.WORK, "c15ctx.cases")
        open(path, "w").write(c + "\n")
        def lim():
            resource.setrlimit(resource.RLIMIT_AS, (2 * 2**30, 2 * 2**30))
            resource.setrlimit(resource.RLIMIT_CPU, (20, 20))
        try:
            pr_ = subprocess.run([common.MVH, "run", "exec", path], stdout=subprocess.PIPE, stderr=subprocess.PIPE, text=True, timeout=60, preexec_fn=lim)
            got = [l[3:] for l in pr_.stdout.split("\n") if l.startswith("@@ ")]
            a = got[0] if got else "NO-RESULT rc=%d" % pr_.returncode
        except subprocess.TimeoutExpired:
            a = "NO-RESULT timeout"
        if a != e:
            rep.violation("an unbounded loop inside a called / kernel procedure does not stop at the cycle limit: expected '%s' got '%s'" % (e, a[:80]),
                          {"kind": "search", "family": "exec", "case": c, "impl": a[:300], "expected": e})
            found = True
    # 4. option validation
    ocases = []
    for mc in ["none", 0, 1, 63, 64, 65, 100, 1000, 2**16, 2**31, 2**32 - 1]:
        for e in [0, 1, 63, 64, 65, 99, 100, 101, 1000, 1001, 2**16, 2**16 + 1, 2**31 - 1, 2**31]:
            ocases.append("%s %d" % (mc, e))
    for i in range(200 if tier == "quick" else 5000):
        ocases.append("%s %d" % (r.choice(["none", r.below(200), r.below(2**20), r.below(2**32)]), r.choice([r.below(200), r.below(2**20), r.below(2**31)])))
    oi = common.run_impl("options", ocases, tag="c15o")
    om = common.run_model("options", ocases, tag="c15o")
    for c, a, b in zip(ocases, oi, om):
        mc, e = c.split()
        m = 2**32 - 1 if mc == "none" else int(mc)
        refused = m < 64 or m < int(e)
        if (a == "ERR") != refused:
            rep.violation("option set %s: refused=%s expected refused=%s" % (c, a == "ERR", refused),
                          {"kind": "search", "family": "options", "case": c, "impl": a})
            found = True
        elif a != b:
            rep.violation("model and implementation disagree on options", {"kind": "correspondence", "family": "options", "case": c, "impl": a, "model": b})
            found = True
    base.report_proof_failure(rep, "C15", pr, found)
    rep.coverage.update({
        "evaluations": len(progs) + len(cases) + len(ocases),
        "distinct_nontrivial": len(set(cases)) + len(set(ocases)),
        "rule": "programs: generated terminating MASTs (long spans, joins, counted loops, splits) run unlimited on Rust and model to get N, then re-run with limits {64,N-2..N+2,2N}; unbounded loops with limits {64,65,1000,4097}; option triples on a boundary grid + random. distinct = distinct (program,limit) / option pairs",
        "samples": [cases[0][:400], cases[len(cases) // 2][:400], ocases[5]],
        "distribution": dict(dist),
        "correspondence_cases": len(progs) + len(cases) + len(ocases),
    })
    rep.assumptions = ["model of the processor loop (coq/Vm/Exec.v) corresponds to processor/src/lib.rs as far as the exec correspondence samples it",
                       "u32 next_power_of_two overflow for expected_cycles > 2^31 is outside the sampled grid"]


def replay(rep, path):
    import json
    d = json.load(open(path))
    common.prepare()
    fam = d.get("family", "exec")
    a = common.run_impl(fam, [d["case"]], tag="replay")[0]
    b = common.run_model(fam, [d["case"]], tag="replay")[0]
    print("impl : " + a)
    print("model: " + b)
    exp = d.get("expected")
    if (exp is not None and a != exp) or a != b:
        rep.violation("replayed case still fails", d)
    rep.coverage.update({"evaluations": 1, "distinct_nontrivial": 2, "obligations": 1, "discharged": 1,
                         "checker_cmd": "replay", "trusted_base": []})

"""C16 - standard-library integer arithmetic is exact."""
import collections, json, re
import common, gen_exec, instrs
from common import P
from props import base, c09

LEVEL = "proof"
U32 = 2**32
U64 = 2**64
M256 = 2**256
REST = [7, 8, 9]


def limbs(v, n=2):
    """top-first limbs of v: most significant first"""
    return [(v >> (32 * k)) % U32 for k in reversed(range(n))]


def clz64(a):
    return 64 - a.bit_length()


def ctz64(a):
    return 64 if a == 0 else (a & -a).bit_length() - 1


BIN = {
    "wrapping_add": lambda a, b: limbs((a + b) % U64),
    "overflowing_add": lambda a, b: [(a + b) >> 64] + limbs((a + b) % U64),
    "wrapping_sub": lambda a, b: limbs((a - b) % U64),
    "overflowing_sub": lambda a, b: [1 if a < b else 0] + limbs((a - b) % U64),
    "wrapping_mul": lambda a, b: limbs((a * b) % U64),
    "overflowing_mul": lambda a, b: limbs((a * b) >> 64) + limbs((a * b) % U64),
    "lt": lambda a, b: [int(a < b)], "lte": lambda a, b: [int(a <= b)], "gt": lambda a, b: [int(a > b)],
    "gte": lambda a, b: [int(a >= b)], "eq": lambda a, b: [int(a == b)], "neq": lambda a, b: [int(a != b)],
    "min": lambda a, b: limbs(min(a, b)), "max": lambda a, b: limbs(max(a, b)),
    "and": lambda a, b: limbs(a & b), "or": lambda a, b: limbs(a | b), "xor": lambda a, b: limbs(a ^ b),
    "div": lambda a, b: limbs(a // b), "mod": lambda a, b: limbs(a % b),
    "divmod": lambda a, b: limbs(a % b) + limbs(a // b),
}
UN = {
    "eqz": lambda a: [int(a == 0)], "clz": lambda a: [clz64(a)], "ctz": lambda a: [ctz64(a)],
    "clo": lambda a: [clz64(U64 - 1 - a)], "cto": lambda a: [ctz64(U64 - 1 - a)],
}
SHIFT = {
    "shl": lambda a, n: limbs((a << n) % U64), "shr": lambda a, n: limbs(a >> n),
    "rotl": lambda a, n: limbs(((a << n) | (a >> (64 - n))) % U64 if n else a),
    "rotr": lambda a, n: limbs(((a >> n) | (a << (64 - n))) % U64 if n else a),
}
B256 = {
    "add_unsafe": lambda a, b: (a + b) % M256, "sub_unsafe": lambda a, b: (a - b) % M256,
    "mul_unsafe": lambda a, b: (a * b) % M256, "and": lambda a, b: a & b, "or": lambda a, b: a | b, "xor": lambda a, b: a ^ b,
}


def edge64(r):
    l = [0, 1, U32 - 1, U32 - 2, 2**31, r.below(U32)]
    return (r.choice(l) << 32) | r.choice(l)


def edge256(r):
    l = [0, 1, U32 - 1, 2**31, r.below(U32)]
    v = 0
    for _ in range(8):
        v = (v << 32) | r.choice(l)
    return v


def run(rep, tier, rng):
    n = 40 if tier == "quick" else 500
    common.prepare()
    pr = base.proof_and_report(rep, "C16")
    r = rng.fork("c16")
    dist = collections.Counter()
    found = False
    cases, want, names = [], [], []

    def add(proc, stack, expect, lib="u64"):
        cases.append("20000 | %s | | std | | use.std::math::%s begin exec.%s::%s end" % (" ".join(map(str, stack)), lib, lib, proc))
        want.append(expect)
        names.append("%s::%s" % (lib, proc))

    for i in range(n):
        rr = r.fork("b%d" % i)
        for nm, f in BIN.items():
            a, b = (edge64(rr), edge64(rr)) if rr.chance(2, 3) else (rr.below(U64), rr.below(U64))
            if rr.chance(1, 8):
                b = a
            if nm in ("div", "mod", "divmod") and b == 0:
                add(nm, limbs(b) + limbs(a) + REST, None)
                continue
            add(nm, limbs(b) + limbs(a) + REST, f(a, b) + REST)
        for nm, f in UN.items():
            a = edge64(rr) if rr.chance(1, 2) else rr.choice([1 << rr.below(64), (1 << rr.below(65)) - 1, U64 - (1 << rr.below(64))])
            a %= U64
            add(nm, limbs(a) + REST, f(a) + REST)
    for sh in range(64):
        for nm, f in SHIFT.items():
            for a in (edge64(r), r.below(U64), U64 - 1, 1, 2**63):
                add(nm, [sh] + limbs(a) + REST, f(a, sh) + REST)
    for i in range(n):
        rr = r.fork("w%d" % i)
        for nm, f in B256.items():
            a, b = (edge256(rr), edge256(rr)) if rr.chance(2, 3) else (rr.below(M256), rr.below(M256))
            add(nm, limbs(b, 8) + limbs(a, 8) + REST, limbs(f(a, b), 8) + REST, "u256")
        a = rr.choice([0, 1, edge256(rr), 1 << (32 * rr.below(8))])
        b = a if rr.chance(1, 2) else edge256(rr)
        add("iszero_unsafe", limbs(a, 8) + REST, [int(a == 0)] + REST, "u256")
        add("eq_unsafe", limbs(b, 8) + limbs(a, 8) + REST, [int(a == b)] + REST, "u256")
    outs = common.run_impl("masm", cases, tag="c16")
    for nm, c, w, x in zip(names, cases, want, outs):
        dist["%s:%s" % (nm, x.split()[0])] += 1
        if x.startswith("PANIC"):
            rep.violation("%s panics" % nm, {"kind": "search", "family": "masm", "case": c, "impl": x[:300]})
            found = True
        elif w is None:
            if x.startswith("OK"):
                rep.violation("%s completes on a zero divisor" % nm,
                              {"kind": "search", "family": "masm", "case": c, "impl": x[:300]})
                found = True
        elif not x.startswith("OK") or c09.top_of(x, 16)[:len(w)] != w:
            d = {"kind": "search", "family": "masm", "case": c, "impl": x[:400], "want": w}
            st = [int(t) for t in c.split("|")[1].split()]
            if nm == "u64::shr" and st[0] >= 32 and st[2] == U32 - 1:
                d["class"] = "u64-shr-low-limb-all-ones"
            if nm == "u64::rotr" and st[0] % 32 == 0 and st[1] == U32 - 1 and st[2] != 0:
                d["class"] = "u64-rotr-high-limb-all-ones"
            rep.violation("%s does not compute the integer function: expected top %s" % (nm, w[:len(w) - 3]), d)
            found = True

    # ---- the straight-line procedures: the same operation lists on the model ---------------------------
    ops = c09.op_lists(["exec.u64::%s" % p for p in instrs.U64_PROCS if p not in ("div", "mod", "divmod")], std=True)
    ecases = []
    for i in range(n):
        rr = r.fork("m%d" % i)
        for nm, o in ops.items():
            a, b = edge64(rr), edge64(rr)
            st = ([rr.below(70)] + limbs(a) if nm.split("::")[1] in SHIFT else limbs(b) + limbs(a)) + REST
            ecases.append(gen_exec.case_line(2**20, st, [], "T 0 " + gen_exec.span(o)))
    xs = common.run_impl("exec", ecases, tag="c16e")
    ys = common.run_model("exec", ecases, tag="c16e")
    for c, x, y in zip(ecases, xs, ys):
        dist["model:%s" % x.split()[0]] += 1
        if x != y:
            rep.violation("the model and the processor disagree on a standard-library operation list",
                          {"kind": "correspondence", "family": "exec", "case": c, "impl": x[:400], "model": y[:400]})
            found = True
    rep.coverage["cases"] = len(cases) + len(ecases)
    rep.coverage["distribution"] = dict(dist)
    base.report_proof_failure(rep, "C16", pr, found)


def replay(rep, path):
    d = json.load(open(path))
    fam = d.get("family")
    if fam and d.get("case"):
        print("impl:", common.run_impl(fam, [d["case"]], tag="c16r")[0][:800])
        if fam == "exec":
            print("model:", common.run_model("exec", [d["case"]], tag="c16r")[0][:800])

"""C17 - standard-library hash functions agree with their reference definitions."""
import collections, hashlib, json, re
import common, gen_exec
from common import P
from props import base, c09

LEVEL = "proof"
U32 = 2**32


def words_be(b):
    return [int.from_bytes(b[i:i + 4], "big") for i in range(0, len(b), 4)]


def run(rep, tier, rng):
    n = 12 if tier == "quick" else 400
    common.prepare()
    pr = base.proof_and_report(rep, "C17")
    r = rng.fork("c17")
    dist = collections.Counter()
    found = False
    cases, queries, meta = [], [], []

    def rnd_bytes(rr, k):
        mode = rr.below(5)
        if mode == 0:
            return bytes(k)
        if mode == 1:
            return bytes([0xff]) * k
        if mode == 2:
            return bytes([0] * (k - 1) + [1])
        return bytes(rr.below(256) for _ in range(k))

    for i in range(n):
        rr = r.fork("h%d" % i)
        # SHA-256: 32 and 64 bytes as big-endian words, first word on top
        for k, proc in ((32, "hash_1to1"), (64, "hash_2to1")):
            b = rnd_bytes(rr, k)
            w = words_be(b)
            cases.append("200000 | %s 7 8 9 | | std | | use.std::crypto::hashes::sha256 begin exec.sha256::%s end" % (" ".join(map(str, w)), proc))
            queries.append("sha256 " + " ".join(map(str, w)))
            meta.append(("sha256::" + proc, 11, words_be(hashlib.sha256(b).digest())))
            # a second call in the same program (locals and memory of the first call are still around)
            w0 = words_be(rnd_bytes(rr, k))
            cases.append("400000 | %s %s 7 8 9 | | std | | use.std::crypto::hashes::sha256 begin exec.sha256::%s dropw dropw exec.sha256::%s end" % (" ".join(map(str, w0)), " ".join(map(str, w)), proc, proc))
            queries.append("sha256 " + " ".join(map(str, w)))
            meta.append(("sha256::" + proc + " (second call)", 11, words_be(hashlib.sha256(b).digest())))
        # BLAKE3: little-endian words
        for k, proc in ((32, "hash_1to1"), (64, "hash_2to1")):
            b = rnd_bytes(rr, k)
            w = [int.from_bytes(b[j:j + 4], "little") for j in range(0, k, 4)]
            cases.append("200000 | %s 7 8 9 | | std | | use.std::crypto::hashes::blake3 begin exec.blake3::%s end" % (" ".join(map(str, w)), proc))
            queries.append("blake3 " + " ".join(map(str, w)))
            meta.append(("blake3::" + proc, 11, None))
            w0 = [rr.below(U32) for _ in range(k // 4)]
            cases.append("400000 | %s %s 7 8 9 | | std | | use.std::crypto::hashes::blake3 begin exec.blake3::%s dropw dropw exec.blake3::%s end" % (" ".join(map(str, w0)), " ".join(map(str, w)), proc, proc))
            queries.append("blake3 " + " ".join(map(str, w)))
            meta.append(("blake3::" + proc + " (second call)", 11, None))
        # Keccak-256 of 64 bytes: lanes as (high, low) 32-bit halves, lane 0 on top
        b = rnd_bytes(rr, 64)
        lanes = [int.from_bytes(b[j:j + 8], "little") for j in range(0, 64, 8)]
        st = []
        for l in lanes:
            st += [l >> 32, l % U32]
        cases.append("400000 | %s 7 8 9 | | std | | use.std::crypto::hashes::keccak256 begin exec.keccak256::hash end" % " ".join(map(str, st)))
        queries.append("keccak " + " ".join(map(str, lanes)))
        meta.append(("keccak256::hash", 11, "lanes"))
        st0 = [rr.below(U32) for _ in range(16)]
        cases.append("800000 | %s %s 7 8 9 | | std | | use.std::crypto::hashes::keccak256 begin exec.keccak256::hash dropw dropw exec.keccak256::hash end" % (" ".join(map(str, st0)), " ".join(map(str, st))))
        queries.append("keccak " + " ".join(map(str, lanes)))
        meta.append(("keccak256::hash (second call)", 11, "lanes"))
    # native RPO helper: elements in memory, hash_memory over [start, end): every word count 0..7 (and some longer)
    # at odd and even start addresses, non-zero memory on both sides of the range, sentinels below
    combos = [(nw, start) for nw in range(8) for start in (0, 1, 1000, 1001, 2**32 - 10)] + [(rr_n, 2 + rr_n % 2) for rr_n in (9, 12, 17)]
    for ci, (nw, start) in enumerate(combos):
        rr = r.fork("hm%d" % ci)
        if start == 0 and nw == 0:
            start = 5
        els = [rr.choice([0, 1, P - 1, rr.below(P)]) for _ in range(4 * nw)]
        around = [[rr.below(P) or 1 for _ in range(4)] for _ in range(3)]
        words = [(start + j, els[4 * j:4 * j + 4]) for j in range(nw)] + [(start + nw, around[0]), (start + nw + 1, around[1])]
        if start > 0:
            words.append((start - 1, around[2]))
        store = " ".join("push.%s mem_storew.%d dropw" % (".".join(map(str, w)), a) for a, w in words)
        cases.append("200000 | 7 8 9 | | std | | use.std::crypto::hashes::native begin %s push.%d push.%d exec.native::hash_memory end" % (store, start + nw, start))
        queries.append("rpo " + " ".join(map(str, els)))
        meta.append(("native::hash_memory", 7, "rev789"))
    # sha256::hash_memory: message lengths around the padding boundaries (the program is the one the standard
    # library's own test uses to lay the message out in memory)
    SHA_MEM = ("use.std::crypto::hashes::sha256 begin push.10000 mem_store.0 mem_store.1 "
               "mem_load.1 u32assert u32overflowing_add.3 assertz u32assert u32div.4 mem_store.2 "
               "mem_load.2 u32assert neq.0 while.true mem_load.0 mem_storew dropw "
               "mem_load.0 u32assert u32overflowing_add.1 assertz mem_store.0 "
               "mem_load.2 u32assert u32overflowing_sub.1 assertz dup mem_store.2 u32assert neq.0 end "
               "mem_load.1 push.10000 exec.sha256::hash_memory end")
    lens = [0, 1, 3, 4, 31, 32, 54, 55, 56, 57, 63, 64, 65, 119, 120, 121, 127, 128] if tier == "quick" else list(range(0, 260))
    for L in lens:
        rr = r.fork("shm%d" % L)
        b = bytes(rr.below(256) for _ in range(L))
        pb = b + bytes((4 - L % 4) % 4)
        w = [int.from_bytes(pb[j:j + 4], "big") for j in range(0, len(pb), 4)]
        cases.append("4000000 | %d %s | | std | | %s" % (L, " ".join(map(str, w)), SHA_MEM))
        queries.append("sha256 0")       # placeholder: the reference for arbitrary lengths is hashlib
        meta.append(("sha256::hash_memory", 8, ("hashlib", words_be(hashlib.sha256(b).digest()))))
    outs = common.run_impl("masm", cases, tag="c17")
    refs = common.run_model("refhash", queries, tag="c17m")
    for (nm, k, extra), c, q, x, y in zip(meta, cases, queries, outs, refs):
        dist["%s:%s" % (nm, x.split()[0])] += 1
        if not y.startswith("OK"):
            raise common.BuildError("reference model failed on %s: %s" % (q, y))
        want = [int(v) for v in y[3:].split(",")]
        if isinstance(extra, tuple) and extra[0] == "hashlib":
            want, extra = extra[1], None
        if isinstance(extra, list) and extra != want:
            rep.violation("the SHA-256 reference model disagrees with hashlib", {"kind": "correspondence", "family": "refhash", "case": q, "model": y, "hashlib": extra})
            found = True
        if extra == "lanes":
            w2 = []
            for l in want:
                w2 += [l >> 32, l % U32]
            want = w2
        if extra == "rev789":
            want = list(reversed(want)) + [7, 8, 9]
        elif k == 11:
            want = want + [7, 8, 9]
        if nm == "native::hash_memory" and q == "rpo " and x.startswith("ERR AssertFailed"):
            # the empty range: hash_memory documents and enforces start_addr < end_addr
            dist["native::hash_memory:empty-range-rejected"] += 1
            continue
        if not x.startswith("OK") or c09.top_of(x, k) != want:
            rep.violation("%s does not return the reference digest" % nm,
                          {"kind": "search", "family": "masm", "case": c, "impl": x[:400], "reference": want, "model_case": q})
            found = True
    rep.coverage["cases"] = len(cases)
    rep.coverage["distribution"] = dict(dist)
    base.report_proof_failure(rep, "C17", pr, found)


def replay(rep, path):
    d = json.load(open(path))
    if d.get("family") == "masm" and d.get("case"):
        print("impl:", common.run_impl("masm", [d["case"]], tag="c17r")[0][:800])
    if d.get("model_case"):
        print("model:", common.run_model("refhash", [d["model_case"]], tag="c17r")[0][:400])

"""C18 - standard-library memory, stack and collection utilities keep their contracts."""
import collections, json, re
import common, gen_exec
from common import P
from props import base, c09

LEVEL = "proof"


def mem_of(line):
    """{addr: [w0..w3]} of context 0 from a masm/exec report"""
    m = re.search(r" mem=(\S*)", line)
    out = {}
    if m and m.group(1):
        for ent in m.group(1).split(";"):
            ctx, addr, w = ent.split(":")
            if ctx == "0":
                out[int(addr)] = [int(v) for v in w.split(",")]
    return out


def full_stack(line):
    m = re.search(r"stack=([\d,]+)", line)
    return [int(x) for x in m.group(1).split(",")] if m else None


def memcopy_model(n, r, w, mem):
    """the Coq model Asm/StdUtil.memcopy: one read then one write per word, ascending"""
    mem = dict(mem)
    for i in range(n):
        mem[w + i] = list(mem.get(r + i, [0, 0, 0, 0]))
    return mem


def run(rep, tier, rng):
    n = 30 if tier == "quick" else 1200
    common.prepare()
    pr = base.proof_and_report(rep, "C18")
    r = rng.fork("c18")
    dist = collections.Counter()
    found = False

    # ---- truncate_stack: every depth 16..80 --------------------------------------------------------
    cases, meta = [], []
    for depth in list(range(16, 81)) + [100, 200]:
        st = [1000 + k for k in range(depth)]
        cases.append("100000 | %s | | std | | use.std::sys begin exec.sys::truncate_stack end" % " ".join(map(str, st)))
        meta.append(st)
    for st, c, x in zip(meta, cases, common.run_impl("masm", cases, tag="c18t")):
        dist["truncate:%s" % x.split()[0]] += 1
        got = full_stack(x) if x.startswith("OK") else None
        if got != st[:16]:
            rep.violation("truncate_stack does not leave exactly the original top 16 elements (depth %d)" % len(st),
                          {"kind": "search", "family": "masm", "case": c, "impl": x[:500], "want": st[:16]})
            found = True

    # ---- memcopy: (pointer, length) pairs including overlap and zero length ------------------------------
    cases, meta = [], []
    for i in range(n):
        rr = r.fork("m%d" % i)
        ln = rr.choice([0, 1, 2, 3, 5, 8])
        rp = rr.choice([0, 10, 100, 2**31, 2**32 - 20])
        wp = rp + rr.choice([-ln - 3, -ln, -2, -1, 0, 1, 2, ln, ln + 3, 50]) if rr.chance(3, 4) else rr.choice([0, 7, 5000])
        if wp < 0 or wp + ln + 1 >= 2**32:
            wp = max(0, rp - ln - 4)      # keep every touched address (one past the ranges included) below 2^32
        mem = {}
        stores = []
        for a in sorted(set(list(range(rp, rp + ln + 1)) + list(range(wp, wp + ln + 1)))):
            wd = [rr.below(P) for _ in range(4)]
            mem[a] = wd
            stores.append("push.%s mem_storew.%d dropw" % (".".join(map(str, wd)), a))
        src = "use.std::mem begin %s push.%d push.%d push.%d exec.mem::memcopy end" % (" ".join(stores), wp, rp, ln)
        cases.append("200000 | 7 8 9 | | std | | " + src)
        meta.append((ln, rp, wp, mem))
    for (ln, rp, wp, mem), c, x in zip(meta, cases, common.run_impl("masm", cases, tag="c18m")):
        dist["memcopy:%s:%s" % ("overlap-forward" if rp < wp < rp + ln else "ok-range", x.split()[0])] += 1
        want = {a: w for a, w in memcopy_model(ln, rp, wp, mem).items() if any(w)}
        if not x.startswith("OK") or mem_of(x) != want or c09.top_of(x, 3) != [7, 8, 9]:
            rep.violation("memcopy does not move exactly the requested words (n=%d read=%d write=%d)" % (ln, rp, wp),
                          {"kind": "search", "family": "masm", "case": c, "impl": x[:700], "want": {str(k): v for k, v in want.items()}})
            found = True

    # ---- pipe_words_to_memory / pipe_preimage_to_memory: words, pointer and hash ---------------------------
    cases, queries, meta = [], [], []
    for i in range(n):
        rr = r.fork("p%d" % i)
        nw = rr.choice([1, 2, 3, 4, 5, 8])
        wp = rr.choice([0, 100, 2**20])
        els = [rr.choice([0, 1, P - 1, rr.below(P)]) for _ in range(4 * nw)]
        cases.append("200000 | 7 8 9 | %s | std | | use.std::mem begin push.%d push.%d exec.mem::pipe_words_to_memory end" % (" ".join(map(str, els)), wp, nw))
        queries.append("rpo " + " ".join(map(str, els)))
        meta.append((nw, wp, els))
    outs = common.run_impl("masm", cases, tag="c18p")
    refs = common.run_model("refhash", queries, tag="c18r")
    pre = []
    for (nw, wp, els), c, x, y in zip(meta, cases, outs, refs):
        dist["pipe:%s" % x.split()[0]] += 1
        h = list(reversed([int(v) for v in y[3:].split(",")]))
        want_mem = {wp + j: els[4 * j:4 * j + 4] for j in range(nw) if any(els[4 * j:4 * j + 4])}
        if not x.startswith("OK") or c09.top_of(x, 8) != h + [wp + nw, 7, 8, 9] or mem_of(x) != want_mem:
            rep.violation("pipe_words_to_memory does not return the RPO hash / pointer or does not store the words (%d words)" % nw,
                          {"kind": "search", "family": "masm", "case": c, "impl": x[:700], "want_top": h + [wp + nw], "model_case": queries[0]})
            found = True
        else:
            # the commitment check of pipe_preimage_to_memory: right and wrong commitments
            com = list(reversed(h))
            for bad in (0, 1):
                cm = list(com)
                if bad:
                    cm[rr.below(4) if False else 0] = (cm[0] + 1) % P
                pre.append((bad, "200000 | 7 8 9 | %s | std | | use.std::mem begin push.%s push.%d push.%d exec.mem::pipe_preimage_to_memory end" %
                            (" ".join(map(str, els)), ".".join(map(str, cm)), wp, nw), wp + nw))
    for (bad, c, ptr), x in zip(pre, common.run_impl("masm", [c for _, c, _ in pre], tag="c18q")):
        dist["preimage:%s:%s" % ("bad" if bad else "good", x.split()[0])] += 1
        if bad and x.startswith("OK"):
            rep.violation("pipe_preimage_to_memory accepts a wrong commitment", {"kind": "search", "family": "masm", "case": c, "impl": x[:400]})
            found = True
        if not bad and (not x.startswith("OK") or c09.top_of(x, 4) != [ptr, 7, 8, 9]):
            rep.violation("pipe_preimage_to_memory rejects the right commitment or returns a wrong pointer", {"kind": "search", "family": "masm", "case": c, "impl": x[:400]})
            found = True

    # ---- sparse Merkle tree: operation sequences against miden-crypto's Smt -------------------------------
    cases = []
    for i in range(n):
        rr = r.fork("s%d" % i)
        keys = []
        ops = []
        for _ in range(3 + rr.below(8)):
            if keys and rr.chance(1, 2):
                k = rr.choice(keys)
            elif keys and rr.chance(1, 4):
                # another key in the same leaf (same most significant element): unrelated, or equal to a
                # present key except for exactly one of the other elements
                k0 = rr.choice(keys)
                if rr.chance(1, 3):
                    k = [rr.below(P), rr.below(P), rr.below(P), k0[3]]
                else:
                    k = list(k0)
                    j = rr.below(3)
                    k[j] = (k[j] + rr.choice([1, P - 1, 2**32])) % P
            else:
                k = [rr.choice([0, 1, P - 1, rr.below(P)]) for _ in range(3)] + [rr.choice([0, 1, 2**63, 2**32 - 1, P - 1, rr.below(P), rr.below(P)])]
            if k not in keys:
                keys.append(k)
            if rr.chance(3, 5):
                v = [0, 0, 0, 0] if rr.chance(1, 4) else [rr.choice([0, 1, P - 1, rr.below(P)]) for _ in range(4)]
                ops.append("s " + " ".join(map(str, k + v)))
            else:
                ops.append("g " + " ".join(map(str, k)))
        cases.append(" ; ".join(ops))
    # a present key and the absent keys that differ from it in exactly one of the elements 0..2 (same leaf)
    for i in range(4 if tier == "quick" else 60):
        rr = r.fork("sk%d" % i)
        k0 = [rr.choice([0, 1, P - 1, rr.below(P)]) for _ in range(4)]
        v0 = [1 + rr.below(P - 1) for _ in range(4)]
        for j in range(3):
            for dlt in (1, P - 1, 2**32):
                k1 = list(k0)
                k1[j] = (k1[j] + dlt) % P
                cases.append(" ; ".join(["s " + " ".join(map(str, k0 + v0)), "g " + " ".join(map(str, k1)), "g " + " ".join(map(str, k0)),
                                         "s " + " ".join(map(str, k1 + [0, 0, 0, 0])), "g " + " ".join(map(str, k0))]))
    for c, x in zip(cases, common.run_impl("smt", cases, tag="c18s")):
        toks = x.split()
        if x.startswith("PANIC") or len(toks) != len(c.split(";")):
            rep.violation("the SMT harness did not complete", {"kind": "search", "family": "smt", "case": c, "impl": x[:600]})
            found = True
            continue
        for j, t in enumerate(toks):
            kind, op, res = t.split(":", 2)
            dist["smt:%s:%s:%s" % (kind, op, res.split("(")[0])] += 1
            if res == "ok":
                continue
            d = {"kind": "search", "family": "smt", "case": c, "impl": x[:900], "op_index": j, "leaf": kind, "op": op}
            if res.startswith("err(") and kind in ("S!", "M"):
                d["class"] = "smt-get-other-key" if (op, kind) == ("get", "S!") else "smt-multi-leaf"
            rep.violation("smt::%s differs from the native sparse Merkle tree at operation %d (leaf %s): %s" % (op, j, kind, res[:200]), d)
            found = True

    # ---- Merkle mountain range: add / get / pack / unpack against miden-crypto's Mmr -------------------------
    cases = []
    for k in list(range(0, 20 if tier == "quick" else 70)) + [31, 32, 33]:
        cases.append("%d %d %d %d" % (r.choice([0, 1000, 2**20]), 3000000, k, r.below(10**6)))
    # the same scenario inside the fresh context of a called procedure (memory and advice map of that context)
    for k in (1, 2, 5, 8, 17):
        cases.append("%d %d %d %d c" % (r.choice([0, 1000]), 3000000, k, r.below(10**6)))
    for nl in [1, 2, 3, 5, 0xffff, 0x1ffff, 0x2ffff, 0x3ffff, 2**31, 2**32 - 1, 2**32 - 2] + [r.below(2**32) for _ in range(n // 3)]:
        cases.append("%d %d %d %d 1" % (r.choice([0, 1000]), 3000000, nl, r.below(10**6)))
    for c, x in zip(cases, common.run_impl("mmr", cases, tag="c18r")):
        dist["mmr:%s" % x.split()[0]] += 1
        f = dict(kv.split("=", 1) for kv in x.split()[1:]) if x.startswith("OK") else {}
        bad = [k for k, v in f.items() if (k == "get" and v != "-") or (k not in ("get", "peaks") and v == "0") or (k == "peaks" and v == "0" and (len(c.split()) == 4 or c.endswith(" c")))]
        if not x.startswith("OK") or bad:
            rep.violation("the MMR procedures differ from the native Merkle mountain range (%s)" % (",".join(bad) or x[:80]),
                          {"kind": "search", "family": "mmr", "case": c, "impl": x[:600]})
            found = True

    # positions outside the MMR: the native Mmr::get reports an error, mmr::get must fail as well
    ocs = []
    for nl in (1, 2, 3, 5, 6, 7, 8, 12):
        src = "use.std::collections::mmr begin " + " ".join("push.1000 push.%d.%d.%d.%d exec.mmr::add" % (i + 1, i + 11, i + 21, i + 31) for i in range(nl))
        for pos in sorted({nl, nl + 1, nl + 2, 2 * nl, 2 * nl + 1, 4 * nl, 2**31, 2**32 - 1}):
            ocs.append((nl, pos, "400000 | 7 8 9 | | std | | %s push.1000 push.%d exec.mmr::get end" % (src, pos)))
    for (nl, pos, c), x in zip(ocs, common.run_impl("masm", [c for _, _, c in ocs], tag="c18o")):
        dist["mmr-get-out-of-range:%s" % x.split()[0]] += 1
        if x.startswith("OK") or x.startswith("PANIC"):
            rep.violation("mmr::get of position %d in an MMR with %d leaves does not fail (%s)" % (pos, nl, x[:60]),
                          {"kind": "search", "family": "masm", "case": c, "impl": x[:300]})
            found = True

    rep.coverage["cases"] = sum(dist.values())
    rep.coverage["distribution"] = dict(dist)
    base.report_proof_failure(rep, "C18", pr, found)


def replay(rep, path):
    d = json.load(open(path))
    if d.get("case"):
        print("impl:", common.run_impl(d.get("family", "masm"), [d["case"]], tag="c18x")[0][:900])

"""C19 - decoders of untrusted bytes never panic and accept only what they can re-encode."""
import collections, json, os, re, subprocess
import common, gen_serde
from common import P
from props import base, c10

LEVEL = "proof"

# messages of rejections that happen in the byte-level decoder itself (as opposed to the validation
# of names, paths and UTF-8 that the model does not cover): the model must reject these inputs too
DECODER_MSG = re.compile(r"could_not_read_a_valid_opcode|invalid_push_values|invalid_offset|is_not_a_boolean|"
                         r"^\d+$|field_modulus|appropriate_range|hash_function|invalid_field_element")
HAS_MAPS = lambda kind, h: kind == "lib" or (kind in ("prog", "mod") and h.startswith("01"))


def seeds(r, tier):
    """Valid encodings of every kind, produced by the implementation and by the model."""
    nsrc = 60 if tier == "quick" else 600
    ngen = 80 if tier == "quick" else 1500
    ndata = 80 if tier == "quick" else 800
    items = []
    srcs = [("prog", 0, s) for s in gen_serde.catalogue_sources(r.fork("cat"))]
    for i in range(nsrc):
        rr = r.fork("s%d" % i)
        kind = rr.choice(["prog", "prog", "mod", "mod", "lib"])
        if kind == "prog":
            s = gen_serde.program(rr, depth=1 + rr.below(3))
        elif kind == "mod":
            s = gen_serde.module(rr, depth=1 + rr.below(3))
        else:
            s = "\n----\n".join(gen_serde.module(rr, depth=1) for _ in range(1 + rr.below(2)))
        srcs.append((kind, rr.below(2), s))
    cases = ["src %s %dn %s" % (k, imp, s.encode().hex()) for k, imp, s in srcs]
    cases += c10.data_cases(r.fork("data"), ndata)
    for c, o in zip(cases, common.run_impl("serde", cases, tag="c19seed")):
        if o.startswith("OK"):
            k = c.split()[1]
            items.append(("si" if k == "adv" else k, c10.kv(o)["bytes"]))
    gcases = ["gen %s %d %d" % (r.choice(["prog", "mod"]), r.fork("g%d" % i).below(2**62), 1 + i % 4) for i in range(ngen)]
    for c, o in zip(gcases, common.run_model("serde", gcases, tag="c19gen")):
        if o.startswith("OK bytes="):
            items.append((c.split()[1], o[len("OK bytes="):]))
    return items


def compare(rep, kind, h, impl, model, dist, second):
    """One input through both decoders.  Returns True when a violation was reported."""
    case = "dec %s %s" % (kind, h)
    cls = impl.split()[0]
    dist["%s:%s" % (kind, cls if cls != "ERR" else "ERR-" + (impl.split() + ["?", "?"])[1])] += 1
    if cls == "PANIC":
        rep.violation("the %s decoder panicked on untrusted bytes: %s" % (kind, impl[:160]),
                      {"kind": "search", "family": "serde", "case": case, "impl": impl[:600]})
        return True
    if cls == "APIDIFF":
        rep.violation("from_bytes and read_from disagree on a %s: %s" % (kind, impl[:160]),
                      {"kind": "search", "family": "serde", "case": case, "impl": impl[:600]})
        return True
    if cls == "OK":
        d = c10.kv(impl)
        if d.get("eq2") != "1" or d.get("api") != "1":
            rep.violation("an accepted %s does not re-serialise to bytes that decode to an equal value" % kind,
                          {"kind": "search", "family": "serde", "case": case, "impl": impl[:1500]})
            return True
        if not model.startswith("OK"):
            rep.violation("the implementation accepts %s bytes that the model's decoder rejects" % kind,
                          {"kind": "correspondence", "family": "serde", "case": case, "impl": impl[:600], "model": model[:300]})
            return True
        if HAS_MAPS(kind, h):
            second.append((kind, d["reenc"], "reencoded"))
        elif model != "OK reenc=" + d["reenc"]:
            rep.violation("implementation and model re-encode an accepted %s differently" % kind,
                          {"kind": "correspondence", "family": "serde", "case": case, "impl": impl[:800], "model": model[:800]})
            return True
        return False
    # implementation rejects
    if model.startswith("OK"):
        toks = impl.split()
        msg = "_".join(toks[2:]) if len(toks) > 2 else ""
        if toks[1] == "UnexpectedEOF" or (toks[1] == "InvalidValue" and DECODER_MSG.search(msg)):
            rep.violation("the implementation rejects %s bytes that the model's decoder accepts (%s)" % (kind, impl[:80]),
                          {"kind": "correspondence", "family": "serde", "case": case, "impl": impl[:600], "model": model[:300]})
            return True
        dist["%s:rejected-by-validation" % kind] += 1
    return False


def deep_nesting(rep, dist):
    """Bodies nested tens of thousands deep: the decoder is recursive.  Each probe runs in its own
    process because a stack overflow kills it."""
    found = False
    for depth in (2000, 40000):
        b = bytes([0, 0, 0, 1, 0]) + bytes([0xff, 1, 0]) * depth + bytes([0xff, 0, 0])
        path = os.path.join(common.WORK, "c19deep.cases")
        open(path, "w").write("dec prog " + b.hex() + "\n")
        p = subprocess.run([common.MVH, "run", "serde", path], capture_output=True, text=True, timeout=600)
        ok = p.returncode == 0 and "@@ OK" in p.stdout
        dist["deep:%d:%s" % (depth, "ok" if ok else "rc=%d" % p.returncode)] += 1
        if not ok:
            rep.violation("ProgramAst::from_bytes aborts the process (stack overflow) on %d nested while bodies (%d bytes)" % (depth, len(b)),
                          {"kind": "search", "family": "serde", "case": "dec prog <00 0000 0100 + (ff 0100) x %d + ff 0000>" % depth,
                           "class": "deep-nesting-stack-overflow", "min_depth": 10000 <= depth,
                           "depth": depth, "returncode": p.returncode, "stderr": p.stderr[-300:]})
            found = True
    return found


def run(rep, tier, rng):
    nmut = 6 if tier == "quick" else 40
    nrand = 300 if tier == "quick" else 20000
    nproof = 3 if tier == "quick" else 12
    pmut = 25 if tier == "quick" else 400
    common.prepare()
    pr = base.proof_and_report(rep, "C19")
    r = rng.fork("c19")
    dist = collections.Counter()
    found = False

    items = seeds(r, tier)
    inputs = []
    for i, (k, h) in enumerate(items):
        b = bytes.fromhex(h)
        rr = r.fork("m%d" % i)
        inputs.append((k, h))
        for j in range(nmut):
            m = b
            for _ in range(1 + rr.below(3)):
                m = gen_serde.mutate_string(m, rr) if rr.chance(1, 4) else gen_serde.mutate(m, rr)
            inputs.append((k, m.hex()))
    # non-canonical field elements written over every 8-byte field of the data containers (aligned from
    # the start after the possible length prefixes, and from the end)
    per_kind = collections.Counter()
    M = 2**64 - 2**32 + 1
    for k, h in items:
        if k not in ("si", "so", "kern", "pinfo") or per_kind[k] >= (12 if tier == "quick" else 200):
            continue
        b = bytes.fromhex(h)
        if len(b) < 8:
            continue
        per_kind[k] += 1
        offs = set()
        for start in (0, 1, 2, 4, 8, len(b) % 8):
            offs.update(range(start, len(b) - 7, 8))
        for o in sorted(offs):
            for v in (M, M + 5, 2**64 - 1):
                inputs.append((k, (b[:o] + v.to_bytes(8, "little") + b[o + 8:]).hex()))
    # every length field at its largest value, and one step around it
    for k, b in gen_serde.boundary_encodings():
        inputs.append((k, b.hex()))
    kinds = ["prog", "mod", "lib", "si", "so", "kern", "pinfo"]
    for i in range(nrand):
        rr = r.fork("r%d" % i)
        n = rr.choice([0, 1, 2, 3, 5, 8, 16, 40, 100])
        lead = rr.choice([[], [0], [1], [0, 0, 0], [1, 0, 0, 0, 0]])
        inputs.append((rr.choice(kinds), bytes(lead + [rr.below(256) for _ in range(n)]).hex()))
    inputs = [(k, h) for k, h in base_corpus()] + inputs
    cases = ["dec %s %s" % (k, h) for k, h in inputs]
    a = common.run_impl("serde", cases, tag="c19i")
    b = common.run_model("serde", cases, tag="c19m")
    second = []
    for (k, h), x, y in zip(inputs, a, b):
        found |= compare(rep, k, h, x, y, dist, second)
    # canonical forms of map-carrying containers are fixed points of the model's codec
    found |= c10.model_check(rep, second, "c19m2", dist)

    # ---- execution proofs ---------------------------------------------------------------------------
    pcs = ["val proof %d" % (1 + i) for i in range(nproof)]
    pouts = common.run_impl("serde", pcs, tag="c19p")
    vcases = []
    for c, o in zip(pcs, pouts):
        if not o.startswith("OK") or " eq=1 verify=ok" not in o:
            rep.violation("an honest proof does not survive to_bytes/from_bytes/verify: %s" % o[-60:],
                          {"kind": "search", "family": "serde", "case": c, "impl": o[-300:]})
            found = True
            continue
        d = c10.kv(o)
        pb = bytes.fromhex(d["bytes"])
        rr = r.fork("p" + c)
        for j in range(pmut):
            m = pb
            k = rr.below(6)
            if k == 0:
                m = pb[:rr.below(len(pb))]
            elif k == 1:
                # header bytes: trace layout, options, counts
                i = rr.below(min(64, len(pb)))
                m = pb[:i] + bytes([rr.choice([0, 1, 0xff, rr.below(256)])]) + pb[i + 1:]
            else:
                for _ in range(1 + rr.below(3)):
                    m = gen_serde.mutate(m, rr)
            vcases.append("dec proofv %s:%s:%s:%s" % (m.hex(), d["pinfo"], d["si"], d["so"]))
    vouts = common.run_impl("serde", vcases, tag="c19v")
    for c, o in zip(vcases, vouts):
        cls = o.split()[0]
        dist["proof:%s" % (o if cls == "OK" else cls + ":" + (o.split() + ["?"])[1])[:60]] += 1
        if cls == "PANIC":
            rep.violation("decoding or verifying a mutated proof panicked: %s" % o[:200],
                          {"kind": "search", "family": "serde", "case": c[:200] + "...", "case_file_line": c, "impl": o[:600],
                           "class": "proof-panic", "message": re.sub(r"\d+", "N", o[:160])})
            found = True
        elif cls == "OK" and "eq2=1" not in o:
            rep.violation("an accepted proof does not re-serialise to an equal proof",
                          {"kind": "search", "family": "serde", "case": c[:200] + "...", "case_file_line": c, "impl": o[:600]})
            found = True

    found |= deep_nesting(rep, dist)
    rep.coverage["cases"] = len(cases) + len(second) + len(vcases) + 2
    rep.coverage["distribution"] = dict(dist)
    base.report_proof_failure(rep, "C19", pr, found)


def base_corpus():
    out = []
    for l in base.corpus("C19"):
        t = l.split()
        if len(t) >= 2 and t[0] == "dec":
            out.append((t[1], t[2] if len(t) > 2 else ""))
    return out


def replay(rep, path):
    d = json.load(open(path))
    case = d.get("case_file_line") or d.get("case")
    if not case or "<" in case:
        print("replay:", json.dumps(d)[:600])
        return
    print("impl:", common.run_impl("serde", [case], tag="c19r")[0][:600])
    if not case.startswith("dec proofv"):
        print("model:", common.run_model("serde", [case], tag="c19r")[0][:600])

"""Translator: the AST instruction codec of /repo (assembly/src/ast/nodes/serde/*.rs, advice.rs)
-> coq/Gen/SerdeGen.v.

What is read from the Rust text:
  * the OpCode enum (names and discriminants);
  * every arm of `impl Serializable for Instruction` (variant -> opcode written, fields written);
  * every arm of `impl Deserializable for Instruction` (opcode -> variant built, fields read);
  * the tag tables of AdviceInjectorNode, DebugOptions and SignatureKind, both directions;
  * the constants those depend on.
Each arm becomes a row (name, tag, schema) of the schema language of coq/Serde/Codec.v.  An arm the
translator does not recognise is listed in `untranslated`, which the agreement theorem requires
to be empty -- so an edit it cannot follow breaks the proof and hands over to the search."""
import os, re
import common

A = os.path.join(common.REPO, "assembly", "src")


def read(rel):
    with open(os.path.join(A, rel)) as f:
        return f.read()


def strip_comments(s):
    return re.sub(r"//[^\n]*", "", s)


def balanced(s, i, open_ch="{", close_ch="}"):
    """s[i] == open_ch; returns index just past the matching close."""
    d = 0
    for j in range(i, len(s)):
        if s[j] == open_ch:
            d += 1
        elif s[j] == close_ch:
            d -= 1
            if d == 0:
                return j + 1
    raise ValueError("unbalanced")


def block_after(s, header_re):
    m = re.search(header_re, s)
    if not m:
        return None
    i = s.index("{", m.end() - 1) if s[m.end() - 1] != "{" else m.end() - 1
    return s[i + 1:balanced(s, i) - 1]


def match_arms(body):
    """Split the body of a `match x { ... }` into (pattern, expr) pairs."""
    arms = []
    i, n = 0, len(body)
    while i < n:
        while i < n and body[i] in " \t\n,":
            i += 1
        if i >= n:
            break
        j = body.find("=>", i)
        if j < 0:
            break
        pat = body[i:j].strip()
        k = j + 2
        while body[k] in " \t\n":
            k += 1
        if body[k] == "{":
            e = balanced(body, k)
            expr = body[k + 1:e - 1]
            i = e
        else:
            # expression up to the next top-level comma
            d = 0
            e = k
            while e < n:
                c = body[e]
                if c in "([{":
                    d += 1
                elif c in ")]}":
                    d -= 1
                elif c == "," and d == 0:
                    break
                e += 1
            expr = body[k:e]
            i = e + 1
        arms.append((pat, " ".join(expr.split())))
    return arms


def the_match(fn_body):
    m = re.search(r"match\s+[^{]+\{", fn_body)
    i = m.end() - 1
    return fn_body[i + 1:balanced(fn_body, i) - 1]


def split_stmts(body):
    """Statements of a block: split at `;` and after `}` at brace depth 0."""
    out, cur, d = [], "", 0
    for c in body:
        if c == "{":
            d += 1
        if c == ";" and d == 0:
            out.append(cur)
            cur = ""
            continue
        cur += c
        if c == "}":
            d -= 1
            if d == 0 and cur.lstrip().startswith("if "):
                out.append(cur)
                cur = ""
    out.append(cur)
    return [" ".join(x.split()) for x in out if x.strip()]


INT = {"8": "SU8", "16": "SU16", "32": "SU32", "64": "SU64"}


def pair_up(fields):
    if not fields:
        return "SUnit"
    if len(fields) == 1:
        return fields[0]
    return "(SPair %s %s)" % (fields[0], pair_up(fields[1:]))


class Tr:
    def __init__(self):
        self.untranslated = []
        self.consts = {}
        self.side = ""     # "_w" while translating writer code

    def bad(self, where, text):
        self.untranslated.append("%s: %s" % (where, text[:120].replace('"', "'")))
        return "SUnit"

    # ---- typed sub-objects --------------------------------------------------------------------
    def typed(self, ty, where):
        ty = ty.strip()
        if ty == "Felt":
            return "SFelt"
        if ty == "ProcedureId":
            return "(SArr %d SU8)" % self.consts["PROC_ID_SIZE"]
        if ty == "RpoDigest":
            return "(SArr 4 SFelt)"
        if ty == "AdviceInjectorNode":
            return "S_ADVICE" + self.side
        m = re.match(r"\[Felt; (\d+)\]", ty)
        if m:
            return "(SArr %s SFelt)" % m.group(1)
        return self.bad(where, "type " + ty)

    # ---- writer statements -> fields ----------------------------------------------------------
    def ser_fields(self, stmts, payload, where, sub):
        """stmts: list of statements (opcode/tag write already removed)."""
        self.side = "_w"
        try:
            return self.ser_fields_(stmts, payload, where, sub)
        finally:
            self.side = ""

    def ser_fields_(self, stmts, payload, where, sub):
        fields = []
        i = 0
        while i < len(stmts):
            st = stmts[i]
            m = re.fullmatch(r"target\.write_u(8|16|32|64)\(\*?\w+\)", st)
            if m:
                fields.append(INT[m.group(1)])
                i += 1
                continue
            m = re.fullmatch(r"target\.write_u8\((\w+)\.len\(\) as u8\)", st)
            if m and i + 1 < len(stmts):
                nxt = stmts[i + 1]
                m2 = re.fullmatch(r"(\w+)\.iter\(\)\.for_each\(\|&v\| target\.write_u(8|16|32|64)\(v\)\)", nxt)
                m3 = re.fullmatch(r"(\w+)\.iter\(\)\.for_each\(\|&v\| v\.write_into\(target\)\)", nxt)
                if m2 and m2.group(1) == m.group(1):
                    fields.append("(SSeq SU8 %s)" % INT[m2.group(2)])
                    i += 2
                    continue
                if m3 and m3.group(1) == m.group(1) and payload.startswith("Vec<") and payload.endswith(">"):
                    fields.append("(SSeq SU8 %s)" % self.typed(payload[4:-1], where))
                    i += 2
                    continue
            m = re.fullmatch(r"(\w+)\.iter\(\)\.for_each\(\|&v\| v\.write_into\(target\)\)", st)
            if m and re.match(r"\[\w+; \d+\]", payload):
                fields.append(self.typed(payload, where))
                i += 1
                continue
            m = re.fullmatch(r"(\w+)\.write_into\(target\)", st)
            if m and payload:
                fields.append(self.typed(payload, where))
                i += 1
                continue
            m = re.fullmatch(r"(\w+)::write_options_into\(target, \w+\)", st)
            if m and m.group(1) in sub:
                fields.append(sub[m.group(1)] + "_w")
                i += 1
                continue
            fields.append(self.bad(where, st))
            i += 1
        return pair_up(fields)

    # ---- reader expressions -> fields ---------------------------------------------------------
    def de_expr(self, e, where, sub):
        e = e.strip()
        m = re.fullmatch(r"source\.read_u(8|16|32|64)\(\)\??", e)
        if m:
            return INT[m.group(1)]
        m = re.fullmatch(r"(\w+)::read_from\(source\)\??", e)
        if m:
            return self.typed(m.group(1), where)
        m = re.fullmatch(r"\[(.*)\]", e)
        if m:
            items = [x.strip() for x in m.group(1).split(",") if x.strip()]
            kinds = {self.de_expr(x, where, sub) for x in items}
            if len(kinds) == 1:
                return "(SArr %d %s)" % (len(items), kinds.pop())
        m = re.fullmatch(r"(\w+)::read_options_from\(source\)\??", e)
        if m and m.group(1) in sub:
            return sub[m.group(1)]
        return self.bad(where, e)

    def de_block(self, body, where, sub, ctor_re):
        """A block arm: `let x = <read>; [if x <cmp> C { return Err(..) }] ... Ok(Ctor(..))`.
        Returns (constructor name, schema)."""
        stmts = split_stmts(body)
        fields = {}
        order = []
        ctor = None
        k = 0
        while k < len(stmts):
            st = stmts[k]
            m = re.fullmatch(r"let (\w+) = parse_num_push_params\(source\)\?", st)
            if m and k + 1 < len(stmts):
                m2 = re.fullmatch(r"\(0\.\.%s\) \.map\(\|_\| (.+?)\) \.collect::<Result<_, _>>\(\) \.map\(%s\)"
                                  % (m.group(1), ctor_re), stmts[k + 1])
                if m2:
                    elem = self.de_expr(m2.group(1) + "?", where, sub)
                    lo, hi = self.consts["PUSH_RANGE"]
                    return m2.group(2), "(SSeq (SRange %d %d SU8) %s)" % (lo, hi, elem)
            m = re.fullmatch(r"let (\w+) = (.+)", st)
            if m:
                sch = self.de_expr(m.group(2), where, sub)
                # a following guard on the variable narrows an integer
                if k + 1 < len(stmts):
                    g = re.fullmatch(r"if %s (>|==) (\w+) \{ return Err\(.*\);? \}" % m.group(1), stmts[k + 1])
                    if g and sch in INT.values():
                        top = {"SU8": 255, "SU16": 65535, "SU32": 2**32 - 1, "SU64": 2**64 - 1}[sch]
                        cv = g.group(2)
                        cval = int(cv) if cv.isdigit() else self.consts.get(cv)
                        if cval is None:
                            self.bad(where, st + " ; " + stmts[k + 1])
                        elif g.group(1) == ">":
                            sch = "(SRange 0 %d %s)" % (cval, sch)
                        elif g.group(1) == "==" and cval == 0:
                            sch = "(SRange 1 %d %s)" % (top, sch)
                        else:
                            self.bad(where, stmts[k + 1])
                        k += 1
                fields[m.group(1)] = sch
                order.append(m.group(1))
                k += 1
                continue
            m = re.fullmatch(r"Ok\(%s(?:\((.*)\)| \{ (.*) \})?\)" % ctor_re, st)
            if m:
                ctor = m.group(1)
                args = m.group(2) if m.group(2) is not None else m.group(3)
                used = []
                if args:
                    for a in [x.strip() for x in args.split(",") if x.strip()]:
                        if ":" in a:
                            nm, ex = [y.strip() for y in a.split(":", 1)]
                            if ex in fields:
                                used.append(fields[ex])
                            else:
                                used.append(self.de_expr(ex, where, sub))
                        elif a in fields:
                            used.append(fields[a])
                        else:
                            used.append(self.de_expr(a, where, sub))
                if [a for a in order if fields[a] not in used] and len(used) != len(order):
                    self.bad(where, "unused reads in " + body)
                return ctor, pair_up(used)
            self.bad(where, st)
            k += 1
        self.bad(where, "no constructor in " + body)
        return ctor or "?", "SUnit"

    def de_arm(self, expr, where, sub, ctor_re):
        m = re.fullmatch(r"Ok\(%s\)" % ctor_re, expr)
        if m:
            return m.group(1), "SUnit"
        m = re.fullmatch(r"Ok\(%s\((.*)\)\)" % ctor_re, expr)
        if m and ";" not in expr:
            args = m.group(2)
            if args.startswith("["):
                return m.group(1), self.de_expr(args.rstrip(",").strip(), where, sub)
            parts = [x.strip() for x in args.split(",") if x.strip()]
            return m.group(1), pair_up([self.de_expr(p, where, sub) for p in parts])
        return self.de_block(expr, where, sub, ctor_re)


def tag_tables(tr, text, enum_name, ser_fn_re, de_fn_re, sub, where):
    """Tables of a u8-tagged enum: ([(variant, tag, schema)], [(tag, variant, schema)])."""
    consts = {m.group(1): int(m.group(2)) for m in re.finditer(r"const (\w+): u8 = (\d+);", text)}
    ser_rows, de_rows = [], []
    sb = block_after(text, ser_fn_re)
    db = block_after(text, de_fn_re)
    if sb is None or db is None:
        tr.bad(where, "functions not found")
        return ser_rows, de_rows
    for pat, expr in match_arms(the_match(sb)):
        v = re.match(r"(?:\w+::)?(\w+)", pat).group(1)
        stmts = [s.strip() for s in expr.split(";") if s.strip()]
        m = re.fullmatch(r"target\.write_u8\((\w+)\)", stmts[0]) if stmts else None
        if not m or m.group(1) not in consts:
            tr.bad(where + " ser " + v, expr)
            continue
        ser_rows.append((v, consts[m.group(1)], tr.ser_fields(stmts[1:], "", where + " ser " + v, sub)))
    ctor_re = r"(?:%s::)(\w+)" % enum_name
    for pat, expr in match_arms(the_match(db)):
        if pat not in consts:
            if re.fullmatch(r"\w+", pat) and "Err(" in expr:
                continue  # the catch-all error arm
            tr.bad(where + " de", pat + " => " + expr)
            continue
        v, sch = tr.de_arm(expr, where + " de " + pat, sub, ctor_re)
        de_rows.append((consts[pat], v, sch))
    return ser_rows, de_rows


def translate():
    tr = Tr()
    lib_rs = read("lib.rs")
    tr.consts["MAX_PUSH_INPUTS"] = int(re.search(r"const MAX_PUSH_INPUTS: usize = (\d+);", lib_rs).group(1))
    tr.consts["MAX_STACK_WORD_OFFSET"] = int(re.search(r"const MAX_STACK_WORD_OFFSET: u8 = (\d+);", read("ast/mod.rs")).group(1))
    tr.consts["PROC_ID_SIZE"] = int(re.search(r"pub const SIZE: usize = (\d+);", read("procedures/mod.rs")).group(1))

    mod_rs = strip_comments(read("ast/nodes/serde/mod.rs"))
    ser_rs = strip_comments(read("ast/nodes/serde/serialization.rs"))
    de_rs = strip_comments(read("ast/nodes/serde/deserialization.rs"))
    nodes_rs = strip_comments(read("ast/nodes/mod.rs"))

    # push-list length check
    pm = re.search(r"fn parse_num_push_params.*?\{(.*?)\n\}", de_rs, re.S)
    ptxt = " ".join(pm.group(1).split()) if pm else ""
    if re.search(r"let length = source\.read_u8\(\)\? as usize; if !\(1\.\.=MAX_PUSH_INPUTS\)\.contains\(&length\) \{ Err", ptxt):
        tr.consts["PUSH_RANGE"] = (1, tr.consts["MAX_PUSH_INPUTS"])
    else:
        tr.consts["PUSH_RANGE"] = (0, 255)
        tr.bad("parse_num_push_params", ptxt)

    # opcode enum
    enum = block_after(mod_rs, r"pub enum OpCode \{")
    opcodes = [(m.group(1), int(m.group(2))) for m in re.finditer(r"(\w+) = (\d+),", enum)]

    # payload types of Instruction variants
    ienum = block_after(nodes_rs, r"pub enum Instruction \{")
    payload = {}
    for m in re.finditer(r"(\w+)(?:\(([^)]*)\))?,", ienum):
        payload[m.group(1)] = (m.group(2) or "").replace("ErrorCode", "u32")

    # sub-tables
    sig_ser, sig_de = tag_tables(tr, strip_comments(read("ast/nodes/serde/signatures.rs")), "SignatureKind",
                                 r"pub fn write_options_into[^{]*\{", r"pub fn read_options_from[^{]*\{", {}, "signatures")
    dbg_ser, dbg_de = tag_tables(tr, strip_comments(read("ast/nodes/serde/debug.rs")), "DebugOptions",
                                 r"pub fn write_options_into[^{]*\{", r"pub fn read_options_from[^{]*\{", {}, "debug")
    adv_txt = strip_comments(read("ast/nodes/advice.rs"))
    adv_ser, adv_de = tag_tables(tr, adv_txt, "AdviceInjectorNode",
                                 r"impl Serializable for AdviceInjectorNode \{\s*fn write_into[^{]*\{",
                                 r"impl Deserializable for AdviceInjectorNode \{\s*fn read_from[^{]*\{",
                                 {"signatures": "S_SIG"}, "advice")

    sub = {"debug": "S_DEBUG"}
    # instruction serialisation
    sb = block_after(ser_rs, r"impl Serializable for Instruction \{\s*fn write_into[^{]*\{")
    iser = []
    for pat, expr in match_arms(the_match(sb)):
        m = re.fullmatch(r"Self::(\w+)(?:\((\w+)\))?", pat)
        if not m:
            tr.bad("instr ser", pat)
            continue
        v = m.group(1)
        stmts = [s.strip() for s in expr.split(";") if s.strip()]
        op = None
        if stmts:
            mo = re.fullmatch(r"OpCode::(\w+)\.write_into\(target\)", stmts[0])
            if mo:
                op = mo.group(1)
                stmts = stmts[1:]
        iser.append((v, op, tr.ser_fields(stmts, payload.get(v, ""), "instr ser " + v, sub)))
    # instruction deserialisation
    db = block_after(de_rs, r"impl Deserializable for Instruction \{\s*fn read_from[^{]*\{")
    ide = []
    for pat, expr in match_arms(the_match(db)):
        m = re.fullmatch(r"OpCode::(\w+)", pat)
        if not m:
            tr.bad("instr de", pat)
            continue
        if expr == "unreachable!()":
            continue
        v, sch = tr.de_arm(expr, "instr de " + m.group(1), sub, r"Instruction::(\w+)")
        ide.append((m.group(1), v, sch))
    return dict(tr=tr, opcodes=opcodes, iser=iser, ide=ide, sig=(sig_ser, sig_de), dbg=(dbg_ser, dbg_de),
                adv=(adv_ser, adv_de))


def coq_rows3(rows, fmt):
    return "[\n" + ";\n".join("  " + fmt(r) for r in rows) + "\n]"


def gen_v():
    t = translate()
    tr = t["tr"]
    L = ["(* GENERATED by lib/serde_gen.py from assembly/src/ast/nodes/{serde/*.rs,advice.rs,mod.rs}. Do not edit. *)",
         "From Coq Require Import ZArith List String.", "From MV Require Import Serde.Codec.",
         "Import ListNotations.", "Open Scope Z_scope.", "Open Scope string_scope.", ""]
    L.append("Definition MAX_PUSH_INPUTS : Z := %d." % tr.consts["MAX_PUSH_INPUTS"])
    L.append("Definition PROC_ID_SIZE : nat := %d." % tr.consts["PROC_ID_SIZE"])
    L.append("")

    def tagpair(name, ser, de, env=""):
        L.append("(* %s: (variant, tag, fields written) and (tag, variant, fields read) *)" % name)
        L.append("Definition %s_ser : list (string * Z * schema) := %s." % (
            name, coq_rows3(ser, lambda r: '("%s", %d, %s)' % (r[0], r[1], r[2]))))
        L.append("Definition %s_de : list (Z * string * schema) := %s." % (
            name, coq_rows3(de, lambda r: '(%d, "%s", %s)' % (r[0], r[1], r[2]))))
        L.append("")

    tagpair("sig", *t["sig"])
    L.append("Definition S_SIG : schema := STag (map (fun r => (fst (fst r), snd r)) sig_de).")
    L.append("Definition S_SIG_w : schema := STag (map (fun r => (snd (fst r), snd r)) sig_ser).")
    L.append("")
    tagpair("dbg", *t["dbg"])
    L.append("Definition S_DEBUG : schema := STag (map (fun r => (fst (fst r), snd r)) dbg_de).")
    L.append("Definition S_DEBUG_w : schema := STag (map (fun r => (snd (fst r), snd r)) dbg_ser).")
    L.append("")
    tagpair("adv", *t["adv"])
    L.append("Definition S_ADVICE : schema := STag (map (fun r => (fst (fst r), snd r)) adv_de).")
    L.append("Definition S_ADVICE_w : schema := STag (map (fun r => (snd (fst r), snd r)) adv_ser).")
    L.append("")
    L.append("Definition opcode_enum : list (string * Z) := %s." % coq_rows3(
        t["opcodes"], lambda r: '("%s", %d)' % r))
    L.append("")
    L.append("(* (variant, opcode written or None, fields written) *)")
    L.append("Definition instr_ser : list (string * option string * schema) := %s." % coq_rows3(
        t["iser"], lambda r: '("%s", %s, %s)' % (r[0], 'Some "%s"' % r[1] if r[1] else "None", r[2])))
    L.append("")
    L.append("(* (opcode matched, variant built, fields read) *)")
    L.append("Definition instr_de : list (string * string * schema) := %s." % coq_rows3(
        t["ide"], lambda r: '("%s", "%s", %s)' % r))
    L.append("")
    L.append("(* arms the translator could not follow; the agreement theorem needs this to be empty *)")
    L.append("Definition untranslated : list string := [%s]." % "; ".join('"%s"' % u for u in tr.untranslated))
    return "\n".join(L) + "\n"


if __name__ == "__main__":
    import sys
    txt = gen_v()
    if len(sys.argv) > 1:
        open(sys.argv[1], "w").write(txt)
    else:
        sys.stdout.write(txt)

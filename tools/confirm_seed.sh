#!/bin/sh
# confirm_seed.sh <id> <worktree> <target-dir> <demo-src> <demo-dest-relative> <cargo test args for the demo> -- <crates to test...>
# Confirms in a scratch worktree: patch applies and builds, existing tests of the given crates pass with it,
# the demo fails with the patch and passes without it. Writes /tmp/confirm_<id>.log
id=$1; wt=$2; tgt=$3; demo=$4; dest=$5; demoargs=$6; shift 6; [ "$1" = "--" ] && shift
export CARGO_NET_OFFLINE=true CARGO_TARGET_DIR=$tgt
log=/tmp/confirm_$id.log; : > $log
cd $wt && git checkout -q -- . && git clean -qfd
mkdir -p $(dirname $dest); cp $demo $dest
echo "== demo WITHOUT patch" >> $log; cargo test $demoargs --offline >> $log 2>&1; echo "rc_without=$?" >> $log
git apply ${SEEDSRC:-/tmp/seed_$id}/patch.diff || { echo "PATCH DOES NOT APPLY" >> $log; exit 1; }
echo "== demo WITH patch" >> $log; cargo test $demoargs --offline >> $log 2>&1; echo "rc_with=$?" >> $log
rm -f $dest
for c in "$@"; do echo "== existing tests of $c WITH patch" >> $log; cargo test -p $c --offline >> $log 2>&1; echo "rc_tests_$c=$?" >> $log; done
git checkout -q -- . && git clean -qfd
grep "^rc_" $log

#!/usr/bin/env python3
"""Regenerates MANIFEST.json from the table below (claimed checks) and properties.jsonl."""
import json, os
V = os.path.dirname(os.path.dirname(os.path.abspath(__file__)))
CHECKS = {
 "C05": dict(cat="proof", tech="Coq proof (symbolic execution on the zero-extended stack view + simulation lemma) over op lists regenerated from the real assembler; model/implementation and spec/implementation correspondence",
   text="Coq theorems over coq/Gen/AsmGen.v (op lists dumped from the real assembler on every run): every stack-manipulation form (dup/swap/movup/movdn/dupw/swapw/movupw/movdnw for all n, drop, dropw, padw, swapdw, cswap, cdrop, cswapw, cdropw), field/boolean/assert instructions, checked and unchecked u32 arithmetic, and the unbounded-immediate forms push/add/sub/mul/div/eq (for EVERY immediate) meet their documented effect and documented failures on EVERY stack (all positions); depth floor and LIFO theorems for all op sequences. Instruction forms without a theorem yet are covered by the op-level correspondence only.",
   note="Trusted: Coq kernel; translator `mvh run asmdump` + lib/instrs.py (AsmGen.v); hand-written op semantics coq/Vm/Pure.v tied to processor/src/operations by the exec correspondence; hand-written transcription of immediate expansions tied to the assembler on a grid (imm_table_agrees); specs written from docs/src/user_docs/assembly. No axioms."),
 "C06": dict(cat="proof", tech="Coq proof (interpreter unfolding theorems, join-tree order by induction over free join trees, span-merge invariant) + lowering translator-validation and execution correspondence",
   text="Coq theorems over the interpreter model and the lowering model: if/else and while take exactly the branch selected by the popped value and fail with NotBinary for any other value at an if, at loop entry and after every iteration (c06_if, c06_while_entry, c06_while_iteration); the MAST built for a block sequence is a join tree whose leaves are the blocks in textual order and JOIN runs its children in order (c06_join_order, c06_join_runs_children_in_order); span merging keeps the op sequence; repeat.n contributes n copies of its body's block; exec contributes the callee's code; the locals prologue/epilogue restore fmp. The lowering model is compared with the real assembler on MAST structure and root hash for random ASTs; the interpreter with the real processor on the same programs with condition values 0,1,2,p-1 at every decision point.",
   note="Trusted: Coq kernel; hand-written models coq/Vm/Exec.v and coq/Asm/Lower.v tied to processor/src/lib.rs, decoder/mod.rs and assembler/mod.rs by the sampled correspondences; state equality of repeat/exec with their textual expansion modulo the clock is observed (Rust-vs-Rust metamorphic runs), not proved. No axioms."),
 "C07": dict(cat="proof", tech="Coq proof (memory laws on the association-list memory, per-operation context isolation by case analysis over all 89 operations, call-frame invariant by mutual induction on fuel) + model/implementation correspondence on memory of every context",
   text="Coq theorems: zero-initialised reads, read-after-write, writes leave every other (context,address) alone, element store changes element 0 only, no operation writes outside the current context, addresses >= 2^32 fail for single- and two-word accesses with the state unchanged; after any completed call/dyncall/syscall the caller's context id, fn hash, fmp, overflow addresses, hidden outer overflow and all stack elements below the top 16 are as before and the callee returned <= 16 elements; more than 16 on return fails; the callee starts with exactly the top 16, an empty overflow, ctx = clk+1, fmp = 2^30 (ctx 0, fmp 2^31 and the root memory for syscall); syscall outside the kernel fails before anything runs; caller yields fn_hash only inside a syscall. The model is compared with the real processor on generated nests of call/syscall/dyn/dyncall with colliding memory traffic (final stack, error, memory of every context).",
   note="Trusted: Coq kernel; hand-written state/memory/context model (coq/Vm/State.v, Step.v, Exec.v) tied to processor/src by the sampled correspondence; locals disjointness of live frames has no theorem (exercised only). No axioms."),
 "C13": dict(cat="proof", tech="Coq proof (batching invariant, NOOP-erasure lemma, nesting by mutual induction on fuel over the logging interpreter) + trace/stream correspondence",
   text="The interpreter model records the operation of every trace row. Coq theorems: the batches of a span hold exactly the span's operations in order (c13_batching_keeps_ops), executing a batch adds nothing but NOOPs (c13_batch_adds_only_noops), a span is recorded as SPAN, batches separated by RESPAN, END (c13_span_shape), and in every successful execution block starts and ENDs are properly nested with depth 0 at the end (c13_nested). The recorded stream of the model is compared row by row with the op-bit columns of the real trace for spans of every push/non-push pattern up to a bound (exhaustive), multi-batch spans and generated MAST programs; group counter, last-row hash and HALT padding are checked on the real trace by rule.",
   note="Trusted: Coq kernel; hand-written interpreter/batching model tied to processor/src/lib.rs and decoder/mod.rs by the sampled stream correspondence; group counter, op index and block address columns are not modelled in Coq (checked by rule on the real trace). No axioms."),
 "C14": dict(cat="proof", tech="Coq proof (growable-column invariant; clk semantics) + step-through correspondence against the model state after t cycles + Rust-vs-Rust determinism/decorator runs",
   text="Coq theorems: rows recorded in a growable trace column are the written values whatever the initial capacity, growth never disturbs written rows and no write is out of bounds (c14_hint_independent, c14_growth_keeps_rows); clk pushes the clock of its own row. The model interpreter has no hint/tracing/debug parameter. Checked against the implementation: the whole main trace (fingerprint over all columns) and outputs are identical for expected-cycle hints 2^6..2^12; every state reported by execute_iter (forward, and under a pseudo-random next/back walk) equals the model state after t cycles in clk, ctx, fmp, top 16 and memory; decorators, tracing and debug-mode assembly leave results and cycle counts unchanged. The overflow part of the iterator's stack is a listed known finding (pinned by an existing test).",
   note="Trusted: Coq kernel; model of ensure_trace_capacity (coq/Vm/History.v) written from system/mod.rs and stack/trace.rs; interpreter model tied by the iter correspondence; decorators are not modelled (observed). No axioms."),
 "C15": dict(cat="proof", tech="Coq proof (induction on fuel over the mutual interpreter, limit-parametric invariant) + model/implementation correspondence",
   text="Coq theorems c15_exact (same result under every limit >= the cycle count, CycleLimit after exactly m+1 clock increments below it), c15_total (no fuel exhaustion: every program stops within the limit) and c15_options over the interpreter model coq/Vm/Exec.v, proved for all programs, inputs and limits; the model is tied to processor/src by running the extracted model and the real processor on the same generated programs and limits.",
   note="Trusted: Coq kernel, extraction (ExtrOcamlBasic+ExtrOcamlZBigInt+ExtrOcamlNativeString), the exec correspondence (sampled), hand-written model of execute_code_block/advance_clock/ExecutionOptions::new. No axioms."),
}
def main():
    props = [json.loads(l) for l in open(os.path.join(V, "properties.jsonl"))]
    m = {"version": 1, "setup_cmd": "bin/setup",
         "hooks": {"guard": "cf_miden_vm_verif",
                   "enable": "RUSTFLAGS=\"--cfg cf_miden_vm_verif\" (set by lib/common.py for every harness build; no hook is currently needed: the harness uses the public API and the existing `internals` feature)",
                   "baseline_off_cmd": "cd /repo && cargo test --workspace --no-fail-fast --offline",
                   "source_commits": [], "add_only": True},
         "engines": [{"name": "mv-coq", "path": "coq", "serves_properties": sorted(CHECKS),
                      "kind_free_text": "Coq 8.16 model of the VM + theorems (coq/Props/Cxx.v); Rust harness (harness/) and extracted OCaml model (driver/) for the correspondence; lib/*.py orchestrates"}],
         "checks": [], "notes": "see DESIGN.md", "not_applicable": []}
    for pid in sorted(CHECKS):
        c = CHECKS[pid]
        m["checks"].append({
            "property_id": pid, "quick_cmd": "bin/check %s --tier quick" % pid,
            "thorough_cmd": "bin/check %s --tier thorough" % pid,
            "evidence_file": "/verif/evidence/%s.json" % pid,
            "replay_cmd_template": "bin/check %s --replay {path}" % pid, "engine": "mv-coq",
            "level_claimed": {"category": c["cat"], "text": c["text"], "design_ref": "DESIGN.md section 5/" + pid},
            "level_note": c["note"], "technique": c["tech"]})
    for p in props:
        if p["id"] not in CHECKS:
            m["not_applicable"].append({"property_id": p["id"], "reason": NA.get(p["id"], "check not built yet (work in progress; DESIGN.md section 10 gives the order)")})
    json.dump(m, open(os.path.join(V, "MANIFEST.json"), "w"), indent=1)
NA = {}
if __name__ == "__main__":
    main()

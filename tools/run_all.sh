#!/bin/sh
# runs every claimed check (quick tier) on the current tree and prints one status line each
cd "$(dirname "$0")/.."
for id in $(python3 -c "import json; print(' '.join(c['property_id'] for c in json.load(open('MANIFEST.json'))['checks']))"); do
  start=$(date +%s)
  out=$(bin/check $id --tier quick 2>&1); rc=$?
  end=$(date +%s)
  v=$(echo "$out" | grep -c "^VIOLATION")
  k=$(echo "$out" | grep -c "^KNOWN-FINDING")
  echo "$id rc=$rc violations=$v known=$k secs=$((end-start))"
done

#!/bin/sh
# try_seed.sh <seed id> <check id>... : applies seeded/<id>/patch.diff to /repo, runs the checks (quick), restores /repo
cd "$(dirname "$0")/.."
seed=$1; shift
git -C /repo diff --quiet || { echo "/repo has uncommitted changes"; exit 2; }
git -C /repo apply /verif/${SEEDDIR:-seeded}/$seed/patch.diff || exit 2
for id in "$@"; do
  out=$(bin/check $id --tier quick 2>&1); rc=$?
  echo "seed=$seed check=$id rc=$rc violations=$(echo "$out" | grep -c '^VIOLATION')"
  echo "$out" | grep '^VIOLATION' | head -3
done
git -C /repo checkout -- . ; git -C /repo clean -qfd
